"""Correspondence between `jsonpath/lex.py` (+ the parser's literal decoding, + the serializer's text)
and the character-level Lean model `JP.Lex`: the same text goes through `Lexer.tokenize` and through
`Lex.lexRaw`; the same compiled query is printed by `str()` and by `Lex.pstrCompound`."""
from __future__ import annotations

import re

from . import astdump, core, surface

SPELL_ATTRS = ["root_token", "fake_root_token", "self_token", "key_token", "union_token", "intersection_token",
               "filter_context_token", "keys_selector_token"]
_W = re.compile(r"\w")
DEFAULT_SPELL = ["$", "^", "@", "#", "|", "&", "_", "~"]


def run_texts(ctx, env, texts, label="lex.raw"):
    """lex every (encodable, distinct) text with the implementation and with the model"""
    texts = [t for t in dict.fromkeys(texts) if encodable(t)]
    outs = ctx.driver.run(requests_for_texts(env, texts), jobs=ctx.jobs)
    compare_texts(ctx, env, texts, outs, label)


def run_queries(ctx, env, compiled_with_source):
    """print every compiled query with str() and with the model's printer"""
    reqs, keep = [], []
    for src, c in compiled_with_source:
        r = request_for_query(env, c)
        if r is None:
            ctx.count("lex:print-outside")
            continue
        reqs.append(r)
        keep.append((src, c))
    outs = ctx.driver.run(reqs, jobs=ctx.jobs)
    for (src, c), m in zip(keep, outs):
        compare_query(ctx, env, c, m, source=src)


SAFE_CHARS = set("$@#_~^%+|&")


def valid_spell(sp):
    """the spellings for which `JP.Lex.ValidSpell` holds: non-empty, pairwise distinct, made of the symbol characters
    `$ @ # _ ~ ^ % + | &`, none starting with `&&` or `||`"""
    return (all(s and set(s) <= SAFE_CHARS and not s.startswith("&&") and not s.startswith("||") for s in sp) and len(set(sp)) == len(sp))


def spell_of(env):
    return [getattr(env, a) or "" for a in SPELL_ATTRS]


def uword(text):
    return "".join(sorted({ch for ch in text if ord(ch) >= 128 and _W.match(ch)}))


def encodable(text):
    try:
        text.encode("utf-8")
        return True
    except UnicodeEncodeError:
        return False


def impl_raw(env, text):
    try:
        return {"ok": [[t.kind, t.value] for t in env.lexer.tokenize(text)]}
    except Exception as e:  # noqa: BLE001
        return {"err": core.exc_name(e)}


def impl_cooked(env, text):
    try:
        return {"ok": surface.impl_tokens(env, text)}
    except core.Unencodable:
        return None
    except ValueError:
        return None          # int() of a 5000-digit literal: the parser's business (C07), not the lexer's
    except Exception as e:  # noqa: BLE001
        n = core.exc_name(e)
        return {"err": "syntax" if n == "JSONPathSyntaxError" else n}


def requests_for_texts(env, texts):
    sp = spell_of(env)
    return [{"op": "lex.raw", "text": t, "spell": sp, "uword": uword(t)} for t in texts]


def compare_texts(ctx, env, texts, outs, label="lex.raw"):
    """`outs` are the driver's answers to `requests_for_texts(env, texts)`."""
    for t, m in zip(texts, outs):
        ir = impl_raw(env, t)
        ctx.count("lex:" + ("tokens" if "ok" in ir else ir["err"]))
        if ir != m["raw"]:
            ctx.mismatch(label, {"text": t, "spell": spell_of(env)}, _cut(ir), _cut(m["raw"]))
            continue
        if "err" in ir:
            continue
        ic = impl_cooked(env, t)
        mc = m["cooked"]
        if ic is None or mc.get("err") == "outside":
            ctx.count("lex:cooked-outside")
            continue
        if ic != mc:
            ctx.mismatch(label + ".cooked", {"text": t, "spell": spell_of(env)}, _cut(ic), _cut(mc))


def _cut(o):
    if isinstance(o, dict) and "ok" in o and isinstance(o["ok"], list) and len(o["ok"]) > 40:
        return {"ok": o["ok"][:40] + ["…"]}
    return o


def floats_in_range(q):
    ok = True

    def walk(x):
        nonlocal ok
        if isinstance(x, dict):
            if x.get("t") == "flt" and abs(x.get("m", 0)) >= 8 * 10 ** 12:
                ok = False
            for v in x.values():
                walk(v)
        elif isinstance(x, list):
            for v in x:
                walk(v)
    walk(q)
    return ok


def _has_bare_slice(compiled):
    """legacy `$.1:2` / `1:2` slices outside brackets: the evaluation AST does not distinguish them"""
    from jsonpath.selectors import SliceSelector
    paths = [compiled] if not hasattr(compiled, "paths") else [compiled.path] + [p for _, p in compiled.paths]
    stack = list(paths)
    while stack:
        p = stack.pop()
        for sel in getattr(p, "selectors", ()):
            if isinstance(sel, SliceSelector):
                return True
            stack.extend(_subpaths(sel))
    return False


def _subpaths(sel):
    """queries nested in the filter expressions of a selector (or of the items of a list selector)"""
    out, todo = [], [sel] + list(getattr(sel, "items", ()))
    for s in todo:
        e = getattr(s, "expression", None)
        exprs = [e] if e is not None else []
        while exprs:
            x = exprs.pop()
            if hasattr(x, "path") and hasattr(x.path, "selectors"):
                out.append(x.path)
            exprs.extend(x.children() if hasattr(x, "children") else [])
            inner = getattr(x, "expression", None)
            if inner is not None and inner is not x:
                exprs.append(inner)
    return out


def request_for_query(env, compiled):
    """The `lex.pstr` request for a compiled query, or None when the query is outside the printer model."""
    if _has_bare_slice(compiled):
        return None
    try:
        q = astdump.dump_query(compiled)
    except (core.Unencodable, Exception):  # noqa: BLE001
        return None
    if not floats_in_range(q):
        return None
    text = str(compiled)
    if not encodable(text):
        return None
    if re.search(r"(?<![0-9.])-0\.0(?![0-9])", text):
        return None          # negative zero: the model's numbers have one zero
    return {"op": "lex.pstr", "query": {"first": q["first"], "rest": [[op, p] for op, p in q["rest"]]}, "spell": spell_of(env), "uword": uword(text)}


def compare_query(ctx, env, compiled, m, source=None):
    text = str(compiled)
    inp = {"query": source if source is not None else text, "spell": spell_of(env)}
    if m["text"] != text:
        ctx.mismatch("lex.pstr", inp, text, m["text"])
        return
    ctx.count("lex:printed")
    if valid_spell(spell_of(env)) and m["relex"] != {"ok": m["ptoks"]}:
        # inside the model: lexing the printed text does not give the printed tokens (obligation lex_pstr)
        ctx.mismatch("lex.pstr.relex (model-internal: theorem lex_pstr)", inp, m["relex"], m["ptoks"])


def _norm_ast(x):
    """AST differences that cannot affect evaluation: an omitted slice step (the model keeps what was written)"""
    if isinstance(x, dict):
        if x.get("s") == "slice" and x.get("c") is None:
            x = {**x, "c": 1}
        return {k: _norm_ast(v) for k, v in x.items()}
    if isinstance(x, list):
        return [_norm_ast(v) for v in x]
    return x


def run_compile(ctx, env, texts, label="lex.compile"):
    """The composed model of compile(text) - lexer, literal decoding, parser - against the implementation's compile:
    whenever the implementation accepts a text, the model accepts it too and yields the same query. (The model is
    deliberately more permissive: it does not model the typing gate, integer limits or leading zeros.)"""
    texts = [t for t in dict.fromkeys(texts) if encodable(t)]
    keep, asts = [], []
    for t in texts:
        try:
            c = env.compile(t)
        except Exception:  # noqa: BLE001
            continue
        if _has_bare_slice(c):
            continue
        try:
            q = astdump.dump_query(c)
        except (core.Unencodable, Exception):  # noqa: BLE001
            continue
        keep.append(t)
        asts.append({"first": q["first"], "rest": [[op, p] for op, p in q["rest"]]})
    sp = spell_of(env)
    outs = ctx.driver.run([{"op": "lex.compile", "text": t, "spell": sp, "uword": uword(t)} for t in keep], jobs=ctx.jobs)
    for t, want, m in zip(keep, asts, outs):
        if m.get("err") == "outside":
            ctx.count("lex:compile-outside")
            continue
        ctx.count("lex:compiled")
        if "ok" not in m or _norm_ast(m["ok"]) != _norm_ast(want):
            ctx.mismatch(label, {"text": t, "spell": sp}, want, m.get("ok", m))
