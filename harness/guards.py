"""Translator part for C06: every call of a conversion that can raise a built-in exception on caller-supplied text
(`int`, `float`, `re.compile` / `re.fullmatch` / `re.search`, `json.loads` in the parser, `codecs.decode` / `.encode` /
`.decode`) in the modules that handle query, pointer and patch text, with the exception classes of the `try` blocks that
enclose it inside its function."""
from __future__ import annotations

import ast
import os

FILES = ["jsonpath/parse.py", "jsonpath/function_extensions/match.py", "jsonpath/function_extensions/search.py", "jsonpath/pointer.py", "jsonpath/patch.py"]


def _name(f):
    if isinstance(f, ast.Name):
        return f.id
    if isinstance(f, ast.Attribute):
        return (_name(f.value) or "?") + "." + f.attr
    return None


def _risky(n, file):
    if n in ("int", "float", "re.compile", "re.fullmatch", "re.search", "re.match", "codecs.decode"):
        return n
    if n == "json.loads" and file.endswith("parse.py"):
        return n
    if n is not None and n.endswith((".encode", ".decode")) and file.endswith("pointer.py"):
        return "str" + n[n.rfind("."):]
    return None


def guard_table(repo="/repo"):
    """[(file:Class.function, callee, 'Exc1|Exc2' sorted)] in source order; module- and class-level calls (constants such as
    compiled patterns on fixed text) are not listed"""
    out = []
    for f in FILES:
        path = os.path.join(repo, f)
        tree = ast.parse(open(path, encoding="utf-8").read())

        def visit(node, scope, guards):
            for ch in ast.iter_child_nodes(node):
                if isinstance(ch, (ast.FunctionDef, ast.AsyncFunctionDef)):
                    visit(ch, (scope + "." if scope else "") + ch.name, [])
                elif isinstance(ch, ast.ClassDef):
                    visit(ch, ch.name, None)
                elif isinstance(ch, ast.Try):
                    hs = []
                    for h in ch.handlers:
                        if h.type is None:
                            hs.append("BaseException")
                        elif isinstance(h.type, ast.Tuple):
                            hs += [(_name(e) or "?").split(".")[-1] for e in h.type.elts]
                        else:
                            hs.append((_name(h.type) or "?").split(".")[-1])
                    for b in ch.body:
                        check(b, scope, (guards or []) + hs)
                        visit(b, scope, (guards or []) + hs)
                    for part in (ch.handlers, ch.orelse, ch.finalbody):
                        for b in part:
                            check(b, scope, guards)
                            visit(b, scope, guards)
                else:
                    check(ch, scope, guards)
                    visit(ch, scope, guards)

        def check(node, scope, guards):
            if isinstance(node, ast.Call) and guards is not None and "." in ("x." + scope if scope else ""):
                r = _risky(_name(node.func), f)
                if r and any(c.isalpha() for c in scope) and scope and not scope[0].isupper() or (r and "." in scope):
                    out.append((f"{os.path.basename(f)}:{scope}", r, "|".join(sorted(set(guards)))))
        visit(tree, "", None)
    return out


if __name__ == "__main__":
    for row in guard_table():
        print(row)
