"""Translator part for C06: every call of a conversion that can raise a built-in exception on caller-supplied text
(`int`, `float`, `re.compile` / `re.fullmatch` / `re.search`, `json.loads` in the parser, `codecs.decode` / `.encode` /
`.decode`) in the modules that handle query, pointer and patch text, with the exception classes of the `try` blocks that
enclose it inside its function."""
from __future__ import annotations

import ast
import os

FILES = ["jsonpath/parse.py", "jsonpath/function_extensions/match.py", "jsonpath/function_extensions/search.py", "jsonpath/pointer.py", "jsonpath/patch.py"]


def _name(f):
    if isinstance(f, ast.Name):
        return f.id
    if isinstance(f, ast.Attribute):
        return (_name(f.value) or "?") + "." + f.attr
    return None


def _risky(n, file):
    if n in ("int", "float", "re.compile", "re.fullmatch", "re.search", "re.match", "codecs.decode"):
        return n
    if n == "json.loads" and file.endswith("parse.py"):
        return n
    if n is not None and n.endswith((".encode", ".decode")) and file.endswith("pointer.py"):
        return "str" + n[n.rfind("."):]
    return None


NEEDS = {            # mirror of JP.Guards.needs, used only to decide where a helper's conversion is accounted for
    "int": ["ValueError"], "float": ["ValueError"], "re.compile": ["error", "OverflowError", "ValueError"], "re.fullmatch": ["error", "OverflowError", "ValueError"],
    "re.search": ["error", "OverflowError", "ValueError"], "re.match": ["error", "OverflowError", "ValueError"], "json.loads": ["JSONDecodeError"],
    "codecs.decode": ["UnicodeError"], "str.decode": ["UnicodeError"], "str.encode": ["UnicodeError"],
}


def _satisfied(callee, guards):
    return "Exception" in guards or "BaseException" in guards or all(e in guards for e in NEEDS.get(callee, ["<unknown>"]))


def _exception_constants(repo, f, tree, depth=0):
    """module-level `NAME = (ExcA, ExcB, …)` tuples, also when imported from a sibling module: `except NAME:` catches those"""
    out = {}
    for n in tree.body:
        if isinstance(n, ast.Assign) and len(n.targets) == 1 and isinstance(n.targets[0], ast.Name) and isinstance(n.value, ast.Tuple):
            names = [(_name(e) or "?").split(".")[-1] for e in n.value.elts]
            if names and all(x[:1].isupper() or x == "error" for x in names):
                out[n.targets[0].id] = names
        elif isinstance(n, ast.ImportFrom) and depth < 2 and n.module is not None:
            base = os.path.dirname(os.path.join(repo, f))
            for _ in range(max(n.level - 1, 0)):
                base = os.path.dirname(base)
            cand = os.path.join(base if n.level else os.path.join(repo), *n.module.split(".")) + ".py"
            if os.path.exists(cand):
                try:
                    sub = _exception_constants(repo, os.path.relpath(cand, repo), ast.parse(open(cand, encoding="utf-8").read()), depth + 1)
                except SyntaxError:
                    sub = {}
                for a in n.names:
                    if a.name in sub:
                        out[a.asname or a.name] = sub[a.name]
    return out


def guard_table(repo="/repo"):
    """[(file:Class.function, callee, 'Exc1|Exc2' sorted)] in source order; module- and class-level calls (constants such as
    compiled patterns on fixed text) are not listed. A conversion inside a private helper (`_name`) that the helper does not
    guard itself is accounted for at the helper's call sites, with the guards in force there - what a function does through
    `_to_index(token)` it does as surely as inline."""
    out = []
    for f in FILES:
        path = os.path.join(repo, f)
        tree = ast.parse(open(path, encoding="utf-8").read())
        consts = _exception_constants(repo, f, tree)
        rows, calls = [], {}

        def handler_names(h):
            if h.type is None:
                return ["BaseException"]
            elts = h.type.elts if isinstance(h.type, ast.Tuple) else [h.type]
            names = []
            for e in elts:
                n = _name(e) or "?"
                names += consts.get(n, [n.split(".")[-1]])
            return names

        def visit(node, scope, guards):
            for ch in ast.iter_child_nodes(node):
                if isinstance(ch, (ast.FunctionDef, ast.AsyncFunctionDef)):
                    visit(ch, (scope + "." if scope else "") + ch.name, [])
                elif isinstance(ch, ast.ClassDef):
                    visit(ch, ch.name, None)
                elif isinstance(ch, ast.Try):
                    hs = []
                    for h in ch.handlers:
                        hs += handler_names(h)
                    for b in ch.body:
                        check(b, scope, (guards or []) + hs)
                        visit(b, scope, (guards or []) + hs)
                    for part in (ch.handlers, ch.orelse, ch.finalbody):
                        for b in part:
                            check(b, scope, guards)
                            visit(b, scope, guards)
                else:
                    check(ch, scope, guards)
                    visit(ch, scope, guards)

        def check(node, scope, guards):
            if isinstance(node, ast.Call) and guards is not None and "." in ("x." + scope if scope else ""):
                n = _name(node.func)
                r = _risky(n, f)
                if r and any(c.isalpha() for c in scope) and scope and not scope[0].isupper() or (r and "." in scope):
                    rows.append((scope, r, sorted(set(guards))))
                if n is not None and scope:
                    calls.setdefault(n.split(".")[-1], []).append((scope, sorted(set(guards))))
        visit(tree, "", None)

        def place(scope, callee, guards, depth, seen):
            base = scope.split(".")[-1]
            sites = [c for c in calls.get(base, []) if c[0] != scope]
            if _satisfied(callee, guards) or not (base.startswith("_") and not base.startswith("__")) or not sites or depth >= 3 or scope in seen:
                out.append((f"{os.path.basename(f)}:{scope}", callee, "|".join(guards)))
                return
            for s2, g2 in sites:
                place(s2, callee, sorted(set(guards) | set(g2)), depth + 1, seen + (scope,))
        for scope, callee, guards in rows:
            place(scope, callee, guards, 0, ())
    return out


if __name__ == "__main__":
    for row in guard_table():
        print(row)
