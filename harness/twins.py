"""Translator part for C08: every `*_async` method of the evaluation modules is compared, as source text, with its
synchronous twin after a fixed normalisation that removes exactly the async machinery (`async def`, `await`,
`async for`, `async with`, the `_async` suffix of called names, `__getitem_async__`, annotations, docstrings).
The result per twin is `equal` or the SHA-256 of the normalised difference; the Lean side (`JP.Async.twinsOK`)
accepts a twin when it is equal or when its difference is one of the reviewed ones."""
from __future__ import annotations

import ast
import copy
import difflib
import hashlib
import os

REPO = "/repo"
FILES = ["jsonpath/selectors.py", "jsonpath/path.py", "jsonpath/filter.py", "jsonpath/env.py", "jsonpath/match.py", "jsonpath/fluent_api.py"]


class _Strip(ast.NodeTransformer):
    def visit_AsyncFunctionDef(self, n):
        self.generic_visit(n)
        return ast.FunctionDef(name=n.name, args=n.args, body=n.body, decorator_list=n.decorator_list, returns=None, type_comment=None, lineno=0, col_offset=0)

    def visit_FunctionDef(self, n):
        self.generic_visit(n)
        n.returns = None
        return n

    def visit_Await(self, n):
        self.generic_visit(n)
        return n.value

    def visit_AsyncFor(self, n):
        return self.visit_For(ast.For(target=n.target, iter=n.iter, body=n.body, orelse=n.orelse, lineno=0, col_offset=0))

    def visit_AsyncWith(self, n):
        self.generic_visit(n)
        return ast.With(items=n.items, body=n.body, lineno=0, col_offset=0)

    def _comp(self, n):
        self.generic_visit(n)
        for g in n.generators:
            g.is_async = 0
        return n

    visit_ListComp = visit_GeneratorExp = visit_SetComp = visit_DictComp = _comp

    def visit_Name(self, n):
        if n.id.endswith("_async"):
            n.id = n.id[:-6]
        return n

    def visit_Attribute(self, n):
        self.generic_visit(n)
        if n.attr == "__getitem_async__":
            n.attr = "__getitem__"
        elif n.attr.endswith("_async"):
            n.attr = n.attr[:-6]
        return n

    def visit_arg(self, n):
        n.annotation = None
        return n

    def visit_AnnAssign(self, n):
        self.generic_visit(n)
        if n.value is None:
            return None
        return ast.Assign(targets=[n.target], value=n.value, lineno=0, col_offset=0)

    def visit_For(self, n):
        # `for v in E: yield v`  is  `yield from E`  (an asynchronous generator cannot use the latter)
        self.generic_visit(n)
        if (not n.orelse and len(n.body) == 1 and isinstance(n.body[0], ast.Expr) and isinstance(n.body[0].value, ast.Yield) and isinstance(n.target, ast.Name)
                and isinstance(n.body[0].value.value, ast.Name) and n.body[0].value.value.id == n.target.id):
            return ast.Expr(value=ast.YieldFrom(value=n.iter), lineno=0, col_offset=0)
        return n

    def visit_Expr(self, n):
        self.generic_visit(n)
        if isinstance(n.value, ast.Constant) and isinstance(n.value.value, str):
            return None
        return n


def _norm(fn):
    fn = _Strip().visit(copy.deepcopy(fn))
    fn.name = fn.name.replace("_async", "")
    if not fn.body:
        fn.body = [ast.Pass()]
    ast.fix_missing_locations(fn)
    return ast.unparse(fn)


def twin_table(repo=REPO):
    """[(file:Class.method, equal, digest-of-difference)] for every sync/async pair, in source order"""
    out = []
    for f in FILES:
        path = os.path.join(repo, f)
        if not os.path.exists(path):
            continue
        tree = ast.parse(open(path, encoding="utf-8").read())
        scopes = [tree] + [n for n in ast.walk(tree) if isinstance(n, ast.ClassDef)]
        for sc in scopes:
            fns = {n.name: n for n in sc.body if isinstance(n, (ast.FunctionDef, ast.AsyncFunctionDef))}
            for name, fn in fns.items():
                if name.endswith("_async") and name[:-6] in fns:
                    a, b = _norm(fns[name[:-6]]), _norm(fn)
                    key = f"{os.path.basename(f)}:{getattr(sc, 'name', '<module>')}.{name[:-6]}"
                    if a == b:
                        out.append((key, True, ""))
                    else:
                        diff = "\n".join(list(difflib.unified_diff(a.splitlines(), b.splitlines(), lineterm="", n=0))[2:])
                        out.append((key, False, hashlib.sha256(diff.encode()).hexdigest()[:24]))
        # module-level helpers of the asynchronous paths (`_alist`, `_achain`, `_aintersection`, …) and the synchronous
        # helper they mirror: pinned by the digest of their normalised source
        for n in tree.body:
            if isinstance(n, (ast.FunctionDef, ast.AsyncFunctionDef)) and n.name.startswith("_") and (isinstance(n, ast.AsyncFunctionDef) or "_a" + n.name[1:] in {m.name for m in tree.body if isinstance(m, ast.AsyncFunctionDef)}):
                out.append((f"{os.path.basename(f)}:<helper>.{n.name}", False, hashlib.sha256(_norm(n).encode()).hexdigest()[:24]))
    return out


# The twins that are NOT the synchronous method with awaits inserted (each difference was read and found behaviour-preserving:
# a list built eagerly against an asynchronous generator of the same items, `_alist` / `_achain` / `_aintersection` against
# `list` / `itertools.chain` / `_intersection`, `getitem_async`, `Filter.resolve_async` binding the awaited test to a name first, an
# assertion message) and the helpers of the asynchronous paths, with the digest of the difference as reviewed. The Lean side
# (`JP.Async.twinsOK`) requires every OTHER twin to be equal; for these the digest is advisory: when one changes, C08 widens its
# differential run (the thorough generator) instead of asserting anything about text it has not seen.
REVIEWED = {
    "selectors.py:KeysSelector.resolve": "5b8948373b56ac9a34a3199e", "selectors.py:RecursiveDescentSelector.resolve": "4b5cda5d1b39919fa85585c4",
    "selectors.py:ListSelector.resolve": "917fc2a47968297dcdf96cea", "selectors.py:Filter.resolve": "45cc2cda168fb5383e2ffd60",
    "selectors.py:<helper>._alist": "5036877e648d78f2cfe87064", "path.py:JSONPath._resolve": "3ec7717336386acecdc87b12",
    "path.py:CompoundJSONPath.findall": "0205cee901f36160ec25898a", "path.py:CompoundJSONPath.finditer": "47b8a89a056f2e6e1e92015d",
    "path.py:<helper>._intersection": "930022f4629f253dee48f3ef", "path.py:<helper>._aintersection": "73e5ba1b3b9685ed2ae34a35",
    "path.py:<helper>._achain": "7e58c799f85010484db27c2f", "filter.py:SelfPath.evaluate": "ae9ca0b78f578dbfcb70ad94",
    "filter.py:RootPath.evaluate": "e0f5da885e540fbc55bcf0fb", "filter.py:FilterContextPath.evaluate": "9fe63bf8f0dacbef22071d32",
    "filter.py:CurrentKey.evaluate": "9c8ea5f9acb006d70652973c", "env.py:JSONPathEnvironment.getitem": "d52d014ddf95c7c9846ae579",
}


def unreviewed(repo=REPO):
    """the inherently different twins / helpers whose difference is not the one that was read"""
    return [(k, d) for k, eq, d in twin_table(repo) if not eq and k in REVIEWED and REVIEWED[k] != d]


if __name__ == "__main__":
    for k, eq, d in twin_table():
        print(k, eq, d)
