"""Shared generators: documents, member-name pools, locations. All randomness comes from the
caller's `random.Random`, so a run replays exactly from its seed."""
from __future__ import annotations

import itertools

SCALARS = [None, True, False, 0, 1, -1, 2, 1.0, 0.5, -2.5, "", "a", "abc", "1", "é"]
SMALL_SCALARS = [None, True, 0, 1, "a"]

# member names: empty, non-ASCII, non-BMP, quotes, backslash, control, pointer-special,
# integer look-alikes, reserved words
KEYS_BASIC = ["a", "b", "c", "x"]
KEYS_ODD = ["", "é", "😀", "a'b", 'a"b', "a\\", "\\", "\u0001", " ", "a b", "and", "true", "null",
            "/", "~", "~0", "~1", "~01", "a/b", "a~b", "-", "#", "#a", "~a", "#0", "$", "@", "*", "..", "[", "'", '"']
KEYS_INTLIKE = ["0", "1", "2", "-1", "01", "00", "+1", " 1", "1 ", "1_0", "１", "-0", "10", "1e2", "1.0", "9007199254740991", "1１", "1٠", "11"]
KEYS_ALL = KEYS_BASIC + KEYS_ODD + KEYS_INTLIKE


def locations(doc, prefix=(), _seen=()):
    """All (tokens, value) locations of a document; tokens are str (names) or int (indices). A container that
    contains itself (not a JSON value) is cut at the point of re-entry."""
    yield prefix, doc
    if isinstance(doc, (dict, list)):
        if id(doc) in _seen:
            return
        _seen = _seen + (id(doc),)
    if isinstance(doc, dict):
        for k, v in doc.items():
            yield from locations(v, prefix + (k,), _seen)
    elif isinstance(doc, list):
        for i, v in enumerate(doc):
            yield from locations(v, prefix + (i,), _seen)


def depth(doc):
    if isinstance(doc, dict):
        return 1 + max((depth(v) for v in doc.values()), default=0)
    if isinstance(doc, list):
        return 1 + max((depth(v) for v in doc), default=0)
    return 0


def random_doc(rng, max_depth=3, keys=None, scalars=None, width=4):
    keys = keys or KEYS_ALL
    scalars = scalars or SCALARS
    r = rng.random()
    if max_depth <= 0 or r < 0.3:
        return rng.choice(scalars)
    if r < 0.65:
        n = rng.randint(0, width)
        return [random_doc(rng, max_depth - 1, keys, scalars, width) for _ in range(n)]
    n = rng.randint(0, width)
    ks = rng.sample(keys, min(n, len(keys)))
    return {k: random_doc(rng, max_depth - 1, keys, scalars, width) for k in ks}


def structured_docs(keys=None):
    """A deterministic universe of small documents covering every JSON type at the root, arrays of
    every length 0..4, every key of the pool as a member name at depth 1 and 2."""
    keys = keys or KEYS_ALL
    out = []
    out.extend(SCALARS)
    for n in range(5):
        out.append(list(range(n)))
    out.append([[], {}, [1], {"a": 1}])
    out.append([[1, 2], [3, [4, 5]], "abc", {"a": [0, 1]}])
    for k in keys:
        out.append({k: 1})
        out.append({k: {"a": [10, 20]}, "a": k})
        out.append({"a": {k: "v"}, k: [1, {k: None}]})
        out.append([{k: [True, "s"]}, k])
    out.append({"a": "abc", "b": 1.5, "c": None, "d": True, "e": [], "f": {}})
    out.append({"1": "one", "a": ["x", "y", "z"], "-1": "neg", "01": "lead"})
    out.append({"a": {"b": {"c": {"d": [1, [2, [3, {"e": 4}]]]}}}})
    return out


def all_small_docs(keys, scalars, max_len=2):
    """Every document of depth <= 2 with containers of at most `max_len` entries (complete)."""
    leaves = list(scalars)
    level1 = list(leaves)
    for n in range(0, max_len + 1):
        for combo in itertools.product(leaves, repeat=n):
            level1.append(list(combo))
        for ks in itertools.permutations(keys, n):
            for combo in itertools.product(leaves, repeat=n):
                level1.append(dict(zip(ks, combo)))
    return level1


def rfc6901_escape(tok: str) -> str:
    return tok.replace("~", "~0").replace("/", "~1")


def rfc6901_spell(tokens) -> str:
    return "".join("/" + rfc6901_escape(str(t)) for t in tokens)
