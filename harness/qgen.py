"""Query generator: RFC 9535 query ASTs (the JSON AST the driver reads) and a renderer that spells
an AST as query text in any of the surface forms the RFC grammar allows (dot shorthand or brackets,
either quote style with any legal escaping of each character, blank space wherever `S` appears).

The renderer is the *specification* direction: the generated AST is what the RFC says the rendered
text means. It shares nothing with the library's lexer/parser."""
from __future__ import annotations

import re

RESERVED = {"and", "or", "not", "in", "contains", "true", "false", "null", "nil", "none", "undefined", "missing",
            "True", "False", "Nil", "None", "Null"}
SHORTHAND_RE = re.compile(r"[A-Za-z_\u0080-\U0010ffff][A-Za-z0-9_\u0080-\U0010ffff]*\Z")
BLANKS = [" ", "\t", "\n", "\r", "  ", " \n"]

NAMES = ["a", "b", "c", "x", "k", "ys", "xs", "", "é", "😀", "a'b", 'a"b', "a\\", "\\", "\u0001", " ", "a b", "and", "true",
         "null", "/", "~", "a/b", "1", "-1", "01", "*", "$", "@", "..", "[", "'", '"', "\n", "_x", "x-y", "in", "\u007f", "\x1f",
         '\\"', 'x\\"y', "\\'", '"\\', "'\\\"", "\\\\", "a😀b", "é😀", "x\U0001d11ey", "_😀", "a\x7fb", "\x80", "x\x9f", "\x85", "\xa0", "\u2028", "\ufeffa"]
SIMPLE_NAMES = ["a", "b", "c", "x", "k", "ys", "xs"]


def can_shorthand(name: str, after_ddot: bool) -> bool:
    if not SHORTHAND_RE.match(name):
        return False
    return True


# ---------------------------------------------------------------- rendering

def quote(s: str, rng, style=None) -> str:
    q = style or rng.choice(["'", '"'])
    out = [q]
    for ch in s:
        o = ord(ch)
        if ch == q:
            out.append("\\" + ch)
        elif ch == "\\":
            out.append("\\\\")
        elif o < 0x20:
            simple = {8: "\\b", 12: "\\f", 10: "\\n", 13: "\\r", 9: "\\t"}
            if o in simple and rng.random() < 0.6:
                out.append(simple[o])
            else:
                out.append("\\u%04x" % o if rng.random() < 0.5 else "\\u%04X" % o)
        elif ch == "/" and rng.random() < 0.2:
            out.append("\\/")
        elif rng.random() < 0.08:
            # any character may be written as a \\uXXXX escape (surrogate pair above the BMP)
            if o > 0xFFFF:
                v = o - 0x10000
                out.append("\\u%04x\\u%04x" % (0xD800 + (v >> 10), 0xDC00 + (v & 0x3FF)))
            else:
                out.append("\\u%04x" % o)
        else:
            out.append(ch)
    out.append(q)
    return "".join(out)


class R:
    """Rendering context: one PRNG, a switch for blank space and for canonical (bracket-only) form."""

    DEFAULT_TOK = {"root": "$", "self": "@", "key": "#", "ctx": "_", "keys": "~", "fake": "^", "union": "|", "inter": "&"}

    def __init__(self, rng, blanks=True, canonical=False, tok=None):
        self.rng = rng
        self.blanks = blanks
        self.canonical = canonical
        self.tok = dict(self.DEFAULT_TOK)
        if tok:
            self.tok.update(tok)

    def s(self):
        if self.canonical or not self.blanks or self.rng.random() < 0.6:
            return ""
        return self.rng.choice(BLANKS)

    def sp(self):  # a separator that reads well: blank or single space
        if self.canonical or not self.blanks:
            return " "
        return self.rng.choice(["", " ", "  ", "\t", "\n"]) or ""


def render_sel(sel, r: R) -> str:
    k = sel["s"]
    if k == "name":
        return quote(sel["v"], r.rng, "'" if r.canonical else None)
    if k == "index":
        return str(sel["v"])
    if k == "slice":
        a, b, c = sel["a"], sel["b"], sel["c"]
        out = ("" if a is None else str(a)) + r.s() + ":" + r.s() + ("" if b is None else str(b))
        if c is not None or r.rng.random() < 0.2:
            out += r.s() + ":" + r.s() + ("" if c is None else str(c))
        return out
    if k == "wild":
        return "*"
    if k == "keys":
        return r.tok["keys"]
    if k == "filter":
        return "?" + r.s() + render_expr(sel["e"], r, 0)
    raise ValueError(k)


def render_segs(segs, r: R, in_filter=False) -> str:
    out = []
    prev_desc = False
    for g in segs:
        if g["g"] == "desc":
            out.append(r.s() + "..")
            prev_desc = True
            continue
        sels = g["sels"]
        lead = "" if prev_desc else r.s()
        one = sels[0] if len(sels) == 1 else None
        if one and one["s"] == "name" and not r.canonical and can_shorthand(one["v"], prev_desc) and r.rng.random() < 0.6:
            out.append(lead + ("" if prev_desc else ".") + one["v"])
        elif one and one["s"] == "wild" and not r.canonical and r.rng.random() < 0.6:
            out.append(lead + ("" if prev_desc else ".") + "*")
        elif one and one["s"] == "keys" and not r.canonical and r.rng.random() < 0.5:
            out.append(lead + ("" if prev_desc else ".") + r.tok["keys"])
        else:
            inner = (r.s() + "," + r.s()).join(render_sel(s, r) for s in sels)
            out.append(lead + "[" + r.s() + inner + r.s() + "]")
        prev_desc = False
    return "".join(out)


PREC = {"||": 1, "&&": 2}


def render_expr(e, r: R, parent_prec: int) -> str:
    t = e["t"]
    if t == "infix" and e["op"] in PREC:
        p = PREC[e["op"]]
        # operands are rendered one level tighter on both sides so that the structure is explicit
        txt = render_expr(e["l"], r, p + 1) + r.sp() + e["op"] + r.sp() + render_expr(e["r"], r, p + 1)
        if p < parent_prec or (not r.canonical and r.rng.random() < 0.15):
            return "(" + r.s() + txt + r.s() + ")"
        return txt
    if t == "infix":
        sep = " " if e["op"] in ("in", "contains") else r.sp()
        txt = render_expr(e["l"], r, 4) + sep + e["op"] + sep + render_expr(e["r"], r, 4)
        if parent_prec > 3 or (not r.canonical and r.rng.random() < 0.15):
            return "(" + r.s() + txt + r.s() + ")"
        return txt
    if t == "not":
        inner = e["e"]
        if inner["t"] in ("self", "root", "func"):
            return "!" + r.s() + render_expr(inner, r, 4)
        return "!" + r.s() + "(" + r.s() + render_expr(inner, r, 0) + r.s() + ")"
    if t == "self":
        return r.tok["self"] + render_segs(e["q"], r, in_filter=True)
    if t == "root":
        return (r.tok["fake"] if e.get("fake") else r.tok["root"]) + render_segs(e["q"], r, in_filter=True)
    if t == "ctx":
        return r.tok["ctx"] + render_segs(e["q"], r, in_filter=True)
    if t == "key":
        return r.tok["key"]
    if t == "func":
        return e["name"] + "(" + r.s() + (r.s() + "," + r.s()).join(render_expr(a, r, 0) for a in e["args"]) + r.s() + ")"
    if t == "nil":
        return "null"
    if t == "undef":
        return "undefined"
    if t == "bool":
        return "true" if e["v"] else "false"
    if t == "int":
        return str(e["v"])
    if t == "flt":
        return repr(e["m"] / 8)
    if t == "str":
        return quote(e["v"], r.rng, "'" if r.canonical else None)
    if t == "regex":
        return "/" + e["p"] + "/" + e["f"]
    if t == "list":
        return "[" + ", ".join(render_expr(i, r, 0) for i in e["items"]) + "]"
    raise ValueError(t)


def render_path(p, r: R) -> str:
    return (r.tok["fake"] if p.get("fake") else r.tok["root"]) + render_segs(p["segs"], r)


def render_query(q, r: R) -> str:
    """{"first": path, "rest": [[op, path], ...]} -> text"""
    out = render_path(q["first"], r)
    for op, p in q["rest"]:
        # with free blanks: any (also empty) run of blanks on either side of the operator
        # (an empty run only under the default spellings: with custom multi-character spellings the writer needs a blank
        #  to keep adjacent tokens apart, e.g. `*` followed by `~~` when `*~` is a token too)
        dflt = r.tok == r.DEFAULT_TOK
        a, b = (r.rng.choice(([""] if dflt else []) + [" ", "\n", "  ", " "]), r.rng.choice(([""] if dflt else []) + [" ", "\n", "\t ", " "])) if getattr(r, "blanks", False) else (" ", " ")
        out += a + (r.tok["union"] if op == "|" else r.tok["inter"]) + b + render_path(p, r)
    return out


# ---------------------------------------------------------------- generation

def gen_int(rng, lo=-3, hi=3):
    return rng.randint(lo, hi)


def gen_sel(rng, names, depth, allow_filter=True):
    x = rng.random()
    if x < 0.35:
        return {"s": "name", "v": rng.choice(names)}
    if x < 0.55:
        return {"s": "index", "v": gen_int(rng, -4, 4)}
    if x < 0.72:
        opt = lambda: None if rng.random() < 0.35 else gen_int(rng, -5, 5)  # noqa: E731
        return {"s": "slice", "a": opt(), "b": opt(), "c": (None if rng.random() < 0.4 else gen_int(rng, -3, 3))}
    if x < 0.85 or not allow_filter or depth <= 0:
        return {"s": "wild"}
    return {"s": "filter", "e": gen_logical(rng, depth - 1, names)}


def gen_segs(rng, names, nsegs, depth, allow_filter=True):
    segs = []
    for _ in range(nsegs):
        if rng.random() < 0.2:
            segs.append({"g": "desc"})
        n = 1 if rng.random() < 0.7 else rng.randint(2, 3)
        segs.append({"g": "child", "sels": [gen_sel(rng, names, depth, allow_filter) for _ in range(n)]})
    return segs


def gen_singular(rng, names, root=None):
    n = rng.randint(0, 2)
    segs = []
    for _ in range(n):
        if rng.random() < 0.7:
            segs.append({"g": "child", "sels": [{"s": "name", "v": rng.choice(names)}]})
        else:
            segs.append({"g": "child", "sels": [{"s": "index", "v": gen_int(rng, -2, 2)}]})
    if root is None:
        root = rng.random() < 0.2
    return {"t": "root", "q": segs, "fake": False} if root else {"t": "self", "q": segs}


REGEXES = ["a", "a.*", "[ab]+", "a|b", "(ab)*c", "a?b", ".", "b.", "[a-c]x*", "[^a]", "x\\.y", ".*b.*", "ab", "[^.]+", "[0-9.]+", "[.,]", "a[.]b", "[a.c]*", "[^.x]*y?", "(a|[.])+"]
STRINGS = ["", "a", "b", "ab", "abc", "x.y", "c", "é", "A"]


def gen_literal(rng):
    x = rng.random()
    if x < 0.3:
        return {"t": "int", "v": rng.choice([0, 1, 2, -1, 3, 10])}
    if x < 0.4:
        return {"t": "flt", "m": rng.choice([4, 8, 12, -4, 0, 16])}
    if x < 0.7:
        return {"t": "str", "v": rng.choice(STRINGS)}
    if x < 0.85:
        return {"t": "bool", "v": rng.random() < 0.5}
    return {"t": "nil"}


def gen_query_arg(rng, names, depth):
    """any query (NodesType argument / existence test)"""
    if rng.random() < 0.5:
        return gen_singular(rng, names)
    root = rng.random() < 0.2
    segs = gen_segs(rng, names, rng.randint(1, 2), depth, allow_filter=depth > 0)
    return {"t": "root", "q": segs, "fake": False} if root else {"t": "self", "q": segs}


def gen_value_func(rng, names, depth):
    f = rng.choice(["length", "count", "value"])
    if f == "length":
        return {"t": "func", "name": "length", "args": [gen_comparable(rng, names, depth - 1, allow_func=depth > 1)]}
    return {"t": "func", "name": f, "args": [gen_query_arg(rng, names, depth - 1)]}


def gen_comparable(rng, names, depth, allow_func=True):
    x = rng.random()
    if x < 0.4:
        return gen_literal(rng)
    if x < 0.8 or not allow_func or depth <= 0:
        return gen_singular(rng, names)
    return gen_value_func(rng, names, depth)


def gen_logical(rng, depth, names):
    x = rng.random()
    if depth > 0 and x < 0.2:
        return {"t": "infix", "l": gen_logical(rng, depth - 1, names), "op": "&&", "r": gen_logical(rng, depth - 1, names)}
    if depth > 0 and x < 0.4:
        return {"t": "infix", "l": gen_logical(rng, depth - 1, names), "op": "||", "r": gen_logical(rng, depth - 1, names)}
    if depth > 0 and x < 0.5:
        inner = gen_logical(rng, depth - 1, names)
        if inner["t"] == "not":
            inner = inner["e"]
        return {"t": "not", "e": inner}
    if x < 0.75:
        op = rng.choice(["==", "!=", "<", "<=", ">", ">="])
        return {"t": "infix", "l": gen_comparable(rng, names, depth), "op": op, "r": gen_comparable(rng, names, depth)}
    if x < 0.9:
        return gen_query_arg(rng, names, depth)
    f = rng.choice(["match", "search"])
    pat = {"t": "str", "v": rng.choice(REGEXES)} if rng.random() < 0.85 else gen_singular(rng, names)
    return {"t": "func", "name": f, "args": [gen_singular(rng, names) if rng.random() < 0.8 else {"t": "str", "v": rng.choice(STRINGS)}, pat]}


def gen_path(rng, names=None, nsegs=None, depth=2, allow_filter=True):
    names = names or NAMES
    nsegs = rng.randint(0, 4) if nsegs is None else nsegs
    return {"segs": gen_segs(rng, names, nsegs, depth, allow_filter), "fake": False}


def wellformed(p) -> bool:
    """RFC: `..` must be followed by a child segment (true by construction here)."""
    segs = p["segs"]
    return all(not (g["g"] == "desc" and (i + 1 == len(segs) or segs[i + 1]["g"] != "child")) for i, g in enumerate(segs))
