"""Shared harness code: value encoding, the model driver, verdict logic, evidence.

Every check follows the same pipeline (DESIGN.md section 2):
  1. regenerate translated tables from /repo's current source  (harness/tables.py)
  2. lake build the property's theorem module and the driver   (proof obligations)
  3. audit axioms / forbidden constructs
  4. correspondence: implementation vs executable model vs executable specification
  5. verdict: a broken obligation or correspondence triggers a failing-input search;
     a concrete failing input on the implementation is a VIOLATION with a replay file.
"""
from __future__ import annotations

import json
import math
import os
import random
import subprocess
import sys
import time
import traceback

VERIF = os.path.dirname(os.path.dirname(os.path.abspath(__file__)))
REPO = os.environ.get("JP_REPO", "/repo")
LEAN_DIR = os.path.join(VERIF, "lean")
DRV = os.path.join(LEAN_DIR, ".lake", "build", "bin", "jpdrv")
GUARD = "JG_RP_PYTHON_JSONPATH_VERIF"

if REPO not in sys.path:
    sys.path.insert(0, REPO)
os.environ.setdefault(GUARD, "1")


class Unencodable(Exception):
    pass


def enc(v):
    """Python JSON-like value -> driver encoding."""
    if v is None or v is True or v is False:
        return v
    if isinstance(v, int):
        return v
    if isinstance(v, float):
        if math.isnan(v) or math.isinf(v):
            raise Unencodable("nan/inf")
        m = v * 8
        if math.isinf(m) or m != int(m) or abs(m) > 2**50:
            raise Unencodable(f"float {v!r} is not a moderate multiple of 1/8")
        return {"f": int(m)}
    if isinstance(v, str):
        try:
            v.encode("utf-8")
        except UnicodeEncodeError as e:
            raise Unencodable("lone surrogate") from e
        return v
    if isinstance(v, (list, tuple)):
        return [enc(x) for x in v]
    if isinstance(v, dict):
        for k in v:
            if not isinstance(k, str):
                raise Unencodable(f"non-string key {k!r}")
            try:
                k.encode("utf-8")
            except UnicodeEncodeError as e:
                raise Unencodable("lone surrogate in a member name") from e
        return {"o": [[k, enc(x)] for k, x in v.items()]}
    raise Unencodable(f"type {type(v).__name__}")


class Cyclic(Exception):
    """a value that is not a JSON tree: a container reachable from itself"""


def canon(v, _path=None):
    """Python value -> canonical comparable form that keeps int/float/bool and key types apart."""
    if isinstance(v, (list, tuple, dict)):
        _path = _path or ()
        if id(v) in _path:
            raise Cyclic("the value contains itself")
        _path = _path + (id(v),)
    if v is None or v is True or v is False:
        return v
    if isinstance(v, int):
        return v
    if isinstance(v, float):
        m = v * 8
        if m == int(m) and abs(m) <= 2**50:
            return {"f": int(m)}
        return {"float": repr(v)}
    if isinstance(v, str):
        return v
    if isinstance(v, (list, tuple)):
        return [canon(x, _path) for x in v]
    if isinstance(v, dict):
        return {"o": [[k if isinstance(k, str) else {"nonstr": repr(k)}, canon(x, _path)] for k, x in v.items()]}
    return {"py": type(v).__name__, "repr": repr(v)[:80]}


def dec(j):
    """driver encoding -> Python value"""
    if isinstance(j, list):
        return [dec(x) for x in j]
    if isinstance(j, dict):
        if "f" in j:
            return j["f"] / 8
        if "o" in j:
            return {k: dec(x) for k, x in j["o"]}
        raise ValueError(f"bad encoding {j!r}")
    return j


def json_equal(a, b):
    """RFC 8259 value equality on Python values (numbers by value, bool is not a number)."""
    if isinstance(a, bool) or isinstance(b, bool):
        return isinstance(a, bool) and isinstance(b, bool) and a == b
    if isinstance(a, dict) and isinstance(b, dict):
        return len(a) == len(b) and all(k in b and json_equal(v, b[k]) for k, v in a.items())
    if isinstance(a, list) and isinstance(b, list):
        return len(a) == len(b) and all(json_equal(x, y) for x, y in zip(a, b))
    if isinstance(a, (dict, list)) or isinstance(b, (dict, list)):
        return False
    if a is None or b is None:
        return a is None and b is None
    if isinstance(a, str) or isinstance(b, str):
        return isinstance(a, str) and isinstance(b, str) and a == b
    return a == b


def exc_name(e: BaseException) -> str:
    return type(e).__name__


def documented_family(e: BaseException):
    """Name of the documented error family an exception belongs to, or None."""
    import jsonpath.exceptions as X

    if isinstance(e, X.JSONPathError):
        return "jsonpath"
    if isinstance(e, X.JSONPointerError):
        return "pointer"
    if isinstance(e, X.RelativeJSONPointerError):
        return "relpointer"
    if isinstance(e, X.JSONPatchError):
        return "patch"
    return None


STR_FAILURES = []      # exceptions whose str() itself raised, from any outcome() call of this run


def outcome(f, *a, **k):
    """Run f; return {'ok': value} or {'err': class name}."""
    try:
        return {"ok": f(*a, **k)}
    except RecursionError:
        return {"err": "RecursionError"}
    except Exception as e:  # noqa: BLE001
        ok = _safe_str(e)
        if not ok and len(STR_FAILURES) < 50:
            STR_FAILURES.append({"error": exc_name(e), "args": repr(getattr(e, "args", None))[:200]})
        return {"err": exc_name(e), "family": documented_family(e), "msg": str(e)[:120] if ok else "<str failed>"}


def _safe_str(e):
    try:
        str(e)
        return True
    except Exception:  # noqa: BLE001
        return False


class DriverError(Exception):
    pass


class Driver:
    """Batch interface to the compiled model driver."""

    def __init__(self):
        self.available = os.path.exists(DRV)
        self.calls = 0

    def run(self, reqs, jobs: int = 1):
        if not reqs:
            return []
        if not self.available:
            raise DriverError("model driver is not built")
        if jobs > 1 and len(reqs) > 2000:
            return self._run_parallel(reqs, jobs)
        data = "\n".join(json.dumps(r, ensure_ascii=True) for r in reqs) + "\n"
        p = subprocess.run([DRV], input=data.encode(), capture_output=True, timeout=3600)
        if p.returncode != 0:
            raise DriverError(f"driver exit {p.returncode}: {p.stderr[-400:]!r}")
        lines = p.stdout.decode().split("\n")      # not splitlines(): U+0085 / U+2028 inside a JSON string are not line ends
        if lines and lines[-1] == "":
            lines.pop()
        if len(lines) != len(reqs):
            raise DriverError(f"driver answered {len(lines)} of {len(reqs)} requests: {p.stderr[-400:]!r}")
        out = [json.loads(l) for l in lines]
        for r, o in zip(reqs, out):
            if "fatal" in o:
                raise DriverError(f"driver rejected {json.dumps(r)[:300]}: {o['fatal']}")
        self.calls += len(reqs)
        return out

    def _run_parallel(self, reqs, jobs):
        from concurrent.futures import ThreadPoolExecutor

        n = len(reqs)
        size = (n + jobs - 1) // jobs
        chunks = [reqs[i : i + size] for i in range(0, n, size)]
        with ThreadPoolExecutor(max_workers=jobs) as ex:
            parts = list(ex.map(lambda c: Driver.run(self, c, 1), chunks))
        return [x for p in parts for x in p]


def load_known_findings(pid):
    path = os.path.join(VERIF, "known_findings.json")
    if not os.path.exists(path):
        return []
    with open(path) as f:
        data = json.load(f)
    return [k for k in data.get("findings", []) if k.get("property") == pid and k.get("status") == "open"]


class Ctx:
    """Per-run bookkeeping: coverage counters, mismatches, violations, evidence."""

    def __init__(self, pid: str, tier: str, seed: int):
        self.pid = pid
        self.tier = tier
        self.seed = seed
        self.rng = random.Random(seed * 1000003 + sum(map(ord, pid)))
        self.t0 = time.time()
        self.driver = Driver()
        self.evaluations = 0
        self.nontrivial = set()
        self.samples = []
        self.dist = {}
        self.mismatches = []   # model vs implementation (correspondence)
        self.violations = []   # implementation vs specification / property oracle
        self.exhaustive_spaces = []
        self.notes = []
        self.jobs = int(os.environ.get("VERIF_JOBS", "8" if tier == "quick" else "16"))

    # --- coverage ---------------------------------------------------------
    def count(self, bucket: str, n: int = 1):
        self.dist[bucket] = self.dist.get(bucket, 0) + n

    def case(self, key, nontrivial: bool, sample=None):
        self.evaluations += 1
        if nontrivial:
            self.nontrivial.add(hash(key))
        if sample is not None and len(self.samples) < 12 and (self.evaluations % 97 == 1 or len(self.samples) < 3):
            self.samples.append(sample)

    def mismatch(self, op: str, inp, impl, model):
        if len(self.mismatches) < 200:
            self.mismatches.append({"op": op, "input": inp, "implementation": impl, "model": model})
        self.count("MISMATCH:" + op)

    def violation(self, what: str, inp, observed, required):
        if len(self.violations) < 200:
            self.violations.append({"what": what, "input": inp, "observed": observed, "required": required})
        self.count("VIOLATION:" + what)

    def elapsed(self):
        return time.time() - self.t0


def write_json(path, obj):
    os.makedirs(os.path.dirname(path), exist_ok=True)
    tmp = path + ".tmp"
    with open(tmp, "w") as f:
        json.dump(obj, f, indent=1, ensure_ascii=True, default=str)
        f.write("\n")
    os.replace(tmp, path)


def finish(ctx: Ctx, lean_status: dict, level: str, trusted_base, assumptions, known_lines=(), search=None, extra_cov=None):
    """Decide the verdict, write evidence (and a replay when needed), return the exit code."""
    pid = ctx.pid
    replay_path = None
    exit_code = 0
    verdict_lines = []
    broken = []
    if not lean_status.get("build_ok", False):
        broken.append({"kind": "proof-obligation", "detail": lean_status.get("build_error", "lake build failed")[-3000:]})
    if not lean_status.get("audit_ok", False):
        broken.append({"kind": "axiom-audit", "detail": lean_status.get("audit_error", "")[-2000:]})
    if ctx.mismatches:
        broken.append({"kind": "correspondence", "count": len(ctx.mismatches), "first": ctx.mismatches[:5]})

    violations = list(ctx.violations)
    searched = False
    if broken and not violations and search is not None:
        # A broken proof obligation or correspondence is not by itself a violation:
        # look for a concrete failing input on the implementation.
        searched = True
        try:
            search(ctx)
        except Exception:  # noqa: BLE001
            ctx.notes.append("search crashed: " + traceback.format_exc()[-1500:])
        violations = list(ctx.violations)

    if violations:
        replay_path = os.path.join("replays", f"{pid}-{ctx.tier}-{ctx.seed}.json")
        write_json(os.path.join(VERIF, replay_path), {
            "property": pid, "seed": ctx.seed, "tier": ctx.tier,
            "kind": "failing-input", "violations": violations[:25],
            "broken_obligations": broken,
            "how_to_replay": f"./check {pid} --replay {replay_path}",
        })
        verdict_lines.append(f"VIOLATION property={pid} replay={replay_path}")
        exit_code = 1
    elif broken:
        replay_path = os.path.join("replays", f"{pid}-{ctx.tier}-{ctx.seed}.json")
        write_json(os.path.join(VERIF, replay_path), {
            "property": pid, "seed": ctx.seed, "tier": ctx.tier,
            "kind": "no-failing-input-found",
            "no_longer_checks": broken,
            "searched": searched,
            "note": "the property is no longer shown to hold: the named theorem / side condition / correspondence does not check against the current source",
        })
        verdict_lines.append(f"VIOLATION property={pid} replay={replay_path} no-failing-input-found")
        exit_code = 1

    if exit_code == 0:
        stale = os.path.join(VERIF, "replays", f"{pid}-{ctx.tier}-{ctx.seed}.json")
        if os.path.exists(stale):
            os.remove(stale)

    obligations = lean_status.get("obligations", 0)
    discharged = lean_status.get("discharged", 0)
    cov = {
        "obligations": max(obligations, 1),
        "discharged": discharged if exit_code == 0 or discharged < obligations else discharged,
        "checker_cmd": lean_status.get("checker_cmd", "cd lean && lake build"),
        "trusted_base": list(trusted_base),
        "theorems": lean_status.get("theorems", []),
        "axioms_used": lean_status.get("axioms", []),
        "table_side_conditions": lean_status.get("side_conditions", []),
        "evaluations": ctx.evaluations,
        "distinct_nontrivial": len(ctx.nontrivial),
        "traces_validated_against_impl": ctx.evaluations,
        "rule": lean_status.get("rule", ""),
        "samples": ctx.samples[:12] or [{"note": "no cases generated"}],
        "input_distribution": dict(sorted(ctx.dist.items())),
        "exhaustive": bool(ctx.exhaustive_spaces),
        "exhaustive_spaces": ctx.exhaustive_spaces,
        "model_driver_requests": ctx.driver.calls,
        "correspondence_mismatches": len(ctx.mismatches),
        "notes": ctx.notes,
    }
    if extra_cov:
        cov.update(extra_cov)
    ev = {
        "property_id": pid,
        "tier": ctx.tier,
        "seed": ctx.seed,
        "level": level,
        "coverage": cov,
        "assumptions": list(assumptions),
        "wall_s": round(ctx.elapsed(), 2),
        "violations": len(violations),
    }
    write_json(os.path.join(VERIF, "evidence", f"{pid}.json"), ev)
    for l in known_lines:
        print(l)
    for l in verdict_lines:
        print(l)
    if exit_code == 0:
        print(f"OK property={pid} tier={ctx.tier} seed={ctx.seed} theorems={len(cov['theorems'])} "
              f"obligations={cov['obligations']} cases={ctx.evaluations} nontrivial={len(ctx.nontrivial)} wall={ev['wall_s']}s")
    return exit_code
