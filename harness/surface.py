"""Token-level view of the implementation's lexer, in the vocabulary of the Lean model JP.Surface."""
from __future__ import annotations

from . import core

SIMPLE = {"ROOT", "FAKE_ROOT", "SELF", "KEY", "FILTER_CONTEXT", "KEYS", "WILD", "FILTER", "LBRACKET", "RBRACKET", "COMMA", "LPAREN", "RPAREN",
          "DDOT", "NOT", "TRUE", "FALSE", "NIL"}
OPS = {"EQ": "==", "NE": "!=", "LG": "<>", "LE": "<=", "GE": ">=", "RE": "=~", "LT": "<", "GT": ">", "AND": "&&", "OR": "||", "IN": "in", "CONTAINS": "contains"}


def impl_tokens(env, text):
    """[[tokens of operand 0], op, [tokens of operand 1], …] for a (compound) query text"""
    toks = list(env.lexer.tokenize(text))
    out, cur = [], []
    i = 0
    while i < len(toks):
        t = toks[i]
        k = t.kind
        if k in SIMPLE:
            cur.append(k)
        elif k in ("UNDEFINED", "MISSING"):
            cur.append("UNDEFINED")
        elif k in ("NONE", "NULL"):
            cur.append("NIL")
        elif k in OPS:
            cur.append(["OP", OPS[k]])
        elif k == "PROP":
            cur.append(["PROP", t.value])
        elif k == "BARE_PROPERTY":
            cur.append(["BARE", t.value])
        elif k in ("DOUBLE_QUOTE_STRING", "SINGLE_QUOTE_STRING"):
            v = env.parser._decode_string_literal(t)  # noqa: SLF001
            core.enc(v)
            cur.append(["STR", v])
        elif k == "INT":
            v = t.value
            cur.append(["INT", int(float(v)) if ("e" in v or "E" in v) else int(v)])
        elif k == "FLOAT":
            cur.append(["FLOAT", core.enc(float(t.value))["f"]])
        elif k == "SLICE_START":
            a, b, c = toks[i].value, toks[i + 1].value, toks[i + 2].value
            cur.append(["SLICE", int(a) if a else None, int(b) if b else None, int(c) if c else None])
            i += 2
        elif k == "RE_PATTERN":
            flags = toks[i + 1].value if i + 1 < len(toks) and toks[i + 1].kind == "RE_FLAGS" else ""
            if i + 1 < len(toks) and toks[i + 1].kind == "RE_FLAGS":
                i += 1
            cur.append(["RE", t.value, "".join(ch for ch in "aims" if ch in flags)])
        elif k == "FUNCTION":
            cur.append(["FUNC", t.value])
        elif k in ("UNION", "INTERSECT"):
            out.append(cur)
            out.append("|" if k == "UNION" else "&")
            cur = []
        else:
            raise core.Unencodable("token " + k)
        i += 1
    out.append(cur)
    return out
