"""Source pins: which files of the package still have the text the models were written against.

The models of the algorithmic code are written by hand and tied to the code by differential execution. That tie is sampled, so
its strength depends on how much is run. `source_pins.json` (committed, rewritten only by tools/pinsrc.py after a change of
/repo has been reviewed and the models brought up to date) holds, per file of the package, a digest of its syntax tree with
docstrings, comments and layout removed. When a file a property is anchored in no longer has the pinned text, the quick tier
of that property's check does not stop at its quick sample: if the sample found nothing it goes on with the thorough generator
under a time limit (`check`: "widened"). A changed digest is never an alarm by itself - a harmless rewrite only makes the run
longer - and an unchanged tree never pays for it."""
import ast
import hashlib
import json
import os

from . import core

PINS = os.path.join(os.path.dirname(os.path.abspath(__file__)), "source_pins.json")
# files every property's observation points pass through
COMMON = ["jsonpath/__init__.py", "jsonpath/_data.py", "jsonpath/match.py", "jsonpath/exceptions.py", "jsonpath/token.py", "jsonpath/stream.py",
          "jsonpath/serialize.py"]


def _strip_docstrings(tree):
    for n in ast.walk(tree):
        if isinstance(n, (ast.Module, ast.ClassDef, ast.FunctionDef, ast.AsyncFunctionDef)) and n.body:
            f = n.body[0]
            if isinstance(f, ast.Expr) and isinstance(f.value, ast.Constant) and isinstance(f.value.value, str):
                n.body = n.body[1:] or [ast.Pass()]
    return tree


def digest_of(path):
    with open(path, encoding="utf-8") as f:
        src = f.read()
    try:
        return hashlib.sha256(ast.dump(_strip_docstrings(ast.parse(src)), include_attributes=False).encode()).hexdigest()[:24]
    except SyntaxError:
        return "unparsable:" + hashlib.sha256(src.encode()).hexdigest()[:16]


def current(repo=None):
    repo = repo or core.REPO
    out = {}
    base = os.path.join(repo, "jsonpath")
    for dp, _, fs in os.walk(base):
        for f in sorted(fs):
            if f.endswith(".py"):
                p = os.path.join(dp, f)
                out[os.path.relpath(p, repo)] = digest_of(p)
    return out


def changed(repo=None):
    """files whose text is not the pinned one (changed, new or gone); empty when there are no pins to compare with"""
    try:
        with open(PINS) as f:
            pins = json.load(f)["files"]
    except (OSError, ValueError, KeyError):
        return []
    cur = current(repo)
    return sorted(k for k in set(pins) | set(cur) if pins.get(k) != cur.get(k))


def anchored_files(pid):
    files = set(COMMON)
    try:
        with open(os.path.join(os.path.dirname(PINS), "..", "properties.jsonl")) as f:
            for line in f:
                d = json.loads(line)
                if d.get("id") == pid:
                    files |= set(d.get("anchors", {}).get("files", []))
    except (OSError, ValueError):
        pass
    return files


def changed_for(pid, repo=None):
    ch = changed(repo)
    anchored = anchored_files(pid)
    # a file outside every anchor list (function_extensions/*, a new module) concerns every property that evaluates queries
    return [f for f in ch if f in anchored or f.startswith("jsonpath/function_extensions/") or f not in _all_anchored()]


def _all_anchored():
    files = set(COMMON)
    try:
        with open(os.path.join(os.path.dirname(PINS), "..", "properties.jsonl")) as f:
            for line in f:
                files |= set(json.loads(line).get("anchors", {}).get("files", []))
    except (OSError, ValueError):
        pass
    return files


def write_pins(repo=None):
    with open(PINS, "w") as f:
        json.dump({"_comment": "digest of each package file's syntax tree (docstrings, comments, layout removed) at the /repo commit the models were last "
                               "brought up to date with; rewritten by tools/pinsrc.py only", "files": current(repo)}, f, indent=1, sort_keys=True)
