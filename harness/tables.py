"""Translator: tables extracted from /repo's current *source text* (Python `ast`; the package is not
imported) into lean/JP/Generated/Tables.lean. The file is rewritten only when its content changes, so
an unchanged tree leaves lake's build cache valid. Fails closed: an unrecognised construct raises,
which the checks report as a broken proof obligation."""
from __future__ import annotations

import ast
import copy
import os

from . import core

GEN_DIR = os.path.join(core.LEAN_DIR, "JP", "Generated")


class TableError(Exception):
    pass


def _src(rel):
    with open(os.path.join(core.REPO, rel)) as f:
        return f.read()


def _parse(rel):
    return ast.parse(_src(rel))


def _write_if_changed(path, content):
    os.makedirs(os.path.dirname(path), exist_ok=True)
    try:
        with open(path) as f:
            if f.read() == content:
                return False
    except FileNotFoundError:
        pass
    with open(path, "w") as f:
        f.write(content)
    return True


def lstr(s: str) -> str:
    out = ['"']
    for ch in s:
        o = ord(ch)
        if ch == '"':
            out.append('\\"')
        elif ch == "\\":
            out.append("\\\\")
        elif ch == "\n":
            out.append("\\n")
        elif ch == "\t":
            out.append("\\t")
        elif ch == "\r":
            out.append("\\r")
        elif o < 0x20 or o == 0x7F:
            out.append("\\x%02x" % o)
        else:
            out.append(ch)
    out.append('"')
    return "".join(out)


def llist(items) -> str:
    return "[" + ", ".join(items) + "]"


def _class(tree, name):
    for n in tree.body:
        if isinstance(n, ast.ClassDef) and n.name == name:
            return n
    raise TableError(f"class {name} not found")


def _const_int(node, env):
    """evaluate a small integer expression: literals, names bound in env, + - * ** unary -"""
    if isinstance(node, ast.Constant) and isinstance(node.value, int):
        return node.value
    if isinstance(node, ast.Name) and node.id in env:
        return env[node.id]
    if isinstance(node, ast.UnaryOp) and isinstance(node.op, ast.USub):
        return -_const_int(node.operand, env)
    if isinstance(node, ast.BinOp):
        a, b = _const_int(node.left, env), _const_int(node.right, env)
        if isinstance(node.op, ast.Add):
            return a + b
        if isinstance(node.op, ast.Sub):
            return a - b
        if isinstance(node.op, ast.Mult):
            return a * b
        if isinstance(node.op, ast.Pow):
            return a ** b
    raise TableError("not a constant integer expression: " + ast.dump(node)[:80])


def _name_of(node):
    if isinstance(node, ast.Name):
        return node.id
    if isinstance(node, ast.Attribute):
        return node.attr
    raise TableError("expected a name: " + ast.dump(node)[:80])


def _class_assigns(cls):
    out = {}
    for n in cls.body:
        if isinstance(n, ast.Assign) and len(n.targets) == 1 and isinstance(n.targets[0], ast.Name):
            out[n.targets[0].id] = n.value
        elif isinstance(n, ast.AnnAssign) and isinstance(n.target, ast.Name) and n.value is not None:
            out[n.target.id] = n.value
    return out


# ------------------------------------------------------------------ parse.py

def _leading_zero_of(cls):
    lz = None
    methods = [fn for fn in cls.body if isinstance(fn, ast.FunctionDef)]

    class _V(ast.NodeTransformer):
        """the text of the token under test is `v`, however the code names it (`stream.current.value`, `token.value`, a local bound to one)"""
        def __init__(self, aliases):
            self.aliases = aliases

        def visit_Attribute(self, n):
            if n.attr == "value":
                return ast.Name(id="v", ctx=ast.Load())
            return self.generic_visit(n)

        def visit_Name(self, n):
            return ast.Name(id="v", ctx=ast.Load()) if n.id in self.aliases else n

    def _calls(node, name):
        return any(isinstance(c, ast.Call) and isinstance(c.func, ast.Attribute) and c.func.attr == name for c in ast.walk(node))

    psl = [m for m in methods if m.name == "parse_selector_list"]
    for fn in methods:
        if lz is not None:
            break
        if fn.name != "parse_selector_list" and not any(_calls(m, fn.name) for m in psl):
            continue                          # the test of a bracketed selection: in parse_selector_list or in a helper method it calls
        cands = [n for n in ast.walk(fn) if isinstance(n, ast.If) and any(isinstance(x, ast.Raise) and any(isinstance(y, ast.Constant) and isinstance(y.value, str) and "leading zero" in y.value for y in ast.walk(x)) for x in n.body)]
        if not cands:
            continue
        n = cands[0]
        aliases = {st.targets[0].id for st in ast.walk(fn) if isinstance(st, ast.Assign) and isinstance(st.targets[0], ast.Name) and isinstance(st.value, ast.Attribute) and st.value.attr == "value"}
        guard = None
        for outer in ast.walk(fn):
            if isinstance(outer, ast.If) and n in outer.body and "TOKEN_INT" in ast.unparse(outer.test):
                guard = outer.test
        if guard is None:                     # the helper is called under the guard
            for m in methods:
                for outer in ast.walk(m):
                    if isinstance(outer, ast.If) and "TOKEN_INT" in ast.unparse(outer.test) and any(_calls(b, fn.name) for b in outer.body):
                        guard = outer.test
        test = ast.unparse(_V(aliases).visit(copy.deepcopy(n.test)))
        g = ast.unparse(guard).replace("stream.current.kind", "kind").replace("token.kind", "kind") if guard is not None else "?"
        lz = test + " | under: " + g
    return lz


def _parser_tables_source():
    tree = _parse("jsonpath/parse.py")
    cls = _class(tree, "Parser")
    asg = _class_assigns(cls)
    env = {}
    prec_consts = {}
    for k, v in asg.items():
        if k.startswith("PRECEDENCE_"):
            prec_consts[k] = _const_int(v, env)
            env[k] = prec_consts[k]
    def dict_of(name, val):
        d = asg[name]
        if not isinstance(d, ast.Dict):
            raise TableError(f"{name} is not a dict literal")
        return [(_name_of(k), val(v)) for k, v in zip(d.keys, d.values)]
    precedences = dict_of("PRECEDENCES", lambda v: prec_consts[_name_of(v)])
    binops = dict_of("BINARY_OPERATORS", lambda v: v.value)
    def fset(name):
        c = asg[name]
        if not (isinstance(c, ast.Call) and _name_of(c.func) == "frozenset" and isinstance(c.args[0], (ast.List, ast.Tuple))):
            raise TableError(f"{name} is not frozenset([...])")
        return [e.value if isinstance(e, ast.Constant) else _name_of(e) for e in c.args[0].elts]
    # the leading-zero test of parse_selector_list: the `if` whose body raises "leading zero ..."
    lz = _leading_zero_of(cls)
    if lz is None:
        raise TableError("leading-zero test of parse_selector_list not found")
    return {
        "leading_zero": lz,
        "prec_consts": prec_consts, "precedences": precedences, "binops": binops,
        "comparison": fset("COMPARISON_OPERATORS"), "infix_literal": fset("INFIX_LITERAL_OPERATORS"), "prefix": fset("PREFIX_OPERATORS"),
    }


# ------------------------------------------------------------------ filter.py

def _filter_tables_source():
    tree = _parse("jsonpath/filter.py")
    consts = {}
    vte = None
    classes = {}
    for n in tree.body:
        if isinstance(n, ast.Assign) and len(n.targets) == 1 and isinstance(n.targets[0], ast.Name):
            name = n.targets[0].id
            if name.startswith("PRECEDENCE_"):
                consts[name] = _const_int(n.value, consts)
            if name == "VALUE_TYPE_EXPRESSIONS":
                vte = [_name_of(e) for e in n.value.elts]
        if isinstance(n, ast.ClassDef):
            info = {"bases": [_name_of(b) for b in n.bases if not isinstance(b, ast.Subscript)] + [_name_of(b.value) for b in n.bases if isinstance(b, ast.Subscript)],
                    "force_cache": None, "volatile": None}
            for b in n.body:
                if isinstance(b, ast.Assign) and isinstance(b.targets[0], ast.Name) and b.targets[0].id == "FORCE_CACHE":
                    info["force_cache"] = bool(b.value.value)
                if isinstance(b, ast.FunctionDef) and b.name == "__init__":
                    for s in ast.walk(b):
                        if isinstance(s, ast.Assign) and isinstance(s.targets[0], ast.Attribute) and s.targets[0].attr == "volatile" and isinstance(s.value, ast.Constant):
                            info["volatile"] = bool(s.value.value)
            classes[n.name] = info
    if vte is None:
        raise TableError("VALUE_TYPE_EXPRESSIONS not found")
    return {"consts": consts, "value_type_expressions": vte, "classes": classes}


# ------------------------------------------------------------------ env.py + function_extensions

def _env_tables_source():
    tree = _parse("jsonpath/env.py")
    cls = _class(tree, "JSONPathEnvironment")
    asg = _class_assigns(cls)
    toks = {}
    for k in ("fake_root_token", "filter_context_token", "intersection_token", "key_token", "keys_selector_token", "root_token", "self_token", "union_token"):
        v = asg[k]
        if not (isinstance(v, ast.Constant) and isinstance(v.value, str)):
            raise TableError(f"{k} is not a string literal")
        toks[k] = v.value
    limits = {"max_int_index": _const_int(asg["max_int_index"], {}), "min_int_index": _const_int(asg["min_int_index"], {})}
    registry = []
    for n in cls.body:
        if isinstance(n, ast.FunctionDef) and n.name == "setup_function_extensions":
            for s in n.body:
                if isinstance(s, ast.Assign) and isinstance(s.targets[0], ast.Subscript):
                    key = s.targets[0].slice.value
                    if isinstance(s.value, ast.Call):
                        registry.append((key, _name_of(s.value.func)))
                    elif isinstance(s.value, ast.Subscript):
                        alias = s.value.slice.value
                        registry.append((key, dict(registry)[alias]))
                    else:
                        raise TableError("unrecognised function registration")
    sigs = {}
    fdir = os.path.join(core.REPO, "jsonpath", "function_extensions")
    for fn in sorted(os.listdir(fdir)):
        if not fn.endswith(".py"):
            continue
        t = ast.parse(open(os.path.join(fdir, fn)).read())
        for n in t.body:
            if isinstance(n, ast.ClassDef):
                bases = [_name_of(b) for b in n.bases]
                a = _class_assigns(n)
                if "FilterFunction" in bases and "arg_types" in a and "return_type" in a:
                    sigs[n.name] = ([_name_of(e) for e in a["arg_types"].elts], _name_of(a["return_type"]))
    funcs = []
    for name, clsname in registry:
        if clsname in sigs:
            funcs.append((name, sigs[clsname][0], sigs[clsname][1]))
        else:
            funcs.append((name, None, None))
    return {"tokens": toks, "limits": limits, "functions": funcs}


# ------------------------------------------------------------------ pointer.py

def _pointer_tables_source():
    tree = _parse("jsonpath/pointer.py")
    cls = _class(tree, "JSONPointer")
    asg = _class_assigns(cls)
    out = {"keys_selector": asg["keys_selector"].value, "max_int_index": _const_int(asg["max_int_index"], {}), "min_int_index": _const_int(asg["min_int_index"], {})}
    for n in tree.body:
        if isinstance(n, ast.Assign) and isinstance(n.targets[0], ast.Name) and n.targets[0].id in ("RE_RELATIVE_POINTER", "RE_INDEX_TOKEN"):
            call = n.value
            if not (isinstance(call, ast.Call) and _name_of(call.func) == "compile" and isinstance(call.args[0], ast.Constant)):
                raise TableError("regular expression is not re.compile(<literal>)")
            out[n.targets[0].id] = call.args[0].value
    if "RE_RELATIVE_POINTER" not in out or "RE_INDEX_TOKEN" not in out:
        raise TableError("pointer regular expressions not found")
    return out


# ------------------------------------------------------------------ exceptions.py

def _exception_tables_source():
    tree = _parse("jsonpath/exceptions.py")
    return [(n.name, [_name_of(b) for b in n.bases]) for n in tree.body if isinstance(n, ast.ClassDef)]



# ------------------------------------------------------------------ value tables read from the running code
#
# Constants (precedence and operator maps, token spellings, limits, the function registry with its signatures, the
# pointer patterns, the exception hierarchy) are what the interpreter holds after importing the package from the
# repository under test - however the source spells them. They are read there first; the source text is the fallback.

def _mod(name):
    import importlib
    return importlib.import_module(name)


def _token_names():
    T = _mod("jsonpath.token")
    names = {}
    for k, v in vars(T).items():
        if k.startswith("TOKEN_") and isinstance(v, str):
            if v in names:
                raise TableError(f"two token constants share the value {v!r}")
            names[v] = k
    return names


def _leading_zero_source():
    try:
        return _leading_zero_of(_class(_parse("jsonpath/parse.py"), "Parser")) or "<not recognised>"
    except Exception:  # noqa: BLE001
        return "<not recognised>"


def parser_tables():
    try:
        P = _mod("jsonpath.parse").Parser
        names = _token_names()
        out = {
            "prec_consts": {k: int(v) for k, v in vars(P).items() if k.startswith("PRECEDENCE_") and isinstance(v, int)},
            "precedences": [(names[k], int(v)) for k, v in P.PRECEDENCES.items()],
            "binops": [(names[k], str(v)) for k, v in P.BINARY_OPERATORS.items()],
            "comparison": [names.get(x, x) for x in P.COMPARISON_OPERATORS],
            "infix_literal": [names.get(x, x) for x in P.INFIX_LITERAL_OPERATORS],
            "prefix": [names.get(x, x) for x in P.PREFIX_OPERATORS],
        }
        if not out["precedences"] or not out["prec_consts"]:
            raise TableError("empty")
    except Exception:  # noqa: BLE001
        return _parser_tables_source()
    out["leading_zero"] = _leading_zero_source()
    return out


def env_tables():
    try:
        E = _mod("jsonpath").JSONPathEnvironment
        FF = _mod("jsonpath.function_extensions").FilterFunction
        toks = {k: getattr(E, k) for k in ("fake_root_token", "filter_context_token", "intersection_token", "key_token", "keys_selector_token", "root_token", "self_token", "union_token")}
        if not all(isinstance(v, str) for v in toks.values()):
            raise TableError("token spellings are not strings")
        funcs = []
        for name, f in E().function_extensions.items():
            if isinstance(f, FF) and hasattr(f, "arg_types") and hasattr(f, "return_type"):
                funcs.append((name, [t.name for t in f.arg_types], f.return_type.name))
            else:
                funcs.append((name, None, None))
        return {"tokens": toks, "limits": {"max_int_index": int(E.max_int_index), "min_int_index": int(E.min_int_index)}, "functions": funcs}
    except Exception:  # noqa: BLE001
        return _env_tables_source()


def pointer_tables():
    try:
        M = _mod("jsonpath.pointer")
        return {"keys_selector": str(M.JSONPointer.keys_selector), "max_int_index": int(M.JSONPointer.max_int_index), "min_int_index": int(M.JSONPointer.min_int_index),
                "RE_INDEX_TOKEN": M.RE_INDEX_TOKEN.pattern, "RE_RELATIVE_POINTER": M.RE_RELATIVE_POINTER.pattern}
    except Exception:  # noqa: BLE001
        return _pointer_tables_source()


def _builtin_exception_bases():
    """class -> bases for the built-in exceptions a `json.load` / file read can raise and the classes a handler may name for
    them, as the running interpreter defines them (so `except ValueError` is known to catch a JSONDecodeError)"""
    import json
    out, todo, seen = [], [json.JSONDecodeError, UnicodeDecodeError, RecursionError], set()
    while todo:
        c = todo.pop()
        if c in seen or c in (BaseException, object):
            continue
        seen.add(c)
        out.append((c.__name__, [b.__name__ for b in c.__bases__ if b is not object]))
        todo.extend(b for b in c.__bases__ if b is not object)
    return sorted(out)


def exception_tables():
    try:
        M = _mod("jsonpath.exceptions")
        out = [(k, [b.__name__ for b in c.__bases__]) for k, c in vars(M).items() if isinstance(c, type) and c.__module__ == M.__name__]
        if not out:
            raise TableError("empty")
    except Exception:  # noqa: BLE001
        out = _exception_tables_source()
    have = {k for k, _ in out}
    return out + [(k, bs) for k, bs in _builtin_exception_bases() if k not in have]


def _volatile_constants_source():
    """class -> the constant assigned to `self.volatile` in its __init__ (source text: the one fact of this table that
    only exists as a statement); classes whose __init__ computes it are absent"""
    out = {}
    try:
        tree = _parse("jsonpath/filter.py")
        for n in tree.body:
            if isinstance(n, ast.ClassDef):
                for b in n.body:
                    if isinstance(b, ast.FunctionDef) and b.name == "__init__":
                        for st in ast.walk(b):
                            if isinstance(st, ast.Assign) and isinstance(st.targets[0], ast.Attribute) and st.targets[0].attr == "volatile" and isinstance(st.value, ast.Constant):
                                out[n.name] = bool(st.value.value)
    except Exception:  # noqa: BLE001
        pass
    return out


def filter_tables():
    try:
        M = _mod("jsonpath.filter")
        consts = {k: int(v) for k, v in vars(M).items() if k.startswith("PRECEDENCE_") and isinstance(v, int)}
        vte = [c.__name__ for c in M.VALUE_TYPE_EXPRESSIONS]
        vol = _volatile_constants_source()
        classes = {}
        for k, c in vars(M).items():
            if isinstance(c, type) and c.__module__ == M.__name__:
                fc = c.__dict__.get("FORCE_CACHE")
                classes[k] = {"bases": [b.__name__ for b in c.__bases__ if b is not object], "force_cache": (bool(fc) if isinstance(fc, bool) else None), "volatile": vol.get(k)}
        if not classes or not vte:
            raise TableError("empty")
        return {"consts": consts, "value_type_expressions": vte, "classes": classes}
    except Exception:  # noqa: BLE001
        return _filter_tables_source()

# ------------------------------------------------------------------ lex.py

def _lexer_runtime_matches(canon):
    """True when the rule set the lexer actually compiles - for the default environment and for environments whose
    identifier tokens are renamed (prefixes of one another, several characters, one empty) - is, character for
    character, the one the canonical table spells. Read from the running code, so a rewrite of how the patterns are
    put together that leaves the compiled rules unchanged leaves the table unchanged."""
    import importlib
    import re as _re

    jp = importlib.import_module("jsonpath")
    T = importlib.import_module("jsonpath.token")
    Lexer = importlib.import_module("jsonpath.lex").Lexer

    class E1(jp.JSONPathEnvironment):
        root_token = "$$"
        self_token = "$"
        fake_root_token = "$$$"
        union_token = "<|>"
        keys_selector_token = "*~"

    class E2(jp.JSONPathEnvironment):
        key_token = "#k"
        filter_context_token = "ctx"
        intersection_token = ""
        keys_selector_token = "#"

    flags_want = 0
    for attr, text in canon["init"]:
        if attr == "<flags>":
            for f in [x for x in text.split("|") if x]:
                flags_want |= getattr(_re, f)
    for env in (jp.JSONPathEnvironment(), E1(), E2()):
        lx = Lexer(env=env)
        for k, v in canon["patterns"].items():
            if getattr(lx, k) != v:
                return False
        for attr, text in canon["init"]:
            if attr == "<flags>":
                continue
            want = _re.sub(r"\{([a-z_]+)\}", lambda m: getattr(lx, m.group(1)), text)
            if getattr(lx, attr) != want:
                return False
        parts = []
        for name, pat in canon["rules"]:
            if name == "<ENV_TOKENS>":
                toks = [(getattr(T, n), getattr(env, a)) for n, a in canon["env_tokens"]]
                if canon["longest_first"]:
                    toks = sorted(toks, key=lambda x: len(x[1]), reverse=True)
                parts += [(t, _re.escape(v)) for t, v in toks if v]
            else:
                parts.append((getattr(T, name), getattr(lx, pat[1:-1]) if pat.startswith("<") and pat.endswith(">") and len(pat) > 2 and pat != "<>" else pat))
        want = "|".join(f"(?P<{t}>{v})" for t, v in parts)
        if lx.rules.pattern != want or (lx.rules.flags & ~_re.UNICODE) != flags_want:
            return False
    return True


def lexer_tables():
    canon_path = os.path.join(os.path.dirname(os.path.abspath(__file__)), "canon_lexer.json")
    try:
        import json as _json
        canon = _json.load(open(canon_path, encoding="utf-8"))
        canon["rules"] = [tuple(x) for x in canon["rules"]]
        canon["env_tokens"] = [tuple(x) for x in canon["env_tokens"]]
        canon["init"] = [tuple(x) for x in canon["init"]]
        if _lexer_runtime_matches(canon):
            return canon
    except Exception:  # noqa: BLE001  (fall through to the source-text reading)
        pass
    return _lexer_tables_source()


def _lexer_tables_source():
    tree = _parse("jsonpath/lex.py")
    cls = _class(tree, "Lexer")
    rules, env_tokens, sort_desc = [], [], None
    for n in cls.body:
        if isinstance(n, ast.FunctionDef) and n.name == "compile_rules":
            for s in n.body:
                if isinstance(s, ast.Assign) and isinstance(s.targets[0], ast.Name) and s.targets[0].id == "env_tokens":
                    env_tokens = [(_name_of(e.elts[0]), _name_of(e.elts[1])) for e in s.value.elts]
                if isinstance(s, ast.Assign) and isinstance(s.targets[0], ast.Name) and s.targets[0].id == "rules":
                    for e in s.value.elts:
                        if isinstance(e, ast.Tuple):
                            pat = e.elts[1]
                            rules.append((_name_of(e.elts[0]), pat.value if isinstance(pat, ast.Constant) else "<" + _name_of(pat) + ">"))
                        elif isinstance(e, ast.Starred):
                            comp = e.value
                            srt = comp.generators[0].iter
                            if not (isinstance(srt, ast.Call) and _name_of(srt.func) == "sorted"):
                                raise TableError("environment tokens are not spliced through sorted()")
                            kw = {k.arg: k.value for k in srt.keywords}
                            rev = kw.get("reverse")
                            key = kw.get("key")
                            by_len = key is not None and "len" in ast.dump(key)
                            sort_desc = bool(by_len and isinstance(rev, ast.Constant) and rev.value is True)
                            rules.append(("<ENV_TOKENS>", ""))
                        else:
                            raise TableError("unrecognised lexer rule")
    if not rules or sort_desc is None:
        raise TableError("lexer rule list not recognised")
    asg = _class_assigns(cls)
    pats = {k: asg[k].value for k in ("key_pattern", "logical_not_pattern", "logical_and_pattern", "logical_or_pattern") if k in asg}
    # the patterns built in __init__ (`self.x_pattern = r"..."` / rf"...{self.key_pattern}..."), in source order,
    # and the flags of the final re.compile
    init = []
    for n in cls.body:
        if isinstance(n, ast.FunctionDef) and n.name == "__init__":
            for s in n.body:
                if (isinstance(s, ast.Assign) and isinstance(s.targets[0], ast.Attribute) and isinstance(s.targets[0].value, ast.Name)
                        and s.targets[0].value.id == "self" and s.targets[0].attr.endswith("_pattern")):
                    init.append((s.targets[0].attr, _pattern_text(s.value)))
        if isinstance(n, ast.FunctionDef) and n.name == "compile_rules":
            for r in ast.walk(n):
                if isinstance(r, ast.Return) and isinstance(r.value, ast.Call) and _name_of(r.value.func) in ("compile", "re.compile"):
                    flags = sorted(a.attr for a in ast.walk(ast.Module(body=[ast.Expr(x) for x in r.value.args[1:]], type_ignores=[])) if isinstance(a, ast.Attribute))
                    init.append(("<flags>", "|".join(flags)))
    return {"rules": rules, "env_tokens": env_tokens, "longest_first": sort_desc, "patterns": pats, "init": init}


def _pattern_text(node):
    """text of a (possibly f-)string pattern; `{self.name}` placeholders are kept as `{name}`"""
    if isinstance(node, ast.Constant) and isinstance(node.value, str):
        return node.value
    if isinstance(node, ast.JoinedStr):
        out = []
        for v in node.values:
            if isinstance(v, ast.Constant):
                out.append(v.value)
            elif isinstance(v, ast.FormattedValue) and isinstance(v.value, ast.Attribute) and v.format_spec is None and v.conversion == -1:
                out.append("{" + v.value.attr + "}")
            else:
                raise TableError("unrecognised pattern placeholder")
        return "".join(out)
    raise TableError("unrecognised pattern expression")


def _guards():
    from . import guards
    return guards.guard_table(core.REPO)


def _twins():
    from . import twins
    return twins.twin_table(core.REPO)


# ------------------------------------------------------------------ cli.py

def cli_tables():
    tree = _parse("jsonpath/cli.py")
    handlers = {}
    subcmd = {}
    helpers = {n.name: n for n in tree.body if isinstance(n, ast.FunctionDef)}

    def walk(node, seen=()):
        """ast.walk that also enters the module-level helper functions a call names (what a handler does through
        `_exit_with_error(err)` it does as surely as inline)"""
        for x in ast.walk(node):
            yield x
            if isinstance(x, ast.Call) and isinstance(x.func, ast.Name) and x.func.id in helpers and x.func.id not in seen and not x.func.id.startswith("handle_"):
                for b in helpers[x.func.id].body:
                    yield from walk(b, seen + (x.func.id,))
    for n in tree.body:
        if isinstance(n, ast.FunctionDef) and n.name.startswith("handle_") and n.name.endswith("_command"):
            tries = []
            reads = sorted({a.attr for a in walk(n) if isinstance(a, ast.Attribute) and isinstance(a.value, ast.Name) and a.value.id == "args"})
            def top_tries(stmts, seen=()):
                """the `try` statements of a handler, in order, also those that stand inside an `if` / `else` / `with`, and
                those of the module-level helper functions a plain statement calls (a read moved into `_read_expression(args)`
                is guarded as surely as inline)"""
                for st in stmts:
                    if isinstance(st, ast.Try):
                        yield st
                    elif isinstance(st, ast.If):
                        yield from top_tries(st.body, seen)
                        yield from top_tries(st.orelse, seen)
                    elif isinstance(st, ast.With):
                        yield from top_tries(st.body, seen)
                    else:
                        for x in ast.walk(st):
                            if isinstance(x, ast.Call) and isinstance(x.func, ast.Name) and x.func.id in helpers and x.func.id not in seen \
                                    and not x.func.id.startswith("handle_"):
                                yield from top_tries(helpers[x.func.id].body, seen + (x.func.id,))
            for s in top_tries(n.body):
                if isinstance(s, ast.Try):
                    hs = []
                    for h in s.handlers:
                        if h.type is None:
                            classes = ["BaseException"]
                        elif isinstance(h.type, ast.Tuple):
                            classes = [_name_of(e) for e in h.type.elts]
                        else:
                            classes = [_name_of(h.type)]
                        debug_reraise = any(isinstance(x, ast.If) and "debug" in ast.dump(x.test) and any(isinstance(y, ast.Raise) for y in x.body) for x in h.body)
                        writes_err = any(isinstance(x, ast.Call) and "stderr" in ast.dump(x.func) for x in walk(h))
                        exits = [x.args[0].value for x in walk(h) if isinstance(x, ast.Call) and isinstance(x.func, ast.Attribute) and x.func.attr == "exit" and x.args and isinstance(x.args[0], ast.Constant)]
                        hs.append((classes, debug_reraise, writes_err, exits[0] if exits else -1))
                    calls = sorted({_name_of(c.func) for b in s.body for c in ast.walk(b) if isinstance(c, ast.Call)})
                    tries.append((calls, hs))
            handlers[n.name] = {"tries": tries, "reads": reads}
        if isinstance(n, ast.FunctionDef) and n.name.endswith("_sub_command"):
            dests = []
            for c in walk(n):
                if isinstance(c, ast.Call) and isinstance(c.func, ast.Attribute) and c.func.attr == "add_argument":
                    flags = [a.value for a in c.args if isinstance(a, ast.Constant)]
                    kw = {k.arg: k.value for k in c.keywords}
                    if "dest" in kw:
                        dests.append(kw["dest"].value)
                    else:
                        longs = [f for f in flags if f.startswith("--")]
                        base = longs[0][2:] if longs else flags[0].lstrip("-")
                        dests.append(base.replace("-", "_"))
            func = None
            for c in ast.walk(n):
                if isinstance(c, ast.Call) and isinstance(c.func, ast.Attribute) and c.func.attr == "set_defaults":
                    func = _name_of({k.arg: k.value for k in c.keywords}["func"])
            subcmd[n.name] = {"dests": dests, "func": func}
    glob = []
    for n in tree.body:
        if isinstance(n, ast.FunctionDef) and n.name == "setup_parser":
            for c in ast.walk(n):
                if isinstance(c, ast.Call) and isinstance(c.func, ast.Attribute) and c.func.attr == "add_argument" and isinstance(c.func.value, ast.Name) and c.func.value.id == "parser":
                    flags = [a.value for a in c.args if isinstance(a, ast.Constant)]
                    longs = [f for f in flags if f.startswith("--")]
                    glob.append((longs[0][2:] if longs else flags[0].lstrip("-")).replace("-", "_"))
            for c in ast.walk(n):
                if isinstance(c, ast.Call) and isinstance(c.func, ast.Attribute) and c.func.attr == "add_subparsers":
                    kw = {k.arg: k.value for k in c.keywords}
                    if "dest" in kw:
                        glob.append(kw["dest"].value)
    glob.append("func")
    if len(handlers) != 3 or len(subcmd) != 3:
        raise TableError("expected three CLI sub-commands and handlers")
    return {"handlers": handlers, "subcommands": subcmd, "global_dests": glob}


FALLBACK = {
    "parser": {"leading_zero": "<not recognised>", "prec_consts": {}, "precedences": [], "binops": [], "comparison": [], "infix_literal": [], "prefix": []},
    "filter": {"consts": {}, "value_type_expressions": [], "classes": {}},
    "env": {"tokens": {}, "limits": {"max_int_index": 0, "min_int_index": 0}, "functions": []},
    "pointer": {"keys_selector": "", "max_int_index": 0, "min_int_index": 0, "RE_RELATIVE_POINTER": "", "RE_INDEX_TOKEN": ""},
    "exceptions": [],
    "lexer": {"rules": [], "env_tokens": [], "longest_first": False, "patterns": {}, "init": []},
    "cli": {"handlers": {}, "subcommands": {}, "global_dests": []},
    "twins": [("<not recognised>", False, "")],
    "guards": [("<not recognised>", "int", "")],
}
FAILED = {}        # table -> why its extraction failed on the last run (the properties that use it are then not shown to hold)


def extract_all():
    import copy as _copy
    FAILED.clear()
    out = {}
    for name, fn in (("parser", parser_tables), ("filter", filter_tables), ("env", env_tables), ("pointer", pointer_tables), ("exceptions", exception_tables),
                     ("lexer", lexer_tables), ("cli", cli_tables), ("twins", _twins), ("guards", _guards)):
        try:
            out[name] = fn()
        except Exception as e:  # noqa: BLE001
            FAILED[name] = f"{type(e).__name__}: {e}"
            out[name] = _copy.deepcopy(FALLBACK[name])
    return out


def render_lean(t) -> str:
    L = []
    a = L.append
    a("/-\n  GENERATED by harness/tables.py from /repo's current source text. Do not edit: it is rewritten on\n  every run of every check (only when the extracted content changes).\n-/")
    a("namespace JP.Generated\n")
    p = t["parser"]
    a("/-- parse.py: Parser.PRECEDENCES (token kind → precedence) -/")
    a("def precedences : List (String × Nat) := " + llist(f"({lstr(k)}, {v})" for k, v in p["precedences"]))
    a("/-- parse.py: Parser.PRECEDENCE_* constants -/")
    a("def parserPrecConsts : List (String × Nat) := " + llist(f"({lstr(k)}, {v})" for k, v in sorted(p["prec_consts"].items())))
    a("/-- parse.py: Parser.BINARY_OPERATORS (token kind → operator spelling) -/")
    a("def binaryOperators : List (String × String) := " + llist(f"({lstr(k)}, {lstr(v)})" for k, v in p["binops"]))
    a("/-- parse.py: the leading-zero test applied to the text `v` of an index token in a bracketed selection -/")
    a(f"def indexLeadingZeroTest : String := {lstr(p['leading_zero'])}")
    a("def comparisonOperators : List String := " + llist(lstr(x) for x in sorted(p["comparison"])))
    a("def infixLiteralOperators : List String := " + llist(lstr(x) for x in sorted(p["infix_literal"])))
    a("def prefixOperators : List String := " + llist(lstr(x) for x in sorted(p["prefix"])))
    f = t["filter"]
    a("\n/-- filter.py: serializer precedence constants -/")
    a("def filterPrecConsts : List (String × Nat) := " + llist(f"({lstr(k)}, {v})" for k, v in sorted(f["consts"].items())))
    a("def valueTypeExpressions : List String := " + llist(lstr(x) for x in f["value_type_expressions"]))
    def ob(b):
        return "none" if b is None else ("some true" if b else "some false")
    a("/-- filter.py: per class (name, bases, FORCE_CACHE, hard-coded `self.volatile = …` in __init__) -/")
    a("def filterClasses : List (String × List String × Option Bool × Option Bool) := " +
      llist(f"({lstr(k)}, {llist(lstr(b) for b in v['bases'])}, {ob(v['force_cache'])}, {ob(v['volatile'])})" for k, v in f["classes"].items()))
    e = t["env"]
    a("\n/-- env.py: default identifier tokens -/")
    a("def envTokens : List (String × String) := " + llist(f"({lstr(k)}, {lstr(v)})" for k, v in sorted(e["tokens"].items())))
    a(f"def envMaxIntIndex : Int := {e['limits']['max_int_index']}")
    a(f"def envMinIntIndex : Int := {e['limits']['min_int_index']}")
    a("/-- env.py + function_extensions/*.py: registered name, parameter types, return type (`none`: not a FilterFunction) -/")
    def fn(x):
        name, args, ret = x
        if args is None:
            return f"({lstr(name)}, none)"
        return f"({lstr(name)}, some ({llist(lstr(z) for z in args)}, {lstr(ret)}))"
    a("def functions : List (String × Option (List String × String)) := " + llist(fn(x) for x in e["functions"]))
    pt = t["pointer"]
    a("\n/-- pointer.py -/")
    a(f"def pointerKeysSelector : String := {lstr(pt['keys_selector'])}")
    a(f"def pointerMaxIntIndex : Int := {pt['max_int_index']}")
    a(f"def pointerMinIntIndex : Int := {pt['min_int_index']}")
    a(f"def reRelativePointer : String := {lstr(pt['RE_RELATIVE_POINTER'])}")
    a(f"def reIndexToken : String := {lstr(pt['RE_INDEX_TOKEN'])}")
    a("\n/-- exceptions.py: class → bases -/")
    a("def exceptionClasses : List (String × List String) := " + llist(f"({lstr(k)}, {llist(lstr(b) for b in bs)})" for k, bs in t["exceptions"]))
    lx = t["lexer"]
    a("\n/-- lex.py: the ordered rule list (token kind, pattern text or <attribute>); `<ENV_TOKENS>` marks the splice -/")
    a("def lexerRules : List (String × String) := " + llist(f"({lstr(k)}, {lstr(v)})" for k, v in lx["rules"]))
    a("def lexerEnvTokens : List (String × String) := " + llist(f"({lstr(k)}, {lstr(v)})" for k, v in lx["env_tokens"]))
    a(f"def lexerEnvTokensLongestFirst : Bool := {'true' if lx['longest_first'] else 'false'}")
    a("def lexerPatterns : List (String × String) := " + llist(f"({lstr(k)}, {lstr(v)})" for k, v in sorted(lx["patterns"].items())))
    a("/-- sync/async twins of the evaluation modules: (file:Class.method, equal modulo the async machinery, digest of the normalised difference) -/")
    a("def asyncTwins : List (String × Bool × String) := " + llist(f"({lstr(k)}, {'true' if eq else 'false'}, {lstr(d)})" for k, eq, d in t["twins"]))
    a("/-- conversions that can raise a built-in exception and the exception classes of their enclosing `try` blocks -/")
    a("def conversionGuards : List (String × String × List String) := " + llist(f"({lstr(site)}, {lstr(callee)}, {llist(lstr(x) for x in g.split('|') if x)})" for site, callee, g in t["guards"]))
    a("/-- the (file, conversion) pairs of that table -/")
    a("def conversionSites : List (String × String) := " + llist(f"({lstr(x)}, {lstr(y)})" for x, y in sorted({(site.split(":")[0], callee) for site, callee, _ in t["guards"]})))
    a("def lexerInitPatterns : List (String × String) := " + llist(f"({lstr(k)}, {lstr(v)})" for k, v in lx["init"]))
    c = t["cli"]
    a("\n/-- cli.py: per handler, its `try` blocks: (functions called in the body, handlers: (classes, --debug re-raises, writes stderr, exit code)) -/")
    def tr(x):
        calls, hs = x
        return f"({llist(lstr(z) for z in calls)}, " + llist(f"({llist(lstr(k) for k in cl)}, {'true' if d else 'false'}, {'true' if w else 'false'}, {ex})" for cl, d, w, ex in hs) + ")"
    a("def cliHandlers : List (String × List (List String × List (List String × Bool × Bool × Int))) := " +
      llist(f"({lstr(k)}, {llist(tr(x) for x in v['tries'])})" for k, v in sorted(c["handlers"].items())))
    a("/-- cli.py: every `args.<attr>` a handler reads -/")
    a("def cliAttrReads : List (String × List String) := " + llist(f"({lstr(k)}, {llist(lstr(z) for z in v['reads'])})" for k, v in sorted(c["handlers"].items())))
    a("/-- cli.py: per sub-command: the handler it installs and the argparse dests it defines -/")
    a("def cliSubcommands : List (String × String × List String) := " + llist(f"({lstr(k)}, {lstr(v['func'])}, {llist(lstr(z) for z in v['dests'])})" for k, v in sorted(c["subcommands"].items())))
    a("def cliGlobalDests : List String := " + llist(lstr(z) for z in c["global_dests"]))
    a("\nend JP.Generated\n")
    return "\n".join(L)


def regenerate():
    t = extract_all()
    content = render_lean(t)
    changed = _write_if_changed(os.path.join(GEN_DIR, "Tables.lean"), content)
    return [os.path.join(GEN_DIR, "Tables.lean")] if changed else []


if __name__ == "__main__":
    print(regenerate())
