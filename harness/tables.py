"""Translator: tables extracted from /repo's current *source text* (Python `ast`, the package
is not imported) into lean/JP/Generated/*.lean. Files are rewritten only when their content
changes, so an unchanged tree leaves lake's build cache valid. Fails closed."""
from __future__ import annotations

import ast
import os

from . import core

GEN_DIR = os.path.join(core.LEAN_DIR, "JP", "Generated")


def _write_if_changed(path, content):
    os.makedirs(os.path.dirname(path), exist_ok=True)
    try:
        with open(path) as f:
            if f.read() == content:
                return False
    except FileNotFoundError:
        pass
    with open(path, "w") as f:
        f.write(content)
    return True


def regenerate():
    return []
