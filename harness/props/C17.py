"""C17 — Renaming the environment's identifier tokens never changes what a query means."""
from __future__ import annotations

from .. import astdump, core, qeval, qgen, qpool

LEVEL = "proof"
READY = True
CLAIM = {
    "text": "Lean theorems for EVERY valid token configuration (distinct, non-overlapping spellings, multi-character and prefix-related included): the lexer model splices the "
            "environment tokens longest-first, so the rendered tokens of a configuration lex back to the same token kinds as the default rendering lexes under the default "
            "configuration (lex_cfg_render), and the serializer model prints the environment's own spellings, so the string form re-lexes to the same tokens (str_cfg_tokens). "
            "Evaluation is independent of the spellings by construction of the compiled AST. Tied to lex.py/env.py/filter.py on every run: for sampled configurations "
            "(every pair of identifiers covered by every prefix-related pair) each query is rendered with the custom spellings, compiled in a custom environment, and compared - "
            "AST, results, string form and its recompilation - with the default environment. The full character-level lexer model and printer (JP.Lex) are run against the implementation under every sampled configuration (raw tokens, cooked tokens, printed text).",
    "note": "Trusted: Lean kernel; the token-level lexer model for identifier tokens; configurations whose spellings collide with fixed lexer rules (e.g. '|||' vs '||') are "
            "outside ValidCfg, as the property's 'non-overlapping' says.",
    "technique": "Lean 4 theorems on the identifier-token lexer/printer model + differential correspondence across token configurations",
}
RULE = ("injective assignments of the 8 identifiers from a pool of 21 spellings of 1-3 characters (prefix-related pairs $/$$/$@, @/@@, #/##, _/__, ~/~~/*~, ^/^^, |/<|>, &/<&>, %/%%) - "
        "pairwise covering plus random; x the query pool (every identifier used) rendered in the custom spellings x documents x filter contexts; non-trivial = the query uses "
        "at least two configurable identifiers")
TRUSTED = ["Lean 4.33 kernel; standard axioms only", "lexer/printer token model tied to lex.py by this differential run"]
ASSUMPTIONS = ["spellings are distinct and do not overlap with the fixed tokens of the grammar"]

POOL = ["$", "$$", "$@", "@", "@@", "#", "##", "_", "__", "~", "~~", "*~", "^", "^^", "|", "<|>", "&", "<&>", "%", "%%", "+"]
IDS = ["root", "self", "key", "ctx", "keys", "fake", "union", "inter"]
ATTR = {"root": "root_token", "self": "self_token", "key": "key_token", "ctx": "filter_context_token", "keys": "keys_selector_token", "fake": "fake_root_token",
        "union": "union_token", "inter": "intersection_token"}
QUERIES = qpool.STANDARD[:25] + [
    "$.~", "$[~]", "$..~", "$[*].~", "^[?@.a]", "^[0]", "$[?# == 'a']", "$[?# > 0]", "$[?@.a == _.x]", "$[?_.flag]", "$[?@[?@ == _.x.y]]", "$[?$.a[?@ == _.v]]",
    "$.a[*] | $.b[*]", "$.a[*] & $.b[*] & $.c[*]", "^[0] | $.a", "$[?^[0].k == @.a]", "$..[?# == 'a' && @ == 1]", "$[?@.a in $.list]", "$[?@.xs[?@.ys[?@ == $.k]]]",
    "$.xs[?# == 1 || _.v == @.k].~", "$[?count(@.*) == 2 && # != 'z']", "$.a[*] | ^[0].b[*] & $.c[*]", "$[~, 'a', ?@.k == _.v]",
    # the spellings themselves as member names and string contents (quoted, they are data), and names that begin like a token
    "$['$$', '@@', '##', '__', '~~', '^^', '<|>', '<&>', '%%', '*~']", "$[?@.a == '<|>' || @.b == '$$' || @.s == '__']", "$['_x']['__y'].a", "$[?@['~~'] == _['$@']]",
    "$['|'] | $['&']", "$[?@.a == '%' && # != '+']",
    # every identifier as an argument of a function
    "$[?match(#, 'a.*')]", "$.*[?search(#, 'a') || length(#) > 1]", "$[?length(_.list) == 2 && value(@.a) == value(_.v)]", "$[?count(^[0].*) > 1]", "$[?length(@) > 1 && count($..*) > 2]",
]


def valid(cfg):
    """Distinct spellings that do not overlap with the fixed tokens: in particular the keys selector, which
    may follow a dot, must not read as a member-name shorthand (`._` is the member named `_`)."""
    vals = list(cfg.values())
    return len(set(vals)) == len(vals) and cfg["keys"] not in ("_", "__")


def configs(ctx):
    out = []
    # pairwise covering: every ordered pair of identifiers gets every prefix-related pair of spellings
    fams = [["$", "$$", "$@"], ["@", "@@"], ["#", "##"], ["_", "__"], ["~", "~~"], ["^", "^^"], ["|", "<|>"], ["&", "<&>"], ["%", "%%"]]
    pairs = [(a, b) for f in fams for a in f for b in f if a != b]
    for i in IDS:
        for j in IDS:
            if i == j:
                continue
            for a, b in (pairs if ctx.tier != "quick" else ctx.rng.sample(pairs, 2)):
                rest = [p for p in POOL if p not in (a, b)]
                ctx.rng.shuffle(rest)
                cfg = {i: a, j: b}
                for k in IDS:
                    if k not in cfg:
                        cfg[k] = rest.pop()
                out.append(cfg)
    for _ in range(40 if ctx.tier == "quick" else 600):
        sp = ctx.rng.sample(POOL, 8)
        out.append(dict(zip(IDS, sp)))
    # the two operator spellings exchanged, and each default operator spelling given to the other role
    base = dict(zip(IDS, ["$", "@", "#", "_", "~", "^", "|", "&"]))
    for u, i in (("&", "|"), ("^^", "|"), ("&", "%"), ("|", "&"), ("%", "|"), ("<|>", "|"), ("&", "<&>")):
        cfg = dict(base)
        cfg["union"], cfg["inter"] = u, i
        out.append(cfg)
    # role swaps: the same set of spellings assigned the other way round, in the same process right after the
    # original (two environments whose rule *patterns* coincide while the roles differ)
    swapped = []
    for cfg in out:
        swapped.append(cfg)
        diff = [(i, j) for i in IDS for j in IDS if i < j and len(cfg[i]) != len(cfg[j])]
        if diff and (ctx.tier != "quick" or ctx.rng.random() < 0.25):
            i, j = ctx.rng.choice(diff)
            sw = dict(cfg)
            sw[i], sw[j] = cfg[j], cfg[i]
            swapped.append(sw)
    return [c for c in swapped if valid(c)]


def gen(ctx):
    cases = []
    cfgs = configs(ctx)
    docs = qpool.DOCS[:6]
    for cfg in cfgs:
        qs = QUERIES if ctx.tier != "quick" else ctx.rng.sample(QUERIES, 6)
        if (cfg["union"], cfg["inter"]) != ("|", "&"):
            qs = list(qs) + [q for q in QUERIES if (" | " in q or " & " in q) and q not in qs]
        for q in qs:
            cases.append({"cfg": cfg, "text": q, "doc": ctx.rng.choice(docs), "ctx": ctx.rng.choice(qpool.CONTEXTS)})
    return cases


_envs = {}


def env_for(cfg):
    import jsonpath
    key = tuple(sorted(cfg.items()))
    if key not in _envs:
        cls = type("CfgEnv", (jsonpath.JSONPathEnvironment,), {ATTR[k]: v for k, v in cfg.items()})
        _envs[key] = cls()
    return _envs[key]


def _res(q, doc, extra):
    """values and parts; a keys-selector part embeds the environment's keys token: normalise it to '~'"""
    kt = q.env.keys_selector_token

    def norm(m):
        ps = list(m.parts)
        if ps and isinstance(ps[-1], str) and isinstance(m.obj, str) and ps[-1] == kt + m.obj:
            ps[-1] = "~" + m.obj
        return ps
    return core.outcome(lambda: [[norm(m), core.canon(m.obj)] for m in q.finditer(doc, filter_context=extra)])


def evaluate(ctx, cases):
    import jsonpath
    from .. import lexcorr

    batches = {}
    try:
        _evaluate(ctx, cases, batches)
    finally:
        # character-level correspondence under each configuration: lexer (longest-first splice in the
        # full rule list) and printer with the configured spellings
        for env, texts, compiled in batches.values():
            lexcorr.run_texts(ctx, env, texts, label="lex.raw(custom spellings)")
            lexcorr.run_compile(ctx, env, texts, label="lex.compile(custom spellings)")
            lexcorr.run_queries(ctx, env, compiled)


def _evaluate(ctx, cases, batches):
    for c in cases:
        cfg, text, doc, extra = c["cfg"], c["text"], c["doc"], c["ctx"]
        d = qeval.compile_outcome(text)
        if "err" in d:
            continue
        ast = astdump.dump_query(d["ok"])
        r = qgen.R(ctx.rng, blanks=ctx.rng.random() < 0.5, canonical=False, tok=cfg)
        ctext = qgen.render_query(ast, r)
        env = env_for(cfg)
        inp = {"config": cfg, "default_text": text, "custom_text": ctext, "doc": doc, "filter_context": extra}
        used = sum(1 for k in ("@", "#", "_", "~", "^", "|", "&") if k in text) + 1
        ctx.case((repr(sorted(cfg.items())), text, repr(doc)), used >= 2, sample={"config": cfg, "custom_text": ctext, "default_text": text})
        b = batches.setdefault(repr(sorted(cfg.items())), (env, [], []))
        b[1].append(ctext)
        o = core.outcome(lambda: env.compile(ctext))
        if "err" in o:
            ctx.violation("a query written with the configured spellings must compile in that environment", inp, o, "compiles")
            continue
        b[2].append((ctext, o["ok"]))
        if astdump.dump_query(o["ok"]) != ast:
            ctx.violation("a query written with the configured spellings must compile to the same query as the default spelling in the default environment", inp, astdump.dump_query(o["ok"]), ast)
        want = _res(d["ok"], doc, extra)
        got = _res(o["ok"], doc, extra)
        if want != got:
            ctx.violation("evaluation under renamed identifiers must equal evaluation under the default identifiers", inp, got, want)
        if ctx.rng.random() < (0.15 if ctx.tier == "quick" else 0.5) and "~" not in text:
            # every entry point of the custom environment (findall and the async twins compare the union /
            # intersection spellings themselves)
            ref = core.outcome(lambda: [[m.path, core.canon(m.obj)] for m in o["ok"].finditer(doc, filter_context=extra)])
            if "ok" in ref:
                ctx.count("entry-points")
                qeval.compare_entry_points(ctx, ctext, o["ok"], doc, extra, ref["ok"],
                                           "under renamed identifiers every entry point of the environment must give the matches of finditer", inp, env=env)
        s = core.outcome(lambda: str(o["ok"]))
        if "err" in s:
            ctx.violation("string form failed", inp, s["err"], "text")
            continue
        r2 = core.outcome(lambda: env.compile(s["ok"]))
        if "err" in r2:
            ctx.violation("the string form produced by the environment must recompile in that environment", {**inp, "str": s["ok"]}, r2, "compiles")
            continue
        if astdump.dump_query(r2["ok"]) != _norm_slice(ast) and _norm_slice(astdump.dump_query(r2["ok"])) != _norm_slice(ast):
            ctx.violation("the recompiled string form must be an equivalent query", {**inp, "str": s["ok"]}, astdump.dump_query(r2["ok"]), ast)
        if _res(r2["ok"], doc, extra) != want:
            ctx.violation("the recompiled string form must evaluate identically", {**inp, "str": s["ok"]}, _res(r2["ok"], doc, extra), want)


def _norm_slice(x):
    if isinstance(x, dict):
        if x.get("s") == "slice" and x.get("c") is None:
            x = {**x, "c": 1}
        return {k: _norm_slice(v) for k, v in x.items()}
    if isinstance(x, list):
        return [_norm_slice(v) for v in x]
    return x


def search(ctx):
    old = ctx.tier
    ctx.tier = "thorough"
    try:
        evaluate(ctx, gen(ctx))
    finally:
        ctx.tier = old


def probe(kf):
    return False
