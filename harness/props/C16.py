"""C16 — Relative JSON Pointers are parsed, printed and applied per the draft."""
from __future__ import annotations

import itertools

from .. import core
from .. import gen as G

LEVEL = "proof"
READY = True
CLAIM = {
    "text": "Lean theorems for every base token list and every relative pointer of the draft grammar (any number of origin/offset "
            "digits): printing a parsed relative pointer returns its text, application equals the draft's definition on reference tokens, "
            "the same for a base pointer that exists already, whatever characters its tokens hold (rel_apply_parts: nothing is decoded twice), the library's negative index tokens stated outright (negative_base_offset), and the forbidden applications are exactly those refused with a relative-pointer error; the model of RelativeJSONPointer is "
            "tied to pointer.py differentially over the property's complete grid, and the implementation is compared with the executable "
            "draft specification on every case.",
    "note": "Trusted: Lean kernel; model JP.RelPointer validated differentially; unicode-escape codec abstract. An offset applied to a final "
            "token that is not an array index is left unchanged by code and spec alike (the property does not constrain it); blank space at the end of a suffix belongs to its last token.",
    "technique": "Lean 4 refinement proof (RelativeJSONPointer model vs draft spec on tokens) + differential correspondence",
}
RULE = ("grid: base pointers of depth <= 2 (quick) / <= 3 (thorough) complete over tokens {a 0 2 10 é a/b ~}, deeper sampled; "
        "origin 0..depth+1; offset in {none,+-1,+-2,+-10,+-12}; suffix in {'', '#', /x, /a~1b, /é, /0, /~0}; plus a malformed stream; "
        "bases that exist already (built from parts, tokens with backslashes / percent signs / blanks at either end), applied through every form and compared with the draft on tokens; "
        "bases with negative index tokens (model only); non-trivial = non-empty base or non-empty suffix")
TRUSTED = ["Lean 4.33 kernel; standard axioms only", "model JP/RelPointer.lean tied to pointer.py by this differential run"]
ASSUMPTIONS = ["no backslashes in pointer *texts* (escape decoding is abstract); tokens of bases that exist already may hold any characters",
               "negative index tokens in a base (the library's extension) are compared with the model only"]

BASE_TOKENS = ["a", "0", "2", "10", "é", "a/b", "~", "50%25"]
OFFSETS = [0, 1, -1, 2, -2, 10, -10, 12, -12]
SUFFIXES = [(False, []), (True, []), (False, ["x"]), (False, ["a/b"]), (False, ["é"]), (False, ["0"]), (False, ["~", ""]), (False, ["x\ny", "z"]), (False, ["x%2Fy", "%7E"]), (False, ["a\n", "\tb"]),
            # blank space at the end of the suffix belongs to its last token (it used to be stripped: fixed in 6f06955)
            (False, ["foo "]), (False, ["a", "\u3000"]), (False, ["x", " "]), (False, ["y\n"])]
MALFORMED = ["", "abc", "-1", "+1", "00", "01/a", "0+0", "0-0", "0+01", "0+", "0-", "0+/a", "1 #", " 1", "1#x", "0##", "0a",
             "0/a ", "0 /a", "1" * 30, "0+" + "1" * 25, "１", "0+１", "0-1#", "2-12/x/y", "0\\u0023", "0/a\\", "1" * 4301, "0+" + "2" * 4301, "0-" + "9" * 4300, "0-" + "9" * 4299, "0\n", "0\n/a", "1\n#", "0#\n", "0+1\n", "\n0", "0/a\n"]


def rel_text(origin, offset, is_hash, suffix):
    off = "" if offset == 0 else ("+%d" % offset if offset > 0 else "%d" % offset)
    return f"{origin}{off}" + ("#" if is_hash else G.rfc6901_spell(suffix))


def gen(ctx):
    cases = []
    maxd = 2 if ctx.tier == "quick" else 3
    bases = [()]
    for d in range(1, maxd + 1):
        bases += list(itertools.product(BASE_TOKENS, repeat=d))
    ctx.exhaustive_spaces.append(f"bases of depth <= {maxd} x origin x offset x suffix grid")
    extra = 150 if ctx.tier == "quick" else 1500
    for _ in range(extra):
        bases.append(tuple(ctx.rng.choice(BASE_TOKENS + ["1", "-", "01", "#", ""]) for _ in range(ctx.rng.randint(maxd + 1, 5))))
    for b in bases:
        for origin in range(0, len(b) + 2):
            for off in OFFSETS:
                for is_hash, suf in SUFFIXES:
                    cases.append({"kind": "grid", "base": list(b), "origin": origin, "offset": off, "hash": is_hash, "suffix": suf})
    # sums beyond 2**53 - 1: the draft has no such bound on the index an offset produces
    for b, offs in ((("a", "9007199254740991"), (1, 2, 10, -1)), (("a", "0"), (9007199254740992, 9007199254740991, 10 ** 20)), (("9007199254740990",), (1, 2, 12))):
        for off in offs:
            for is_hash, suf in SUFFIXES[:3]:
                cases.append({"kind": "grid", "base": list(b), "origin": 0, "offset": off, "hash": is_hash, "suffix": suf})
    # origins of two digits: long bases
    long_base = tuple(["a", "3"] * 7)
    for origin in (9, 10, 11, 12, 13, 14, 15):
        for off in (0, 1, -1):
            for is_hash, suf in SUFFIXES[:4]:
                cases.append({"kind": "grid", "base": list(long_base), "origin": origin, "offset": off, "hash": is_hash, "suffix": suf})
    # bases that exist already, with tokens no pointer text can spell under escape decoding, or that decoding would change
    odd = ["\\u0041", "a\\", "\\", "%41", "50%2541", " lead", "trail ", "\u3000", "\\n", "\\u00e9\\u00e9", "x\\/y", "2", "0", "a"]
    for b in [(t,) for t in odd] + [(t, u) for t in odd[:8] for u in ("2", "a", "\\u0042")] + [("a", "3", t) for t in odd[:6]]:
        for origin in range(0, len(b) + 1):
            for off in (0, 1, -1, -12):
                for is_hash, suf in (SUFFIXES[0], SUFFIXES[1], SUFFIXES[2], SUFFIXES[-4]):
                    cases.append({"kind": "parts", "base": list(b), "origin": origin, "offset": off, "hash": is_hash, "suffix": suf})
    # negative index tokens in the base (the library's extension): an offset that leaves the index negative is refused
    for b in [("-1",), ("a", "-1"), ("a", "-3"), ("-3", "b"), ("a", "-12"), ("-2", "-2")]:
        for origin in range(0, len(b) + 1):
            for off in OFFSETS:
                for is_hash, suf in SUFFIXES[:3]:
                    cases.append({"kind": "negbase", "base": list(b), "origin": origin, "offset": off, "hash": is_hash, "suffix": suf})
    for s in MALFORMED:
        for b in [(), ("a",), ("a", "2"), ("a", "-1"), ("-5",)]:
            cases.append({"kind": "malformed", "base": list(b), "text": s})
    return cases


def evaluate(ctx, cases):
    from jsonpath import JSONPointer, RelativeJSONPointer

    reqs, meta = [], []
    for c in cases:
        base_s = G.rfc6901_spell(c["base"])
        text = c["text"] if c["kind"] == "malformed" else rel_text(c["origin"], c["offset"], c["hash"], c["suffix"])
        if c["kind"] == "parts":
            reqs.append({"op": "rel.toparts", "s": text, "base": c["base"], "ue": True}); meta.append((c, "toparts", text, base_s))
            reqs.append({"op": "rel.spec", "origin": c["origin"], "offset": c["offset"], "hash": c["hash"], "suffix": c["suffix"], "base": c["base"]})
            meta.append((c, "spec", text, base_s))
            continue
        reqs.append({"op": "rel.parse", "s": text, "ue": True}); meta.append((c, "parse", text, base_s))
        reqs.append({"op": "rel.to", "s": text, "base": base_s, "ue": True}); meta.append((c, "to", text, base_s))
        if c["kind"] == "grid":        # "negbase" is compared with the model only
            reqs.append({"op": "rel.spec", "origin": c["origin"], "offset": c["offset"], "hash": c["hash"], "suffix": c["suffix"], "base": c["base"]})
            meta.append((c, "spec", text, base_s))
    outs = ctx.driver.run(reqs, jobs=ctx.jobs)
    impl_cache = {}
    for (c, what, text, base_s), m in zip(meta, outs):
        if what == "parse":
            ctx.case((text, base_s), bool(c["base"]) or "/" in text, sample={"base": base_s, "rel": text})
            ctx.count("kind:" + c["kind"])
            o = core.outcome(lambda: str(RelativeJSONPointer(text)))
            impl = {"ok": o["ok"]} if "ok" in o else {"err": o["err"]}
            impl_cache[id(c)] = {"print": impl}
            if impl != m["str"]:
                ctx.mismatch("rel.parse/print", {"text": text}, impl, m["str"])
            if c["kind"] == "grid" and impl != {"ok": text}:
                ctx.violation("printing a parsed relative pointer must return its text", {"text": text, **c}, impl, {"ok": text})
            if "err" in o and o.get("family") not in ("relpointer", "pointer"):
                ctx.violation("a relative pointer text must be accepted or rejected with a pointer error", {"text": text}, o["err"], "pointer error family")
        elif what == "toparts":
            ctx.case((text, "parts", tuple(c["base"])), True, sample={"base tokens": c["base"], "rel": text})
            ctx.count("kind:parts")
            mk = lambda: JSONPointer.from_parts(c["base"], unicode_escape=False)   # noqa: E731
            o = core.outcome(lambda: str(RelativeJSONPointer(text).to(mk())))
            impl = {"ok": o["ok"]} if "ok" in o else {"err": o["err"]}
            impl_cache[id(c)] = {"to": impl}
            if impl != m["str"]:
                ctx.mismatch("rel.toparts", {"text": text, "base tokens": c["base"]}, impl, m["str"])
            if "err" in o and o.get("family") not in ("relpointer", "pointer"):
                ctx.violation("applying a relative pointer may only fail with a pointer error", {"text": text, "base tokens": c["base"]}, o["err"], "pointer error family")
            forms = {
                "base.to(text)": lambda: mk().to(text),
                "base.to(RelativeJSONPointer(text))": lambda: mk().to(RelativeJSONPointer(text)),
                "base.to('0').to(text)": lambda: mk().to("0").to(text),
                "(base / 'extra').to('1').to(text)": lambda: (mk() / "extra").to("1").to(text),
            }
            for name, fn in forms.items():
                r = core.outcome(lambda: str(fn()))
                ri = {"ok": r["ok"]} if "ok" in r else {"err": r["err"]}
                if ri != impl:
                    ctx.violation("every way of applying a relative pointer to a base must give the same pointer", {"text": text, "base tokens": c["base"], "form": name}, ri, impl)
            ident = core.outcome(lambda: [str(x) for x in RelativeJSONPointer("0").to(mk()).parts])
            if ident.get("ok") != [str(x) for x in c["base"]]:
                ctx.violation("applying the relative pointer 0 must give the base pointer itself", {"base tokens": c["base"]}, ident.get("ok", ident.get("err")), c["base"])
        elif what == "to":
            o = core.outcome(lambda: str(JSONPointer(base_s).to(text)))
            impl = {"ok": o["ok"]} if "ok" in o else {"err": o["err"]}
            impl_cache[id(c)]["to"] = impl
            ctx.count("to:" + ("ok" if "ok" in o else o["err"]))
            if impl != m["str"]:
                ctx.mismatch("rel.to", {"text": text, "base": base_s}, impl, m["str"])
            if c["kind"] == "negbase" and c["offset"] != 0 and c["origin"] <= len(c["base"]):
                # the library's negative index tokens: an offset that leaves the final index negative is refused
                kept = c["base"][:len(c["base"]) - c["origin"]]
                if kept and kept[-1].lstrip("-").isdigit() and int(kept[-1]) + c["offset"] < 0 and not ("err" in impl and impl["err"].startswith("RelativeJSONPointer")):
                    ctx.violation("an offset that makes the index negative must be refused with a relative-pointer error", {"text": text, "base": base_s}, impl, {"err": "RelativeJSONPointerIndexError"})
            if "err" in o and o.get("family") not in ("relpointer", "pointer"):
                ctx.violation("applying a relative pointer may only fail with a pointer error", {"text": text, "base": base_s}, o["err"], "pointer error family")
            if ctx.rng.random() < (0.08 if ctx.tier == "quick" else 0.4):
                # the other three ways of writing the same application, and what the result resolves to
                ctx.count("to-forms")
                forms = {
                    "RelativeJSONPointer(text).to(base text)": lambda: RelativeJSONPointer(text).to(base_s),
                    "RelativeJSONPointer(text).to(JSONPointer(base))": lambda: RelativeJSONPointer(text).to(JSONPointer(base_s)),
                    "JSONPointer(base).to(RelativeJSONPointer(text))": lambda: JSONPointer(base_s).to(RelativeJSONPointer(text)),
                    # bases whose tokens are held as strings: built from parts, or themselves produced by an application
                    "JSONPointer.from_parts(base tokens).to(text)": lambda: JSONPointer.from_parts([str(t) for t in c["base"]]).to(text),
                    "JSONPointer.from_parts(mixed int/str tokens).to(text)": lambda: JSONPointer.from_parts([int(t) if (t.isascii() and t.isdigit() and (t == "0" or t[0] != "0") and len(t) < 10) else t for t in c["base"]]).to(text),
                    "JSONPointer(base).to('0').to(text)": lambda: JSONPointer(base_s).to("0").to(text),
                }
                if c["base"]:
                    forms["JSONPointer(base + extra).to('1').to(text)"] = lambda: JSONPointer(base_s + "/extra").to("1").to(text)
                for name, fn in forms.items():
                    r = core.outcome(lambda: str(fn()))
                    ri = {"ok": r["ok"]} if "ok" in r else {"err": r["err"]}
                    if ri != impl:
                        ctx.violation("every way of applying a relative pointer to a base must give the same pointer", {"text": text, "base": base_s, "form": name}, ri, impl)
                if "ok" in o:
                    res = JSONPointer(base_s).to(text)
                    again = core.outcome(lambda: JSONPointer(str(res)))
                    if "ok" in again and not (again["ok"] == res and [str(x) for x in again["ok"].parts] == [str(x) for x in res.parts]):
                        ctx.violation("the pointer produced by applying a relative pointer must equal the pointer parsed from its own text", {"text": text, "base": base_s}, [str(x) for x in res.parts], [str(x) for x in again["ok"].parts])
        else:
            if m["text"] != text:
                ctx.mismatch("rel.spec text", c, text, m["text"])
            impl = impl_cache[id(c)]["to"]
            if "some" in m["result"]:
                if impl != {"ok": m["result"]["some"]}:
                    ctx.violation("applying the relative pointer must yield the pointer the draft defines", {"text": text, "base": base_s}, impl, {"ok": m["result"]["some"]})
            else:
                if not ("err" in impl and impl["err"].startswith("RelativeJSONPointer")):
                    ctx.violation("an application the draft forbids must be refused with a relative-pointer error", {"text": text, "base": base_s}, impl, {"err": "RelativeJSONPointerIndexError"})


def search(ctx):
    old = ctx.tier
    ctx.tier = "thorough"
    try:
        evaluate(ctx, gen(ctx))
    finally:
        ctx.tier = old


def probe(kf):
    """Replay a recorded known finding on the implementation; True if it still fails."""
    from jsonpath import JSONPointer, RelativeJSONPointer

    pr = kf["probe"]
    try:
        return str(RelativeJSONPointer(pr["rel"]).to(JSONPointer(pr["base"]))) != pr["expect"]
    except Exception:  # noqa: BLE001
        return True
