"""C09 — Evaluation is pure: read-only, repeatable, unaffected by caching or interleaving."""
from __future__ import annotations

import copy
import itertools
import threading

from .. import core, qeval, qpool

LEVEL = "proof"
READY = True
CLAIM = {
    "text": "Lean theorems over ALL expressions, documents and candidate sequences: the volatility analysis is sound (a non-volatile sub-expression evaluates to the same "
            "value for every candidate of one filter resolution: nonvolatile_ctx_independent), hence evaluation through the cache tree equals plain evaluation for any "
            "number of candidates (cache_transparent), the cache is created per resolution so results do not depend on earlier uses (fresh_cache), and any interleaving of "
            "the lazy iterators of one compiled query yields each iterator's own sequence (interleave_independent, by induction over the schedule). The model of "
            "FilterExpression.volatile / cache_tree / CachingFilterExpression is tied to filter.py by the translated class table and by differential histories: caching on vs "
            "off, first vs repeated use, other documents in between, every interleaving of two iterators (<= 3 steps each), threads; document, filter context and query text "
            "are deep-compared before/after every history.",
    "note": "Trusted: Lean kernel; the cache model (cells threaded through the candidates of one Filter.resolve call); pre-emptive thread interleaving inside a bytecode "
            "sequence cannot be exhibited by the model - the argument is state disjointness plus a thread stress run; non-modification is an observation (a pure model cannot mutate).",
    "technique": "Lean 4 invariant proof (volatility soundness => cache transparency; schedule induction) + differential histories on the implementation",
}
RULE = ("queries mixing cacheable sub-expressions ($-rooted and _-rooted sub-queries, constant comparisons, functions of them) with per-node ones (@, #), nested; "
        "sequences of documents; caching on/off; all interleavings of two iterators with <= 3 steps each (complete) and sampled longer ones; 8 threads on one compiled query "
        "(thorough); non-trivial = the query contains a filter")
TRUSTED = ["Lean 4.33 kernel; standard axioms only", "cache model tied to filter.py by this differential run", "CPython threads at iterator-step granularity"]
ASSUMPTIONS = ["documents are not mutated by the caller during evaluation"]

CACHE_QUERIES = [
    "$.xs[?@.k == $.k]", "$.xs[?$.k == 1]", "$.xs[?@.k == _.v]", "$.xs[?_.flag && @.ys]", "$.xs[?count($..k) > 2 && @.k]", "$.xs[?length($.a) == 3 || @.k == 1]",
    "$.xs[?1 == 1]", "$.xs[?$.k == $.k && @]", "$.xs[?@.ys[?@ == $.k]]", "$.xs[?# == 0 || $.k == 2]", "$..[?@.k == $.k]", "$.xs[?@.k in $.list]", "$.xs[?$.list contains @.k]",
    "$.xs[?value($.k) == @.k]", "$.xs[?match($.s, 'a.*') && @.k > 1]", "$.xs[?$.nothing == @.nothing]", "$.xs[?$.a[?@ > 1] && @.k == 2]", "$.xs[?!$.zzz && @.k]",
    "$.xs[?_.list contains @.k || $.k == 5]", "$[?@ == $.k]", "$.a[?@ > $.k]", "$.a[?@ > 1 && 2 > 1]",
    # a candidate-rooted query whose nested filter mentions no candidate: still one verdict per candidate
    "$.xs[?@.ys[?$.k == 1]]", "$.xs[?@.ys[?$.k == 1]].k", "$.xs[?@.ys[?_.flag]]", "$.xs[?count(@.ys[?1 == 1]) > 0]", "$.xs[?@.ys[?$.list[0] == 1] && $.k]", "$.xs[?@.ys[?true]]",
    "$.xs[?@.ys[?$.a[?@ > 1]]]", "$.xs[?!@.ys[?$.k == 1]]", "$..[?@.ys[?$.k == 1]]",
    # cacheable sub-expressions that differ only in literals equal under Python's `==` (1 / true / 1.0, 0 / false)
    "$.xs[?@.k > 0 && ($.flag == 1 || $.flag == true)]", "$.xs[?($.k == true || $.k == 1) && @.k]", "$.xs[?count($.none.*) == false || count($.none.*) == 0]",
    "$.xs[?($.k == 1.0 || $.k == 1) && ($.flag == 0 || $.flag == false || @.k == 5)]", "$.xs[?_.v == true || _.v == 1 || @.zz]",
]
COMPOUND_CTX = ["$.xs[?@.k == _.v] | $.xs[?@.k != _.v]", "$.xs[?@.k == $.k] & $.xs[*]", "$.a[?@ > $.k] | $.xs[?_.flag].k | $.list[?@ == _.v]"]
DOCSEQ = [
    {"a": [1, 2, 3], "k": 1, "s": "ab", "list": [1, 2], "xs": [{"ys": [1, 2], "k": 2}, {"ys": [2], "k": 1}, {"k": 5}]},
    {"a": [3], "k": 2, "s": "b", "list": [5], "xs": [{"ys": [2], "k": 2}, {"ys": [], "k": 5}]},
    {"a": [], "k": 5, "list": [], "xs": [{"k": 5, "ys": [5]}, {"k": 1}]},
    {"xs": []},
    {"flag": True, "k": True, "xs": [{"k": 1}, {"k": 0}, {"k": 2}]},
    {"flag": 1, "k": 1, "xs": [{"k": 1}, {"k": 5}]},
    {"flag": False, "k": 1.0, "xs": [{"k": 5}, {"k": 2}]},
]


REGEX_QUERIES = ["$.items[?match(@, $.pattern)]", "$.items[?search(@, $.pattern)]", "$.rows[?match(@.s, @.p)]", "$.rows[?search(@.s, @.p)]", "$.items[?match(@, _.p)]",
                 "$.items[?search(@, $.pattern) || match(@, 'z+')]", "$.rows[?match(@.s, $.pattern) && search(@.s, @.p)]", "$.items[?@ =~ /a./]", "$..[?match(@, $.pattern)]"]
REGEX_DOCS = [
    {"pattern": "a.", "items": ["ab", "zz", "ab"], "rows": [{"s": "ab", "p": "a."}, {"s": "ab", "p": "("}, {"s": "ab", "p": "("}, {"s": "zz", "p": "z+"}]},
    {"pattern": "(", "items": ["ab", "ab", "ab"], "rows": [{"s": "ab", "p": "[z"}, {"s": "ab", "p": "[z"}, {"s": "ab", "p": "ab"}, {"s": "ab", "p": 1}, {"s": "ab", "p": 1}]},
    {"pattern": 1, "items": ["ab", "ab", "1"], "rows": [{"s": "b", "p": "b"}, {"s": "b", "p": None}, {"s": "b", "p": None}]},
    {"pattern": "[z", "items": ["z", "z", "ab"], "rows": []},
    {"pattern": "z+", "items": ["ab", "zz", "z"], "rows": [{"s": "zz", "p": "z+"}, {"s": "zz", "p": "a{2,1}"}, {"s": "zz", "p": "a{2,1}"}]},
    {"items": ["ab", "zz"], "rows": [{"s": "ab"}, {"s": "ab"}]},
]


def gen(ctx):
    texts = CACHE_QUERIES + qpool.STANDARD + qpool.EXTENSION + qpool.COMPOUND + COMPOUND_CTX + qpool.generated_texts(ctx.rng, 60 if ctx.tier == "quick" else 1500)
    cases = []
    docs = DOCSEQ + qpool.DOCS[:4]
    for t in texts:
        seq = [ctx.rng.choice(docs) for _ in range(ctx.rng.randint(2, 4))]
        cases.append({"text": t, "docs": seq, "ctx": ctx.rng.choice(qpool.CONTEXTS)})
    # function arguments taken from the document: a valid pattern in one document, an invalid / non-string one in the next
    for t in REGEX_QUERIES:
        for _ in range(3):
            seq = [ctx.rng.choice(REGEX_DOCS) for _ in range(ctx.rng.randint(2, 4))]
            cases.append({"text": t, "docs": seq, "ctx": {"p": ctx.rng.choice(["a.", "(", 1, "b"])}})
        cases.append({"text": t, "docs": [REGEX_DOCS[0], REGEX_DOCS[1], REGEX_DOCS[2], REGEX_DOCS[0]], "ctx": {"p": "("}})
    return cases


def _run(compiled, doc, extra):
    return core.outcome(lambda: [[m.path, core.canon(m.obj)] for m in compiled.finditer(doc, filter_context=extra)])


def _n(r):
    return r["ok"] if "ok" in r else {"err": r["err"]}


def evaluate(ctx, cases):
    import jsonpath

    env_on = jsonpath.JSONPathEnvironment(filter_caching=True)
    env_off = jsonpath.JSONPathEnvironment(filter_caching=False)
    reqs, meta = [], []
    for c in cases:
        a = core.outcome(lambda: env_on.compile(c["text"]))
        b = core.outcome(lambda: env_off.compile(c["text"]))
        if "err" in a or "err" in b:
            if ("err" in a) != ("err" in b):
                ctx.violation("compilation must not depend on the caching option", {"text": c["text"]}, [a.get("err"), b.get("err")], "same")
            continue
        for d in c["docs"]:
            try:
                reqs.append(qeval.build_request(a["ok"], d, c["ctx"]))
            except core.Unencodable:
                reqs.append({"op": "ping"})
        meta.append((c, a["ok"], b["ok"]))
    outs = ctx.driver.run(reqs, jobs=ctx.jobs)
    k = 0
    for c, qon, qoff in meta:
        text, extra = c["text"], c["ctx"]
        docs = [copy.deepcopy(d) for d in c["docs"]]
        before_docs = copy.deepcopy(docs)
        before_ctx = copy.deepcopy(extra)
        before_str = str(qon)
        inp = {"text": text, "docs": c["docs"], "filter_context": extra}
        ctx.case((text, repr(c["docs"]), repr(extra)), "?" in text, sample={"query": text, "documents": len(docs)})
        ctx.count("has-filter:" + str("?" in text))
        # fresh reference results per document, from a fresh compilation, caching off
        ref = []
        for d in docs:
            ref.append(_n(_run(jsonpath.JSONPathEnvironment(filter_caching=False).compile(text), d, extra)))   # a fresh environment each time
        # model correspondence
        for d, r in zip(docs, ref):
            m = outs[k]; k += 1
            if "nodes" in m and not isinstance(r, dict):
                mod = [[n["path"], n["val"]] for n in m["nodes"]]
                if mod != r:
                    ctx.mismatch("q.finditer", {"text": text, "doc": d, "filter_context": extra}, r[:6], mod[:6])
        # history on the two compiled objects: every document three times, in order, then reversed
        order = list(range(len(docs))) * 3 + list(reversed(range(len(docs))))
        for which, q in (("caching on", qon), ("caching off", qoff)):
            for i in order:
                got = _n(_run(q, docs[i], extra))
                if got != ref[i]:
                    ctx.violation(f"the result must be a function of (query, document, filter context): {which}, repeated use", {**inp, "doc_index": i}, got if isinstance(got, dict) else got[:6], ref[i] if isinstance(ref[i], dict) else ref[i][:6])
                    break
        # the same compiled object on the same document objects under a sequence of different filter contexts
        if "_" in text:
            seq = list(qpool.CONTEXTS) + list(reversed(qpool.CONTEXTS)) + [{"v": 1, "flag": False, "list": [5], "x": {"y": 2}}, {"v": 5, "flag": True, "list": [1, 2, 5]}]
            for which, q in (("caching on", qon), ("caching off", qoff)):
                bad = False
                for i in range(len(docs)):
                    for e in seq:
                        want = _n(_run(jsonpath.JSONPathEnvironment(filter_caching=False).compile(text), copy.deepcopy(docs[i]), e))
                        got = _n(_run(q, docs[i], e))
                        ctx.count("context-sequence")
                        if got != want:
                            ctx.violation(f"the result must be a function of (query, document, filter context): {which}, same document object, another filter context",
                                          {**inp, "doc_index": i, "filter_context_now": e}, got if isinstance(got, dict) else got[:6], want if isinstance(want, dict) else want[:6])
                            bad = True
                            break
                    if bad:
                        break
        # interleavings of two lazy iterators from the same compiled object (caching on)
        if len(docs) >= 2 and not isinstance(ref[0], dict) and not isinstance(ref[1], dict):
            scheds = set(itertools.permutations("AAABBB"))
            if ctx.tier == "quick":
                scheds = ctx.rng.sample(sorted(scheds), 6)
            # ... over two documents, and over one and the same document object
            for sched, second in [(sc, 1) for sc in scheds] + [(sc, 0) for sc in sorted(scheds)[:4]]:
                try:
                    ia, ib = iter(qon.finditer(docs[0], filter_context=extra)), iter(qon.finditer(docs[second], filter_context=extra))
                    ga, gb = [], []
                    for s in sched:
                        it, acc = (ia, ga) if s == "A" else (ib, gb)
                        try:
                            x = next(it)
                            acc.append([x.path, core.canon(x.obj)])
                        except StopIteration:
                            pass
                    ga += [[x.path, core.canon(x.obj)] for x in ia]
                    gb += [[x.path, core.canon(x.obj)] for x in ib]
                except Exception as e:  # noqa: BLE001
                    ctx.violation("interleaved iteration raised", {**inp, "schedule": "".join(sched)}, core.exc_name(e), "results")
                    break
                ctx.count("interleavings")
                if ga != ref[0] or gb != ref[second]:
                    ctx.violation("lazy iterators from the same compiled query advanced in any interleaving must each yield their own result",
                                  {**inp, "schedule": "".join(sched), "second_iterator_over": "another document" if second else "the same document object"}, [ga[:4], gb[:4]], [ref[0][:4], ref[second][:4]])
                    break
        # two lazy iterators over the SAME document object with different filter contexts, caching on and off
        if "_" in text and not isinstance(ref[0], dict):
            e1, e2 = qpool.CONTEXTS[1], {"v": 1, "flag": False, "list": [5], "x": {"y": 2}}
            w1, w2 = _n(_run(env_off.compile(text), copy.deepcopy(docs[0]), e1)), _n(_run(env_off.compile(text), copy.deepcopy(docs[0]), e2))
            if not isinstance(w1, dict) and not isinstance(w2, dict):
                for which, q in (("caching on", qon), ("caching off", qoff)):
                    for sched in ("ABABAB", "AABBAB", "BBBAAA"):
                        ia, ib = iter(q.finditer(docs[0], filter_context=e1)), iter(q.finditer(docs[0], filter_context=e2))
                        ga, gb = [], []
                        try:
                            for s_ in sched:
                                it, acc = (ia, ga) if s_ == "A" else (ib, gb)
                                try:
                                    x = next(it)
                                    acc.append([x.path, core.canon(x.obj)])
                                except StopIteration:
                                    pass
                            ga += [[x.path, core.canon(x.obj)] for x in ia]
                            gb += [[x.path, core.canon(x.obj)] for x in ib]
                        except Exception as e:  # noqa: BLE001
                            ctx.violation("interleaved iteration raised", {**inp, "schedule": sched}, core.exc_name(e), "results")
                            break
                        ctx.count("interleavings-two-contexts")
                        if ga != w1 or gb != w2:
                            ctx.violation(f"two lazy iterators over the same document with different filter contexts must each see their own context ({which})",
                                          {**inp, "schedule": sched, "contexts": [e1, e2]}, [ga[:4], gb[:4]], [w1[:4], w2[:4]])
                            break
        # the document given as JSON text, several times, with the caller editing what came back (and patching / resolving
        # pointers against the same text) in between: every evaluation sees the text, not what earlier calls made of it
        if isinstance(docs[0], (dict, list)) and not isinstance(ref[0], dict):
            import json as _json
            from jsonpath import JSONPatch, JSONPointer
            txt = _json.dumps(docs[0])
            for which, q in (("caching on", qon), ("caching off", qoff)):
                bad = False
                for rnd in range(3):
                    got = core.outcome(lambda: list(q.finditer(txt, filter_context=extra)))
                    if "err" in got:
                        break
                    now = [[m.path, core.canon(m.obj)] for m in got["ok"]]
                    ctx.count("text-history")
                    if now != ref[0]:
                        ctx.violation(f"evaluating the same JSON text again must give the same result whatever was done with earlier results ({which})",
                                      {**inp, "round": rnd + 1}, now[:4], ref[0][:4])
                        bad = True
                        break
                    # the caller edits the values it was given, the root it can reach, and applies a patch / a pointer to the same text
                    for m in got["ok"]:
                        if isinstance(m.obj, list):
                            m.obj.append("EDITED")
                        elif isinstance(m.obj, dict):
                            m.obj["EDITED"] = rnd
                    root = got["ok"][0].root if got["ok"] else None
                    if isinstance(root, dict):
                        root["k"] = 99
                        root.pop("a", None)
                    elif isinstance(root, list):
                        root.insert(0, {"k": 99, "a": 99})
                    core.outcome(lambda: JSONPatch().add("", {"k": 123, "xs": []}).apply(txt))
                    core.outcome(lambda: JSONPatch().add("/zzz", 1).apply(txt))
                    r = core.outcome(lambda: JSONPointer("").resolve(txt))
                    if "ok" in r and isinstance(r["ok"], dict):
                        r["ok"]["k"] = 77
                if bad:
                    break
        # tasks: one compiled query, several documents / contexts, gathered on one event loop (async getters yield)
        if not isinstance(ref[0], dict) and ctx.rng.random() < (0.3 if ctx.tier == "quick" else 1.0):
            import asyncio

            from .C08 import wrap      # containers whose asynchronous item getter really suspends

            def susp(d):
                return wrap(copy.deepcopy(d)) if isinstance(d, (dict, list)) else d

            async def one(i):
                await asyncio.sleep(0)
                return [[m.path, core.canon(m.obj)] async for m in await qon.finditer_async(susp(docs[i % len(docs)]) if i % 2 else docs[i % len(docs)], filter_context=extra)]

            async def allv(i):
                await asyncio.sleep(0)
                return await qon.findall_async(susp(docs[i % len(docs)]), filter_context=extra)

            async def main():
                return await asyncio.gather(*[one(i) for i in range(6)], *[allv(i) for i in range(3)])
            r = core.outcome(lambda: asyncio.run(main()))
            ctx.count("gather-one-compiled")
            if "err" in r:
                ctx.violation("concurrent tasks on one compiled query raised", inp, r["err"], "results")
            else:
                for i in range(3):
                    want_vals = ref[i % len(docs)] if isinstance(ref[i % len(docs)], dict) else [v for _, v in ref[i % len(docs)]]
                    got_vals = [core.canon(v) for v in r["ok"][6 + i]] if isinstance(r["ok"][6 + i], list) else r["ok"][6 + i]
                    if not isinstance(want_vals, dict) and got_vals != want_vals:
                        ctx.violation("findall_async of one compiled query running concurrently as tasks must return the values of the synchronous evaluation", {**inp, "task": 6 + i}, got_vals[:4], want_vals[:4])
                        break
                for i in range(6):
                    if r["ok"][i] != ref[i % len(docs)]:
                        ctx.violation("evaluations of one compiled query running concurrently as tasks must each return their own result", {**inp, "task": i}, r["ok"][i][:4], ref[i % len(docs)] if isinstance(ref[i % len(docs)], dict) else ref[i % len(docs)][:4])
                        break
        # threads
        if (ctx.tier != "quick" or ctx.rng.random() < 0.15) and not isinstance(ref[0], dict):
            res = [None] * 8
            def work(j):
                res[j] = _n(_run(qon, docs[j % len(docs)], extra))
            ts = [threading.Thread(target=work, args=(j,)) for j in range(8)]
            [t.start() for t in ts]; [t.join() for t in ts]
            for j in range(8):
                if res[j] != ref[j % len(docs)]:
                    ctx.violation("evaluations running concurrently in threads must each return their own result", inp, res[j], ref[j % len(docs)])
        # nothing was modified
        if docs != before_docs or repr(docs) != repr(before_docs):
            ctx.violation("evaluation must not modify the document", inp, docs, before_docs)
        if extra != before_ctx:
            ctx.violation("evaluation must not modify the filter context", inp, extra, before_ctx)
        if str(qon) != before_str or not (env_on.compile(text) == qon) or str(env_on.compile(text)) != before_str:
            ctx.violation("evaluation must not modify the compiled query; re-compiling gives an equal query", inp, str(qon), before_str)


def search(ctx):
    old = ctx.tier
    ctx.tier = "thorough"
    try:
        evaluate(ctx, gen(ctx))
    finally:
        ctx.tier = old


def probe(kf):
    return False
