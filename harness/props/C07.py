"""C07 — Compile-time gate: valid RFC queries accepted, ill-typed or out-of-range refused."""
from __future__ import annotations

import itertools

from .. import core, qeval, qgen

LEVEL = "proof"
READY = True
CLAIM = {
    "text": "Lean theorems over ALL expression trees (any depth): the model of the compile-time checks (arity and per-parameter checks of check_well_typedness, the "
            "non-comparable-operand check, the must-be-compared checks now applied at every logical position, index/slice range checks) accepts a standard expression exactly "
            "when it is well-typed under RFC 9535 2.4.3 (gate_sound, gate_complete, by induction on the tree), and accepts an index or slice bound exactly when it lies within "
            "the configured integer range, for every configuration of the limits (range_gate); `<>` is held to the rules `!=` is held to (lg_gated_as_ne) and the translated COMPARISON_OPERATORS / function registry are the ones the model assumes (comparison_table_ok, registry_is_what_is_modelled). The gate model is tied to parse.py/env.py by compiling rendered trees: all trees "
            "of depth <= 2 over the five functions are enumerated and classified by the Lean typing judgment; boundary integers under default and narrowed limits; leading "
            "zeros, empty and comma-terminated lists.",
    "note": "Trusted: Lean kernel; the gate model JP.Typing and the RFC typing judgment JP.Rfc.wt*; the renderer harness/qgen.py; 'never evaluated' holds by construction "
            "(compile raises, no query object exists).",
    "technique": "Lean 4 soundness/completeness proof of the gate model against the RFC typing judgment + differential correspondence on enumerated expression trees",
}
RULE = ("all expression trees of depth <= 2 (quick: depth <= 1 complete, depth 2 sampled; thorough: depth 2 complete up to a cap, depth 3 sampled) over {5 functions with every "
        "argument kind and wrong arities, @.a, @.*, $.a, $..a, literal of each kind, comparison, && || !, unknown function}, classified by the Lean RFC typing judgment; "
        "integers at min-1,min,min+1,max-1,max,max+1 under default and narrowed limits, as index and as each slice bound; leading zeros; empty / comma-terminated lists; "
        "non-trivial = the tree has depth >= 1")
TRUSTED = ["Lean 4.33 kernel; standard axioms only", "gate model and RFC typing judgment tied to parse.py/env.py by this differential run", "harness/qgen.py renderer"]
ASSUMPTIONS = ["type checks enabled (well_typed=True)"]

SING = [{"t": "self", "q": [{"g": "child", "sels": [{"s": "name", "v": "a"}]}]},
        {"t": "root", "q": [{"g": "child", "sels": [{"s": "name", "v": "a"}]}, {"g": "child", "sels": [{"s": "index", "v": 0}]}], "fake": False},
        {"t": "self", "q": []}]
NONSING = [{"t": "self", "q": [{"g": "child", "sels": [{"s": "wild"}]}]},
           {"t": "root", "q": [{"g": "desc"}, {"g": "child", "sels": [{"s": "name", "v": "a"}]}], "fake": False},
           {"t": "self", "q": [{"g": "child", "sels": [{"s": "name", "v": "a"}, {"s": "name", "v": "b"}]}]},
           {"t": "self", "q": [{"g": "child", "sels": [{"s": "slice", "a": 0, "b": 1, "c": None}]}]}]
LITS = [{"t": "int", "v": 1}, {"t": "str", "v": "x"}, {"t": "bool", "v": True}, {"t": "nil"}, {"t": "flt", "m": 12}]
FUNCS = {"length": 1, "count": 1, "value": 1, "match": 2, "search": 2, "nosuch": 1}
CMP = ["==", "!=", "<", "<=", ">", ">="]


def atoms():
    return SING + NONSING + LITS


def trees(depth, rng=None, cap=None):
    """all untyped expression trees up to `depth` (operands of comparisons are atoms or function calls only)"""
    if depth == 0:
        return atoms()
    sub = trees(depth - 1, rng, cap)
    if cap and len(sub) > cap:
        sub = rng.sample(sub, cap)
    out = list(atoms())
    operands = [t for t in sub if t["t"] in ("self", "root", "int", "str", "bool", "nil", "flt", "func")]
    for name, ar in FUNCS.items():
        for n in {ar, ar + 1, max(ar - 1, 0)}:
            for args in itertools.product(sub if n <= 1 else (sub if len(sub) <= 40 else (rng.sample(sub, 40) if rng else sub[:40])), repeat=n):
                out.append({"t": "func", "name": name, "args": list(args)})
    small = operands if len(operands) <= 60 else (rng.sample(operands, 60) if rng else operands[:60])
    for op in CMP[:2] + ["<"]:
        for l in small:
            for r in small:
                out.append({"t": "infix", "l": l, "op": op, "r": r})
    lsub = sub if len(sub) <= 60 else (rng.sample(sub, 60) if rng else sub[:60])
    for op in ("&&", "||"):
        for l in lsub:
            for r in lsub:
                out.append({"t": "infix", "l": l, "op": op, "r": r})
    for e in sub:
        if e["t"] != "not":
            out.append({"t": "not", "e": e})
    return out


def gen(ctx):
    cases = []
    d1 = trees(1, ctx.rng)
    ctx.exhaustive_spaces.append(f"all {len(d1)} expression trees of depth <= 1")
    pool = list(d1)
    d2 = trees(2, ctx.rng, cap=120)
    pool += ctx.rng.sample(d2, min(len(d2), 2500 if ctx.tier == "quick" else 60000))
    if ctx.tier != "quick":
        d3 = trees(3, ctx.rng, cap=60)
        pool += ctx.rng.sample(d3, min(len(d3), 40000))
    # complete: every two-parameter call whose arguments are atoms or one-argument calls on atoms (argument typing at depth 2)
    a0 = atoms()
    arg_pool = a0 + [{"t": "func", "name": f, "args": [x]} for f in ("length", "count", "value") for x in (SING[:2] + NONSING[:2] + LITS[:2])] + \
        [{"t": "func", "name": "match", "args": [SING[0], {"t": "str", "v": "a."}]}, {"t": "infix", "l": SING[0], "op": "==", "r": {"t": "int", "v": 1}}]
    for f in ("match", "search"):
        for x in arg_pool:
            for y in arg_pool:
                call = {"t": "func", "name": f, "args": [x, y]}
                pool.append(call)
                pool.append({"t": "infix", "l": call, "op": "&&", "r": SING[0]})
    for f in ("length", "count", "value"):
        for x in arg_pool:
            inner = {"t": "func", "name": f, "args": [x]}
            pool.append({"t": "infix", "l": inner, "op": "==", "r": {"t": "int", "v": 1}})
            pool.append({"t": "infix", "l": {"t": "int", "v": 1}, "op": "<", "r": inner})
    # pattern literals that Python's `re` refuses (or that are valid I-Regexp only): a string literal is a well-typed
    # argument whatever it holds - RFC 9535 makes the function false for it at evaluation time - so the query compiles
    odd_patterns = ["[", "(", ")", "a{2,1}", "+", "*a", "a**", "(?P<", "\\", "\\p{Ll}", "[a-", "(?", "a{99999999999}", "[[:alpha:]]", "\\1", "x", ""]
    for f in ("match", "search"):
        for pat in odd_patterns:
            for subj in (SING[0], SING[2], {"t": "str", "v": "abc"}):
                call = {"t": "func", "name": f, "args": [subj, {"t": "str", "v": pat}]}
                pool.append(call)
                pool.append({"t": "not", "e": call})
                pool.append({"t": "infix", "l": call, "op": "||", "r": SING[0]})
                pool.append({"t": "infix", "l": {"t": "func", "name": "count", "args": [{"t": "self", "q": [{"g": "child", "sels": [{"s": "filter", "e": call}]}]}]}, "op": "==", "r": {"t": "int", "v": 0}})
    ctx.exhaustive_spaces.append(f"all match/search calls over {len(arg_pool)} x {len(arg_pool)} arguments (atoms and nested calls), bare and under &&; all length/count/value calls over {len(arg_pool)} arguments as comparison operands")
    names = ["a", "b", "c", "k"]
    for _ in range(1500 if ctx.tier == "quick" else 30000):
        pool.append(qgen.gen_logical(ctx.rng, ctx.rng.randint(1, 3), names))   # well-typed by construction (checked by the Lean judgment too)
    for e in pool:
        cases.append({"kind": "tree", "ast": {"segs": [{"g": "child", "sels": [{"s": "filter", "e": e}]}], "fake": False}})
    # the same trees at the other positions of a query where a filter may stand ("at any position")
    F = lambda e: {"g": "child", "sels": [{"s": "filter", "e": e}]}                                    # noqa: E731
    name_a = {"g": "child", "sels": [{"s": "name", "v": "a"}]}
    for e in ctx.rng.sample(pool, min(len(pool), 700 if ctx.tier == "quick" else 20000)):
        w = ctx.rng.randrange(6)
        if w == 0:      # inside the query of an existence test of an outer filter
            ast = {"segs": [F({"t": "self", "q": [name_a, F(e)]})], "fake": False}
        elif w == 1:    # inside the query argument of count()
            ast = {"segs": [F({"t": "infix", "l": {"t": "func", "name": "count", "args": [{"t": "self", "q": [F(e)]}]}, "op": ">", "r": {"t": "int", "v": 1}})], "fake": False}
        elif w == 2:    # after a descendant segment
            ast = {"segs": [{"g": "desc"}, F(e)], "fake": False}
        elif w == 3:    # as one selector of a bracketed selection
            ast = {"segs": [{"g": "child", "sels": [{"s": "index", "v": 0}, {"s": "filter", "e": e}]}], "fake": False}
        elif w == 4:    # under the fake root
            ast = {"segs": [F(e)], "fake": True}
        else:           # as a later operand of a compound query
            cases.append({"kind": "tree", "ast": {"segs": [F(e)], "fake": False}, "prefix": "$.a | ", "where": "compound operand"})
            continue
        cases.append({"kind": "tree", "ast": ast, "where": ["nested filter", "count() argument", "after ..", "selector list", "fake root"][w]})
    # integer ranges
    dmin, dmax = -(2**53) + 1, 2**53 - 1
    for (lo, hi, name) in [(dmin, dmax, "default"), (-10, 10, "narrow"), (0, 5, "narrow0")]:
        for v in [lo - 1, lo, lo + 1, hi - 1, hi, hi + 1, 0, -1, 1]:
            for form in ["$[{}]", "$[{}:]", "$[:{}]", "$[::{}]", "$[1, {}]", "$..[{}]", "$[?@[{}]]", "$[?@[{}:]]", "$[?length(@[{}]) == 1]", "$[?@[?@[{}]]]", "$.a | $[{}]", "^[{}]",
                         "$[?count(@[:{}]) > 0]", "$.a & $..[{}:]"]:
                cases.append({"kind": "range", "text": form.format(v), "limits": [lo, hi], "value": v})
    for t in ["$[00]", "$[01]", "$[-0]", "$[-01]", "$[0]", "$[10]", "$[-1]", "$[]", "$[1,]", "$[,1]", "$['a',]", "$[1, ]", "$[ ]", "$[*,]", "$[?@.a,]", "$[1:2,]", "$[1,,2]",
              "$[?@[01]]", "$[?@[]]", "$..[]", "$[1 2]"]:
        cases.append({"kind": "syntax", "text": t})
    # complete: every integer text of up to 4 digits over {0, 1, 9}, signed and unsigned, in four positions
    import itertools
    for n in range(1, 5):
        for ds in itertools.product("019", repeat=n):
            for sign in ("", "-"):
                v = sign + "".join(ds)
                for form in ["$[{}]", "$[1, {}]", "$..[{}]", "$[?@[{}]]"]:
                    cases.append({"kind": "inttext", "text": form.format(v), "v": v})
    ctx.exhaustive_spaces.append("index texts: every -?[019]{1,4} in four positions (960 queries), against the RFC 9535 int grammar and the Lean model of the leading-zero test")
    return cases


_envs = {}


def env_for(limits):
    import jsonpath
    k = tuple(limits)
    if k not in _envs:
        cls = type("LimEnv", (jsonpath.JSONPathEnvironment,), {"min_int_index": limits[0], "max_int_index": limits[1]})
        _envs[k] = cls()
    return _envs[k]


SYNTAX_EXPECT = {"$[0]": True, "$[10]": True, "$[-1]": True}


_WT_ENV = None


def _explicit_env_compile(text):
    """the observation point JSONPathEnvironment(well_typed=True).compile"""
    global _WT_ENV
    import jsonpath
    if _WT_ENV is None:
        _WT_ENV = jsonpath.JSONPathEnvironment(well_typed=True)
    return core.outcome(lambda: _WT_ENV.compile(text))


def _evaluate(ctx, cases, _texts_for_compile):
    reqs, meta = [], []
    for c in cases:
        if c["kind"] == "inttext":
            reqs.append({"op": "syn.indextext", "v": c["v"]})
            meta.append(c)
        if c["kind"] == "tree":
            reqs.append({"op": "q.typed", "path": c["ast"]})
            meta.append(c)
    outs = ctx.driver.run(reqs, jobs=ctx.jobs)
    tmap = {id(c): m.get("wt") for c, m in zip(meta, outs)}
    gmap = {id(c): m for c, m in zip(meta, outs)}
    import re as _re
    for c in cases:
        if c["kind"] == "inttext":
            g = gmap[id(c)]
            o = qeval.compile_outcome(c["text"])
            rfc = bool(_re.fullmatch(r"0|-?[1-9][0-9]*", c["v"]))       # RFC 9535: int = "0" / (["-"] DIGIT1 *DIGIT)
            ctx.case(c["text"], True, sample=c)
            ctx.count(f"inttext:rfc={rfc}")
            refused = "err" in o
            if refused != g["refused"] or not g["shape"]:
                ctx.mismatch("syn.indextext", c, {"refused": refused}, g)
            if g["refused"] != (not g["rfc"]) or g["rfc"] != rfc:
                ctx.violation("model: the leading-zero test differs from the RFC int grammar (proof obligation leading_zero_gate)", c, g, rfc)
            if rfc and refused:
                ctx.violation("an index that is an RFC 9535 int must compile", c, o, "compiles")
            if not rfc and not refused:
                ctx.violation("an index with a leading zero (or -0) must be rejected at compile time", c, "compiled", "JSONPathSyntaxError")
            if refused and o.get("family") != "jsonpath":
                ctx.violation("rejection must be a JSONPath error", c, o, "JSONPathError family")
            continue
        if c["kind"] == "tree":
            wt = tmap[id(c)]
            r = qgen.R(ctx.rng, blanks=ctx.rng.random() < 0.3, canonical=ctx.rng.random() < 0.3)
            text = c.get("prefix", "") + qgen.render_path(c["ast"], r)
            if "where" in c:
                ctx.count("position:" + c["where"])
            o = qeval.compile_outcome(text) if ctx.rng.random() < 0.5 else _explicit_env_compile(text)
            if "ok" in o and len(_texts_for_compile) < 6000:
                _texts_for_compile.append(text)
            ok = "ok" in o
            ctx.case(text, True, sample={"query": text, "rfc_well_typed": wt, "compiled": ok})
            ctx.count(f"tree:wt={wt}")
            inp = {"text": text, "ast": c["ast"]}
            g = gmap[id(c)]
            if g["gate"] != ok:
                ctx.mismatch("gate", inp, ok, g["gate"])
            if g["scope"] and g["gate"] != wt:
                ctx.violation("gate model differs from the RFC typing judgment (proof obligation gate_iff_wt)", inp, g["gate"], wt)
            if wt and not ok:
                ctx.violation("a query that is well-formed and well-typed under RFC 9535 must compile", inp, o, "compiles")
            if not wt and ok:
                ctx.violation("a query that breaks an RFC 9535 typing rule must be rejected at compile time", inp, "compiled", "JSONPath error")
            if not ok and o.get("family") != "jsonpath":
                ctx.violation("rejection must be a JSONPath error", inp, o, "JSONPathError family")
        elif c["kind"] == "range":
            env = env_for(c["limits"])
            o = core.outcome(lambda: env.compile(c["text"]))
            inside = c["limits"][0] <= c["value"] <= c["limits"][1]
            ctx.case((c["text"], tuple(c["limits"])), True, sample=c)
            ctx.count(f"range:inside={inside}")
            if inside and "err" in o:
                ctx.violation("an index or slice bound within the configured integer range must be accepted", c, o, "compiles")
            if not inside and "ok" in o:
                ctx.violation("an index or slice bound outside the configured integer range must be rejected at compile time", c, "compiled", "JSONPathIndexError")
            if "err" in o and o.get("family") != "jsonpath":
                ctx.violation("rejection must be a JSONPath error", c, o, "JSONPathError family")
        else:
            o = qeval.compile_outcome(c["text"])
            want = SYNTAX_EXPECT.get(c["text"], False)
            ctx.case(c["text"], True, sample=c)
            ctx.count("syntax")
            if want and "err" in o:
                ctx.violation("a valid index selector must compile", c, o, "compiles")
            if not want and "ok" in o:
                ctx.violation("leading zeros, empty or comma-terminated bracket lists must be rejected", c, "compiled", "JSONPathSyntaxError")
            if "err" in o and o.get("family") != "jsonpath":
                ctx.violation("rejection must be a JSONPath error", c, o, "JSONPathError family")


def evaluate(ctx, cases):
    texts = []
    try:
        _evaluate(ctx, cases, texts)
    finally:
        # every accepted (well-typed) rendering: the composed lexer / decoding / parser model yields the query the implementation compiled
        import jsonpath as _jp
        from .. import lexcorr
        if texts:
            lexcorr.run_compile(ctx, _jp.DEFAULT_ENV, texts)


def search(ctx):
    old = ctx.tier
    ctx.tier = "thorough"
    try:
        evaluate(ctx, gen(ctx))
    finally:
        ctx.tier = old


def probe(kf):
    return False
