"""C15 — A patch is a faithful, reusable value: document, builder and dict forms agree."""
from __future__ import annotations

import copy
import json

from .. import core
from .. import gen as G
from . import C05

LEVEL = "proof"
READY = True
CLAIM = {
    "text": "Lean theorems over ALL operation lists: building a patch from its document form yields, operation by operation, the operation the matching builder call creates "
            "(load_eq_build: in particular `addap` builds an add-or-append operation), asdicts(build ds) = ds for well-formed operation dicts and build(asdicts p) = p "
            "(round trip), every printed dict carries the name it was given, apply is a function of (patch, document) alone in the model, addne equals add except that an "
            "existing object member is left untouched, addap equals add except that it appends when the array index cannot be resolved. Aliasing (the patch's stored values vs "
            "the caller's dicts vs the patched documents) cannot be expressed in the pure model: it is decided on histories - the same patch object applied repeatedly to "
            "deep copies, with later operations of the patch modifying containers inserted by earlier ones, comparing asdicts(), the caller's list and the results after "
            "every application and after mutating a result.",
    "note": "Trusted: Lean kernel; model JP.Patch; aliasing/independence is an observation on histories, not a theorem.",
    "technique": "Lean 4 theorems on the patch build/print model (round trip, addne/addap specs) + differential histories for aliasing",
}
RULE = ("operation lists of length <= 5 over the 8 operations (incl. addne/addap) whose values are containers that a later operation of the same patch modifies, built three "
        "ways (JSON text, builder chain, own asdicts()), applied 3 times to deep copies of documents; non-trivial = at least two operations")
TRUSTED = ["Lean 4.33 kernel; standard axioms only", "model JP/Patch.lean tied to patch.py by this differential run"]
ASSUMPTIONS = ["documents are trees; patches are given as lists of dicts or the equivalent JSON text"]


def ops_pool(rng):
    vals = [[], {}, [1], {"k": []}, 1, "v", None, {"a": {"b": []}}]
    paths = ["/a", "/a/-", "/a/0", "/b", "/b/k", "/a/0/-", "/c", "/a/1", "", "/b/k/-", "/x/y", "/a/9", "/1"]
    out = []
    for _ in range(rng.randint(1, 5)):
        name = rng.choice(["add", "add", "add", "addne", "addap", "remove", "replace", "move", "copy", "test"])
        if name in ("add", "addne", "addap", "replace", "test"):
            out.append({"op": name, "path": rng.choice(paths), "value": copy.deepcopy(rng.choice(vals))})
        elif name == "remove":
            out.append({"op": name, "path": rng.choice(paths)})
        else:
            out.append({"op": name, "from": rng.choice(paths), "path": rng.choice(paths)})
    return out


def gen(ctx):
    cases = [
        {"ops": [{"op": "add", "path": "/a", "value": []}, {"op": "add", "path": "/a/-", "value": 1}], "doc": {}},
        {"ops": [{"op": "addap", "path": "/a/7", "value": 1}], "doc": {"a": [1]}},
        {"ops": [{"op": "addne", "path": "/a", "value": 2}, {"op": "addne", "path": "/b", "value": 2}], "doc": {"a": 1}},
        {"ops": [{"op": "addne", "path": "/a/7", "value": 2}], "doc": {"a": [1]}},
        {"ops": [{"op": "replace", "path": "", "value": {"r": []}}, {"op": "add", "path": "/r/-", "value": 1}], "doc": {"a": 1}},
        {"ops": [{"op": "add", "path": "/a", "value": {"k": []}}, {"op": "copy", "from": "/a", "path": "/b"}, {"op": "add", "path": "/b/k/-", "value": 1}], "doc": {}},
    ]
    # one Python object as the value of several operations, edited by a later operation: every use is its own copy
    for mk in (lambda: {"items": []}, lambda: [[]], lambda: {"k": {"n": []}}):
        v = mk()
        inner = "/items/-" if "items" in (v if isinstance(v, dict) else {}) else ("/0/-" if isinstance(v, list) else "/k/n/-")
        for first, second in (("add", "add"), ("add", "replace"), ("addne", "add"), ("add", "addap")):
            shared = [{"op": first, "path": "/a", "value": v}, {"op": second, "path": "/b" if second != "addap" else "/l/9", "value": v}, {"op": "add", "path": "/a" + inner, "value": 1}]
            cases.append({"ops": shared, "doc": {"b": 0, "l": []}})
            cases.append({"ops": shared + [{"op": "copy", "from": "/a", "path": "/c"}, {"op": "add", "path": "/c" + inner, "value": 2}], "doc": {"b": 0, "l": []}})
    # complete grid for the two non-standard operations: every final token kind x every parent kind
    gdocs = [{"a": 1, "foo": {"a": 1, "#a": 2, "0": 3}, "arr": [1, 2], "#foo": 0, "e": {}}, {"foo": 1}, [[1], {"a": 1}], {"~a": 1, "a": [0]}]
    gtoks = ["a", "#a", "~0a", "#foo", "~0foo", "foo", "0", "1", "2", "3", "-", "#0", "#1", "~00", "zz", "", "01", "-1"]
    for gd in gdocs:
        for par, _ in G.locations(gd):
            for t in gtoks:
                path = G.rfc6901_spell(par) + "/" + t
                for name in ("addne", "addap", "add"):
                    cases.append({"ops": [{"op": name, "path": path, "value": 9}], "doc": copy.deepcopy(gd), "grid": True})
    ctx.exhaustive_spaces.append("addne/addap/add x %d final tokens (names, '#'/'~'-prefixed look-alikes of existing members, indices, '-', '') x every location of %d documents" % (len(gtoks), len(gdocs)))
    # member names that look URI-encoded, unicode-escaped or blank-padded: a patch path is taken literally in every form
    pdoc = {"a%20b": 0, "a b": 1, "x%2Fy": [1], "x": {"y": 2}, "%7E": 3, "~": 4, "a+b": 5, "\\u0061": 6, "a": 7, " a": 8}
    ptoks = ["a%20b", "a b", "x%2Fy", "x/y".replace("/", "~1"), "%7E", "~0", "a+b", "%", "%zz", "%41", " a"]
    for t in ptoks:
        for u in ptoks[:6]:
            for op in ({"op": "add", "path": "/" + t, "value": 9}, {"op": "replace", "path": "/" + t, "value": 9}, {"op": "test", "path": "/" + t, "value": 0}, {"op": "remove", "path": "/" + t},
                       {"op": "copy", "from": "/" + t, "path": "/" + u}, {"op": "move", "from": "/" + u, "path": "/" + t}, {"op": "addne", "path": "/" + t, "value": 9}):
                if op["op"] in ("copy", "move") or u == ptoks[0]:
                    cases.append({"ops": [op], "doc": copy.deepcopy(pdoc)})
    docs = [{}, {"a": [1]}, {"a": [], "b": {"k": []}}, [], {"a": {"0": 1}, "b": 1}, {"a": [[]], "1": 0}]
    for _ in range(1200 if ctx.tier == "quick" else 25000):
        cases.append({"ops": ops_pool(ctx.rng), "doc": copy.deepcopy(ctx.rng.choice(docs))})
    return cases


def builder(ops, P, style=0):
    """style 0: text paths, positional; 1: JSONPointer objects; 2: keyword arguments"""
    from jsonpath import JSONPointer
    p = P()
    def from_parts(x):       # a pre-parsed pointer whose index tokens are strings (as from_parts / to() produce them)
        return JSONPointer.from_parts([t.replace("~1", "/").replace("~0", "~") for t in x.split("/")[1:]]) if x.startswith("/") or x == "" else x
    w = (lambda x: JSONPointer(x)) if style == 1 else (from_parts if style == 3 else (lambda x: x))
    for o in ops:
        n = o["op"]
        if n in ("add", "addne", "addap", "replace", "test"):
            if style == 2:
                getattr(p, n)(path=o["path"], value=o["value"])
            else:
                getattr(p, n)(w(o["path"]), o["value"])
        elif n == "remove":
            p.remove(path=o["path"]) if style == 2 else p.remove(w(o["path"]))
        elif n == "move":
            p.move(from_=o["from"], path=o["path"]) if style == 2 else p.move(w(o["from"]), w(o["path"]))
        else:
            p.copy(from_=o["from"], path=o["path"]) if style == 2 else p.copy(w(o["from"]), w(o["path"]))
    return p


def _rfc_parent(doc, toks):
    """RFC 6901 walk to the parent of the last token; None when it does not exist."""
    cur = doc
    for t in toks[:-1]:
        if isinstance(cur, dict) and t in cur:
            cur = cur[t]
        elif isinstance(cur, list) and (t == "0" or (t.isascii() and t.isdigit() and t[0] != "0")) and int(t) < len(cur):
            cur = cur[int(t)]
        else:
            return None
    return cur


def _nonstandard_ops(ctx, c):
    """addne = add unless the object member exists (then nothing changes); addap = add unless the array
    index is beyond the end (then append). Decided on the implementation against an independent reading."""
    from jsonpath import JSONPatch
    op = c["ops"][0]
    if len(c["ops"]) != 1 or op["op"] not in ("addne", "addap") or not op["path"].startswith("/"):
        return
    doc = c["doc"]
    toks = [x.replace("~1", "/").replace("~0", "~") for x in op["path"].split("/")[1:]]
    parent = _rfc_parent(doc, toks)
    if parent is None:
        return
    def run(o):
        r = core.outcome(lambda: JSONPatch([o]).apply(copy.deepcopy(doc)))
        return {"ok": core.canon(r["ok"])} if "ok" in r else {"err": r["err"]}
    got = run(op)
    as_add = run({**op, "op": "add"})
    last = toks[-1]
    if op["op"] == "addne":
        want = {"ok": core.canon(doc)} if isinstance(parent, dict) and last in parent else as_add
        if got != want:
            ctx.violation("addne differs from add only in leaving an existing object member untouched", {"ops": c["ops"], "doc": doc}, got, want)
    else:
        if "ok" in as_add:
            want = as_add
        elif isinstance(parent, list) and (last == "0" or (last.isascii() and last.isdigit() and last[0] != "0")) and int(last) >= len(parent):
            d2 = copy.deepcopy(doc)
            _rfc_parent(d2, toks).append(op["value"])
            want = {"ok": core.canon(d2)}
        else:
            return
        if got != want:
            ctx.violation("addap differs from add only in appending when the array index cannot be resolved", {"ops": c["ops"], "doc": doc}, got, want)


def evaluate(ctx, cases):
    if not getattr(ctx, "_opt_hist_done", False):
        ctx._opt_hist_done = True
        _option_histories(ctx)
    from jsonpath import JSONPatch

    for c in cases:
        _nonstandard_ops(ctx, c)
    reqs = [{"op": "patch.apply", "ops": core.enc(c["ops"]), "doc": core.enc(c["doc"]), "ue": True} for c in cases]
    outs = ctx.driver.run(reqs, jobs=ctx.jobs)
    for c, m in zip(cases, outs):
        ops, doc = c["ops"], c["doc"]
        inp = {"ops": ops, "doc": doc}
        ctx.case(repr(c), len(ops) >= 2, sample=c)
        callers = copy.deepcopy(ops)          # the caller's list, handed to the constructor
        snapshot = copy.deepcopy(ops)
        o1 = core.outcome(lambda: JSONPatch(callers))
        o2 = core.outcome(lambda: JSONPatch(json.dumps(ops)))
        o3 = core.outcome(lambda: builder(copy.deepcopy(ops), JSONPatch))
        if not ("ok" in o1 and "ok" in o2 and "ok" in o3):
            kinds = [x.get("err") for x in (o1, o2, o3)]
            if len(set(kinds)) != 1:
                ctx.violation("the three ways of constructing a patch must fail alike", inp, kinds, "same")
            if {"err": o1.get("err")} != m["asdicts"] and "err" in o1:
                ctx.mismatch("patch.build", inp, {"err": o1.get("err")}, m["asdicts"])
            continue
        p1, p2, p3 = o1["ok"], o2["ok"], o3["ok"]
        d1 = p1.asdicts()
        printed = [core.canon(p.asdicts()) for p in (p1, p2, p3)]
        if not (printed[0] == printed[1] == printed[2]):
            ctx.violation("document form, builder chain and dict form must print the same list of dicts", inp, printed, "all equal")
        if [d.get("op") for d in d1] != [o["op"] for o in ops]:
            ctx.violation("each printed dict must carry the operation name it was given", inp, [d.get("op") for d in d1], [o["op"] for o in ops])
        if printed[0] != core.canon(snapshot):
            ctx.violation("asdicts() must reproduce the operations the patch was built from", inp, printed[0], core.canon(snapshot))
        p4 = JSONPatch(copy.deepcopy(d1))
        if core.canon(p4.asdicts()) != printed[0]:
            ctx.violation("a patch built from its own asdicts() must print the same", inp, core.canon(p4.asdicts()), printed[0])
        if {"ok": printed[0]} != m["asdicts"]:
            ctx.mismatch("patch.asdicts", inp, {"ok": printed[0]}, m["asdicts"])
        # repeated application of the same object to deep copies
        results = []
        for k in range(3):
            r = core.outcome(lambda: p1.apply(copy.deepcopy(doc)))
            results.append({"ok": core.canon(r["ok"])} if "ok" in r else {"err": r["err"]})
            if core.canon(p1.asdicts()) != printed[0]:
                ctx.violation("applying a patch must not change the patch itself", {**inp, "application": k + 1}, core.canon(p1.asdicts()), printed[0])
                break
            if callers != snapshot:
                ctx.violation("applying a patch must not change the caller's operation list", {**inp, "application": k + 1}, core.canon(callers), core.canon(snapshot))
                break
            if k == 0 and "ok" in r:
                first = r["ok"]
        if len(results) < 3:
            continue
        if not (results[0] == results[1] == results[2]):
            ctx.violation("applying the same patch repeatedly to equal documents must give equal results", inp, results, "all equal")
        if results[0] != m["result"]:
            ctx.mismatch("patch.apply", inp, results[0], m["result"])
        import io
        more = []
        for style in (1, 2, 3):
            b = core.outcome(lambda: builder(copy.deepcopy(ops), JSONPatch, style))
            if "ok" in b:
                more.append(b["ok"])
            else:
                ctx.violation("the builder must accept pointer objects and keyword arguments as it accepts text", {**inp, "builder_style": style}, b["err"], "a patch")
        for mk in (lambda: JSONPatch(io.StringIO(json.dumps(ops))), lambda: JSONPatch(io.BytesIO(json.dumps(ops, ensure_ascii=False).encode("utf-8"))),
                   # the operations as any iterable of mappings (the documented parameter type): a tuple, a one-shot iterator, a generator
                   lambda: JSONPatch(tuple(copy.deepcopy(ops))), lambda: JSONPatch(iter(copy.deepcopy(ops))), lambda: JSONPatch(dict(o) for o in copy.deepcopy(ops))):
            b = core.outcome(mk)
            if "ok" in b:
                more.append(b["ok"])
            else:
                ctx.violation("a patch document given as a file-like object must build like its text", inp, b["err"], "a patch")
        for other in [p2, p3, p4] + more:
            if core.canon(other.asdicts()) != printed[0]:
                ctx.violation("every construction form must print the same list of dicts", inp, core.canon(other.asdicts()), printed[0])
            for k in range(2):     # each of them repeatedly
                r = core.outcome(lambda: other.apply(copy.deepcopy(doc)))
                rr = {"ok": core.canon(r["ok"])} if "ok" in r else {"err": r["err"]}
                if rr != results[0]:
                    ctx.violation("patches constructed in different ways must have the same effect, on every application", {**inp, "application": k + 1}, rr, results[0])
                    break
            if core.canon(other.asdicts()) != printed[0]:
                ctx.violation("applying a patch must not change the patch itself (whatever way it was constructed)", inp, core.canon(other.asdicts()), printed[0])
        # independence: mutate the first result in depth, re-apply, compare
        if "ok" in results[0]:
            ra = p1.apply(copy.deepcopy(doc))
            rb = p1.apply(copy.deepcopy(doc))
            before = core.canon(rb)
            for _, v in list(G.locations(ra)):
                if isinstance(v, list):
                    v.append("MUT")
                elif isinstance(v, dict):
                    v["MUT"] = 1
            if core.canon(rb) != before or core.canon(p1.asdicts()) != printed[0] or core.canon(p1.apply(copy.deepcopy(doc))) != before:
                ctx.violation("results of repeated applications must be mutually independent (and independent of the patch)", inp, "shared structure", "independent")
        # the document given as JSON text (equal documents, no object the caller could share): every application starts from the text
        if isinstance(doc, (dict, list)):
            txt = json.dumps(doc)
            tr = []
            for k in range(3):
                r = core.outcome(lambda: (p1 if k != 1 else p4).apply(txt if k < 2 else io.StringIO(txt)))
                tr.append({"ok": core.canon(r["ok"])} if "ok" in r else {"err": r["err"]})
                if "ok" in r and isinstance(r["ok"], (dict, list)):
                    (r["ok"].append("MUT") if isinstance(r["ok"], list) else r["ok"].update({"MUT": 1}))
            ctx.count("json-text-document")
            if not (tr[0] == tr[1] == tr[2] == results[0]):
                ctx.violation("applying a patch repeatedly to the same JSON text must give the result of applying it to the parsed value, every time", {**inp, "document_text": txt}, tr, results[0])


def _option_histories(ctx):
    """Patches built one after another in one process with different pointer options from the same raw path text: each means
    what its own options say (builder form under the same options as the reference), whatever was built before."""
    from jsonpath import JSONPatch
    doc = {"a%20b": 0, "a b": 1, "x%2Fy": 2, "x/y": 3, "\\u0061": 4, "a": 5}
    paths = ["/a%20b", "/x%2Fy", "/\\u0061", "/a"]
    optss = [{"uri_decode": True}, {}, {"unicode_escape": False}, {"uri_decode": True, "unicode_escape": False}, {}]
    for order in (optss, list(reversed(optss))):
        for path in paths:
            for opts in order:
                for opname, mk in (("add", lambda P: P.add(path, 9)), ("addne", lambda P: P.addne(path, [1])), ("replace", lambda P: P.replace(path, 9)), ("test", lambda P: P.test(path, doc.get(path[1:], None)))):
                    ref = core.outcome(lambda: mk(JSONPatch(**opts)))
                    od = {"op": opname, "path": path, "value": (9 if opname in ("add", "replace") else [1] if opname == "addne" else doc.get(path[1:], None))}
                    got = core.outcome(lambda: JSONPatch([dict(od)], **opts))
                    ctx.count("option-histories")
                    if ("ok" in ref) != ("ok" in got):
                        ctx.violation("a patch built from dicts must be accepted exactly when the builder accepts it, under the same options", {"op": od, "options": opts}, got.get("err", "built"), ref.get("err", "built"))
                        continue
                    if "ok" not in ref:
                        continue
                    a, b = core.canon(got["ok"].asdicts()), core.canon(ref["ok"].asdicts())
                    ra = core.outcome(lambda: got["ok"].apply(copy.deepcopy(doc)))
                    rb = core.outcome(lambda: ref["ok"].apply(copy.deepcopy(doc)))
                    na = {"ok": core.canon(ra["ok"])} if "ok" in ra else {"err": ra["err"]}
                    nb = {"ok": core.canon(rb["ok"])} if "ok" in rb else {"err": rb["err"]}
                    if a != b or na != nb:
                        ctx.violation("document and builder forms under the same options must print the same dicts and have the same effect, whatever patches were built before",
                                      {"op": od, "options": opts, "doc": doc}, [a, na], [b, nb])


def search(ctx):
    old = ctx.tier
    ctx.tier = "thorough"
    try:
        evaluate(ctx, gen(ctx))
    finally:
        ctx.tier = old


def probe(kf):
    """Replay a recorded known finding on the implementation; True if it still fails."""
    from jsonpath import JSONPatch

    pr = kf["probe"]
    try:
        first = JSONPatch(pr["ops"]).asdicts()
        again = JSONPatch(first).asdicts()
        return not (first[0]["path"] == pr["expect_path"] and again == first)
    except Exception:  # noqa: BLE001
        return True
