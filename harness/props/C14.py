"""C14 — JSON Pointer text, tokens and navigation operations are mutually consistent."""
from __future__ import annotations

import itertools

from .. import core
from .. import gen as G

LEVEL = "proof"
READY = True
CLAIM = {
    "text": "Lean theorems for all token lists / pointer strings without leading blanks or backslashes: print(parse s) = s, "
            "tokens(parse(spell ts)) = ts, equality is equality of reference tokens for every constructor (parse, from_parts, join, parent), "
            "join/parent/relative/resolve laws, is_relative_to = proper token-wise extension (a strict order); model tied to pointer.py by differential execution over ALL token sequences of length <= 3 "
            "over an 21-token alphabet and join/parent chains, and the laws are evaluated directly on the implementation.",
    "note": "Trusted: Lean kernel; model JP.Pointer validated differentially; unicode-escape codec abstract (fast path modelled); "
            "int-like tokens beyond +-(2^53-1) excluded (constructor rejects them: known finding C04-KF1).",
    "technique": "Lean 4 round-trip and navigation theorems on the pointer model + differential correspondence",
}
RULE = ("all reference-token sequences of length <= 3 (quick: length <= 2 complete, length 3 sampled) over the alphabet "
        "{~ / 0 1 - + SP # é a '' ~0 ~1 ~01 01 -1 +1 1_0 １}; for each: parse/print, from_parts, equality against from_parts and "
        "against other pointers, join/parent/is_relative_to/resolve laws with every token; chains of join/parent; non-trivial = at least one token")
TRUSTED = [
    "Lean 4.33 kernel; axioms propext, Classical.choice, Quot.sound only",
    "model JP/Pointer.lean tied to jsonpath/pointer.py by this differential run",
    "unicode-escape codec abstract (no-backslash fast path modelled)",
]
ASSUMPTIONS = ["pointer strings without leading blanks and without backslashes (as the property states)",
               "integer-like tokens within +-(2**53-1)"]

ALPHABET = ["~", "/", "0", "1", "-", "+", " ", "#", "é", "a", "", "~0", "~1", "~01", "01", "-1", "+1", "1_0", "１", "1１", "1٠", "-0", "-00", "1٢"]


def _seqs(ctx):
    out = [()]
    out += [(a,) for a in ALPHABET]
    out += list(itertools.product(ALPHABET, repeat=2))
    l3 = list(itertools.product(ALPHABET, repeat=3))
    if ctx.tier == "quick":
        l3 = ctx.rng.sample(l3, 1200)
    else:
        ctx.exhaustive_spaces.append("all token sequences of length <= 3 over a 21-token alphabet")
    out += l3
    extra = 200 if ctx.tier == "quick" else 3000
    for _ in range(extra):
        n = ctx.rng.randint(4, 7)
        out.append(tuple(ctx.rng.choice(ALPHABET + G.KEYS_ODD) for _ in range(n)))
    return [t for t in out if not any("\\" in x for x in t)]


def gen(ctx):
    cases = []
    seqs = _seqs(ctx)
    for toks in seqs:
        cases.append({"kind": "roundtrip", "tokens": list(toks)})
    # navigation: p, t
    nav_ps = [s for s in seqs if len(s) <= 2]
    for toks in nav_ps:
        ts = ALPHABET if (ctx.tier != "quick" or len(toks) <= 1) else ctx.rng.sample(ALPHABET, 5)
        for t in ts:
            if t[:1].isspace():
                continue  # a joined part is lstrip()ped: leading blanks are outside the property
            cases.append({"kind": "join", "tokens": list(toks), "t": t})
    # chains
    nchains = 600 if ctx.tier == "quick" else 20000
    for _ in range(nchains):
        toks = ctx.rng.choice(nav_ps)
        steps = []
        for _ in range(ctx.rng.randint(1, 5)):
            if ctx.rng.random() < 0.35:
                steps.append("parent")
            else:
                t = ctx.rng.choice([a for a in ALPHABET if not a[:1].isspace()])
                r = ctx.rng.random()
                if r < 0.1:
                    steps.append(["join", "/" + G.rfc6901_escape(t)])
                elif r < 0.15:
                    # an absolute part whose first reference tokens are empty, or that ends in an empty token
                    steps.append(["join", ctx.rng.choice(["//", "///", "/"]) + G.rfc6901_escape(t) + ctx.rng.choice(["", "/", "//"])])
                elif r < 0.2:
                    steps.append(["join", G.rfc6901_escape(t) + "/" + G.rfc6901_escape(ctx.rng.choice(ALPHABET))])
                else:
                    steps.append(["join", G.rfc6901_escape(t)])
        cases.append({"kind": "chain", "tokens": list(toks), "steps": steps})
    # equality pairs
    pool = [s for s in seqs if len(s) <= 2]
    for _ in range(800 if ctx.tier == "quick" else 20000):
        a, b = ctx.rng.choice(pool), ctx.rng.choice(pool)
        if ctx.rng.random() < 0.3:
            b = a
        hows = ["parse", "from_parts", "join", "from_parts_int", "noescape", "parent", "match", "to"]
        cases.append({"kind": "eq", "a": list(a), "b": list(b), "how_a": ctx.rng.choice(hows), "how_b": ctx.rng.choice(hows)})
    return cases


def _parts_json(parts):
    return [p for p in parts]


def _build(how, toks):
    from jsonpath import JSONPointer

    if how == "parse":
        return JSONPointer(G.rfc6901_spell(toks))
    if how == "from_parts":
        return JSONPointer.from_parts(list(toks))
    if how == "from_parts_int":       # canonical non-negative integers given as ints, as a match's parts would be
        import re
        return JSONPointer.from_parts([int(t) if re.fullmatch(r"0|[1-9][0-9]{0,8}", t) else t for t in toks])
    if how == "noescape":
        return JSONPointer(G.rfc6901_spell(toks), unicode_escape=False)
    if how == "parent":               # one token too many, then parent()
        return JSONPointer(G.rfc6901_spell(list(toks) + ["extra"])).parent()
    if how == "match":                # the pointer of a JSONPath match at that location (object members only)
        import jsonpath
        doc = _nested_doc(list(toks))
        ms = [m for m in jsonpath.finditer("$..*", doc) if [str(x) for x in m.parts] == list(toks)] if toks else [jsonpath.match("$", doc)]
        return ms[0].pointer()
    if how == "to":                   # reached by a relative pointer from a sibling
        if any(t != t.strip() for t in toks):
            return JSONPointer(G.rfc6901_spell(toks))   # blanks at the edge of a relative pointer text are outside the property
        if not toks:
            return JSONPointer("/x").to("1")
        return JSONPointer(G.rfc6901_spell(list(toks[:-1]) + ["sibling"])).to("1" + G.rfc6901_spell(toks[-1:]))
    if any(t[:1].isspace() for t in toks):  # a joined part is lstrip()ped: outside the property
        return JSONPointer(G.rfc6901_spell(toks))
    p = JSONPointer("")
    for t in toks:
        p = p / G.rfc6901_escape(t)
    return p


def _nested_doc(toks, leaf="leaf"):
    doc = leaf
    for t in reversed(toks):
        doc = {t: doc}
    return doc


def _uri_decode_option(ctx):
    """`uri_decode=True` reads %XX escapes (RFC 3986 percent-decoding) and nothing else: `+` is a plus sign."""
    from jsonpath import JSONPointer

    def pct(t):
        out = bytearray()
        i = 0
        b = t.encode("utf-8")
        while i < len(b):
            if b[i:i + 1] == b"%" and i + 2 < len(b) + 0 and all(chr(x) in "0123456789abcdefABCDEF" for x in b[i + 1:i + 3]) and len(b[i + 1:i + 3]) == 2:
                out.append(int(b[i + 1:i + 3], 16)); i += 3
            else:
                out.append(b[i]); i += 1
        return out.decode("utf-8", "replace")
    toks = ["a+b", "+", "+1", "1+1", "a%20b", "a%2Bb", "%2B", "a+%20", "é+", "x%41", "%", "%4", "a%zz", "~0+", "~1+a"]
    for a in toks:
        for b in ["", "k"] + toks[:6]:
            text = "/" + a + ("/" + b if b else "")
            ctx.count("uri-decode")
            got = core.outcome(lambda: str(JSONPointer(text, uri_decode=True)))
            want = core.outcome(lambda: str(JSONPointer(pct(text))))
            gi = {"ok": got["ok"]} if "ok" in got else {"err": got["err"]}
            wi = {"ok": want["ok"]} if "ok" in want else {"err": want["err"]}
            if gi != wi:
                ctx.violation("with uri_decode=True a pointer text means what its percent-decoded text means (a plus sign is a plus sign)", {"text": text}, gi, wi)
            parts = [pct(x) for x in ([a, b] if b else [a])]
            g2 = core.outcome(lambda: str(JSONPointer.from_parts([a] + ([b] if b else []), uri_decode=True)))
            w2 = core.outcome(lambda: str(JSONPointer.from_parts(parts)))
            if ({"ok": g2["ok"]} if "ok" in g2 else {"err": g2["err"]}) != ({"ok": w2["ok"]} if "ok" in w2 else {"err": w2["err"]}):
                ctx.violation("from_parts with uri_decode=True builds the pointer of the percent-decoded tokens", {"tokens": [a] + ([b] if b else [])}, g2.get("ok", g2.get("err")), w2.get("ok", w2.get("err")))


def _spell_tie(ctx):
    """`Pointer.spellTokens` (the RFC 6901 spelling the theorems `print_fromParts` / `parse_spell_eq_fromParts` are stated with) and
    `intStr` (`str(int)`, under `encode`, object lookups by index and the serializer) through their own driver operations: the spelling of
    every token sequence of length <= 2 over the alphabet against the harness's own spelling and against `str(JSONPointer.from_parts(...))`
    where the constructor accepts the tokens; `str(i)` for small, negative, power-of-ten and 2^53 / 2^64 boundary integers."""
    from jsonpath import JSONPointer

    alpha = [a for a in ALPHABET] + ["~~", "//", "~/", "/~", "~1~0", "~00", "a/b~c"]
    seqs = [[]] + [[a] for a in alpha] + [[a, b] for a in alpha for b in alpha]
    outs = ctx.driver.run([{"op": "ptr.spell", "tokens": ts} for ts in seqs], jobs=ctx.jobs)
    for ts, m in zip(seqs, outs):
        want = "".join("/" + t.replace("~", "~0").replace("/", "~1") for t in ts)
        ctx.case(("spell", tuple(ts)), nontrivial=bool(ts))
        if m.get("s") != want or G.rfc6901_spell(ts) != want:
            ctx.mismatch("ptr.spell", {"tokens": ts}, want, m.get("s"))
        r = core.outcome(lambda: str(JSONPointer.from_parts(ts)))
        if "ok" in r and r["ok"] != want:
            ctx.violation("building a pointer from a token list and printing it gives the RFC 6901 spelling of those tokens", {"tokens": ts}, r["ok"], want)
    ints = sorted(set([0, 1, -1, 9, 10, -10, 99, 100, 101, -100, 12345, 2 ** 31, -2 ** 31, 2 ** 53 - 1, 2 ** 53, -(2 ** 53), 2 ** 63, 2 ** 64, -(2 ** 64) - 1, 10 ** 18, 10 ** 18 - 1]
                      + [ctx.rng.randrange(-10 ** 12, 10 ** 12) for _ in range(200)]))
    for i, m in zip(ints, ctx.driver.run([{"op": "prim.intstr", "i": i} for i in ints], jobs=ctx.jobs)):
        ctx.case(("intstr", i), nontrivial=True)
        if m.get("s") != str(i):
            ctx.mismatch("prim.intstr", {"i": i}, str(i), m.get("s"))


def evaluate(ctx, cases):
    from jsonpath import JSONPointer

    if not getattr(ctx, "_uri_done", False):
        ctx._uri_done = True
        _uri_decode_option(ctx)
        _spell_tie(ctx)

    reqs, meta = [], []
    for c in cases:
        k = c["kind"]
        if k == "roundtrip":
            s = G.rfc6901_spell(c["tokens"])
            reqs.append({"op": "ptr.parse", "s": s, "ue": True}); meta.append((c, "parse"))
            reqs.append({"op": "ptr.from_parts", "parts": c["tokens"], "ue": True}); meta.append((c, "from_parts"))
        elif k == "join":
            s = G.rfc6901_spell(c["tokens"])
            reqs.append({"op": "ptr.nav", "s": s, "ue": True, "steps": [["join", G.rfc6901_escape(c["t"])]]}); meta.append((c, "nav"))
        elif k == "chain":
            s = G.rfc6901_spell(c["tokens"])
            reqs.append({"op": "ptr.nav", "s": s, "ue": True, "steps": c["steps"]}); meta.append((c, "nav"))
        elif k == "eq":
            meta.append((c, "eq")); reqs.append({"op": "ping"})
    outs = ctx.driver.run(reqs, jobs=ctx.jobs)
    seen_case = set()
    rel_reqs, rel_meta = [], []
    for (c, what), m in zip(meta, outs):
        k = c["kind"]
        cid = id(c)
        if cid not in seen_case:
            seen_case.add(cid)
            ctx.case(repr(c), bool(c.get("tokens") or c.get("a")), sample=c)
            ctx.count("kind:" + k)
        toks = c.get("tokens")
        if what == "parse":
            s = G.rfc6901_spell(toks)
            o = core.outcome(lambda: JSONPointer(s))
            if "err" in o:
                impl = {"parts": {"err": o["err"]}, "str": {"err": o["err"]}}
            else:
                impl = {"parts": {"ok": list(o["ok"].parts)}, "str": {"ok": str(o["ok"])}}
            if impl["parts"] != m["parts"] or impl["str"] != m["str"]:
                ctx.mismatch("ptr.parse", c, impl, {"parts": m["parts"], "str": m["str"]})
            in_range = "err" not in o or o["err"] != "JSONPointerIndexError"
            if in_range:
                if impl["str"] != {"ok": s}:
                    ctx.violation("parsing and printing a pointer must return the same string", c, impl["str"], {"ok": s})
                elif [str(x) for x in o["ok"].parts] != list(toks):
                    ctx.violation("the parsed pointer's reference tokens differ from the RFC 6901 tokens of its text", c, [str(x) for x in o["ok"].parts], toks)
        elif what == "from_parts":
            o = core.outcome(lambda: JSONPointer.from_parts(list(toks)))
            if "err" in o:
                impl = {"parts": {"err": o["err"]}, "str": {"err": o["err"]}}
            else:
                impl = {"parts": {"ok": list(o["ok"].parts)}, "str": {"ok": str(o["ok"])}}
            if impl["parts"] != m["parts"] or impl["str"] != m["str"]:
                ctx.mismatch("ptr.from_parts", c, impl, {"parts": m["parts"], "str": m["str"]})
            s = G.rfc6901_spell(toks)
            if impl["str"] != {"ok": s}:
                ctx.violation("from_parts(tokens) must print the RFC 6901 spelling of the tokens", c, impl["str"], {"ok": s})
            else:
                o2 = core.outcome(lambda: JSONPointer(s))
                if "ok" in o2 and not (o2["ok"] == o["ok"] and hash(o2["ok"]) == hash(o["ok"])):
                    ctx.violation("parsing the spelling of from_parts(tokens) must give an equal pointer", c, "unequal", "equal")
        elif what == "nav":
            s = G.rfc6901_spell(toks)

            def run():
                p = JSONPointer(s)
                for st in (c["steps"] if k == "chain" else [["join", G.rfc6901_escape(c["t"])]]):
                    p = p.parent() if st == "parent" else p / st[1]
                return p
            o = core.outcome(run)
            if "err" in o:
                impl = {"parts": {"err": o["err"]}, "str": {"err": o["err"]}}
            else:
                impl = {"parts": {"ok": list(o["ok"].parts)}, "str": {"ok": str(o["ok"])}}
            if impl["parts"] != m["parts"] or impl["str"] != m["str"]:
                ctx.mismatch("ptr.nav", c, impl, {"parts": m["parts"], "str": m["str"]})
            if k == "join" and "ok" in o:
                _join_laws(ctx, c, s, o["ok"])
            if k == "chain":
                # the multi-part join() method: consecutive joins grouped into one call must equal the slash chain
                def run_grouped():
                    p, group = JSONPointer(s), []
                    for st in c["steps"]:
                        if st == "parent":
                            if group:
                                p, group = p.join(*group), []
                            p = p.parent()
                        else:
                            group.append(st[1])
                    return p.join(*group) if group else p
                og = core.outcome(run_grouped)
                a = {"ok": [str(x) for x in o["ok"].parts]} if "ok" in o else {"err": o["err"]}
                b = {"ok": [str(x) for x in og["ok"].parts]} if "ok" in og else {"err": og["err"]}
                if a != b:
                    ctx.violation("join(t1, ..., tn) must equal the chain p / t1 / ... / tn", c, b, a)
            if k == "chain" and "ok" in o:
                # spec on token lists
                cur = list(toks)
                for st in c["steps"]:
                    if st == "parent":
                        cur = cur[:-1]
                    elif st[1].startswith("/"):
                        cur = [x.replace("~1", "/").replace("~0", "~") for x in st[1].split("/")[1:]]
                    else:
                        cur = cur + [x.replace("~1", "/").replace("~0", "~") for x in st[1].split("/")]
                if [str(x) for x in o["ok"].parts] != cur:
                    ctx.violation("a chain of join/parent operations must act on the reference-token list", c, [str(x) for x in o["ok"].parts], cur)
        elif what == "eq":
            try:
                pa, pb = _build(c["how_a"], c["a"]), _build(c["how_b"], c["b"])
            except Exception as e:  # noqa: BLE001
                if core.exc_name(e) != "JSONPointerIndexError":
                    ctx.violation("constructing a pointer from valid tokens failed", c, core.exc_name(e), "a pointer")
                continue
            want = list(c["a"]) == list(c["b"])
            got = (pa == pb)
            if got != want or (want and hash(pa) != hash(pb)):
                ctx.violation("two pointers are equal exactly when their reference-token sequences are equal, however constructed", c, got, want)
            # is_relative_to: the implementation against the statement of `relative_iff_proper_extension` (a proper extension,
            # token for token) and, below, against the model's `isRelativeTo` on the very parts the two pointers hold
            la, lb = list(c["a"]), list(c["b"])
            for x, y, lx, ly, tag in ((pa, pb, la, lb, "ab"), (pb, pa, lb, la, "ba")):
                wrel = len(lx) > len(ly) and lx[:len(ly)] == ly
                grel = core.outcome(lambda: x.is_relative_to(y))
                if grel.get("ok") is not wrel:
                    ctx.violation("a pointer is relative to another exactly when its reference tokens are the other's followed by at least one more",
                                  dict(c, direction=tag), grel.get("ok", grel.get("err")), wrel)
                rel_reqs.append({"op": "ptr.rel", "a": [v if isinstance(v, int) and not isinstance(v, bool) else str(v) for v in x.parts],
                                 "b": [v if isinstance(v, int) and not isinstance(v, bool) else str(v) for v in y.parts]})
                rel_meta.append((dict(c, direction=tag), grel.get("ok"), x == y))
    if rel_reqs:
        for (c, grel, geq), m in zip(rel_meta, ctx.driver.run(rel_reqs, jobs=ctx.jobs)):
            if m.get("relative") is not grel or m.get("eq") is not geq:
                ctx.mismatch("ptr.rel", c, {"relative": grel, "eq": geq}, {"relative": m.get("relative"), "eq": m.get("eq")})


def _join_laws(ctx, c, s, q):
    from jsonpath import JSONPointer

    p = JSONPointer(s)
    t = c["t"]
    toks = c["tokens"]
    if not (q.parent() == p):
        ctx.violation("the parent of (p / t) must be p", c, str(q.parent()), s)
    if not q.is_relative_to(p):
        ctx.violation("(p / t) must be relative to p", c, False, True)
    if p.is_relative_to(q):
        ctx.violation("p must not be relative to its own extension (p / t)", c, True, False)
    other = JSONPointer.from_parts(list(toks) + [t + "x"])
    if q.is_relative_to(other) or other.is_relative_to(q):
        ctx.violation("pointers that differ in their last token are not relative to each other", c, True, False)
    if toks and JSONPointer.from_parts([toks[0] + "x"] + list(toks[1:]) + [t]).is_relative_to(p):
        ctx.violation("a pointer under another first token is not relative to p", c, True, False)
    q2 = core.outcome(lambda: p.join(G.rfc6901_escape(t)))
    if "ok" not in q2 or not (q2["ok"] == q):
        ctx.violation("join() and the slash operator must agree", c, str(q2.get("ok", q2.get("err"))), str(q))
    if [str(x) for x in q.parts] != list(toks) + [t]:
        ctx.violation("(p / t) must have p's tokens followed by t", c, [str(x) for x in q.parts], list(toks) + [t])
    # resolves to the same value as resolving p and then stepping by t
    doc = _nested_doc(list(toks) + [t])
    a = core.outcome(lambda: q.resolve(doc))
    b = core.outcome(lambda: JSONPointer.from_parts([t]).resolve(p.resolve(doc)) if toks or True else None)
    ca = {"ok": core.canon(a["ok"])} if "ok" in a else {"err": a["err"]}
    cb = {"ok": core.canon(b["ok"])} if "ok" in b else {"err": b["err"]}
    if ca != cb or ca != {"ok": "leaf"}:
        ctx.violation("(p / t) must resolve to the value of p stepped by t", c, ca, {"ok": "leaf"})
    if not toks:
        r = JSONPointer("")
        if not (r.parent() == r):
            ctx.violation("the parent of the root pointer is the root pointer", c, str(r.parent()), "")
    rep = core.outcome(lambda: p / ("/" + G.rfc6901_escape(t)))
    if "ok" not in rep or [str(x) for x in rep["ok"].parts] != [t]:
        ctx.violation("a joined part that starts with a slash replaces the pointer", c, str(rep.get("ok", rep.get("err"))), "/" + G.rfc6901_escape(t))


    for abs_toks in (["", t], ["", "", t], [t, ""], list(toks) + [t], [""] + list(toks)):
        text = "".join("/" + G.rfc6901_escape(x) for x in abs_toks)
        rep = core.outcome(lambda: p / text)
        rep2 = core.outcome(lambda: p.join("zz", text))
        for r in (rep, rep2):
            if "ok" not in r or [str(x) for x in r["ok"].parts] != abs_toks or not (r["ok"] == JSONPointer(text)):
                ctx.violation("a joined part that starts with a slash replaces the pointer (it is the pointer that text spells)", {**c, "part": text}, str(r.get("ok", r.get("err"))), text)
                break


def search(ctx):
    old = ctx.tier
    ctx.tier = "thorough"
    try:
        evaluate(ctx, gen(ctx))
    finally:
        ctx.tier = old


def probe(kf):
    """Replay a recorded known finding on the implementation; True if it still fails."""
    from jsonpath import JSONPointer

    try:
        return str(JSONPointer(kf["probe"]["pointer"])) != kf["probe"]["pointer"]
    except Exception:  # noqa: BLE001
        return True
