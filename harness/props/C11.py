"""C11 — All query entry points agree with one another on every input."""
from __future__ import annotations

import copy

import asyncio
import io
import json

from .. import core, qeval, qpool

LEVEL = "proof"
READY = True
CLAIM = {
    "text": "Lean theorems for compound queries with ANY number of | and & operands: findall is the list of values of finditer, the result is the left-to-right "
            "fold (union = left followed by right; intersection = left restricted to values also produced by right, values compared as JSON values - intersection_by_json_value), match is the head of finditer; a counter-model of the "
            "pre-repair late-bound generator expression is proved to differ. The model (evaluator + compound fold) is tied to path.py/env.py differentially, and the "
            "agreement of all entry points (environment-level and compiled; findall, finditer, match, query().values(); sync and async; parsed value, JSON text, "
            "StringIO and BytesIO) is evaluated directly on the implementation for every case.",
    "note": "Trusted: Lean kernel; models JP.Query (compound fold); Python json decoding and file objects are outside the model (document forms are compared on the implementation only).",
    "technique": "Lean 4 theorems on the compound-query model + differential correspondence + entry-point agreement on the implementation",
}
RULE = ("query pool (standard, extension, compound with 1-4 operators in every |/& pattern over operands with differing results) + generated queries x documents x "
        "{parsed value, JSON text, StringIO, BytesIO}; non-trivial = the query has at least one match")
TRUSTED = ["Lean 4.33 kernel; standard axioms only", "model JP/Query.lean tied to path.py by this differential run", "Python json and io"]
ASSUMPTIONS = ["array or object documents for the text/file forms (as the property states)"]

OPERANDS = ["$.a[*]", "$.b[*]", "$.c[*]", "$..k", "$.list[*]", "$.xs[*].ys[*]"]


def compound_patterns(ctx):
    out = []
    import itertools
    for n in range(1, 5):
        for ops in itertools.product("|&", repeat=n):
            for _ in range(1 if ctx.tier == "quick" else 4):
                operands = [ctx.rng.choice(OPERANDS) for _ in range(n + 1)]
                text = operands[0]
                for op, o in zip(ops, operands[1:]):
                    text += f" {op} {o}"
                out.append(text)
    return out


def gen(ctx):
    texts = qpool.all_texts() + compound_patterns(ctx) + qpool.generated_texts(ctx.rng, 150 if ctx.tier == "quick" else 3000)
    ctx.exhaustive_spaces.append("all 30 patterns of 1-4 | / & operators")
    docs = qpool.DOCS[:2] + [{"a": [True, 2, 0, [1], {"k": True}, 1.0], "b": [1, 2, False, [True], {"k": 1}, 1], "c": [1.0, 2.0, True], "x": True, "y": 1, "z": False}] + qpool.DOCS[2:] + qpool.generated_docs(ctx.rng, 15 if ctx.tier == "quick" else 200)
    cases = []
    for t in texts:
        for d in docs[:3] + ctx.rng.sample(docs[3:], 4 if ctx.tier == "quick" else 17):
            cases.append({"text": t, "doc": d})
    return cases


def _vals(x):
    return [core.canon(v) for v in x]


def _two_environments(ctx):
    """Two differently customised environments in one process asked the same query text through their environment-level entry
    points, in both orders: each must agree with its own compiled query (whatever the other one compiled before)."""
    import jsonpath

    class CaseInsensitive(jsonpath.JSONPathEnvironment):
        def getitem(self, obj, key):
            if isinstance(obj, dict) and isinstance(key, str):
                for k, v in obj.items():
                    if isinstance(k, str) and k.lower() == key.lower():
                        return v
                raise KeyError(key)
            return super().getitem(obj, key)

    class Renamed(jsonpath.JSONPathEnvironment):
        union_token = "&"
        intersection_token = "|"

    class Untyped(jsonpath.JSONPathEnvironment):
        def __init__(self):
            super().__init__(well_typed=False)

    doc = {"foo": {"bar": [1, 2, 3]}, "FOO": {"BAR": [4]}, "a": [1, 2], "b": [2, 3]}
    texts = ["$.foo.bar[0] | $.FOO.bar[1]", "$.FOO.bar[*]", "$.a[*] | $.b[*]", "$.a[*] & $.b[*]", "$[?count(@.*)]", "$.foo.BAR[0]"]
    for order in (0, 1):
        envs = [jsonpath.JSONPathEnvironment(), CaseInsensitive(), Renamed(), Untyped(), jsonpath.JSONPathEnvironment()]
        if order:
            envs.reverse()
        for t in texts:
            for e in envs:
                own = core.outcome(lambda: e.compile(t).findall(copy.deepcopy(doc)))
                for name, fn in (("findall", lambda: e.findall(t, copy.deepcopy(doc))), ("finditer", lambda: [m.obj for m in e.finditer(t, copy.deepcopy(doc))]),
                                 ("match", lambda: (lambda m: [] if m is None else [m.obj])(e.match(t, copy.deepcopy(doc)))), ("query", lambda: list(e.query(t, copy.deepcopy(doc)).values()))):
                    r = core.outcome(fn)
                    want = own.get("ok") if name != "match" else (own.get("ok") or [])[:1]
                    ctx.count("two-environments")
                    if ("err" in r) != ("err" in own) or ("ok" in r and r["ok"] != want):
                        ctx.violation("the environment-level entry points must agree with the environment's own compiled query, whatever other environments compiled before",
                                      {"text": t, "doc": doc, "environment": type(e).__name__, "entry": name}, r.get("ok", r.get("err")), want if "ok" in own else own.get("err"))


def evaluate(ctx, cases):
    if not getattr(ctx, "_two_envs_done", False):
        ctx._two_envs_done = True
        _two_environments(ctx)
    import jsonpath

    reqs, meta = [], []
    loop = asyncio.new_event_loop()
    try:
        for c in cases:
            o = qeval.compile_outcome(c["text"])
            if "err" in o:
                ctx.count("compile-error")
                continue
            try:
                reqs.append(qeval.build_request(o["ok"], c["doc"]))
            except core.Unencodable:
                continue
            meta.append((c, o["ok"]))
        outs = ctx.driver.run(reqs, jobs=ctx.jobs)
        for (c, compiled), m in zip(meta, outs):
            text, doc = c["text"], c["doc"]
            inp = {"text": text, "doc": doc}
            base = core.outcome(lambda: compiled.findall(doc))
            ctx.case((text, repr(doc)), bool(base.get("ok")), sample={"query": text, "doc": doc, "findall": base.get("ok", base.get("err"))})
            ctx.count("kind:" + ("compound" if "rest" in reqs[0] and (" | " in text or " & " in text) else "single"))
            if "err" in base:
                ctx.count("eval-error:" + base["err"])
                other = core.outcome(lambda: [x.obj for x in compiled.finditer(doc)])
                if other.get("err") != base["err"]:
                    ctx.violation("findall and finditer must fail alike", inp, other, base)
                continue
            want = _vals(base["ok"])
            # model correspondence
            mv = m.get("values", [n["val"] for n in m["nodes"]])
            if want != mv:
                ctx.mismatch("q.findall", inp, want[:8], mv[:8])
            it = core.outcome(lambda: [(x.path, core.canon(x.obj)) for x in compiled.finditer(doc)])
            if "ok" in it and [[p, v] for p, v in it["ok"]] != [[n["path"], n["val"]] for n in m["nodes"]]:
                ctx.mismatch("q.finditer", inp, it["ok"][:6], [[n["path"], n["val"]] for n in m["nodes"]][:6])
            # every entry point, with paths (not only values), on the parsed document
            if "ok" in it:
                qeval.compare_entry_points(ctx, text, compiled, doc, None, [[p, v] for p, v in it["ok"]],
                                           "every entry point must produce the matches (paths and values) of compiled.finditer", inp)
            direct = core.outcome(lambda: [[x.path, core.canon(x.obj)] for x in jsonpath.query(text, doc)])
            if "ok" in it and direct.get("ok") != [[p, v] for p, v in it["ok"]]:
                ctx.violation("iterating a query object directly must yield the matches of finditer", inp, direct.get("ok", direct), it["ok"][:6])
            # entry points
            forms = {"parsed": lambda: doc}
            if isinstance(doc, (dict, list)):
                txt = json.dumps(doc, ensure_ascii=bool(ctx.rng.random() < 0.3))      # mostly raw UTF-8 text / bytes
                forms["text"] = lambda: txt
                forms["StringIO"] = lambda: io.StringIO(txt)
                forms["BytesIO"] = lambda: io.BytesIO(txt.encode())
                # JSON text may begin and end with blanks; bytes may carry a BOM or be UTF-16 (the encodings json.loads detects)
                pad = ctx.rng.choice(["\n  ", " ", "\t\r\n", "\n"])
                forms["text (blank-padded)"] = lambda: pad + json.dumps(doc, indent=ctx.rng.choice([None, 1])) + "\n"
                forms["StringIO (blank-padded)"] = lambda: io.StringIO(pad + txt + " \n")
                if ctx.rng.random() < 0.5:
                    forms["BytesIO (UTF-8 with BOM)"] = lambda: io.BytesIO(b"\xef\xbb\xbf" + txt.encode("utf-8"))
                    forms["BytesIO (UTF-16)"] = lambda: io.BytesIO(txt.encode("utf-16"))

            async def aall(fn, d):
                return await fn(d)

            async def aiter(fn, d):
                return [x.obj async for x in await fn(d)]

            for fname, mk in forms.items():
                entries = {
                    "compiled.findall": lambda: compiled.findall(mk()),
                    "compiled.finditer": lambda: [x.obj for x in compiled.finditer(mk())],
                    "env.findall": lambda: jsonpath.findall(text, mk()),
                    "env.finditer": lambda: [x.obj for x in jsonpath.finditer(text, mk())],
                    "compiled.query.values": lambda: list(compiled.query(mk()).values()),
                    "env.query.values": lambda: list(jsonpath.query(text, mk()).values()),
                    "compiled.findall_async": lambda: loop.run_until_complete(aall(compiled.findall_async, mk())),
                    "compiled.finditer_async": lambda: loop.run_until_complete(aiter(compiled.finditer_async, mk())),
                    "env.findall_async": lambda: loop.run_until_complete(jsonpath.findall_async(text, mk())),
                }
                for ename, fn in entries.items():
                    r = core.outcome(fn)
                    got = _vals(r["ok"]) if "ok" in r else {"err": r["err"]}
                    if got != want:
                        ctx.violation(f"{ename} on the {fname} form disagrees with compiled.findall on the parsed value", {**inp, "entry": ename, "form": fname}, got if isinstance(got, dict) else got[:8], want[:8])
                mt = core.outcome(lambda: compiled.match(mk()))
                mt2 = core.outcome(lambda: jsonpath.match(text, mk()))
                for r in (mt, mt2):
                    got = ("none" if r.get("ok") is None else core.canon(r["ok"].obj)) if "ok" in r else {"err": r["err"]}
                    exp = core.canon(base["ok"][0]) if base["ok"] else "none"
                    if got != exp:
                        ctx.violation("match must be the first element of finditer, or nothing when it is empty", {**inp, "form": fname}, got, exp)
            # the document as JSON text again after the caller edited what earlier calls on the same text returned: the text is
            # what is evaluated, not what an earlier call made of it
            if "text" in forms:
                for fn0 in (lambda: jsonpath.findall("$", txt), lambda: compiled.findall(txt), lambda: jsonpath.findall("$..*", io.StringIO(txt))):
                    r0 = core.outcome(fn0)
                    for o_ in (r0.get("ok") or []):
                        if isinstance(o_, list):
                            o_.append("__edited__"); o_.reverse()
                        elif isinstance(o_, dict):
                            o_.clear(); o_["__edited__"] = 1
                for ename, fn in (("compiled.findall", lambda: compiled.findall(txt)), ("env.findall", lambda: jsonpath.findall(text, txt)), ("compiled.finditer", lambda: [x.obj for x in compiled.finditer(io.StringIO(txt))])):
                    r = core.outcome(fn)
                    got = _vals(r["ok"]) if "ok" in r else {"err": r["err"]}
                    ctx.count("text-after-edit")
                    if got != want:
                        ctx.violation(f"{ename} on JSON text, after the caller edited the results of earlier calls on the same text, disagrees with the parsed value",
                                      {**inp, "entry": ename, "form": "text"}, got if isinstance(got, dict) else got[:8], want[:8])
            # one compiled query, the same document OBJECT again after the caller changed it in place (and with another
            # filter context): every entry point of the compiled query must agree with a fresh evaluation of the text
            if isinstance(doc, (dict, list)) and ctx.rng.random() < (0.25 if ctx.tier == "quick" else 0.6):
                d = copy.deepcopy(doc)
                r0 = core.outcome(lambda: compiled.findall(d))
                if isinstance(d, dict):
                    for k in list(d):
                        v = d[k]
                        d[k] = (v + 1) if isinstance(v, int) and not isinstance(v, bool) else (v + [v[0]] if isinstance(v, list) and v else v)
                    d["added-by-caller"] = 1
                else:
                    d.reverse()
                    d.append({"a": 1, "k": 1, "b": 2})
                ctx.count("edited-document-again")
                fresh = core.outcome(lambda: jsonpath.findall(text, copy.deepcopy(d)))
                for name, fn in (("compiled.findall", lambda: compiled.findall(d)), ("compiled.finditer", lambda: [x.obj for x in compiled.finditer(d)]),
                                 ("compiled.match", lambda: (lambda mm: [] if mm is None else [mm.obj])(compiled.match(d))),
                                 ("compiled.findall(filter_context)", lambda: compiled.findall(d, filter_context={"v": 7, "x": {"y": 3}, "flag": False, "list": []}))):
                    r = core.outcome(fn)
                    want_f = fresh if name != "compiled.findall(filter_context)" else core.outcome(lambda: jsonpath.findall(text, copy.deepcopy(d), filter_context={"v": 7, "x": {"y": 3}, "flag": False, "list": []}))
                    a = _vals(r["ok"]) if "ok" in r else {"err": r["err"]}
                    b = _vals(want_f["ok"]) if "ok" in want_f else {"err": want_f["err"]}
                    if name == "compiled.match":
                        b = b[:1] if isinstance(b, list) else b
                    if a != b:
                        ctx.violation("a compiled query evaluated again on the same document object after the caller edited it must agree with a fresh evaluation of the query text",
                                      {**inp, "entry": name, "document_now": d}, a if isinstance(a, dict) else a[:8], b if isinstance(b, dict) else b[:8])
                        break
            # compound specification from the operands' own results: every operand is compiled on its own,
            # from its own text (cut at the union / intersection tokens), and the results are combined
            if hasattr(compiled, "paths") and compiled.paths:
                try:
                    toks = list(jsonpath.DEFAULT_ENV.lexer.tokenize(text))
                    cuts = [(t.index, t.kind) for t in toks if t.kind in ("UNION", "INTERSECT")]
                    pieces, ops, start = [], [], 0
                    for idx, kind in cuts:
                        pieces.append(text[start:idx])
                        ops.append(kind)
                        start = idx + 1
                    pieces.append(text[start:])
                    operands = [jsonpath.compile(x.strip()) for x in pieces]
                    acc = list(operands[0].findall(doc))
                    for kind, p in zip(ops, operands[1:]):
                        right = p.findall(doc)
                        if kind == "UNION":
                            acc = acc + right
                        else:
                            acc = [x for x in acc if any(core.json_equal(x, y) for y in right)]     # by JSON value: 1 is not true
                except Exception:  # noqa: BLE001
                    acc = None
                    ctx.count("compound-operands-not-separable")
                if acc is not None and _vals(acc) != want:
                    ctx.violation("a compound query is union = left then right, intersection = left restricted to values produced by right, left to right, each operand meaning what it means on its own",
                                  inp, want[:8], _vals(acc)[:8])
    finally:
        loop.close()


def search(ctx):
    old = ctx.tier
    ctx.tier = "thorough"
    try:
        evaluate(ctx, gen(ctx))
    finally:
        ctx.tier = old


def probe(kf):
    """Replay a recorded known finding on the implementation; True if it still fails."""
    import jsonpath

    pr = kf["probe"]
    try:
        return jsonpath.findall(pr["query"], pr["doc_text"]) != pr["expect"]
    except Exception:  # noqa: BLE001
        return True
