"""C03 — Every match location (path, parts, pointer, parent) identifies exactly that node."""
from __future__ import annotations

import re

from .. import core, qeval, qgen
from .. import gen as G

LEVEL = "proof"
READY = True
CLAIM = {
    "text": "Lean theorems over ALL documents and ALL filter-free standard queries: every match's path string is the RFC 9535 2.7 normalized path of its location, "
            "its parts are that location, its value is the document's value there (query_refines_rfc + located), the JSON Pointer built from the parts and the pointer's "
            "string form parsed again resolve to that value, normalized paths are injective on locations; the parent/identity clauses and the path-as-query round trip "
            "(which goes through the lexer/parser, not modelled in Lean) are decided on every match by identity (`is`) probes on the implementation, and the model's "
            "(path, parts, pointer string) are compared with the implementation's for every match.",
    "note": "Trusted: Lean kernel; models JP.Query/JP.Rfc9535/JP.Pointer; object identity is modelled as location identity (documents without aliasing); "
            "re-parsing a pointer whose tokens contain a backslash uses unicode_escape=False (C04's restriction).",
    "technique": "Lean 4 theorems (location invariants of the evaluator model, normalized-path injectivity, pointer resolution) + identity probes on the implementation",
}
RULE = ("generated standard queries (with and without filters, negative indices, negative-step slices, descendant segments) x documents whose member names cover "
        "all pairs of 14 dangerous characters (' \" \\ / ~ SP NUL US DEL é 😀 0 - +) plus the key pools; every match of every query is probed; non-trivial = the match is not the root")
TRUSTED = ["Lean 4.33 kernel; standard axioms only", "models tied to selectors.py/match.py/pointer.py by this differential run"]
ASSUMPTIONS = ["documents are trees (no aliasing)", "keys selector excluded, `$`-rooted queries only (as the property states)"]

DANGER = ["'", '"', "\\", "/", "~", " ", "\x00", "\x1f", "\x7f", "é", "😀", "0", "-", "+", "1", "\u0662", "\uff11"]

_NP = re.compile(r"""\$(?:\[(?:0|[1-9][0-9]*)\]|\['(?:[^\x00-\x1f'\\]|\\[bfnrt'\\]|\\u00(?:0[0-7bef]|1[0-9a-f]))*'\])*\Z""")


def danger_docs():
    names = [a + b for a in DANGER for b in DANGER] + DANGER
    docs = []
    for i in range(0, len(names), 7):
        chunk = names[i:i + 7]
        docs.append({n: {"v": j, n: [j, {n: "leaf"}]} for j, n in enumerate(chunk)})
        docs.append([{n: [1, 2]} for n in chunk])
    return docs


def gen(ctx):
    cases = []
    docs = [{"id": [1, {"id": 2}], "~id": [2, {"x": 1}], "#id": {"k": 3, "#k": [4]}, "k": {"#k": 1, "k": 2, "~k": {"k": 0}}, "~": {"": 1, "~": 2}, "#": {"#": [0]}},
            [{"a": 1, "~a": 2, "#a": 3}, {"~0": 1, "0": 2, "#0": 3, "~1": 4, "1": 5}]] + danger_docs() + [d for d in G.structured_docs(qgen.NAMES) if isinstance(d, (dict, list))]
    for _ in range(40 if ctx.tier == "quick" else 500):
        d = G.random_doc(ctx.rng, 4, keys=qgen.NAMES + DANGER, width=4)
        if isinstance(d, (dict, list)):
            docs.append(d)
    fixed = ["$..*", "$.*", "$..[*]", "$[*][*]", "$..[-1]", "$..[::-1]", "$..[1::-2]", "$[-1:]", "$.*.*", "$..[?@]", "$[?@.*]", "$..[?@ == 'leaf']", "$"]
    for doc in docs:
        qs = list(fixed) if ctx.tier != "quick" else ctx.rng.sample(fixed, 5)
        for q in qs:
            cases.append({"text": q, "doc": doc})
    names = qgen.NAMES + DANGER
    for _ in range(400 if ctx.tier == "quick" else 8000):
        ast = qgen.gen_path(ctx.rng, names=names, allow_filter=ctx.rng.random() < 0.3)
        r = qgen.R(ctx.rng, blanks=False, canonical=ctx.rng.random() < 0.5)
        text = qgen.render_path(ast, r)
        for doc in ctx.rng.sample(docs, 2):
            cases.append({"text": text, "doc": doc})
    return cases


def _navigate(doc, parts):
    cur = doc
    for p in parts:
        cur = cur[p]
    return cur


_LOOP = None


def _async_matches(compiled, doc):
    import asyncio
    global _LOOP
    if _LOOP is None or _LOOP.is_closed():
        _LOOP = asyncio.new_event_loop()

    async def go():
        return [m async for m in await compiled.finditer_async(doc)]
    return _LOOP.run_until_complete(go())


def _canon_tie(ctx):
    """`Query.canonicalString` (the code-shaped `json.dumps` + two `replace`) and `Rfc.normalName` (RFC 9535 2.7 written from the
    document) through their own driver operation, against `jsonpath.serialize.canonical_string`, on every string of length <= 2 over
    the dangerous characters, every C0 control, DEL, C1 controls, the line separators and astral characters."""
    from jsonpath.serialize import canonical_string

    alpha = list(DANGER) + [chr(i) for i in range(0x20)] + ["\x7f", "\x80", "\x85", "\x9f", "\u2028", "\u2029", "\ufeff", "\uffff", "\U0001f600", "b", "u", "n"]
    alpha = list(dict.fromkeys(alpha))
    names = [""] + alpha + [a + b for a in alpha for b in alpha]
    outs = ctx.driver.run([{"op": "q.canon", "s": s} for s in names], jobs=ctx.jobs)
    for s, m in zip(names, outs):
        impl = canonical_string(s)
        ctx.case(("canon", s), nontrivial=bool(s))
        if m.get("canon") != impl:
            ctx.mismatch("q.canon", {"name": s}, impl, m.get("canon"))
        if "'" + str(m.get("normal")) + "'" != impl:     # `normalName` is the text between the quotes
            ctx.violation("the member-name part of a normalized path is the RFC 9535 2.7 escaping of the name", {"name": s}, impl, m.get("normal"))


def evaluate(ctx, cases):
    import jsonpath
    from jsonpath import JSONPointer

    if not getattr(ctx, "_canon_tie_done", False):
        ctx._canon_tie_done = True
        _canon_tie(ctx)

    reqs, meta = [], []
    for c in cases:
        o = qeval.compile_outcome(c["text"])
        if "err" in o:
            ctx.count("compile-error")
            continue
        try:
            reqs.append(qeval.build_request(o["ok"], c["doc"]))
        except core.Unencodable:
            continue
        meta.append((c, o["ok"]))
    outs = ctx.driver.run(reqs, jobs=ctx.jobs)
    for (c, compiled), m in zip(meta, outs):
        doc = c["doc"]
        inp = {"text": c["text"], "doc": doc}
        try:
            matches = list(compiled.finditer(doc))
        except Exception as e:  # noqa: BLE001
            ctx.violation("evaluation raised", inp, core.exc_name(e), "matches")
            continue
        mod = qeval.model_nodes(m)
        impl = [{"parts": list(x.parts), "path": x.path, "val": core.canon(x.obj)} for x in matches]
        if impl != mod:
            ctx.mismatch("q.locate", inp, impl[:5], mod[:5])
        seen = {}
        for k, x in enumerate(matches):
            ctx.case((c["text"], repr(doc), k), bool(x.parts), sample={"query": c["text"], "path": x.path, "parts": list(x.parts)} if k == 0 else None)
            where = {"text": c["text"], "doc": doc, "match": k, "path": x.path, "parts": list(x.parts)}
            # path syntax
            if not _NP.match(x.path):
                ctx.violation("the match path must be a syntactically valid RFC 9535 normalized path", where, x.path, "normalized-path grammar")
            # path as a query returns exactly that one object
            back = core.outcome(lambda: jsonpath.finditer(x.path, doc))
            if "err" in back:
                ctx.violation("the match path, evaluated as a query, must compile and evaluate", where, back["err"], "one match")
            else:
                bl = list(back["ok"])
                if not (len(bl) == 1 and bl[0].obj is x.obj):
                    ctx.violation("the match path, evaluated as a query on the same document, must return exactly that one object", where, len(bl), 1)
            # parts
            try:
                ok = _navigate(doc, x.parts) is x.obj
            except Exception:  # noqa: BLE001
                ok = False
            if not ok:
                ctx.violation("the match's key/index parts must lead to the matched object", where, "different object", "same object")
            # pointer and re-parsed pointer
            po = core.outcome(lambda: x.pointer())
            if "err" in po:
                ctx.violation("match.pointer() failed", where, po["err"], "a pointer")
            else:
                ptr = po["ok"]
                r1 = core.outcome(lambda: ptr.resolve(doc))
                if not ("ok" in r1 and r1["ok"] is x.obj):
                    ctx.violation("the JSON Pointer derived from the match must resolve to the matched object", where, r1.get("err", "different object"), "same object")
                ue = "\\" not in str(ptr)
                r2 = core.outcome(lambda: JSONPointer(str(ptr), unicode_escape=ue).resolve(doc))
                if not ("ok" in r2 and r2["ok"] is x.obj):
                    ctx.violation("the pointer's string form, parsed again, must resolve to the matched object", {**where, "pointer": str(ptr)}, r2.get("err", "different object"), "same object")
                want = G.rfc6901_spell(x.parts)
                if str(ptr) != want:
                    ctx.violation("the pointer must be the RFC 6901 spelling of the parts", where, str(ptr), want)
            # parent
            if not x.parts:
                if x.parent is not None:
                    ctx.violation("the root match has no parent", where, "parent", None)
            else:
                par = x.parent
                if par is None or list(par.parts) != list(x.parts[:-1]):
                    ctx.violation("the parent of a match is the match whose location is one step shorter", where, None if par is None else list(par.parts), list(x.parts[:-1]))
                else:
                    try:
                        okp = _navigate(doc, par.parts) is par.obj
                    except Exception:  # noqa: BLE001
                        okp = False
                    if not okp:
                        ctx.violation("the parent match must carry the parent container", where, "different object", "same object")
                    # the whole chain up to the root: one step shorter each time, valid paths that are prefixes, then None
                    cur, steps = x, 0
                    while cur is not None and steps <= len(x.parts) + 1:
                        up = cur.parent
                        if up is not None:
                            if list(up.parts) != list(cur.parts[:-1]) or not _NP.match(up.path) or not cur.path.startswith(up.path) or up.path == cur.path:
                                ctx.violation("every ancestor in the parent chain is the match one step shorter, with a normalized path that is a proper prefix", where,
                                              {"parts": list(up.parts), "path": up.path}, {"parts": list(cur.parts[:-1])})
                                break
                        elif cur.parts:
                            ctx.violation("the parent chain must reach the root match", where, list(cur.parts), [])
                            break
                        cur, steps = up, steps + 1
            if getattr(x, "root", doc) is not doc:
                ctx.violation("a match's root is the queried document", where, "another object", "the document")
            # equal paths iff same node
            key = tuple(x.parts)
            if x.path in seen and seen[x.path] != key:
                ctx.violation("two matches with equal paths must denote the same node", where, [seen[x.path], key], "same location")
            seen[x.path] = key
        # the listed views of the same matches: Query.locations() / pointers() / items(), JSONPointer.from_match, and the
        # matches produced by the other entry points (their locations are built by separate code)
        if ctx.rng.random() < (0.15 if ctx.tier == "quick" else 0.5):
            ctx.count("views")
            want_paths = [x.path for x in matches]
            want_ptrs = [G.rfc6901_spell(x.parts) for x in matches]
            views = {
                "query().locations()": (lambda: list(jsonpath.query(c["text"], doc).locations()), want_paths),
                "compiled.query().locations()": (lambda: list(compiled.query(doc).locations()), want_paths),
                "query().pointers()": (lambda: [str(p) for p in jsonpath.query(c["text"], doc).pointers()], want_ptrs),
                "query().items() paths": (lambda: [p for p, _ in jsonpath.query(c["text"], doc).items()], want_paths),
                "JSONPointer.from_match": (lambda: [str(JSONPointer.from_match(x)) for x in matches], want_ptrs),
                "finditer_async paths": (lambda: [x.path for x in _async_matches(compiled, doc)], want_paths),
                "finditer_async pointers": (lambda: [str(x.pointer()) for x in _async_matches(compiled, doc)], want_ptrs),
                "finditer_async parents": (lambda: [None if x.parent is None else list(x.parent.parts) for x in _async_matches(compiled, doc)],
                                           [None if not x.parts else list(x.parts[:-1]) for x in matches]),
                "match() path": (lambda: (lambda mm: [] if mm is None else [mm.path, str(mm.pointer())])(jsonpath.match(c["text"], doc)),
                                 [] if not matches else [matches[0].path, want_ptrs[0]]),
            }
            for name, (fn, want) in views.items():
                r = core.outcome(fn)
                if r.get("ok") != want:
                    ctx.violation("every view of the matches (locations, pointers, items, asynchronous matches, match()) must carry the same locations", {**inp, "view": name},
                                  r.get("ok", r.get("err")) if "err" in r else r["ok"][:5], want[:5])
            ids = core.outcome(lambda: [x.obj for x in _async_matches(compiled, doc)])
            if "ok" in ids and not (len(ids["ok"]) == len(matches) and all(a is b.obj for a, b in zip(ids["ok"], matches))):
                ctx.violation("asynchronous matches must carry the very objects of the document", inp, "different objects", "same objects")
        paths_by_loc = {}
        for x in matches:
            paths_by_loc.setdefault(tuple((type(p).__name__, p) for p in x.parts), set()).add(x.path)
        for loc, ps in paths_by_loc.items():
            if len(ps) > 1:
                ctx.violation("one node must have one path", inp, sorted(ps), "a single path")


def search(ctx):
    old = ctx.tier
    ctx.tier = "thorough"
    try:
        evaluate(ctx, gen(ctx))
    finally:
        ctx.tier = old


def probe(kf):
    """Replay a recorded known finding on the implementation; True if it still fails."""
    import jsonpath
    from jsonpath import JSONPointer

    pr = kf["probe"]
    try:
        doc = pr["doc"]
        for m in jsonpath.finditer(pr["query"], doc):
            if JSONPointer(str(m.pointer()), unicode_escape=False).resolve(doc) is not m.obj:
                return True
        return False
    except Exception:  # noqa: BLE001
        return True
