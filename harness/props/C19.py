"""C19 — Projection returns exactly the selected values, nothing more, in place."""
from __future__ import annotations

import copy
import json

from .. import core
from .. import gen as G

LEVEL = "proof"
READY = True
CLAIM = {
    "text": "Lean theorems over ALL selection lists taken from the match's value, in any order and however they overlap (one selected location a prefix of, or equal to, another): "
            "the model of Query._select / _patch_obj / _fix_sparse_arrays (patchAllO, which walks into already copied values) is defined, the intermediate object is a pruning of "
            "the match's value, every selected value is found at its location with each array index on the way replaced by its position among the indices selected in that array "
            "(overlapping_compaction), and every leaf sits at a selected location and holds the value the match has there (overlapping_no_extra_leaves). For prefix-disjoint lists "
            "the older, stronger statements (the leaves are a permutation of the selected values) are kept. Flat projection is the list of selected values in selection order, root "
            "projection is the same located from the root, non-containers and empty selections produce nothing. Tied to fluent_api.py by differential execution on generated "
            "documents / match queries / relative query lists, overlapping ones included; non-modification of the document is decided by a before/after deep comparison on every case.",
    "note": "Trusted: Lean kernel; model JP.Projection; position = rank needs per-array selections in ascending order (the property's quantifier), descending lists are compared with "
            "the model only; 'the document is not modified' is an effect decided by observation.",
    "technique": "Lean 4 theorems on the projection model (trie invariant by induction over the selection list) + differential correspondence + before/after probes",
}
RULE = ("documents x match queries x lists of 1-3 relative queries (names, indices, slices, wildcards, nested) with ascending per-array order, under the three projection styles; "
        "falsy leaves (0 false '' [] {}), integer-looking member names; an overlapping-selection stream (a container and locations below it, two or three selections, both orders, whole arrays then elements) compared with the model and with an independent trie; "
        "non-trivial = the match is a container and something is selected")
TRUSTED = ["Lean 4.33 kernel; standard axioms only", "model JP/Projection.lean tied to fluent_api.py by this differential run"]
ASSUMPTIONS = ["relative queries select strictly below the match", "per-array selections in ascending order (as the property states) for the rank clause"]

DOCS = [
    {"a": [0, {"x": 2, "y": 3}], "b": {"c": [1, 2, 3], "d": "s"}, "1": "one", "e": 0, "f": False, "g": "", "h": [], "i": {}},
    [{"a": 1, "b": [10, 20, 30]}, {"a": 2, "b": [40]}, 5, "str", [1, 2]],
    {"users": [{"name": "n1", "tags": ["x", "y"], "n": 0}, {"name": "n2", "tags": [], "n": None}, {"name": "n3"}]},
    {"1": {"2": [0, 1, 2, 3]}, "0": "zero"},
    [[1, 2, 3], [4, 5], []],
    # arrays long enough for two-digit indices (rank order is numeric order, not the order of the index spellings)
    {"foo": [f"v{i}" for i in range(12)], "rows": [{"id": i, "tags": [i, i + 1]} for i in range(11)]},
    [[i, i * 2] for i in range(13)],
    # string values that happen to hold JSON text (they are strings, not containers)
    {"events": [{"payload": "{\"a\": 1, \"name\": \"bob\", \"tags\": [\"x\", \"y\"]}"}, {"payload": "[10, 20, 30]"}, {"payload": "{oops"}, {"payload": {"a": 2, "name": "n"}}],
     "a": "{\"a\": [1, 2]}", "b": "[1, 2, 3]"},
]
MATCH_Q = ["$.foo", "$.rows", "$[9:]", "$.events[*].payload", "$.events[*]", "$..payload", "$", "$.a", "$.b", "$[0]", "$[*]", "$.users[*]", "$.users", "$..b", "$.e", "$.d", "$[4]", "$['1']", "$[2]", "$..tags", "$.nosuch"]
REL_Q = ["$.a", "$.b", "$.x", "$.name", "$.tags", "$.tags[0]", "$.tags[1]", "$[0]", "$[1]", "$[2]", "$[0:2]", "$[1:]", "$[*]", "$.*", "$.b[0]", "$.b[1:]", "$.b[*]",
         "$[-1].a", "$[-1].b", "$[-4].b[0]", "$[-4].a", "$[-5].a", "$[1].a", "$[-1]", "$.users[-1].name", "$.users[2].tags", "$.users[-3].tags[-1]", "$.b[-1]", "$.c[-3]", "$.tags[-1]",
         "$[-2].x", "$[1].y", "$.foo[2]", "$.foo[10]", "$.foo[8:]", "$.foo[*]", "$[2]", "$[10]", "$[8:]", "$[9:12].id", "$.rows[1, 10].id", "$.rows[*].tags[0]", "$[10][0]", "$[2][1]", "$[11]", "$[-1].x", "$.c", "$.c[1]", "$.c[0, 2]", "$[0].a", "$[1].b[0]", "$[*].a", "$.users[*].name", "$.users[0,2].name", "$.users[1:].tags[0]", "$['2'][1:3]", "$['2'][0]",
         "$.e", "$.f", "$.g", "$.h", "$.i", "$..name", "$[*].b[0]", "$.nosuch", "$.d", "$['1']", "$.n"]


def path_tokens(path):
    """The location a normalized path spells, read independently of match.parts."""
    i, out = 1, []
    while i < len(path):
        if path[i] != "[":
            raise ValueError(path)
        if path[i + 1] == "'":
            j, buf = i + 2, []
            while path[j] != "'":
                if path[j] == "\\":
                    n = path[j + 1]
                    if n == "u":
                        buf.append(chr(int(path[j + 2:j + 6], 16))); j += 6
                    else:
                        buf.append({"b": "\b", "f": "\f", "n": "\n", "r": "\r", "t": "\t"}.get(n, n)); j += 2
                else:
                    buf.append(path[j]); j += 1
            out.append("".join(buf)); i = j + 2
        else:
            j = path.index("]", i)
            out.append(int(path[i + 1:j])); i = j + 1
    return tuple(out)


def relations(parts_list):
    """(ascending, disjoint): per-array indices ascend in selection order; no location is a prefix of (or equal to) another."""
    ps = [tuple(p) for p in parts_list]
    if any(len(p) == 0 for p in ps):
        return False, False
    disjoint = True
    for i, a in enumerate(ps):
        for j, b in enumerate(ps):
            if i != j and len(a) <= len(b) and b[:len(a)] == a:
                disjoint = False
    last = {}
    for p in ps:
        for d, part in enumerate(p):
            if isinstance(part, int):
                pre = p[:d]
                if pre in last and part < last[pre]:
                    return False, disjoint
                last[pre] = max(part, last.get(pre, part))
    return True, disjoint


def spec_overlap(pairs):
    """Selections that may overlap: a trie in first-insertion order in which a selected location is *whole* (it holds the
    value selected there; nothing below it is listed separately, whether it was selected before or after)."""
    WHOLE = object()
    root = {}
    for parts, v in pairs:
        node = root
        for d, k in enumerate(parts):
            key = (type(k), k)
            if d == len(parts) - 1:
                node[key] = (WHOLE, v)
                break
            nxt = node.get(key)
            if isinstance(nxt, tuple):
                break                      # below a whole selection: already there
            if nxt is None:
                nxt = node[key] = {}
            node = nxt

    def build(n):
        if isinstance(n, tuple):
            return copy.deepcopy(n[1])
        if all(t is int for t, _ in n):
            return [build(n[key]) for key in sorted(n, key=lambda x: x[1])]
        return {k: build(c) for (_, k), c in n.items()}
    return build(root)


def spec_tree(pairs):
    """Trie of (parts, value) pairs; int-keyed levels become arrays in ascending index order."""
    if len(pairs) == 1 and pairs[0][0] == ():
        return pairs[0][1]
    groups, order = {}, []
    for parts, v in pairs:
        k = parts[0]
        if (type(k), k) not in groups:
            groups[(type(k), k)] = []
            order.append((type(k), k))
        groups[(type(k), k)].append((parts[1:], v))
    if all(t is int for t, _ in order):
        return [spec_tree(groups[key]) for key in sorted(order, key=lambda x: x[1])]
    return {k: spec_tree(groups[(t, k)]) for t, k in order}


def gen(ctx):
    cases = []
    n = 1500 if ctx.tier == "quick" else 30000
    docs = DOCS + [d for d in (G.random_doc(ctx.rng, 4, keys=["a", "b", "c", "x", "name", "tags", "1", "2"], width=4) for _ in range(20 if ctx.tier == "quick" else 300)) if isinstance(d, (dict, list))]
    import jsonpath

    def selects_something(doc, mq, sel):
        try:
            for m in jsonpath.finditer(mq, doc):
                if isinstance(m.obj, (dict, list)):
                    for q in sel:
                        if any(True for _ in jsonpath.finditer(q, m.obj)):
                            return True
        except Exception:  # noqa: BLE001
            return False
        return False

    for _ in range(n):
        doc = ctx.rng.choice(docs)
        for attempt in range(40):
            mq = ctx.rng.choice(MATCH_Q)
            sel = [ctx.rng.choice(REL_Q) for _ in range(ctx.rng.randint(1, 3))]
            if attempt == 39 or ctx.rng.random() < 0.1 or selects_something(doc, mq, sel):
                break
        cases.append({"doc": doc, "match": mq, "sel": sel, "style": ctx.rng.choice(["RELATIVE", "FLAT", "ROOT"])})
    # overlapping selections (a container and things strictly below it, at every depth, in either order, two or three of them)
    deep = [{"a": {"b": [0, {"x": 2, "y": 3}]}, "c": 1}, {"a": [[1, {"k": [1, 2]}], {"b": {"c": [{"d": 1}]}}]}, [[{"a": [{"b": 1}]}], {"z": [[{"y": 2}]]}]]
    for doc in deep + docs[:6]:
        locs = [(t, v) for t, v in G.locations(doc) if t]
        conts = [(t, v) for t, v in locs if isinstance(v, (dict, list))]
        for _ in range(25 if ctx.tier == "quick" else 200):
            if not conts:
                break
            t1, v1 = ctx.rng.choice(conts)
            below = [t for t, _ in locs if len(t) > len(t1) and t[:len(t1)] == t1]
            if not below:
                continue
            t2 = ctx.rng.choice(below)
            def spell(t):
                return "$" + "".join(f"[{json.dumps(x)}]" if isinstance(x, str) else f"[{x}]" for x in t)
            order = [spell(t1), spell(t2)] if ctx.rng.random() < 0.7 else [spell(t2), spell(t1)]
            if ctx.rng.random() < 0.4:
                t3 = ctx.rng.choice(below + [t for t, _ in locs])
                order.insert(ctx.rng.randint(0, 2), spell(t3))
            if ctx.rng.random() < 0.2:
                order.append(order[0])
            cases.append({"doc": doc, "match": "$", "sel": order, "style": ctx.rng.choice(["RELATIVE", "ROOT"])})
    return cases


def evaluate(ctx, cases):
    import jsonpath
    from jsonpath import Projection

    # pass 1: the implementation's selections per match -> driver requests
    work, reqs = [], []
    for c in cases:
        doc = copy.deepcopy(c["doc"])
        before = copy.deepcopy(doc)
        style = getattr(Projection, c["style"])
        matches = list(jsonpath.finditer(c["match"], doc))
        per_match, expect, in_scope, overlapping = [], [], True, False
        for m in matches:
            sels = []
            if isinstance(m.obj, (dict, list)):
                for q in c["sel"]:
                    for r in jsonpath.finditer(q, m.obj):
                        try:
                            loc = path_tokens(r.path)
                        except (ValueError, IndexError):
                            loc = tuple(r.parts)
                        sels.append((loc, r.obj))
            per_match.append((m, sels))
        for m, sels in per_match:
            try:
                reqs.append({"op": "proj.select", "style": c["style"], "match_parts": list(m.parts), "match_val": core.enc(m.obj),
                             "sels": [[list(p), core.enc(v)] for p, v in sels]})
            except core.Unencodable:
                reqs.append({"op": "ping"})
            if not isinstance(m.obj, (dict, list)) or not sels:
                continue
            if c["style"] == "FLAT":
                expect.append([v for _, v in sels])
                continue
            asc, disjoint = relations([p for p, _ in sels])
            if not asc:
                in_scope = False
                continue
            pre = tuple(m.parts) if c["style"] == "ROOT" else ()
            if disjoint:
                expect.append(spec_tree([(pre + p, v) for p, v in sels]))
            else:
                overlapping = True
                expect.append(spec_overlap([(pre + p, v) for p, v in sels]))
        o = core.outcome(lambda: list(jsonpath.query(c["match"], doc).select(*c["sel"], projection=style)))
        work.append((c, doc, before, per_match, expect, in_scope, overlapping, o))
    outs = ctx.driver.run(reqs, jobs=ctx.jobs)
    k = 0
    for c, doc, before, per_match, expect, in_scope, overlapping, o in work:
        inp = dict(c)
        model, outside = [], False
        for _ in per_match:
            m = outs[k]; k += 1
            if "ok" in m:
                model.append(m["ok"])
            elif "outside" in m:
                outside = True
        ctx.case(repr(c), bool(expect), sample=c)
        ctx.count("style:" + c["style"])
        ctx.count("scope:" + (("overlapping" if overlapping else "disjoint") if in_scope else "descending"))
        if doc != before or repr(doc) != repr(before):
            ctx.violation("projection must not modify the document", inp, core.canon(doc), core.canon(before))
        if "err" in o:
            if in_scope:
                ctx.violation("projection raised", inp, o["err"], "projections")
            continue
        got = [core.canon(x) for x in o["ok"]]
        # the other ways of asking for the same projection
        if ctx.rng.random() < (0.25 if ctx.tier == "quick" else 0.6):
            ctx.count("select-forms")
            style_v = getattr(Projection, c["style"])
            forms = {
                "compiled relative queries": lambda: list(jsonpath.query(c["match"], doc).select(*[jsonpath.compile(x) for x in c["sel"]], projection=style_v)),
                "compiled.query(doc).select": lambda: list(jsonpath.compile(c["match"]).query(doc).select(*c["sel"], projection=style_v)),
                "after a no-op chain": lambda: list(jsonpath.query(c["match"], doc).skip(0).limit(10 ** 6).select(*c["sel"], projection=style_v)),
            }
            def split_by_other_select():
                # a projection is lazy: asking the same Query object for another projection (never consumed) while this one
                # is half-way must not change what this one goes on to produce
                q = jsonpath.query(c["match"], doc)
                s1 = q.select(*c["sel"], projection=style_v)
                head = [x for _, x in zip(range(1), s1)]
                q.select("$.nosuch", "$..*", "$[0]", projection=Projection.FLAT)
                return head + list(s1)
            forms["first item, then another select() on the same Query object, then the rest"] = split_by_other_select
            if c["style"] == "RELATIVE":
                forms["default projection"] = lambda: list(jsonpath.query(c["match"], doc).select(*c["sel"]))
            for name, fn in forms.items():
                r = core.outcome(fn)
                rr = [core.canon(x) for x in r["ok"]] if "ok" in r else {"err": r["err"]}
                if rr != got:
                    ctx.violation("every way of asking for the same projection must give the same result", {**inp, "form": name}, rr, got)
        if not outside and got != model:
            ctx.mismatch("proj.select", inp, got, model)
        if not in_scope:
            continue
        want = [core.canon(x) for x in expect]
        if got != want:
            ctx.violation("projection must contain exactly the selected values at their (rank-compacted) locations, one projection per container match with a non-empty selection", inp, got, want)
        _history(ctx, c, doc, o, got, inp)


def _history(ctx, c, doc, o, got, inp):
    import jsonpath
    from jsonpath import Projection
    # the projection is of the document as it is now, and belongs to the caller: project, edit what came back, edit the
    # document in place, project again from the same document object
    if isinstance(doc, (dict, list)) and o["ok"] and ctx.rng.random() < (0.5 if ctx.tier == "quick" else 1.0):
        ctx.count("history")
        style_h = getattr(Projection, c["style"])
        for proj in (o["ok"] if c["style"] != "FLAT" else []):      # a flat projection lists the selected values themselves
            for _, v in list(G.locations(proj)):
                if isinstance(v, list):
                    v.append("EDITED-BY-CALLER")
                elif isinstance(v, dict):
                    v["EDITED-BY-CALLER"] = 1
        again = core.outcome(lambda: [core.canon(x) for x in jsonpath.query(c["match"], doc).select(*c["sel"], projection=style_h)])
        if again.get("ok") != got:
            ctx.violation("a projection must not depend on what the caller did with an earlier projection of the same document", inp, again.get("ok", again.get("err")), got)
        def bump(x):
            if isinstance(x, dict):
                for k in list(x):
                    x[k] = bump(x[k])
                return x
            if isinstance(x, list):
                for i in range(len(x)):
                    x[i] = bump(x[i])
                return x
            if isinstance(x, bool) or x is None:
                return x
            if isinstance(x, (int, float)):
                return x + 1000
            if isinstance(x, str):
                return x + "!"
            return x
        bump(doc)                                                # same containers, new leaves
        live = core.outcome(lambda: [core.canon(x) for x in jsonpath.query(c["match"], doc).select(*c["sel"], projection=style_h)])
        fresh = core.outcome(lambda: [core.canon(x) for x in jsonpath.query(c["match"], copy.deepcopy(doc)).select(*c["sel"], projection=style_h)])
        if live.get("ok") != fresh.get("ok") or ("err" in live) != ("err" in fresh):
            ctx.violation("a projection taken again after the document was edited in place must be that of the document as it is now", {**inp, "document_now": core.canon(doc)},
                          live.get("ok", live.get("err")), fresh.get("ok", fresh.get("err")))


def search(ctx):
    old = ctx.tier
    ctx.tier = "thorough"
    try:
        evaluate(ctx, gen(ctx))
    finally:
        ctx.tier = old


def probe(kf):
    return False
