"""C12 — Query iterator operations behave as list slicing on the match sequence."""
from __future__ import annotations

import itertools

from .. import core

LEVEL = "proof"
READY = True
CLAIM = {
    "text": "Lean theorem chain_refines_list: for EVERY chain of limit/head/first, drop/skip, tail/last, take, tee, first_one/one, last_one calls with every integer count "
            "(negative included) over a match sequence of every length, the model of the Query iterator (explicit iterator protocol: islice wrapping, eager advance, deque, "
            "take draining, tee buffering) produces exactly what the corresponding list operations produce, negative counts are refused with a value error and change nothing, "
            "and the final view lists the remaining matches in order (induction over the call history with the abstraction `drain`). The model is tied to fluent_api.py by "
            "running the same scripts on jsonpath.query; all chains of length <= 2 (quick) / <= 3 (thorough) over 12 operations x counts {-1,0,1,2,k-1,k,k+1} x k in 0..5 are enumerated.",
    "note": "Trusted: Lean kernel; the model JP.Fluent of itertools.islice / collections.deque / itertools.tee (tee children modelled by their buffered contents; using the "
            "parent after tee is outside the property).",
    "technique": "Lean 4 refinement proof to a list specification by induction over operation histories + differential correspondence",
}
RULE = ("all op chains of length <= 2 (quick) or <= 3 (thorough) over {limit,head,first,drop,skip,tail,last,take,tee,first_one,one,last_one} x counts {-1,0,1,2,k-1,k,k+1} x "
        "sequence lengths k = 0..5 (complete), longer chains sampled; each followed by one of the four views; non-trivial = k > 0 and chain non-empty")
TRUSTED = ["Lean 4.33 kernel; standard axioms only", "model JP/Fluent.lean tied to fluent_api.py by this differential run"]
ASSUMPTIONS = ["after tee the parent query is not used again (the script continues with the first child)"]

COUNTED = ["limit", "head", "first", "drop", "skip", "tail", "last", "take", "tee"]
NULLARY = ["first_one", "one", "last_one"]


def ops_for(k):
    counts = sorted({-1, 0, 1, 2, max(k - 1, 0), k, k + 1})
    out = [[n, c] for n in COUNTED for c in counts if not (n == "tee" and c > 3)]
    out += [[n] for n in NULLARY]
    return out


def gen(ctx):
    cases = []
    maxlen = 2 if ctx.tier == "quick" else 3
    for k in range(0, 6):
        ops = ops_for(k)
        for n in range(0, maxlen + 1):
            if n == 3:
                combos = itertools.product(ops, repeat=3)
                # thorough: complete for k <= 3, sampled above
                combos = list(combos) if k <= 3 else ctx.rng.sample(list(itertools.product(ops, repeat=3)), 40000)
            else:
                combos = itertools.product(ops, repeat=n)
            for chain in combos:
                cases.append({"k": k, "ops": [list(o) for o in chain], "view": ctx.rng.choice(["values", "locations", "items", "pointers"])})
    ctx.exhaustive_spaces.append(f"all chains of length <= {maxlen} x counts x k=0..5")
    for _ in range(3000 if ctx.tier == "quick" else 60000):
        k = ctx.rng.randint(0, 9)
        ops = ops_for(k)
        cases.append({"k": k, "ops": [list(ctx.rng.choice(ops)) for _ in range(ctx.rng.randint(3, 7))], "view": ctx.rng.choice(["values", "locations", "items", "pointers"])})
    for c in cases:
        c["dup"] = c["k"] >= 2 and ctx.rng.random() < 0.4
    # tee(0) yields no query to continue with: a script ends at its first successful tee(0)
    for c in cases:
        for i, op in enumerate(c["ops"]):
            if op == ["tee", 0]:
                c["ops"] = c["ops"][:i + 1]
                break
    return cases


def run_impl(case, defer=False):
    """Run the script on the implementation. With `defer`, the queries split off by take()/tee() are
    consumed only after everything else (the property does not depend on who is consumed first)."""
    import jsonpath

    k = case["k"]
    # the source of the query object and the way child queries are read vary with the case (deterministically)
    h = (k * 31 + len(case["ops"]) * 7 + sum(len(str(o)) for o in case["ops"])) % 4
    if case.get("dup") and k >= 2:
        # the same node may occur more than once in a nodelist: k matches over ceil(k/2) distinct nodes
        m = (k + 1) // 2
        text, doc = "$[" + ",".join(str(j % m) for j in range(k)) + "]", list(range(m))
    else:
        text, doc = "$[*]", list(range(k))
    if case.get("env") == "narrow":
        class Narrow(jsonpath.JSONPathEnvironment):          # index limits of the environment are not limits on counts
            max_int_index = 3
            min_int_index = -3
        e = Narrow()
        q = e.query(text, doc) if h % 2 == 0 else e.compile(text).query(doc)
    else:
        q = jsonpath.query(text, doc) if h % 2 == 0 else jsonpath.compile(text).query(doc)

    def read(child):
        if h == 0:
            return list(child.values())
        if h == 1:
            return [int(p[2:-1]) for p in child.locations()]
        if h == 2:
            return [o for _, o in child.items()]
        return [m.obj for m in child]          # direct iteration
    outs = []
    pending = []
    for op in case["ops"]:
        name = op[0]
        try:
            if name in ("limit", "head", "first", "drop", "skip", "tail", "last"):
                r = getattr(q, name)(op[1])
                if r is not q:
                    return {"err": f"{name} did not return the query"}
            elif name == "take" and h == 3 and op[1] >= 1 and not defer:
                # the same split done by hand: iterate the query object, stop after n matches, abandon the iterator
                got_ = []
                for m_ in q:
                    got_.append(m_.obj)
                    if len(got_) >= op[1]:
                        break
                outs.append({"taken": got_})
            elif name == "take":
                t = q.take(op[1])
                if defer:
                    slot = {"taken": None}
                    outs.append(slot)
                    pending.append((slot, "taken", t))
                else:
                    outs.append({"taken": read(t)})
            elif name == "tee":
                ch = q.tee() if (op[1] == 2 and h >= 2) else q.tee(op[1])
                if defer:
                    slot = {"children": None}
                    outs.append(slot)
                    pending.append((slot, "children", ch[1:]))
                else:
                    outs.append({"children": [read(c) for c in ch[1:]]})
                if not ch:
                    for slot, key, obj in pending:
                        slot[key] = read(obj) if key == "taken" else [read(c) for c in obj]
                    return {"outs": outs, "final": []}
                q = ch[0]
            else:
                m = getattr(q, name)()
                outs.append({"item": None if m is None else m.obj})
        except ValueError:
            outs.append({"err": "ValueError"})
        except Exception as e:  # noqa: BLE001
            return {"err": core.exc_name(e)}
    v = case["view"]
    if h == 3 and v == "values":
        fin = [m.obj for m in q]
    elif v == "values":
        fin = list(q.values())
    elif v == "locations":
        fin = [int(p[2:-1]) for p in q.locations()]
    elif v == "items":
        fin = []
        for p, o in q.items():
            if int(p[2:-1]) != o:
                return {"err": "items() path/value mismatch"}
            fin.append(o)
    else:
        fin = [int(str(p)[1:]) for p in q.pointers()]
    for slot, key, obj in pending:
        slot[key] = read(obj) if key == "taken" else [read(c) for c in obj]
    return {"outs": outs, "final": fin}


def _values(case, r):
    """The model and the list specification name matches by position; the implementation's views show their values."""
    k = case["k"]
    if not (case.get("dup") and k >= 2):
        return r
    m = (k + 1) // 2

    def f(x):
        if isinstance(x, bool) or x is None:
            return x
        if isinstance(x, int):
            return x % m
        if isinstance(x, list):
            return [f(y) for y in x]
        if isinstance(x, dict):
            return {a: (b if a == "err" else f(b)) for a, b in x.items()}
        return x
    return f(r)


def evaluate(ctx, cases):
    # the same scripts on a query made by an environment whose index limits are narrow (a sample: counts above the limit)
    cases = list(cases) + [{**c, "env": "narrow"} for c in cases
                           if c["k"] >= 4 and not c.get("dup") and c["ops"] and all(len(op) < 2 or not isinstance(op[1], int) or op[1] >= 0 for op in c["ops"])
                           and any(len(op) > 1 and isinstance(op[1], int) and op[1] > 3 for op in c["ops"])][:1500]
    reqs = [{"op": "fluent.run", "k": c["k"], "ops": c["ops"]} for c in cases]
    outs = ctx.driver.run(reqs, jobs=ctx.jobs)
    for c, m in zip(cases, outs):
        # after tee(0) nothing remains to continue with: cut the script there on both sides
        impl = run_impl(c)
        ctx.case(repr(c), c["k"] > 0 and bool(c["ops"]), sample=c)
        ctx.count("len:" + str(min(len(c["ops"]), 4)))
        mod, spec = _values(c, m["model"]), _values(c, m["spec"])
        if any(op[0] == "tee" and op[1] == 0 for op in c["ops"]):
            ctx.count("tee0")
        if impl != mod:
            ctx.mismatch("fluent.run", c, impl, mod)
        if mod != spec:
            ctx.violation("model differs from the list specification (proof obligation chain_refines_list)", c, mod, spec)
        if impl != spec:
            ctx.violation("the matches produced by a chain of query-iterator operations must be those of the corresponding list operations", c, impl, spec)
        if any(op[0] in ("take", "tee") for op in c["ops"]):
            late = run_impl(c, defer=True)
            ctx.count("deferred")
            if late != spec:
                ctx.violation("take/tee must split matches off independently of which query is consumed first", {**c, "consumption": "split-off queries consumed last"}, late, spec)


def search(ctx):
    old = ctx.tier
    ctx.tier = "thorough"
    try:
        import random
        ctx.rng = random.Random(ctx.seed + 99)
        cases = [c for c in gen(ctx)][-60000:]
        evaluate(ctx, cases)
    finally:
        ctx.tier = old


def probe(kf):
    return False
