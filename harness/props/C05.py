"""C05 — JSON Patch application conforms to RFC 6902 for every document and patch."""
from __future__ import annotations

import copy
import json

from .. import core
from .. import gen as G

LEVEL = "proof"
READY = True
CLAIM = {
    "text": "Lean theorem apply_refines_rfc over ALL documents and ALL operation sequences with non-extension pointers: the model of "
            "patch.py returns exactly the document RFC 6902 section 4 defines, and fails (with a patch error; test failures with the dedicated kind) "
            "exactly when the RFC is violated, plus named corollaries (add at length / '-', integer-like member names, root replacement, "
            "own-child move, deep test equality); the model is tied to patch.py by differential execution over every single operation on a "
            "document universe and sampled sequences, and the implementation is compared with the executable RFC 6902 spec on every case.",
    "note": "Trusted: Lean kernel; model JP.Patch (in-place mutation modelled as write-back on trees: documents without aliasing) validated "
            "differentially; 'a copied value is independent of its source' is decided by the correspondence on histories and an identity probe, "
            "not by a theorem (the pure model has no references). Negative indices and '#'/'~' tokens are documented pointer extensions and "
            "are outside the RFC comparison (still covered by the model correspondence); what negative indices mean is stated outright (negative_index_remove / _replace / _out_of_range). Member names that are integers beyond +-(2^53-1): known finding C05-KF1.",
    "technique": "Lean 4 refinement proof (patch.py model vs RFC 6902 on immutable values) + differential correspondence",
}
RULE = ("every single add/remove/replace/test (x value pool) and move/copy (x path pairs; sampled in quick) whose paths are an existing "
        "location, a one-step extension by {x,0,1,len,len+1,-,01,'',a,-1,#0}, or missing, over a structured document universe; "
        "operation sequences of length 2-6 sampled; non-trivial = the document is a container")
TRUSTED = ["Lean 4.33 kernel; standard axioms only", "model JP/Patch.lean tied to patch.py by this differential run",
           "copy.deepcopy / list / dict semantics as modelled"]
ASSUMPTIONS = ["documents are trees (no aliasing) of JSON-shaped values", "patches are given as parsed values (lists of dicts)"]

VALUES = [9, "v", [1], {"k": None}, True, None]
EXT_TOKENS = ["x", "0", "1", "-", "01", "", "a", "-1", "#0", "2", "-0", "+0", "00"]


def docs_universe():
    ds = [
        {}, [], {"a": 1}, [1], [1, 2, 3], {"a": {"b": 1}}, {"a": [1, 2]}, [[1], [2, 3]], [{"a": 1}, {"b": [2]}],
        {"1": 0}, {"1": "one", "a": [10, 20]}, {"-": 1, "": 2, "a/b": 3, "~": 4, "é": 5}, {"a": "abc", "b": 1.0, "c": None, "d": True},
        {"a": [1, True, 1.0, [1], [True], {"x": 0}, {"x": False}]}, {"a": {"b": {"c": [0, {"d": 1}]}}, "e": []},
        {"01": 1, "0": [0]}, [[[]]], {"a": 1, "b": 2, "c": 3}, 5, None, True, {"+1": 1, "-1": 2},
        {"n": {"a": None}, "m": [None, {"x": None, "y": 0}], "z": None},
        {"a": {"k": 1}, "ab": {"x": 2}, "1": "x", "10": {"y": 0}, "user": {"id": 1}, "users": {}},     # names that are string prefixes of a sibling's name
        {"-0": "minus zero", "0": "zero", "+0": "plus zero", "00": "double zero", "a": [1, 2]},          # spellings of zero that are member names, not indices
        {"tags": ["a", "b"], "s": "ab", "e": "", "l": [], "n": [["x", "y"], "xy"]},                      # strings next to the arrays of their characters
    ]
    return ds


def lookalikes(v):
    out = [v]
    if v is True: out += [1, 1.0]
    elif v is False: out += [0, 0.0]
    elif isinstance(v, int): out += [float(v), v == 1, v + 1, str(v)]
    elif isinstance(v, float): out += [int(v) if v == int(v) else v + 1]
    elif isinstance(v, list):
        out += [[(True if x == 1 and x is not True else x) for x in v], v + [0], list(reversed(v))]
        if all(isinstance(x, str) for x in v): out += ["".join(v)]
    elif isinstance(v, dict):
        out += [dict(reversed(list(v.items()))), {k: (False if x == 0 and x is not False else x) for k, x in v.items()}, {**v, "zz": 1}]
        if v:
            k0 = next(iter(v))
            out += [{("zz" if k == k0 else k): x for k, x in v.items()},          # same size, one member renamed
                    {("zz" if k == k0 else k): (5 if k == k0 else x) for k, x in v.items()},
                    {k: (None if k == k0 else x) for k, x in v.items()}]
    elif isinstance(v, str): out += [v + "x", list(v), [v]]          # a string is not the array of its characters
    elif v is None: out += [False, 0]
    return out


def paths_for(doc, rng=None, limit=None):
    locs = list(G.locations(doc))
    ps = [list(t) for t, _ in locs]
    for toks, val in locs:
        n = len(val) if isinstance(val, (list, dict)) else 0
        for e in EXT_TOKENS + [str(n), str(n + 1)]:
            ps.append(list(toks) + [e])
    ps.append(["nope", "deeper"])
    uniq = []
    seen = set()
    for p in ps:
        k = tuple(str(x) for x in p)
        if k not in seen:
            seen.add(k)
            uniq.append([str(x) for x in p])
    if limit and rng and len(uniq) > limit:
        keep = [p for p in uniq if len(p) <= 1]
        rest = [p for p in uniq if len(p) > 1]
        uniq = keep + rng.sample(rest, max(0, limit - len(keep)))
    return uniq


def single_ops(ctx, doc):
    quick = ctx.tier == "quick"
    ps = paths_for(doc, ctx.rng, 40 if quick else 120)
    ops = []
    for p in ps:
        s = G.rfc6901_spell(p)
        for v in (ctx.rng.sample(VALUES, 2) if quick else VALUES):
            ops.append({"op": "add", "path": s, "value": v})
            ops.append({"op": "replace", "path": s, "value": v})
        ops.append({"op": "remove", "path": s})
        # test: the value there (and look-alikes), if any
        try:
            cur = doc
            for t in p:
                cur = cur[int(t)] if isinstance(cur, list) else cur[t]
            for v in lookalikes(cur):
                ops.append({"op": "test", "path": s, "value": v})
        except Exception:  # noqa: BLE001
            ops.append({"op": "test", "path": s, "value": 1})
    # move/copy: most pairs are (existing source, plausible destination); the rest arbitrary
    locs = list(G.locations(doc))
    good_src = [[str(x) for x in t] for t, _ in locs]
    good_dst = list(good_src)
    for toks, val in locs:
        if isinstance(val, list):
            good_dst += [[str(x) for x in toks] + [e] for e in ("-", str(len(val)), "0")]
        elif isinstance(val, dict):
            good_dst += [[str(x) for x in toks] + [e] for e in ("new", "1", "")]
    pairs = [(a, b) for a in good_src for b in good_dst]
    budget = 250 if quick else 3000
    if len(pairs) > budget:
        pairs = ctx.rng.sample(pairs, budget)
    arb = [(ctx.rng.choice(ps), ctx.rng.choice(ps)) for _ in range(budget // 3)]
    pairs += arb
    for a, b in pairs:
        ops.append({"op": "move", "from": G.rfc6901_spell(a), "path": G.rfc6901_spell(b)})
        ops.append({"op": "copy", "from": G.rfc6901_spell(a), "path": G.rfc6901_spell(b)})
    return ops


def gen(ctx):
    cases = []
    for doc in docs_universe():
        for op in single_ops(ctx, doc):
            cases.append({"doc": doc, "ops": [op]})
    ctx.exhaustive_spaces.append("single add/remove/replace/test operations over the document universe x path set (move/copy pairs sampled)")
    nseq = 1500 if ctx.tier == "quick" else 40000
    ds = docs_universe()
    # member names that read differently under the other pointer options (percent-encoded look-alikes)
    pdoc = {"a%20b": 1, "a b": 2, "50%25": [1, 2], "50%": [3]}
    for ops in ([{"op": "remove", "path": "/a%20b"}], [{"op": "replace", "path": "/a%20b", "value": 9}], [{"op": "test", "path": "/a%20b", "value": 1}],
                [{"op": "add", "path": "/50%25/-", "value": 0}], [{"op": "move", "from": "/a%20b", "path": "/50%25/0"}], [{"op": "copy", "from": "/50%25", "path": "/a%20b"}]):
        cases.append({"doc": pdoc, "ops": ops, "kind": "percent", "forms": True})
    for _ in range(nseq):
        doc = ctx.rng.choice(ds) if ctx.rng.random() < 0.6 else G.random_doc(ctx.rng, 3, keys=["a", "b", "1", "-", "", "a/b", "~", "01"], width=3)
        if isinstance(doc, str):
            continue
        ops = []
        cur = copy.deepcopy(doc)
        for _ in range(ctx.rng.randint(2, 6)):
            pool = single_ops_light(ctx, cur)
            op = ctx.rng.choice(pool)
            ops.append(op)
            try:  # follow the evolving document with the implementation so later paths are meaningful
                from jsonpath import JSONPatch
                cur = JSONPatch([op]).apply(copy.deepcopy(cur))
            except Exception:  # noqa: BLE001
                if ctx.rng.random() < 0.7:
                    ops.pop()
        if ops:
            cases.append({"doc": doc, "ops": ops})
    # moves / copies between members one of whose names is a string prefix (not a token prefix) of the other's
    pd = {"a": {"k": 1}, "ab": {"x": 2}, "1": "x", "10": {"y": 0}, "user": {"id": 1}, "users": {}}
    for frm, to in [("/a", "/ab/x"), ("/a", "/ab/new"), ("/1", "/10/y"), ("/1", "/10/z"), ("/user", "/users/primary"), ("/ab", "/a/k"), ("/a", "/a/k"), ("/a/k", "/a"),
                    ("/users", "/user/id"), ("/10", "/1"), ("/a", "/abc"), ("/ab/x", "/a/x")]:
        for op in ("move", "copy"):
            cases.append({"doc": copy.deepcopy(pd), "ops": [{"op": op, "from": frm, "path": to}]})
    # the root replaced by a scalar (in particular by strings that look like JSON text), then every kind of operation
    for first in ("replace", "add"):
        for v in ["[1", "[1,2]", "{\"a\": 1}", "abc", "", "1", "null", 5, None, True]:
            for nxt in ({"op": "add", "path": "/0", "value": 1}, {"op": "add", "path": "/a", "value": 1}, {"op": "test", "path": "", "value": v}, {"op": "test", "path": "", "value": [1, 2]},
                        {"op": "remove", "path": "/0"}, {"op": "replace", "path": "/a", "value": 2}, {"op": "copy", "from": "", "path": "/a"}, {"op": "move", "from": "/0", "path": "/1"},
                        {"op": "replace", "path": "", "value": {"b": 1}}, {"op": "add", "path": "/-", "value": 1}):
                cases.append({"doc": {"a": 1}, "ops": [{"op": first, "path": "", "value": v}, nxt]})
    return cases


def single_ops_light(ctx, doc):
    ps = paths_for(doc, ctx.rng, 25)
    ops = []
    for p in ps:
        s = G.rfc6901_spell(p)
        v = ctx.rng.choice(VALUES)
        ops += [{"op": "add", "path": s, "value": v}, {"op": "replace", "path": s, "value": v}, {"op": "remove", "path": s}]
    for _ in range(20):
        a, b = ctx.rng.choice(ps), ctx.rng.choice(ps)
        ops.append({"op": ctx.rng.choice(["move", "copy"]), "from": G.rfc6901_spell(a), "path": G.rfc6901_spell(b)})
    return ops


def _toks(s):
    if s == "":
        return []
    return [x.replace("~1", "/").replace("~0", "~") for x in s.split("/")[1:]]


def _is_ext(tok):
    import re
    return tok.startswith("#") or tok.startswith("~") or bool(re.fullmatch(r"-[1-9][0-9]*", tok)) or (
        bool(re.fullmatch(r"0|[1-9][0-9]*", tok)) and int(tok) > 2**53 - 1)


def _spec_op(op):
    o = {"op": op["op"], "path": _toks(op["path"])}
    if "from" in op:
        o["from"] = _toks(op["from"])
    if "value" in op:
        o["value"] = core.enc(op["value"])
    return o


def _options_history(ctx):
    """A patch means what its own options make of its path texts, whichever patch read the same text first."""
    from jsonpath import JSONPatch

    n = 0
    for enc, dec, kw in (("%20b", " b", {"uri_decode": True}), ("%41", "A", {"uri_decode": True}), ("\\u0041", "A", {"unicode_escape": False})):
        for order in ("other-first", "default-first"):
            for opname in ("remove", "replace", "test", "add"):
                n += 1
                raw = f"k{n}{enc}"                      # a path text no patch has read before
                other_name, default_name = (f"k{n}{dec}", raw) if "uri_decode" in kw else (raw, f"k{n}{dec}")
                doc = {other_name: "other", default_name: "default", "z": 0}
                if other_name == default_name:
                    continue
                op = {"op": opname, "path": "/" + raw}
                if opname in ("replace", "add"):
                    op["value"] = "NEW"
                elif opname == "test":
                    op["value"] = None
                results = {}
                for which in (("other", "default") if order == "other-first" else ("default", "other")):
                    k = kw if which == "other" else {}
                    target = other_name if which == "other" else default_name
                    o = dict(op)
                    if opname == "test":
                        o["value"] = which
                    r = core.outcome(lambda: JSONPatch([o], **k).apply(copy.deepcopy(doc)))
                    want = copy.deepcopy(doc)
                    if opname == "remove":
                        del want[target]
                    elif opname in ("replace", "add"):
                        want[target] = "NEW"
                    results[which] = (r, want, target)
                for which, (r, want, target) in results.items():
                    ctx.count("options-history")
                    got = {"ok": core.canon(r["ok"])} if "ok" in r else {"err": r["err"]}
                    if got != {"ok": core.canon(want)}:
                        ctx.violation("a patch addresses the member its own pointer options make of the path text, whichever patch read the same text first",
                                      {"doc": doc, "op": op, "options": kw if which == "other" else {}, "order": order, "member meant": target}, got, {"ok": core.canon(want)})


def _eqv_tie(ctx):
    """`J.eqv` - the equality every `test` / membership / intersection theorem is stated with - against RFC 8259 equality written
    independently in Python (`core.json_equal`), and against the implementation's own `test` operation at the root, on every value of
    the document universe (and every value inside one) paired with its look-alikes (1 / true / 1.0, reordered and renamed members,
    a string and the array of its characters)."""
    from jsonpath import JSONPatch

    vals, seen = [], set()
    for d in docs_universe():
        for _loc, v in G.locations(d):
            key = json.dumps(v, sort_keys=False)
            if key not in seen:
                seen.add(key); vals.append(v)
    pairs = []
    for v in vals:
        for w in lookalikes(v):
            pairs.append((v, w)); pairs.append((w, v))
    reqs, meta = [], []
    for a, b in pairs:
        try:
            reqs.append({"op": "json.eqv", "a": core.enc(a), "b": core.enc(b)}); meta.append((a, b))
        except core.Unencodable:
            continue
    for (a, b), m in zip(meta, ctx.driver.run(reqs, jobs=ctx.jobs)):
        want = core.json_equal(a, b)
        ctx.case(("eqv", json.dumps([a, b])), nontrivial=True)
        if m.get("eqv") is not want:
            ctx.mismatch("json.eqv", {"a": a, "b": b}, want, m.get("eqv"))
        if isinstance(a, str):          # a `str` document is JSON text to `apply`, not a string value
            continue
        r = core.outcome(lambda: JSONPatch().test("", b).apply(copy.deepcopy(a)))
        got = "ok" in r
        if got is not want and (("ok" in r) or r.get("err") == "JSONPatchTestFailure"):
            ctx.violation("test succeeds exactly when the two values are equal as JSON values", {"doc": a, "value": b}, got, want)


def evaluate(ctx, cases):
    from jsonpath import JSONPatch

    if not getattr(ctx, "_options_history_done", False):
        ctx._options_history_done = True
        _options_history(ctx)
        _eqv_tie(ctx)

    reqs, meta = [], []
    for c in cases:
        try:
            edoc = core.enc(c["doc"])
            eops = core.enc(c["ops"])
        except core.Unencodable:
            continue
        reqs.append({"op": "patch.apply", "ops": eops, "doc": edoc, "ue": True}); meta.append((c, "model"))
        ext = any(_is_ext(t) for op in c["ops"] for k in ("path", "from") if k in op for t in _toks(op[k]))
        if not ext:
            reqs.append({"op": "patch.spec", "ops": [_spec_op(o) for o in c["ops"]], "doc": edoc}); meta.append((c, "spec"))
    outs = ctx.driver.run(reqs, jobs=ctx.jobs)
    cache = {}
    for (c, what), m in zip(meta, outs):
        if what == "model":
            ops = copy.deepcopy(c["ops"])
            doc = copy.deepcopy(c["doc"])
            o = core.outcome(lambda: JSONPatch(ops).apply(doc))
            try:
                impl = {"ok": core.canon(o["ok"])} if "ok" in o else {"err": o["err"]}
            except core.Cyclic:
                ctx.violation("the result of a patch must be a JSON value: a copied value is independent of its source (the result contains itself)", c, "cyclic structure", "a tree")
                cache[id(c)] = ({"err": "cyclic"}, {"err": "cyclic"})
                continue
            cache[id(c)] = (impl, o)
            if "ok" in o and ctx.rng.random() < 0.35:
                # the same patch object applied to a fresh copy of the document once more: the document RFC 6902 defines, again
                try:
                    pobj = JSONPatch(copy.deepcopy(c["ops"]))
                    first = core.canon(pobj.apply(copy.deepcopy(c["doc"])))
                    second = core.canon(pobj.apply(copy.deepcopy(c["doc"])))
                    if first != impl["ok"] or second != impl["ok"]:
                        ctx.violation("applying the same patch object again to an equal document must give the same document", c, {"first": first, "second": second}, impl)
                except core.Cyclic:
                    ctx.violation("the result of a patch must be a JSON value (cyclic on re-application)", c, "cyclic structure", "a tree")
                except Exception as e:  # noqa: BLE001
                    ctx.violation("applying the same patch object again raised", c, core.exc_name(e), impl)
            ctx.case(repr(c), isinstance(c["doc"], (dict, list)), sample=c)
            ctx.count("ops:" + ("single:" + c["ops"][0]["op"] if len(c["ops"]) == 1 else "sequence"))
            ctx.count("outcome:" + ("ok" if "ok" in o else o["err"]))
            if impl != m["result"]:
                ctx.mismatch("patch.apply", c, impl, m["result"])
            if "err" in o and o.get("family") != "patch":
                ctx.violation("applying a patch may only fail with a patch error", c, o["err"], "JSONPatchError family")
            # the other ways of saying the same thing: jsonpath.patch.apply, the patch as JSON text / file-like object,
            # the document as JSON text / file-like object
            if c.get("forms") or ctx.rng.random() < (0.05 if ctx.tier == "quick" else 0.3):
                _other_forms(ctx, c, impl)
            # copy independence (identity probe): no container of the result is shared
            if "ok" in o and any(op["op"] == "copy" for op in c["ops"]):
                ids = {}
                shared = False
                for toks, v in G.locations(o["ok"]):
                    if isinstance(v, (dict, list)):
                        if id(v) in ids:
                            shared = True
                        ids[id(v)] = toks
                if shared:
                    ctx.violation("a copied value must be independent of its source (shared container in the result)", c, "shared", "independent")
        else:
            impl, o = cache[id(c)]
            sr = m["result"]
            if "ok" in sr:
                if not ("ok" in o and core.json_equal(o["ok"], core.dec(sr["ok"]))):
                    ctx.violation("RFC 6902 defines the resulting document; apply() returned something else", c, impl, {"ok": sr["ok"]})
            elif sr["err"] == "testFailed":
                if impl != {"err": "JSONPatchTestFailure"}:
                    ctx.violation("a failed test must be reported as JSONPatchTestFailure", c, impl, {"err": "JSONPatchTestFailure"})
            else:
                if not ("err" in impl and impl["err"] in ("JSONPatchError", "JSONPatchTestFailure")):
                    ctx.violation("the operation violates RFC 6902; apply() must fail with a patch error", c, impl, {"err": "JSONPatchError"})


def _other_forms(ctx, c, impl):
    import io
    import json
    import jsonpath
    from jsonpath import JSONPatch

    ctx.count("other-forms")
    try:
        ops_txt = json.dumps(c["ops"], ensure_ascii=False)
    except (TypeError, ValueError):
        return
    forms = {
        "jsonpath.patch.apply(ops, doc)": lambda: jsonpath.patch.apply(copy.deepcopy(c["ops"]), copy.deepcopy(c["doc"])),
        "JSONPatch(JSON text)": lambda: JSONPatch(ops_txt).apply(copy.deepcopy(c["doc"])),
        "JSONPatch(StringIO)": lambda: JSONPatch(io.StringIO(ops_txt)).apply(copy.deepcopy(c["doc"])),
        "JSONPatch(BytesIO)": lambda: JSONPatch(io.BytesIO(ops_txt.encode("utf-8"))).apply(copy.deepcopy(c["doc"])),
        "jsonpath.patch.apply(JSON text, doc)": lambda: jsonpath.patch.apply(ops_txt, copy.deepcopy(c["doc"])),
    }
    if isinstance(c["doc"], (dict, list)):
        doc_txt = json.dumps(c["doc"], ensure_ascii=False)
        forms["apply(JSON text document)"] = lambda: JSONPatch(copy.deepcopy(c["ops"])).apply(doc_txt)
        forms["apply(StringIO document)"] = lambda: JSONPatch(copy.deepcopy(c["ops"])).apply(io.StringIO(doc_txt))
        forms["apply(BytesIO document)"] = lambda: JSONPatch(copy.deepcopy(c["ops"])).apply(io.BytesIO(doc_txt.encode("utf-8")))
    if not any("\\" in str(op.get(k, "")) for op in c["ops"] for k in ("path", "from")):
        forms["JSONPatch(ops, unicode_escape=False)"] = lambda: JSONPatch(copy.deepcopy(c["ops"]), unicode_escape=False).apply(copy.deepcopy(c["doc"]))
    def builder_from_parts():
        # the builder given pointers that were built from parts (every token held as a string), as `from_parts` and
        # `RelativeJSONPointer.to` make them
        from jsonpath import JSONPointer
        pb = JSONPatch()
        for op in copy.deepcopy(c["ops"]):
            ptr = lambda k: JSONPointer.from_parts(_toks(op[k]), unicode_escape=False)   # noqa: E731
            name = op["op"]
            if name in ("add", "replace", "test"):
                getattr(pb, name)(ptr("path"), op["value"])
            elif name == "remove":
                pb.remove(ptr("path"))
            else:
                getattr(pb, name)(ptr("from"), ptr("path"))
        return pb.apply(copy.deepcopy(c["doc"]))
    if all(op.get("op") in ("add", "replace", "test", "remove", "move", "copy") and "path" in op and (op["op"] not in ("move", "copy") or "from" in op)
           and (op["op"] not in ("add", "replace", "test") or "value" in op) for op in c["ops"]) \
            and not any("\\" in str(op.get(k, "")) for op in c["ops"] for k in ("path", "from")):
        forms["builder with pointers built by from_parts"] = builder_from_parts

    def after_other_options():
        # a patch means what its own options make of its paths, whatever patches were built before from the same path texts
        for kw in ({"uri_decode": True}, {"unicode_escape": False}, {"uri_decode": True, "unicode_escape": False}):
            try:
                JSONPatch(copy.deepcopy(c["ops"]), **kw).apply(copy.deepcopy(c["doc"]))
            except Exception:  # noqa: BLE001
                pass
        return JSONPatch(copy.deepcopy(c["ops"])).apply(copy.deepcopy(c["doc"]))
    forms["JSONPatch(ops) after patches with other pointer options were built from the same path texts"] = after_other_options
    for name, fn in forms.items():
        o = core.outcome(fn)
        r = {"ok": core.canon(o["ok"])} if "ok" in o else {"err": o["err"]}
        if r != impl:
            ctx.violation("every way of building the same patch and supplying the same document must have the same effect", {**c, "form": name}, r, impl)


def search(ctx):
    old = ctx.tier
    ctx.tier = "thorough"
    try:
        evaluate(ctx, gen(ctx))
    finally:
        ctx.tier = old


def probe(kf):
    """Replay a recorded known finding on the implementation; True if it still fails."""
    import copy
    import jsonpath

    pr = kf["probe"]
    try:
        return jsonpath.patch.apply(copy.deepcopy(pr["ops"]), copy.deepcopy(pr["doc"])) != pr["expect"]
    except Exception:  # noqa: BLE001
        return True
