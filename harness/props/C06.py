"""C06 — Only the documented error families ever escape; every call terminates."""
from __future__ import annotations

import copy
import signal

from .. import core, qpool
from .. import gen as G

LEVEL = "proof"
READY = True
CLAIM = {
    "text": "Lean safety theorems over ALL inputs for the modelled calls: parsing any text as a JSON Pointer or Relative JSON Pointer, resolving any parsed pointer against any "
            "document, building a patch from any JSON value and applying any operation list to any document never produce a built-in exception in the model (every Python "
            "primitive with a partial domain - int(), indexing, dict access, list.insert - is an explicit partial function whose failure branches are proved unreachable or "
            "translated), only the documented family; evaluation of a compiled query in the model is a total function (it cannot raise); all model functions are accepted by "
            "Lean's termination checker. The query *compiler* (lexer/parser) is not modelled in Lean: for it the claim is decided by token-soup and mutation fuzzing on the "
            "implementation, which classifies every outcome (returned / documented family / anything else) and renders every error as text; the pointer and patch models are "
            "tied to the implementation on the same fuzz streams. Character-level lexer model: lexing any text fails only with a syntax error (lex_safe); Lexer.tokenize is compared with the model on every fuzzed query text.",
    "note": "Trusted: Lean kernel; models JP.Pointer/JP.RelPointer/JP.Patch/JP.Query; for query compilation the evidence is fuzzing only (stated as such); RecursionError on "
            "inputs nested > 100 levels and time inside the regex engine are outside the property.",
    "technique": "Lean 4 safety theorems (no built-in exception escapes the pointer/patch/evaluator models; totality) + classified fuzzing of compile/evaluate on the implementation",
}
RULE = ("(i) token soup over ~80 lexer fragments up to 5 fragments (length <= 2 complete in quick, <= 3 in thorough, longer sampled); (ii) mutations of valid queries / pointers / "
        "relative pointers / patches (delete, insert, duplicate, transpose; unterminated quotes and regexes; exponents, oversized numbers, lone signs, reserved words, custom-looking "
        "tokens); (iii) every compiled query x documents of every JSON type; (iv) patch lists whose elements and members are of every JSON type; non-trivial = the input is not empty")
TRUSTED = ["Lean 4.33 kernel; standard axioms only", "pointer/patch models tied to the implementation on the fuzz streams", "5 s alarm per call as the termination probe"]
ASSUMPTIONS = ["inputs nested at most 100 levels", "patches and documents are supplied as parsed values",
               "numerals longer than CPython's 4300-digit int/str conversion limit are outside the model (its numbers are unbounded); the implementation is still checked on them for error family and termination"]

FRAGS = ["$", "@", "#", "_", "^", "~", "|", "&", ".", "..", "*", "?", "[", "]", "(", ")", ",", ":", "!", "==", "!=", "<", "<=", ">", ">=", "<>", "=~", "&&", "||", "and", "or", "not",
         "in", "contains", "true", "false", "null", "nil", "none", "undefined", "missing", "True", "None", "a", "ab", "_x", "é", "😀", "0", "1", "-1", "01", "-0", "1e2", "1E+2", "1e-2",
         "1e400", "1.5", "1.", "-", "+", "9" * 30, "'a'", '"a"', "'", '"', "'a\\'", "'\\u12'", "'\\ud800'", "/a/", "/a/i", "/[/", "/", "/a{99999999999}/", "/(?u)x/a", "/(?i)a(?a)/", "/a{2,1}/", "/(?P<n>a)(?P<n>b)/", "/\\1/", "/(?<=a+)b/", "/a**/", "length(", "count(", "nosuch(", "match(", "search(", "value(", "typeof(", "type(", "is(", "isinstance(", "'number'", "'array'", " ", "\n",
         "\\", "=", "%", "{", "}", "１", "\x00", "a-b", "[?", ".*", "[*]", "1:2", "::", ":-1", "$$", "@@"]
DOCS = [None, True, 0, 1.5, "abc", [], {}, [1, "a", None, [2], {"a": 1}], {"a": [1, 2], "b": {"c": "x"}, "s": "ab", "k": 1}, [[[[1]]]], {"": {"": 1}}, [0, False, "", None]]
VALID_PTRS = ["", "/", "/a", "/a/0", "/a~1b", "/~0", "/0/1", "/a/-", "/-1", "/#a", "/~a", "/é", "/a\\u00e9", " /a"]
VALID_RELS = ["0", "1", "0#", "1#", "0/a", "1/0", "0+1", "0-1", "2+10/x", "0+1#", "10"]
PATCH_VALS = [None, True, 0, 1.5, "s", "", [], {}, [1], {"op": "add"}, {"op": "replace", "path": "", "value": "[1"}, {"op": "replace", "path": "", "value": "[1,2]"}, {"op": "add", "path": "", "value": "{"}, {"op": "add", "path": "/a", "value": 1}, {"op": "remove", "path": "/a"}, {"op": "test", "path": "", "value": None},
              {"op": "move", "from": "/a", "path": "/b"}, {"op": "copy", "from": "/a/0", "path": "/a/-"}, {"op": "replace", "path": "/a/0", "value": {}}, {"op": "add", "path": 5, "value": 1},
              {"op": 5}, {"op": None, "path": "/a"}, {"op": "add", "path": "a", "value": 1}, {"op": "add", "path": "/a\\", "value": 1}, {"op": "addne", "path": "/x", "value": 1},
              {"op": "addap", "path": "/a/9", "value": 1}, {"path": "/a"}, {"op": "move", "path": "/b"}, {"op": "remove", "path": "/#a"}, {"op": "remove", "path": "/a/#0"},
              {"op": "add", "path": "/a/" + "9" * 20, "value": 1}, {"op": "test", "path": "/a", "value": [1, 2]}, {"op": "move", "from": "", "path": "/a"}]


TYPEVALS = [None, True, False, 0, 1, 1.5, "", "abc", "a.*", "[", "a{99999999999}", "(?u)(?a)x", "(?<=a+)b", "\\1", [], [1, "a"], {}, {"a": 1}]
GRID_QUERIES = ["$[?match(@.a, @.b)]", "$[?search(@.a, @.b)]", "$[?match(@.a, 'a.*')]", "$[?search('abc', @.b)]", "$[?length(@.a) == 1]", "$[?length(@.a) < length(@.b)]",
                "$[?count(@.a.*) > 0]", "$[?value(@.a) == @.b]", "$[?@.a in @.b]", "$[?@.a contains @.b]", "$[?@.a =~ /a.*/]", "$[?@.a < @.b]", "$[?@.a <= @.b]", "$[?@.a == @.b]",
                "$[?@.a <> @.b]", "$[?!@.a || @.b]", "$[?@.a[0] == @.b[0]]", "$[?@.a['a'] == 1]", "$..[?@ == $[0].a]", "$[?# in @.a]", "$[?@.a in _.x]", "$[?_.x contains @.b]",
                "$[?match(@.a, 1)]", "$[?search(@.a, true)]", "$[?match(1, @.b)]", "$[?typeof(@.a) == @.b]", "$[?type(@.a) == typeof(@.b)]", "$[?is(@.a, @.b)]", "$[?isinstance(@.a, @.b)]",
                "$[?is(@.*, 'array')]", "$[?is(@.a, 'number') || isinstance(@.b, 'nosuchtype')]", "$[?typeof(@.a, @.b) == 'x']", "$[?typeof(@..a) == 'array']", "$[*].a[0:2]", "$[*].a[-1]", "$[*].a.*", "$[*].a..*", "$[*]['a','b'][0]", "$[*].a.~"]


class Timeout(Exception):
    pass


def _alarm(sig, frm):
    raise Timeout()


def mutate(rng, s):
    if not s:
        return rng.choice(FRAGS)
    i = rng.randrange(len(s))
    x = rng.random()
    if x < 0.25:
        return s[:i] + s[i + 1:]
    if x < 0.5:
        return s[:i] + rng.choice(FRAGS) + s[i:]
    if x < 0.65:
        return s[:i] + s[i] + s[i:]
    if x < 0.8 and i + 1 < len(s):
        return s[:i] + s[i + 1] + s[i] + s[i + 2:]
    return s[:i] + rng.choice(FRAGS) + s[i + 1:]


def gen(ctx):
    import itertools
    cases = []
    soup = [""] + FRAGS + ["".join(p) for p in itertools.product(FRAGS, repeat=2)]
    ctx.exhaustive_spaces.append("token soup of <= 2 fragments over %d fragments" % len(FRAGS))
    if ctx.tier != "quick":
        soup += ["".join(p) for p in itertools.product(FRAGS[:45], repeat=3)]
    n = 4000 if ctx.tier == "quick" else 80000
    for _ in range(n):
        soup.append("".join(ctx.rng.choice(FRAGS) for _ in range(ctx.rng.randint(3, 6))))
    for tail in ("\n", "\r\n", "\n\n", " \n"):
        soup += [h + tail for h in ("$[::", "$.a[1::", "$[:2:", "$[?@.b[::", "$[", "$[?", "$.a[", "$[1,", "$[?@.a ==", "$[?length(", "$['a", "$.", "$..", "$[?@ =~ /a", "$[:", "$[1:", "$ |", "$.a &")]
    for s in soup:
        cases.append({"kind": "query", "text": s})
        if ctx.rng.random() < 0.15:
            cases.append({"kind": "query", "text": "$[?" + s + "]"})
    # long runs after an opening delimiter that is never closed (where a careless pattern backtracks exponentially)
    for k in (30, 64, 200):
        for t in ['$["' + "a" * k, "$['" + "b" * k, '$[?@.a == "' + "x" * k + "]", "$[?@.a == '" + "x y" * k, "$[?@.a =~ /" + "a" * k, "$[" + "1" * k, "$." + "a" * k + "(", "$[?" + "(" * k,
                  "$['" + "\\\\" * k, '$["' + "\\'" * k, "$.." + "a-" * k, "$[?length(" * 3 + "@" * k, "$[" + " " * k, "$[1" + " " * k + ":", "$[?@ == 1" + "e" * k, "$[?@ == " + "1" * k + "e" + "1" * k,
                  "$[?@.a " + "contains" * k, "$[?" + "!" * k + "@]", "$" + "[0]" * k, "$" + ".a" * k + "["]:
            cases.append({"kind": "query", "text": t})
        for t in ["/" + "a" * k, "/a" + "~" * k, "/" + "~0" * k + "~", "/" + "1" * k, " " * k + "/a", "/" + "\\u00" * k]:
            cases.append({"kind": "pointer", "text": t, "doc": ctx.rng.choice(DOCS), "ue": True})
        for t in ["1" * k, "0+" + "1" * k, "0" + "#" * k, "0/" + "a" * k, "0-" + "0" * k + "1", "1" * k + "#"]:
            cases.append({"kind": "rel", "text": t, "base": "/a/0"})
    # numerals at CPython's int <-> str conversion limit (4300 digits): the model's numbers are unbounded, so these
    # are checked for error family and termination only
    for k in (4299, 4300, 4301):
        nine = "9" * k
        for t, b in [("0+" + nine, "/1"), ("0+" + nine, "/a/0"), ("0-" + nine, "/" + nine), ("0+1", "/" + nine), ("0-1", "/1" + "0" * (k - 1)), ("0+" + nine + "#", "/1"), (nine, "/a"),
                     (nine + "#", "/a"), ("1+" + nine + "/x", "/a/1/b"), ("0+9", "/a/" + nine), ("0+" + nine, "/" + nine)]:
            cases.append({"kind": "rel", "text": t, "base": b, "nomodel": True})
        for t in ["/" + nine, "/a/" + nine, "/a/-" + nine, "/#" + nine]:
            cases.append({"kind": "pointer", "text": t, "doc": copy.deepcopy(DOCS[8]), "ue": True, "nomodel": True})
        for t in ["$[%s]", "$[-%s]", "$[:%s]", "$[::%s]", "$[?@ == %s]", "$[?@ == -%s]", "$[?@ == %s.5]", "$[?@ == 1e%s]", "$[?@ == 1e-%s]", "$[?@ == 1.5e%s]", "$[?@[%s] == 1]", "$.a[%s, 1]"]:
            cases.append({"kind": "query", "text": t % nine, "nomodel": True})
        for op in ({"op": "add", "path": "/a/" + nine, "value": 1}, {"op": "remove", "path": "/a/" + nine}, {"op": "copy", "from": "/a/" + nine, "path": "/z"}):
            cases.append({"kind": "patch", "ops": [op], "doc": copy.deepcopy(DOCS[8]), "nomodel": True})
    base = qpool.all_texts()
    for _ in range(n):
        t = ctx.rng.choice(base)
        for _ in range(ctx.rng.randint(1, 3)):
            t = mutate(ctx.rng, t)
        cases.append({"kind": "query", "text": t})
    for _ in range(n // 2):
        t = ctx.rng.choice(VALID_PTRS)
        for _ in range(ctx.rng.randint(0, 3)):
            t = mutate(ctx.rng, t)
        cases.append({"kind": "pointer", "text": t, "doc": ctx.rng.choice(DOCS), "ue": ctx.rng.random() < 0.7})
        r = ctx.rng.choice(VALID_RELS)
        for _ in range(ctx.rng.randint(0, 3)):
            r = mutate(ctx.rng, r)
        cases.append({"kind": "rel", "text": r, "base": ctx.rng.choice(VALID_PTRS[:12])})
    for x in TYPEVALS:
        for y in TYPEVALS:
            for q in GRID_QUERIES:
                cases.append({"kind": "evalgrid", "text": q, "doc": [{"a": x, "b": y}]})
    ctx.exhaustive_spaces.append("evaluation grid: %d function / operator / selector queries x every ordered pair of %d values of every JSON type" % (len(GRID_QUERIES), len(TYPEVALS)))
    # complete grid: every operation kind x every kind of final token x array / object / scalar parents
    toks = ["0", "1", "2", "3", "-", "-1", "01", "#0", "#1", "#2", "#9", "#a", "#", "~", "~0", "~2", "a", "", "1e0", "\u0661", "9" * 30]
    gdocs = [{"a": [1, 2], "b": {"0": 1, "a": 2}, "c": 5, "d": "str", "e": []}, [[1, 2], {"0": 1}, 5]]
    for gd in gdocs:
        parents = ["/a", "/b", "/c", "/d", "/e", ""] if isinstance(gd, dict) else ["/0", "/1", "/2", ""]
        for par in parents:
            for t in toks:
                path = par + "/" + t
                src = "/a/0" if isinstance(gd, dict) else "/0/0"
                for op in ({"op": "add", "path": path, "value": 9}, {"op": "addne", "path": path, "value": 9}, {"op": "addap", "path": path, "value": 9},
                           {"op": "remove", "path": path}, {"op": "replace", "path": path, "value": 9}, {"op": "test", "path": path, "value": 1},
                           {"op": "copy", "from": src, "path": path}, {"op": "move", "from": src, "path": path}, {"op": "copy", "from": path, "path": "/zz"},
                           {"op": "move", "from": path, "path": "/zz"}):
                    cases.append({"kind": "patch", "ops": [op], "doc": copy.deepcopy(gd)})
    ctx.exhaustive_spaces.append("patch grid: 10 operation forms x %d final tokens x every parent kind (array, empty array, object, number, string, root)" % len(toks))
    for _ in range(n // 2):
        k = ctx.rng.random()
        if k < 0.1:
            ops = ctx.rng.choice([v for v in PATCH_VALS if not isinstance(v, str)])   # a str is JSON text to the API
        else:
            ops = [copy.deepcopy(ctx.rng.choice(PATCH_VALS)) for _ in range(ctx.rng.randint(0, 4))]
        cases.append({"kind": "patch", "ops": ops, "doc": copy.deepcopy(ctx.rng.choice(DOCS))})
    return cases


def classify(o, families):
    if "ok" in o:
        return "ok"
    if o.get("family") in families:
        return "documented"
    return "ESCAPE:" + o["err"]


def _evaluate(ctx, cases):
    import jsonpath
    from jsonpath import JSONPatch, JSONPointer, RelativeJSONPointer

    signal.signal(signal.SIGALRM, _alarm)
    # termination of compile / pointer parsing, probed in a worker process (a hang inside the regular-expression
    # engine of the lexer never reaches a Python alarm)
    from .. import hangscan, lexcorr
    probe_items = [(c["kind"] if c["kind"] in ("pointer", "rel") else "query", c["text"]) for c in cases if c["kind"] in ("query", "evalgrid", "pointer", "rel")]
    probe_cases = [c for c in cases if c["kind"] in ("query", "evalgrid", "pointer", "rel")]
    hung = hangscan.scan(probe_items, limit=6.0)
    hung_ids = set()
    for i in hung:
        c = probe_cases[i]
        hung_ids.add(id(c))
        what = {"query": "compiling any text must terminate", "evalgrid": "compiling any text must terminate", "pointer": "parsing any pointer text must terminate",
                "rel": "parsing any relative pointer text must terminate"}[c["kind"]]
        ctx.violation(what, c, "no result within 6 s (worker process killed)", "a result or a documented error")
    if hung:
        # later steps would hang on the same inputs in this process: report what was found
        cases[:] = [c for c in cases if id(c) not in hung_ids and not (c["kind"] in ("query", "evalgrid") and any(probe_cases[i]["text"] == c["text"] for i in hung))]
        if len(hung) >= 5:
            return
    # character-level lexer model vs Lexer.tokenize on every query text of the fuzz streams
    lexcorr.run_texts(ctx, jsonpath.DEFAULT_ENV, [c["text"] for c in cases if c["kind"] in ("query", "evalgrid") and not c.get("nomodel")])
    reqs, meta = [], []
    for c in cases:
        if c.get("nomodel"):
            continue
        if c["kind"] == "pointer":
            try:
                reqs.append({"op": "ptr.resolve", "s": c["text"], "ue": c["ue"], "doc": core.enc(c["doc"])})
                meta.append(c)
            except core.Unencodable:
                pass
        elif c["kind"] == "patch":
            try:
                reqs.append({"op": "patch.apply", "ops": core.enc(c["ops"]), "doc": core.enc(c["doc"]), "ue": True})
                meta.append(c)
            except core.Unencodable:
                pass
        elif c["kind"] == "rel":
            reqs.append({"op": "rel.to", "s": c["text"], "base": c["base"], "ue": True})
            meta.append(c)
    outs = ctx.driver.run(reqs, jobs=ctx.jobs)
    model = {id(c): m for c, m in zip(meta, outs)}
    old_alarm = signal.alarm(0)
    try:
        for c in cases:
            kind = c["kind"]
            signal.alarm(5)
            try:
                if kind == "query":
                    text = c["text"]
                    o = core.outcome(lambda: jsonpath.compile(text))
                    cl = classify(o, ("jsonpath",))
                    ctx.case(("q", text), bool(text), sample={"query": text, "outcome": cl} if cl != "documented" or ctx.evaluations % 50 == 0 else None)
                    ctx.count("compile:" + cl.split(":")[0])
                    if cl.startswith("ESCAPE"):
                        ctx.violation("compiling any text must return a query or raise a JSONPath error", {"text": text}, o["err"] + ": " + o.get("msg", ""), "JSONPathError family")
                    if "err" in o and o.get("msg") == "<str failed>":
                        ctx.violation("rendering the error as text failed", {"text": text}, o["err"], "a message")
                    # the one-call forms on the text itself
                    for f in (lambda: jsonpath.findall(text, copy.deepcopy(DOCS[8])), lambda: jsonpath.match(text, copy.deepcopy(DOCS[7])),
                              lambda: list(jsonpath.query(text, copy.deepcopy(DOCS[8])).limit(3).values())):
                        x = core.outcome(f)
                        if classify(x, ("jsonpath",)).startswith("ESCAPE"):
                            ctx.violation("jsonpath.findall / match / query on any text must return or raise a JSONPath error", {"text": text}, x["err"] + ": " + x.get("msg", ""), "JSONPathError family")
                    if "ok" in o:
                        for d in DOCS:
                            e = core.outcome(lambda: [m.obj for m in o["ok"].finditer(copy.deepcopy(d), filter_context={"x": 1})])
                            ce = classify(e, ("jsonpath",))
                            ctx.count("evaluate:" + ce.split(":")[0])
                            if ce.startswith("ESCAPE"):
                                ctx.violation("evaluating a compiled query on any JSON value must return matches or raise a JSONPath error", {"text": text, "doc": d}, e["err"] + ": " + e.get("msg", ""), "JSONPathError family")
                                break
                        s = core.outcome(lambda: str(o["ok"]))
                        if "err" in s:
                            ctx.violation("str() of a compiled query raised", {"text": text}, s["err"], "text")
                elif kind == "evalgrid":
                    text, doc = c["text"], c["doc"]
                    o = core.outcome(lambda: jsonpath.compile(text))
                    ctx.case(("g", text, repr(doc)), True)
                    if "err" in o:
                        if o.get("family") != "jsonpath":
                            ctx.violation("compiling any text must return a query or raise a JSONPath error", {"text": text}, o["err"], "JSONPathError family")
                        continue
                    for extra in ({}, {"x": doc[0]["a"]}):
                        e = core.outcome(lambda: [m.obj for m in o["ok"].finditer(copy.deepcopy(doc), filter_context=extra)])
                        ce = classify(e, ("jsonpath",))
                        ctx.count("evalgrid:" + ce.split(":")[0])
                        if ce.startswith("ESCAPE"):
                            ctx.violation("evaluating a compiled query on any JSON value must return matches or raise a JSONPath error", {"text": text, "doc": doc, "filter_context": extra}, e["err"] + ": " + e.get("msg", ""), "JSONPathError family")
                            break
                elif kind == "pointer":
                    text, doc, ue = c["text"], c["doc"], c["ue"]
                    o = core.outcome(lambda: JSONPointer(text, unicode_escape=ue))
                    cl = classify(o, ("pointer",))
                    ctx.case(("p", text, ue, repr(doc)), bool(text), sample={"pointer": text, "outcome": cl} if ctx.evaluations % 40 == 0 else None)
                    ctx.count("pointer:" + cl.split(":")[0])
                    if cl.startswith("ESCAPE"):
                        ctx.violation("any text given as a JSON Pointer must be accepted or rejected with a pointer error", {"text": text, "unicode_escape": ue}, o["err"], "JSONPointerError family")
                    u = core.outcome(lambda: JSONPointer(text, unicode_escape=ue, uri_decode=True))
                    if classify(u, ("pointer",)).startswith("ESCAPE"):
                        ctx.violation("any text given as a JSON Pointer (URI decoding on) must be accepted or rejected with a pointer error", {"text": text, "unicode_escape": ue}, u["err"], "JSONPointerError family")
                    fp = core.outcome(lambda: JSONPointer.from_parts([text, 0, text[:1], -1, ""], unicode_escape=ue))
                    if classify(fp, ("pointer",)).startswith("ESCAPE"):
                        ctx.violation("building a pointer from any parts must succeed or fail with a pointer error", {"parts": [text, 0, text[:1], -1, ""]}, fp["err"], "JSONPointerError family")
                    res = {"err": o["err"]} if "err" in o else None
                    if "ok" in o:
                        r = core.outcome(lambda: o["ok"].resolve(copy.deepcopy(doc)))
                        res = {"ok": core.canon(r["ok"])} if "ok" in r else {"err": r["err"]}
                        if "err" in r and r["err"] not in ("JSONPointerIndexError", "JSONPointerKeyError", "JSONPointerTypeError", "JSONPointerResolutionError"):
                            ctx.violation("pointer resolution may fail only with pointer resolution errors", {"text": text, "doc": doc}, r["err"] + ": " + r.get("msg", ""), "JSONPointerResolutionError")
                        for f in (lambda: o["ok"].exists(doc), lambda: o["ok"].resolve_parent(copy.deepcopy(doc)), lambda: str(o["ok"]), lambda: o["ok"].parent(), lambda: o["ok"] / text,
                                  lambda: o["ok"].join(text, text[::-1]), lambda: o["ok"].is_relative_to(JSONPointer("/a")), lambda: JSONPointer("/a").is_relative_to(o["ok"]),
                                  lambda: jsonpath.pointer.resolve(text, copy.deepcopy(doc), unicode_escape=ue, default=None), lambda: o["ok"].resolve(doc, default=0),
                                  lambda: JSONPointer.from_parts(list(o["ok"].parts) + [text], unicode_escape=ue), lambda: RelativeJSONPointer("0").to(o["ok"]),
                                  lambda: RelativeJSONPointer("1#").to(text), lambda: hash(o["ok"]) == hash(JSONPointer(str(o["ok"]), unicode_escape=False)), lambda: o["ok"] == text):
                            x = core.outcome(f)
                            if "err" in x and x.get("family") not in ("pointer", "relpointer"):
                                ctx.violation("a pointer operation raised outside the pointer error family", {"text": text, "doc": doc}, x["err"], "JSONPointerError family")
                    m = model.get(id(c))
                    if m is not None and isinstance(doc, (dict, list, int, float, bool, type(None))) and not isinstance(doc, str):
                        if "\\" in text and ue and res is not None and "err" not in (m["value"]):
                            pass  # escape sequences beyond the driver's decoder are not compared
                        elif res != m["value"] and not ("\\" in text and ue):
                            ctx.mismatch("ptr.resolve", {"text": text, "ue": ue, "doc": doc}, res, m["value"])
                elif kind == "rel":
                    text, base = c["text"], c["base"]
                    o = core.outcome(lambda: RelativeJSONPointer(text))
                    cl = classify(o, ("relpointer", "pointer"))
                    ctx.case(("r", text, base), bool(text))
                    ctx.count("rel:" + cl.split(":")[0])
                    if cl.startswith("ESCAPE"):
                        ctx.violation("any text given as a Relative JSON Pointer must be accepted or rejected with a pointer error", {"text": text}, o["err"], "pointer error family")
                    if "err" in o and o.get("msg") == "<str failed>":
                        ctx.violation("rendering the error as text failed", {"text": text}, o["err"], "a message")
                    for f in (lambda: RelativeJSONPointer(text).to(base), lambda: RelativeJSONPointer(text).to(JSONPointer(base)), lambda: JSONPointer(base).to(RelativeJSONPointer(text)),
                              lambda: RelativeJSONPointer(text).to(text), lambda: RelativeJSONPointer(text, uri_decode=True, unicode_escape=False)):
                        x = core.outcome(f)
                        if classify(x, ("relpointer", "pointer")).startswith("ESCAPE"):
                            ctx.violation("applying a relative pointer (in any of the four forms) may fail only with a pointer error", {"text": text, "base": base}, x["err"], "pointer error family")
                    t = core.outcome(lambda: str(JSONPointer(base).to(text)))
                    ct = classify(t, ("relpointer", "pointer"))
                    if ct.startswith("ESCAPE"):
                        ctx.violation("applying a relative pointer may fail only with a pointer error", {"text": text, "base": base}, t["err"], "pointer error family")
                    m = model.get(id(c))
                    if m is not None and "\\" not in text and "\\" not in base:
                        impl = {"ok": t["ok"]} if "ok" in t else {"err": t["err"]}
                        if impl != m["str"]:
                            ctx.mismatch("rel.to", {"text": text, "base": base}, impl, m["str"])
                else:
                    ops, doc = c["ops"], c["doc"]
                    o = core.outcome(lambda: JSONPatch(copy.deepcopy(ops)))
                    cl = classify(o, ("patch",))
                    ctx.case(("j", repr(ops), repr(doc)), bool(ops))
                    ctx.count("patch-build:" + cl.split(":")[0])
                    if cl.startswith("ESCAPE"):
                        ctx.violation("building a patch from any list of operations may fail only with a patch error", {"ops": ops}, o["err"] + ": " + o.get("msg", ""), "JSONPatchError family")
                    res = {"err": o["err"]} if "err" in o else None
                    if "ok" in o:
                        a = core.outcome(lambda: o["ok"].apply(copy.deepcopy(doc)))
                        ca = classify(a, ("patch",))
                        ctx.count("patch-apply:" + ca.split(":")[0])
                        res = {"ok": core.canon(a["ok"])} if "ok" in a else {"err": a["err"]}
                        if ca.startswith("ESCAPE") and not isinstance(doc, str):
                            ctx.violation("applying any patch to any document may fail only with a patch error", {"ops": ops, "doc": doc}, a["err"] + ": " + a.get("msg", ""), "JSONPatchError family")
                    m = model.get(id(c))
                    if m is not None and not isinstance(doc, str) and "\\" not in repr(ops):
                        if res != m["result"]:
                            ctx.mismatch("patch.apply", {"ops": ops, "doc": doc}, res, m["result"])
            except Timeout:
                ctx.violation("the call did not terminate within 5 s", c, "timeout", "termination")
            finally:
                signal.alarm(0)
    finally:
        signal.signal(signal.SIGALRM, signal.SIG_DFL)
        if old_alarm:
            signal.alarm(old_alarm)


def _string_index_pointers(ctx):
    """Pointers whose index tokens are held as strings (built by from_parts, by RelativeJSONPointer.to, or given as parts to
    jsonpath.resolve): resolution fails only with pointer resolution errors, exists() and default= never raise, and a patch
    addressed by such a pointer fails only with patch errors."""
    import jsonpath
    from jsonpath import JSONPatch, JSONPointer

    # the builder given a path text that is not a pointer: building a patch fails only with patch errors
    for text in ("nope", "a/b", "/a\\", "x/", "#/a", "~", "/\\u12", "/" + "9" * 30):
        for what, fn in (("add", lambda: JSONPatch().add(text, 1)), ("remove", lambda: JSONPatch().remove(text)), ("move(from)", lambda: JSONPatch().move(text, "/a")),
                         ("copy(path)", lambda: JSONPatch().copy("/a", text)), ("test", lambda: JSONPatch().test(text, 1)), ("replace", lambda: JSONPatch().replace(text, 1)),
                         ("addne", lambda: JSONPatch().addne(text, 1)), ("addap", lambda: JSONPatch().addap(text, 1))):
            ctx.count("builder-bad-path")
            o = core.outcome(fn)
            if "err" in o and o.get("family") != "patch":
                ctx.violation("building a patch (also through the builder methods) fails only with patch errors", {"path": text, "builder": what}, o["err"], "JSONPatchError family")
    docs = [{"a": [1, 2]}, {"a": []}, [[1], 2], {"a": {"-5": 1, "7": 2}}, {"a": "str"}]
    toks = ["-5", "-3", "-2", "-1", "0", "1", "2", "7", "-0", "01", "+1", "#0", "#-1", "-", "", "99999999999999999999"]
    for d in docs:
        for t in toks:
            for mk_name, mk in (("from_parts", lambda: JSONPointer.from_parts(["a", t])), ("to", lambda: JSONPointer("/a").to("0/" + t.replace("~", "~0").replace("/", "~1"))),
                                ("from_parts(top level)", lambda: JSONPointer.from_parts([t]))):
                ctx.count("string-index-pointer")
                b = core.outcome(mk)
                if "err" in b:
                    if b.get("family") != "pointer" and b.get("family") != "relpointer":
                        ctx.violation("building a pointer may only fail with a pointer error", {"token": t, "how": mk_name}, b["err"], "pointer error family")
                    continue
                ptr = b["ok"]
                for what, fn in (("resolve", lambda: ptr.resolve(d)), ("exists", lambda: ptr.exists(d)), ("resolve(default)", lambda: ptr.resolve(d, default=None)),
                                 ("resolve_parent", lambda: ptr.resolve_parent(d)), ("jsonpath.resolve(parts)", lambda: jsonpath.resolve(["a", t], d)),
                                 ("patch test", lambda: JSONPatch().test(ptr, 1).apply(copy.deepcopy(d))), ("patch remove", lambda: JSONPatch().remove(ptr).apply(copy.deepcopy(d))),
                                 ("patch add", lambda: JSONPatch().add(ptr, 0).apply(copy.deepcopy(d)))):
                    o = core.outcome(fn)
                    if "err" in o and o.get("family") not in (("patch",) if what.startswith("patch") else ("pointer",)):
                        ctx.violation("resolution fails only with pointer resolution errors (a patch only with patch errors), whatever tokens the pointer holds and however it was built",
                                      {"doc": d, "token": t, "built by": mk_name, "call": what}, o["err"], "documented error family")
                    if what in ("exists", "resolve(default)") and "err" in o:
                        ctx.violation("exists() and resolve(default=) never raise for a missing location", {"doc": d, "token": t, "built by": mk_name, "call": what}, o["err"], "a value")


def evaluate(ctx, cases):
    if not getattr(ctx, "_sip_done", False):
        ctx._sip_done = True
        _string_index_pointers(ctx)
    del core.STR_FAILURES[:]
    try:
        _evaluate(ctx, cases)
    finally:
        # rendering ANY error raised during this run as text must succeed (compile, evaluation, pointer parsing and
        # resolution, relative pointers, patch building and application)
        for f in core.STR_FAILURES:
            ctx.violation("rendering an error as text must succeed", f, "str(error) raised", "a message")


def search(ctx):
    old = ctx.tier
    ctx.tier = "thorough"
    try:
        evaluate(ctx, gen(ctx)[:150000])
    finally:
        ctx.tier = old


def probe(kf):
    return False
