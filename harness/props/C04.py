"""C04 — JSON Pointer resolution conforms to RFC 6901 for every document and pointer.

Correspondence: JSONPointer(s).resolve / exists / resolve_parent  vs  JP.Pointer (model)
Property on each input: implementation vs JP.Pointer.rfcEval (the executable RFC 6901 spec)."""
from __future__ import annotations

import copy

from .. import core
from .. import gen as G

LEVEL = "proof"
READY = True
CLAIM = {
    "text": "Lean theorems over ALL documents and pointers (no size bound): resolve_every_node(_escape), resolve_conforms "
            "(value returned iff RFC 6901 evaluates, otherwise a pointer resolution error), exists_iff_resolve, proved for the "
            "code-shaped model JP.Pointer; the model is tied to jsonpath/pointer.py on every run by differential execution over "
            "an enumerated universe of locations and one-token mutations plus seeded random documents, and the implementation is "
            "additionally compared with the executable RFC 6901 specification on every case.",
    "note": "Trusted: Lean kernel; the hand-written model (validated differentially, sampling beyond the enumerated universe); "
            "Python unicode-escape codec abstract; uri_decode not modelled; int-like names beyond +-(2^53-1) excluded (known finding C04-KF1, with the kernel-checked counterexample resolve_every_node_counterexample); the negative index extension is stated outright (negative_index_extension).",
    "technique": "Lean 4 refinement proof (model of pointer.py vs RFC 6901 evaluator) + differential correspondence",
}
LEAN_MODULES = []
RULE = ("every location of every document of a structured universe (all key-pool names at depth 1-2, arrays of "
        "length 0-4, every JSON type) plus seeded random documents; for every location the RFC 6901 spelling and "
        "every one-token mutation from a look-alike list, under both unicode_escape settings; a case is non-trivial "
        "when the pointer has at least one token; distinct = distinct (pointer, flag, document)")
TRUSTED = [
    "Lean 4.33 kernel; axioms propext, Classical.choice, Quot.sound only (audited each run)",
    "hand-written model JP/Pointer.lean tied to jsonpath/pointer.py by this differential run (sampling beyond the enumerated universe)",
    "Python's unicode-escape codec is abstract in the theorems (only its 'no backslash => identity' fast path is modelled); urllib unquote (uri_decode=True) is not modelled",
    "CPython int()/str()/dict/list semantics as modelled in JP/Basic.lean",
]
ASSUMPTIONS = [
    "documents are trees of dict/list/str/int/float/bool/None with string keys; floats are multiples of 1/8",
    "a root document that is a Python str is JSON text to the API (load_data) and is not used as a root value",
    "integer-like member names beyond +-(2**53-1) are excluded (recorded known finding)",
]

MUTANTS = ["+1", " 1", "1 ", "1_0", "01", "00", "１", "-0", "-", "", "nope", "0", "1", "2", "3", "5",
           "1e0", "1.0", "é", "a/b", "~", "a", "-1", "-2", "#0", "#1", "#a", "~a", "#", "#x", "#-1",
           "9007199254740991", "9007199254740992", "-9007199254740992", "1" * 30,
           "1１", "1٠", "-1１", "１1", "1２3", "0１", "1\u0660", "2\u0967"]


def _docs(ctx):
    docs = [d for d in G.structured_docs() if not isinstance(d, str)]
    docs.append(list(range(13)))
    docs.append({"11": "ascii", "1１": "mixed", "10": "ten", "1٠": "arabic-indic", "a": list(range(12))})
    n = 150 if ctx.tier == "quick" else 3000
    for _ in range(n):
        d = G.random_doc(ctx.rng, max_depth=4)
        if not isinstance(d, str):
            docs.append(d)
    return docs


def gen_cases(ctx, docs):
    cases = []
    seen = set()

    def add(s, ue, doc, loc, kind):
        key = (s, ue, id(doc))
        if key in seen:
            return
        seen.add(key)
        cases.append({"s": s, "ue": ue, "doc": doc, "loc": loc, "kind": kind})

    for doc in docs:
        locs = list(G.locations(doc))
        for toks, _ in locs:
            s = G.rfc6901_spell(toks)
            add(s, False, doc, list(toks), "location")
            add(s, True, doc, list(toks), "location")
        # one-token mutations of a bounded number of locations per document
        pick = locs if len(locs) <= 6 else ctx.rng.sample(locs, 6)
        for toks, val in pick:
            n = len(val) if isinstance(val, (list, dict)) else 0
            muts = MUTANTS + [str(n), str(n + 1), str(max(n - 1, 0))]
            if ctx.tier == "quick" and len(toks) > 1:
                muts = ctx.rng.sample(muts, 12)
            for m in muts:
                # extend by one token
                add(G.rfc6901_spell(list(toks) + [m]), True, doc, None, "extend")
                if ctx.tier != "quick" or ctx.rng.random() < 0.3:
                    add(G.rfc6901_spell(list(toks) + [m]), False, doc, None, "extend")
                # replace the last token
                if toks:
                    add(G.rfc6901_spell(list(toks[:-1]) + [m]), True, doc, None, "replace-last")
                # replace a middle token
                if len(toks) >= 2 and ctx.rng.random() < 0.25:
                    i = ctx.rng.randrange(len(toks) - 1)
                    add(G.rfc6901_spell(list(toks[:i]) + [m] + list(toks[i + 1:])), True, doc, None, "replace-mid")
    # member names that are Python strings outside the model's strings (lone surrogates, as json.loads('"\\ud800"') yields):
    # checked on the implementation only (the pointer spelled from the location must resolve to that node)
    for doc in ({"\ud800": 1, "x\udfffy": [2, {"\udc00\ud800": 3}], "ok": {"\ud83d": 4}}, [{"\udfff": [5]}]):
        for toks, _ in G.locations(doc):
            s = G.rfc6901_spell(toks)
            add(s, False, doc, list(toks), "location-lone-surrogate")
            add(s, True, doc, list(toks), "location-lone-surrogate")
    # malformed / glue stream
    odd_docs = [{"a": {"b": [1, 2]}, "é": 1, "a\\": 2, "\n": 3}, [1, [2, 3]]]
    for s in ["", "/", "//", "a", "a/b", " /a", "\t/a/b", "  ", "/a\\u00e9", "/\\u00e9", "/a\\", "/\\u12", "/\\ud800",
              "/\\ud83d\\ude00", "/a\\/b", "/\\n", "/a/b/", "/a//b", "/é", "/😀", "/~", "/~2", "/a~", "/~0~1", "/~01", "/~10",
              "/a/b/0", "/a/b/-", "/a/b/2", "/a/b/01", "/1", "/1/0", "/1/1", "/1/-1", "/1/-3", "/" + "1" * 4300, "/" + "1" * 4301,
              "/-" + "1" * 4300, "/-" + "1" * 4301, "/0" * 50]:
        for d in odd_docs:
            for ue in (True, False):
                add(s, ue, d, None, "malformed")
    return cases


def gen(ctx):
    return gen_cases(ctx, _docs(ctx))


def _impl(case):
    from jsonpath import JSONPointer
    from jsonpath.pointer import UNDEFINED

    s, ue, doc = case["s"], case["ue"], case["doc"]
    try:
        p = JSONPointer(s, unicode_escape=ue)
    except RecursionError:
        e = {"err": "RecursionError"}
        return {"value": e, "exists": e, "parent": e, "obj": None}
    except Exception as ex:  # noqa: BLE001
        e = {"err": core.exc_name(ex)}
        return {"value": e, "exists": e, "parent": e, "obj": None}
    value = core.outcome(p.resolve, doc)
    exists = core.outcome(p.exists, doc)
    parent = core.outcome(p.resolve_parent, doc)
    if "ok" in parent:
        a, b = parent["ok"]
        parent = {"ok": [None if a is None else {"some": a}, None if b is UNDEFINED else {"some": b}]}
    return {"value": value, "exists": exists, "parent": parent, "obj": value.get("ok") if "ok" in value else None}


_SENTINEL = object()


def _other_forms(ctx, c, inp, iv):
    import io
    import json
    import jsonpath
    from jsonpath import JSONPointer

    s, ue, doc = c["s"], c["ue"], c["doc"]
    ctx.count("other-forms")
    try:
        p = JSONPointer(s, unicode_escape=ue)
    except Exception:  # noqa: BLE001
        return
    forms = {
        "jsonpath.pointer.resolve(text)": lambda: jsonpath.pointer.resolve(s, doc, unicode_escape=ue),
        "jsonpath.resolve(text)": lambda: jsonpath.resolve(s, doc, unicode_escape=ue),
    }
    if not (ue and "\\" in s):       # with escape decoding on, tokens that contain a backslash are outside the property
        forms["jsonpath.pointer.resolve(parts)"] = lambda: jsonpath.pointer.resolve(list(p.parts), doc, unicode_escape=ue)
        forms["jsonpath.pointer.resolve(parts as tuple)"] = lambda: jsonpath.pointer.resolve(tuple(p.parts), doc, unicode_escape=ue)
    if isinstance(doc, (dict, list)):
        txt = json.dumps(doc, ensure_ascii=False)
        forms["resolve(JSON text)"] = lambda: p.resolve(txt)
        forms["resolve(StringIO)"] = lambda: p.resolve(io.StringIO(txt))
        forms["resolve(BytesIO)"] = lambda: p.resolve(io.BytesIO(txt.encode("utf-8")))
        forms["resolve(JSON text, blank-padded and indented)"] = lambda: p.resolve("\n  " + json.dumps(doc, ensure_ascii=False, indent=1) + "\n")
        forms["exists(JSON text, blank-padded)"] = lambda: (p.resolve(" \t" + txt) if p.exists("\r\n " + txt + " ") else p.resolve(doc))
        forms["jsonpath.pointer.resolve(text, JSON text)"] = lambda: jsonpath.pointer.resolve(s, txt, unicode_escape=ue)
        forms["exists(JSON text)"] = None
    for name, fn in forms.items():
        if fn is None:
            continue
        r = _canon_outcome(core.outcome(fn))
        if r != iv:
            ctx.violation("every way of resolving the same pointer against the same document must agree", {**inp, "form": name}, r, iv)
    failing = "err" in iv and iv["err"] in RES_ERRS
    for d in (None, 0, False, "", [], _SENTINEL):
        for name, fn in (("JSONPointer.resolve(default=)", lambda: p.resolve(doc, default=d)),
                         ("jsonpath.pointer.resolve(default=)", lambda: jsonpath.pointer.resolve(s, doc, default=d, unicode_escape=ue))):
            r = core.outcome(fn)
            if failing:
                if not ("ok" in r and r["ok"] is d):
                    ctx.violation("when resolution fails the caller's default is returned (whatever its truth value)", {**inp, "form": name, "default": repr(d)},
                                  _canon_outcome(r) if d is not _SENTINEL or "err" in r else "another object", "the default")
            elif "ok" in iv:
                if _canon_outcome(r) != iv or (d is _SENTINEL and r.get("ok") is d):
                    ctx.violation("when resolution succeeds the default is ignored", {**inp, "form": name, "default": repr(d)}, _canon_outcome(r) if "err" in r or r["ok"] is not _SENTINEL else "the default", iv)


def _canon_outcome(o):
    if "ok" in o:
        return {"ok": core.canon(o["ok"])}
    return {"err": o["err"]}


def _canon_parent(o):
    if "err" in o:
        return {"err": o["err"]}
    a, b = o["ok"]
    f = lambda x: {"none": None} if x is None else {"some": core.canon(x["some"])}  # noqa: E731
    return {"ok": [f(a), f(b)]}


def _node_at(doc, toks):
    cur = doc
    for t in toks:
        cur = cur[t]
    return cur


RES_ERRS = {"JSONPointerIndexError", "JSONPointerKeyError", "JSONPointerTypeError", "JSONPointerResolutionError"}


def _string_documents(ctx):
    """A document given as JSON text whose value is a *string* (one that holds JSON text itself, or not): the string is the
    document - a primitive - through every method of a pointer; it is decoded once."""
    import json
    from jsonpath import JSONPointer

    for s in ("[10, 20]", "5", "{\"a\": 1}", "abc", "null", "", "\"q\""):
        text = json.dumps(s)
        for ptr in ("", "/0", "/a", "/-"):
            ctx.count("string-document")
            want = {"resolve": {"ok": s} if ptr == "" else {"err": "JSONPointerTypeError"},
                    "exists": {"ok": ptr == ""},
                    "resolve_parent": {"ok": [None, s]} if ptr == "" else {"err": "JSONPointerTypeError"},
                    "resolve(default)": {"ok": s} if ptr == "" else {"ok": "DEFAULT"}}
            got = {"resolve": core.outcome(lambda: JSONPointer(ptr).resolve(text)),
                   "exists": core.outcome(lambda: JSONPointer(ptr).exists(text)),
                   "resolve_parent": core.outcome(lambda: list(JSONPointer(ptr).resolve_parent(text))),
                   "resolve(default)": core.outcome(lambda: JSONPointer(ptr).resolve(text, default="DEFAULT"))}
            for k, w in want.items():
                g = {"ok": got[k]["ok"]} if "ok" in got[k] else {"err": got[k]["err"]}
                if g != w:
                    ctx.violation("a JSON text document whose value is a string is that string - a primitive no token applies to - through every pointer method",
                                  {"document text": text, "pointer": ptr, "method": k}, g, w)


def _primitives_tie(ctx):
    """The Python primitives under the pointer model through their own driver operation (`prim.index`): `JSONPointer._index`
    (index-token pattern, `int()`, the digit limit of CPython, the index range) against `Pointer.indexOf`, `str.lstrip` / `str.strip`
    against `lstrip` / `strip` (the blank class `isPyBlank`), and the canonical-decimal test against an independent regular expression;
    every string of length <= 3 over sign / digit / blank / look-alike characters, plus numerals at the range and digit limits."""
    import re

    from jsonpath import JSONPointer

    alpha = ["0", "1", "9", "-", "+", " ", "_", "a", "\uff11", "\u0662", "\t", "\n", "\x0b", "\x1c", "\x1f", "\x85", "\xa0", "\u1680",
             "\u2007", "\u2028", "\u202f", "\u205f", "\u3000", "\u200b", "\ufeff"]
    toks = [""] + alpha + [a + b for a in alpha for b in alpha] + [a + b + c for a in alpha[:12] for b in alpha[:12] for c in alpha[:12]]
    lim = 2 ** 53
    for n in (lim - 2, lim - 1, lim, lim + 1, 10 ** 20):
        toks += [str(n), "-" + str(n), "0" + str(n), "+" + str(n)]
    for d in (4299, 4300, 4301):
        toks += ["9" * d, "-" + "9" * d, "1" + "0" * (d - 1)]
    toks = list(dict.fromkeys(toks))
    p = JSONPointer("")
    canon = re.compile(r"(?:0|[1-9][0-9]*)\Z", re.ASCII)
    outs = ctx.driver.run([{"op": "prim.index", "s": t} for t in toks], jobs=ctx.jobs)
    for t, m in zip(toks, outs):
        r = core.outcome(lambda: p._index(t))
        impl = {"ok": r["ok"]} if "ok" in r else {"err": r["err"]}
        ctx.case(("prim.index", t), nontrivial=bool(t))
        model = m.get("index")
        if impl != model or ("ok" in impl and type(impl["ok"]) is not type(model["ok"])):
            ctx.mismatch("prim.index", {"token": t if len(t) < 60 else t[:20] + "...(%d chars)" % len(t)}, impl, model if len(str(model)) < 200 else str(model)[:200])
        if m.get("lstrip") != t.lstrip() or m.get("strip") != t.strip():
            ctx.mismatch("prim.strip", {"text": t[:60]}, {"lstrip": t.lstrip()[:60], "strip": t.strip()[:60]}, {"lstrip": str(m.get("lstrip"))[:60], "strip": str(m.get("strip"))[:60]})
        if m.get("canon") is not bool(canon.match(t)):
            ctx.mismatch("prim.canon", {"text": t[:60]}, bool(canon.match(t)), m.get("canon"))


def _parts_tie(ctx):
    """`Pointer.resolveParts` / `Pointer.encode` on *arbitrary* parts - any mix of `int` and `str`, as `JSONPointer('', parts=...)`,
    `from_match` and the patch builder may leave them - through their own driver operation (`ptr.resolve_parts`): every sequence of
    length <= 2 over integer parts (in range, at the end, beyond, negative), digit strings, signs, `-`, `#`-prefixed and escaped names."""
    from jsonpath import JSONPointer

    alpha = [0, 1, 2, 5, -1, -2, -5, "0", "1", "2", "-1", "-2", "01", "+1", "a", "", "-", "~", "#a", "#0", "#1", "#", "a/b", "~0", "~1"]
    docs = [{"a": [1, [2]], "0": 1, "-1": 2, "": 3, "#a": 1, "a/b": 5, "~": 6, "1": {"a": 1, "0": [0]}, "#": 7, "~0": 8},
            [10, {"a": 1, "0": 2, "#": 3}, [3, 4]], [], {}, 5, None]
    seqs = [(a,) for a in alpha] + [(a, b) for a in alpha for b in alpha]
    reqs, meta = [], []
    for d in docs:
        for ps in seqs:
            reqs.append({"op": "ptr.resolve_parts", "parts": list(ps), "doc": core.enc(d)}); meta.append((d, ps))
    for (d, ps), m in zip(meta, ctx.driver.run(reqs, jobs=ctx.jobs)):
        p = JSONPointer("", parts=tuple(ps))
        iv = _canon_outcome(core.outcome(lambda: p.resolve(copy.deepcopy(d))))
        ctx.case(("parts", repr(ps), repr(d)), nontrivial=True)
        if iv != m["value"]:
            ctx.mismatch("ptr.resolve_parts", {"parts": list(ps), "doc": d}, iv, m["value"])
        if str(p) != m["str"]:
            ctx.mismatch("ptr.encode", {"parts": list(ps)}, str(p), m["str"])


def evaluate(ctx, cases):
    if not getattr(ctx, "_strdocs_done", False):
        ctx._strdocs_done = True
        _string_documents(ctx)
        _primitives_tie(ctx)
        _parts_tie(ctx)
    reqs = []
    for c in cases:
        try:
            c["s"].encode("utf-8")
            reqs.append({"op": "ptr.resolve", "s": c["s"], "ue": c["ue"], "doc": core.enc(c["doc"])})
        except (core.Unencodable, UnicodeEncodeError):
            reqs.append(None)
    # cases the driver cannot be given (strings that are not Unicode scalar sequences): implementation-only checks
    for c, r in zip(cases, reqs):
        if r is None and c.get("loc") is not None and not (c["ue"] and "\\" in c["s"]):
            impl = _impl(c)
            ctx.count("kind:" + c.get("kind", "?") + ":implementation-only")
            try:
                node = _node_at(c["doc"], list(c["loc"]))
            except Exception:  # noqa: BLE001
                continue
            got = impl["obj"]
            same = (got is node) if isinstance(node, (dict, list)) else ("ok" in impl["value"] and type(got) is type(node) and got == node)
            if not same:
                ctx.violation("the pointer spelled from a node's location must resolve to that very node, whatever characters the names contain",
                              {"s": repr(c["s"]), "ue": c["ue"], "loc": [repr(t) for t in c["loc"]]}, impl["value"].get("err", "another value"), "that node")
            ex = impl["exists"]
            if ex != {"ok": True}:
                ctx.violation("exists() must be true for the pointer of an existing node", {"s": repr(c["s"]), "ue": c["ue"]}, ex, {"ok": True})
    live = [(c, r) for c, r in zip(cases, reqs) if r is not None]
    outs = ctx.driver.run([r for _, r in live], jobs=ctx.jobs)
    for (c, _), m in zip(live, outs):
        impl = _impl(c)
        inp = {k: c[k] for k in ("s", "ue", "doc", "loc", "kind") if k in c}
        ntoks = c["s"].count("/")
        ctx.case((c["s"], c["ue"], repr(c["doc"])), ntoks >= 1,
                 sample={"pointer": c["s"], "unicode_escape": c["ue"], "doc": c["doc"], "model": m["value"]})
        ctx.count("kind:" + c.get("kind", "?"))
        ctx.count("outcome:" + ("ok" if "ok" in impl["value"] else impl["value"]["err"]))
        # --- correspondence: implementation vs model
        iv, ie, ip = _canon_outcome(impl["value"]), _canon_outcome(impl["exists"]), _canon_parent(impl["parent"])
        if iv != m["value"]:
            ctx.mismatch("ptr.resolve", inp, iv, m["value"])
        if ie != m["exists"]:
            ctx.mismatch("ptr.exists", inp, ie, m["exists"])
        if ip != m["parent"]:
            ctx.mismatch("ptr.resolve_parent", inp, ip, m["parent"])
        # --- property: implementation vs RFC 6901 (outside the documented extensions)
        in_scope = not (c["ue"] and "\\" in c["s"])
        spec = m["spec"]
        if in_scope and "some" in spec and not m["ext"]:
            sv = spec["some"]
            if "some" in sv:
                if iv != {"ok": sv["some"]}:
                    ctx.violation("RFC 6901 evaluates this pointer to a value; resolve() does not return it", inp, iv, {"ok": sv["some"]})
                if ie != {"ok": True}:
                    ctx.violation("exists() disagrees with successful resolution", inp, ie, {"ok": True})
            else:
                if not ("err" in iv and iv["err"] in RES_ERRS):
                    ctx.violation("RFC 6901 cannot evaluate this pointer; resolve() must raise a pointer resolution error", inp, iv, {"err": "JSONPointerResolutionError"})
                if ie != {"ok": False}:
                    ctx.violation("exists() must be false when resolution fails", inp, ie, {"ok": False})
        if in_scope and c.get("loc") is not None:
            node = _node_at(c["doc"], [t for t in c["loc"]])
            got = impl["obj"]
            same = (got is node) if isinstance(node, (dict, list)) else ("ok" in impl["value"] and type(got) is type(node) and got == node)
            if not same:
                ctx.violation("the pointer spelled from a node's location must resolve to that very node", inp, iv, {"ok": core.canon(node)})
        # --- the other observation points: module-level resolve (text and parts forms), documents given as JSON text or
        #     file-like objects, and the caller's default
        if ctx.rng.random() < (0.06 if ctx.tier == "quick" else 0.25) and "err" not in impl.get("ctor", {}):
            _other_forms(ctx, c, inp, iv)
        # a pointer is a value: one pointer object resolved again on the same document object, after the caller replaced a
        # container on the way (or the member / element it ends in), must answer what a newly built pointer answers
        if isinstance(c.get("loc"), (list, tuple)) and len(c["loc"]) >= 1 and in_scope and "err" not in impl.get("ctor", {}) \
                and ctx.rng.random() < (0.05 if ctx.tier == "quick" else 0.3):
            _history(ctx, c, inp)
        # exists agrees with resolve, always
        if ("ok" in iv) != (ie == {"ok": True}) and not ("err" in iv and iv["err"] not in RES_ERRS):
            ctx.violation("exists() disagrees with resolve()", inp, ie, {"ok": "ok" in iv})


def _history(ctx, c, inp):
    import copy
    from jsonpath import JSONPointer

    ctx.count("history")
    doc = copy.deepcopy(c["doc"])
    if not isinstance(doc, (dict, list)):
        return
    try:
        p = JSONPointer(c["s"], unicode_escape=c["ue"])
    except Exception:  # noqa: BLE001
        return

    def observe(ptr):
        return [_canon_outcome(core.outcome(lambda: core.canon(ptr.resolve(doc)))), _canon_outcome(core.outcome(lambda: ptr.exists(doc))),
                _canon_outcome(core.outcome(lambda: core.canon(ptr.resolve(doc, default="DEFAULT")))),
                _canon_outcome(core.outcome(lambda: (lambda pr: [core.canon(pr[0]), core.canon(pr[1])])(ptr.resolve_parent(doc))))]
    observe(p)
    loc = list(c["loc"])
    # replace the container `depth` steps down by an edited copy: shorter arrays, members dropped, or another kind of value
    for depth in range(0, len(loc)):
        holder = doc
        try:
            for t in loc[:depth]:
                holder = holder[t]
            key = loc[depth]
            old = holder[key]
        except Exception:  # noqa: BLE001
            break
        for new in ([] if isinstance(old, list) else {}, (old[:1] if isinstance(old, list) else {k: v for k, v in list(old.items())[:1]}) if isinstance(old, (list, dict)) else "changed", 7):
            holder[key] = copy.deepcopy(new)
            again, fresh = observe(p), observe(JSONPointer(c["s"], unicode_escape=c["ue"]))
            if again != fresh:
                ctx.violation("a pointer object resolved again on the same document object after the caller edited the document must answer what a newly built pointer answers",
                              {**inp, "edit": {"at": [str(t) for t in loc[:depth + 1]], "new": core.canon(new)}}, again, fresh)
            holder[key] = old
        observe(p)


def search(ctx):
    """Failing-input search after a broken obligation/correspondence: a larger sampled budget."""
    import random

    for k in range(3):
        ctx.rng = random.Random(ctx.seed * 7919 + k + 1)
        old = ctx.tier
        ctx.tier = "thorough"
        try:
            docs = [d for d in G.structured_docs() if not isinstance(d, str)]
            docs += [d for d in (G.random_doc(ctx.rng, 4) for _ in range(800)) if not isinstance(d, str)]
            evaluate(ctx, gen_cases(ctx, docs))
        finally:
            ctx.tier = old
        if ctx.violations:
            return


def probe(kf):
    """Replay a recorded known finding on the implementation; True if it still fails."""
    from jsonpath import JSONPointer

    p = kf["probe"]
    try:
        return JSONPointer(p["pointer"]).resolve(p["doc"]) != p["expect"]
    except Exception:  # noqa: BLE001
        return True
