"""C08 — The async API returns exactly what the sync API returns."""
from __future__ import annotations

import copy

import asyncio

from .. import core, qeval, qpool

LEVEL = "proof"
READY = True
CLAIM = {
    "text": "Lean theorems: asynchronous evaluation is modelled as the resumption (coroutine) monad over the same evaluator; running a resumption computation equals the "
            "plain computation (run_lift, run_bind: every await point is transparent), an item getter that returns the same items changes nothing, and several evaluations "
            "interleaved by ANY scheduler on one loop each return their own result (schedule_independent, by induction over the schedule) because an evaluation shares no "
            "state with another. That the hand-written async half of the code behaves like this model is tied on every run: findall_async/finditer_async vs the sync calls "
            "vs the model, for every selector kind x every JSON type, filters, compound queries, containers with __getitem_async__, and asyncio.gather of concurrent evaluations.",
    "note": "Trusted: Lean kernel; the resumption-monad model of cooperative scheduling (real event-loop features such as cancellation and timeouts are outside); the async twins "
            "of every selector are tied differentially, not by a theorem about their text.",
    "technique": "Lean 4 theorems on a resumption-monad model of async evaluation (schedule independence) + differential sync/async/model correspondence",
}
RULE = ("query pool (every selector kind applied to every JSON type incl. strings and scalars, filters with every expression kind, compound queries) + generated queries x "
        "documents x {plain containers, containers with an async item getter} x {single await, gather of 4 concurrent evaluations with sleep(0) in the getter}; "
        "non-trivial = at least one match")
TRUSTED = ["Lean 4.33 kernel; standard axioms only", "asyncio's scheduling modelled as cooperative interleaving at await points", "model tied to the async API by this differential run"]
ASSUMPTIONS = ["an asynchronous item getter returns the same items as plain indexing (as the property states)"]

TYPES = {"str": "abc", "num": 5, "flt": 1.5, "t": True, "z": None, "arr": [1, "x", [2]], "obj": {"a": 1, "0": "zero"}, "e": [], "eo": {}}
SELS = ["[*]", ".*", "[0]", "[-1]", "['a']", ".a", "[0:2]", "[::-1]", "..*", "..[0]", "..a", "[?@]", "[?@ == 1]", "[0, 'a', *, 1:]", ".~", "[~]"]


class ADict(dict):
    async def __getitem_async__(self, key):
        await asyncio.sleep(0)
        return dict.__getitem__(self, key)


class AList(list):
    async def __getitem_async__(self, key):
        await asyncio.sleep(0)
        return list.__getitem__(self, key)


def wrap(v):
    if isinstance(v, dict):
        return ADict({k: wrap(x) for k, x in v.items()})
    if isinstance(v, list):
        return AList([wrap(x) for x in v])
    return v


def gen(ctx):
    cases = []
    for key in TYPES:
        for sel in SELS:
            cases.append({"text": f"$.{key}{sel}", "doc": TYPES, "ctx": {}})
            cases.append({"text": f"$[?@{sel}]", "doc": TYPES, "ctx": {}})
    ctx.exhaustive_spaces.append("every selector kind x every JSON type as the selected value")
    texts = qpool.all_texts() + qpool.generated_texts(ctx.rng, 200 if ctx.tier == "quick" else 4000)
    docs = qpool.DOCS + qpool.generated_docs(ctx.rng, 10 if ctx.tier == "quick" else 150)
    for t in texts:
        ds = docs if ctx.tier != "quick" else (docs[:2] + ctx.rng.sample(docs[2:], 3))
        for d in ds:
            cases.append({"text": t, "doc": d, "ctx": ctx.rng.choice(qpool.CONTEXTS)})
    # inputs on which the synchronous call raises: the asynchronous call must raise the same kind of error
    for t in ("$.a", "$..*", "$[?@.a == 1]", "$.a | $.b"):
        for d in ('{"a": [1', "[1, 2", '{"a": 1}}', b"\xff\xfe".decode("latin-1")):
            cases.append({"text": t, "doc": d, "ctx": {}, "raw": True})
    # documents in which one container object is referenced from several places (parsed YAML anchors, records shared between
    # fields): each occurrence is a node of its own, in the synchronous and in the asynchronous evaluation alike
    shared = {"city": "x", "zip": [1, 2]}
    lst = [1, {"k": 2}]
    dag1 = {"billing": shared, "shipping": shared, "history": [{"to": shared}, shared]}
    dag2 = [lst, lst, {"a": lst, "b": [lst]}]
    for t in ("$..city", "$..*", "$..zip[0]", "$..[?@.city]", "$..[0]", "$..k", "$.*..k", "$..[?@.k == 2]", "$..a..k", "$..[?count(@..*) > 1]"):
        for d in (dag1, dag2):
            cases.append({"text": t, "doc": d, "ctx": {}, "raw": True})
    deep = cur = []
    for _ in range(3000):
        nxt = []
        cur.append(nxt)
        cur = nxt
    cases.append({"text": "$..*", "doc": deep, "ctx": {}, "raw": True})
    cases.append({"text": "$..[?@ == 1]", "doc": deep, "ctx": {}, "raw": True})
    return cases


def _sync(compiled, doc, extra):
    return core.outcome(lambda: [{"path": m.path, "parts": list(m.parts), "val": core.canon(m.obj)} for m in compiled.finditer(doc, filter_context=extra)])


async def _async_iter(compiled, doc, extra):
    return [{"path": m.path, "parts": list(m.parts), "val": core.canon(m.obj)} async for m in await compiled.finditer_async(doc, filter_context=extra)]


async def _async_all(compiled, doc, extra):
    return [core.canon(v) for v in await compiled.findall_async(doc, filter_context=extra)]


def evaluate(ctx, cases):
    # advisory twin audit: a `*_async` method that differs from its synchronous twin by design, whose difference is no longer
    # the one that was read, proves nothing by itself - the differential run below is widened to the thorough generator
    if ctx.tier == "quick" and not getattr(ctx, "_twin_widened", False):
        from .. import twins
        changed = core.outcome(lambda: twins.unreviewed(core.REPO))
        if changed.get("ok"):
            ctx._twin_widened = True
            ctx.notes.append("twin audit: the difference between these asynchronous methods / helpers and their synchronous twins is not the reviewed one: "
                             + ", ".join(k for k, _ in changed["ok"]) + " - differential run widened to the thorough generator")
            ctx.tier = "thorough"
            try:
                extra = gen(ctx)
                ctx.rng.shuffle(extra)
                cases = list(cases) + extra[:40000]
            finally:
                ctx.tier = "quick"
    reqs, meta = [], []
    for c in cases:
        o = qeval.compile_outcome(c["text"])
        if "err" in o:
            ctx.count("compile-error")
            continue
        if c.get("raw"):
            reqs.append({"op": "ping"})
            meta.append((c, o["ok"]))
            continue
        try:
            reqs.append(qeval.build_request(o["ok"], c["doc"], c.get("ctx")))
        except (core.Unencodable, RecursionError):
            continue
        meta.append((c, o["ok"]))
    outs = ctx.driver.run(reqs, jobs=ctx.jobs)
    loop = asyncio.new_event_loop()
    try:
        if not getattr(ctx, "_file_docs_done", False):
            ctx._file_docs_done = True
            _file_documents(ctx, loop)
            _raising_functions(ctx, loop)
        batch = []
        for (c, compiled), m in zip(meta, outs):
            doc, extra = c["doc"], c.get("ctx") or {}
            inp = {"text": c["text"], "doc": doc if not (c.get("raw") and isinstance(doc, list)) else "<3000 nested arrays>", "filter_context": extra}
            s = _sync(compiled, doc, extra)
            ctx.case((c["text"], repr(doc) if not c.get("raw") else str(type(doc)) + str(len(doc)), repr(extra)), bool(s.get("ok")), sample={"query": c["text"], "doc": doc, "matches": len(s.get("ok", []))})
            ctx.count("sync:" + ("ok" if "ok" in s else s["err"]))
            a_it = core.outcome(lambda: loop.run_until_complete(_async_iter(compiled, doc, extra)))
            a_all = core.outcome(lambda: loop.run_until_complete(_async_all(compiled, doc, extra)))
            wdoc = wrap(doc) if not c.get("raw") else doc
            a_w = core.outcome(lambda: loop.run_until_complete(_async_iter(compiled, wdoc, extra)))
            if not c.get("raw") and ctx.rng.random() < (0.2 if ctx.tier == "quick" else 0.6):
                # the module-level asynchronous entry points, findall_async on containers with asynchronous getters, and a
                # filter context whose mappings have asynchronous getters
                import jsonpath
                ctx.count("more-async-forms")
                more = {
                    "jsonpath.finditer_async": lambda: loop.run_until_complete(_collect(jsonpath.finditer_async(c["text"], doc, filter_context=extra))),
                    "jsonpath.findall_async": lambda: loop.run_until_complete(jsonpath.findall_async(c["text"], doc, filter_context=extra)),
                    "compiled.findall_async(async containers)": lambda: loop.run_until_complete(compiled.findall_async(wdoc, filter_context=extra)),
                    "compiled.finditer_async(async filter context)": lambda: loop.run_until_complete(_collect(compiled.finditer_async(doc, filter_context=wrap(extra)))),
                }
                for name, fn in more.items():
                    r = core.outcome(fn)
                    if "ok" in r:
                        got = [core.canon(x.obj) if hasattr(x, "obj") else core.canon(x) for x in r["ok"]]
                    else:
                        got = {"err": r["err"]}
                    want_v = [n["val"] for n in s["ok"]] if "ok" in s else {"err": s["err"]}
                    if got != want_v:
                        ctx.violation("every asynchronous entry point must return what the synchronous call returns", {**inp, "entry_point": name}, got, want_v)
            norm = lambda r: r["ok"] if "ok" in r else {"err": r["err"]}  # noqa: E731
            if norm(a_it) != norm(s):
                ctx.violation("finditer_async must produce the same matches (values, order, paths, parts) or the same kind of error as finditer", inp, norm(a_it) if "err" in a_it else a_it["ok"][:6], norm(s) if "err" in s else s["ok"][:6])
            want_vals = [n["val"] for n in s["ok"]] if "ok" in s else {"err": s["err"]}
            if norm(a_all) != want_vals:
                ctx.violation("findall_async must return the same values as findall", inp, norm(a_all), want_vals)
            if norm(a_w) != norm(s):
                ctx.violation("containers with an asynchronous item getter that returns the same items must not change the result", inp, norm(a_w) if "err" in a_w else a_w["ok"][:6], norm(s) if "err" in s else s["ok"][:6])
            if "ok" in s and not c.get("raw"):
                mod = m.get("nodes")
                if [{"path": n["path"], "parts": n["parts"], "val": n["val"]} for n in mod] != s["ok"]:
                    ctx.mismatch("q.finditer(sync)", inp, s["ok"][:6], mod[:6])
                batch.append((compiled, wdoc, extra, s["ok"], inp))
            if len(batch) == 4:
                _gather(ctx, loop, batch)
                batch = []
        if batch:
            _gather(ctx, loop, batch)
        _one_query_many_documents(ctx, loop)
    finally:
        loop.close()


SHARED_QUERIES = ["$.items[?@.v < $.limit]", "$.items[?@.v < $.limit].v", "$.items[?@.v == _.v || @.v > $.limit]", "$.items[?$.flag && @.v]", "$..[?@.v >= $.limit]",
                  "$.items[?count($.items[*]) > @.v]", "$.items[?@.v in $.allowed]", "$.items[?@.v < $.limit] | $.items[?@.v > $.limit]"]


def _file_documents(ctx, loop):
    """Documents given as file-like objects (text and bytes; valid JSON, JSON in the encodings json detects, and text that is
    not JSON with and without brackets) through the environment-level and the compiled entry points: the asynchronous call
    returns what the synchronous one returns, or raises the same kind of error."""
    import io
    import json
    import jsonpath
    good = {"a": [1, 2, {"b": "é"}], "k": "x"}
    contents = [("valid", json.dumps(good)), ("valid, non-ASCII raw", json.dumps(good, ensure_ascii=False)), ("string value", json.dumps("[1, 2]")), ("number", "5"),
                ("not JSON, no bracket", "not json at all"), ("empty", ""), ("truncated word", "tru"), ("two values", "1 2"), ("malformed", '{"a": [1'), ("blank-padded", "\n " + json.dumps(good) + "\n")]
    makers = []
    for name, txt in contents:
        makers.append((name + " / StringIO", lambda txt=txt: io.StringIO(txt)))
        makers.append((name + " / BytesIO", lambda txt=txt: io.BytesIO(txt.encode("utf-8"))))
    makers.append(("valid / BytesIO UTF-8 BOM", lambda: io.BytesIO(b"\xef\xbb\xbf" + json.dumps(good).encode())))
    makers.append(("valid / BytesIO UTF-16", lambda: io.BytesIO(json.dumps(good, ensure_ascii=False).encode("utf-16"))))
    makers.append(("undecodable / BytesIO", lambda: io.BytesIO(b"\xff\xfe\xff")))
    for text in ("$", "$.a[*]", "$..b", "$.a[*] | $.k", "$[?@ == 'x']"):
        compiled = jsonpath.compile(text)
        for name, mk in makers:
            ctx.count("file-documents")
            pairs = [("jsonpath.findall", lambda: jsonpath.findall(text, mk()), lambda: loop.run_until_complete(jsonpath.findall_async(text, mk()))),
                     ("jsonpath.finditer", lambda: [m.obj for m in jsonpath.finditer(text, mk())], lambda: [m.obj for m in loop.run_until_complete(_collect(jsonpath.finditer_async(text, mk())))]),
                     ("compiled.findall", lambda: compiled.findall(mk()), lambda: loop.run_until_complete(compiled.findall_async(mk()))),
                     ("compiled.finditer", lambda: [m.obj for m in compiled.finditer(mk())], lambda: [m.obj for m in loop.run_until_complete(_collect(compiled.finditer_async(mk())))])]
            for ep, fs, fa in pairs:
                s, a = core.outcome(fs), core.outcome(fa)
                ns = [core.canon(x) for x in s["ok"]] if "ok" in s else {"err": s["err"]}
                na = [core.canon(x) for x in a["ok"]] if "ok" in a else {"err": a["err"]}
                if ns != na:
                    ctx.violation("on a file-like document the asynchronous call must return what the synchronous call returns, or raise the same kind of error",
                                  {"text": text, "document": name, "entry_point": ep}, na, ns)


def _raising_functions(ctx, loop):
    """Function calls that fail at evaluation time - a registered plain callable with a bug of its own, or a standard function
    given the wrong kind of argument with type checks off: the asynchronous call raises what the synchronous call raises."""
    import jsonpath

    class Loose(jsonpath.JSONPathEnvironment):
        pass
    envs = {"well_typed=False": jsonpath.JSONPathEnvironment(well_typed=False), "custom callable": Loose()}
    envs["custom callable"].function_extensions["upper"] = lambda s: s.upper()              # AttributeError on a number
    envs["custom callable"].function_extensions["half"] = lambda n: n / 2                    # TypeError on a string
    envs["custom callable"].function_extensions["first"] = lambda xs: xs[0]                 # IndexError / KeyError / TypeError
    queries = {"well_typed=False": ["$[?typeof(value(@.a)) == 'string']", "$[?is('x', 'str')]", "$[?value('a') == 1]", "$[?count(1) > 0]", "$[?typeof(1) == 'number']",
                                    "$[?length(@.a) == 1]"],
               "custom callable": ["$[?upper(@.a) == 'X']", "$[?half(@.a) == 1]", "$[?first(@.a) == 1]", "$[?upper(@.s) == 'X' || half(@.n) == 1]"]}
    docs = [[{"a": "x", "s": "x", "n": 2}], [{"a": 1, "s": 1, "n": "2"}], [{"a": []}], [{"a": None}], [{}], [1, "x"]]
    for name, env in envs.items():
        for text in queries[name]:
            co = core.outcome(lambda: env.compile(text))
            if "err" in co:
                continue
            q = co["ok"]
            for d in docs:
                ctx.count("raising-functions")
                s_ = core.outcome(lambda: [core.canon(v) for v in q.findall(copy.deepcopy(d))])
                a_ = core.outcome(lambda: [core.canon(v) for v in loop.run_until_complete(q.findall_async(copy.deepcopy(d)))])
                i_ = core.outcome(lambda: loop.run_until_complete(_collect(q.finditer_async(copy.deepcopy(d)))))
                ns = s_["ok"] if "ok" in s_ else {"err": s_["err"]}
                na = a_["ok"] if "ok" in a_ else {"err": a_["err"]}
                ni = [core.canon(m.obj) for m in i_["ok"]] if "ok" in i_ else {"err": i_["err"]}
                if na != ns or ni != ns:
                    ctx.violation("the asynchronous entry points return what the synchronous one returns, or raise the same kind of error, also when a function call fails at evaluation time",
                                  {"environment": name, "text": text, "doc": d}, {"findall_async": na, "finditer_async": ni}, ns)


def _one_query_many_documents(ctx, loop):
    """ONE compiled query, several documents (and filter contexts) evaluated by tasks in flight together - the item
    getters really suspend - and by asynchronous iterators advanced alternately: each evaluation sees its own document."""
    import jsonpath
    docs = [{"limit": lim, "flag": lim % 2 == 0, "allowed": [lim, 1], "items": [{"v": 1}, {"v": 3}, {"v": 5}, {"v": lim}]} for lim in (2, 4, 6, 0)]
    extras = [{"v": 1}, {"v": 3}, {"v": 5}, {}]
    for text in SHARED_QUERIES:
        q = jsonpath.compile(text)
        want = [[core.canon(v) for v in q.findall(copy.deepcopy(d), filter_context=e)] for d, e in zip(docs, extras)]

        async def one(d, e):
            return [core.canon(m.obj) async for m in await q.finditer_async(wrap(copy.deepcopy(d)), filter_context=e)]

        async def allv(d, e):
            return [core.canon(v) for v in await q.findall_async(wrap(copy.deepcopy(d)), filter_context=e)]

        async def main():
            return await asyncio.gather(*[one(d, e) for d, e in zip(docs, extras)], *[allv(d, e) for d, e in zip(docs, extras)])
        r = core.outcome(lambda: loop.run_until_complete(main()))
        ctx.count("one-query-many-documents")
        inp = {"text": text, "docs": docs, "filter_contexts": extras}
        if "err" in r:
            ctx.violation("concurrent asynchronous evaluations of one compiled query raised", inp, r["err"], want)
            continue
        got = r["ok"]
        if got[:4] != want or got[4:] != want:
            ctx.violation("asynchronous evaluations of one compiled query in flight together must each return what the synchronous call returns for their own document",
                          inp, got, want)
            continue

        # two asynchronous iterators over different documents advanced alternately (plain containers)
        async def alternate():
            ia = (await q.finditer_async(copy.deepcopy(docs[0]), filter_context=extras[0])).__aiter__()
            ib = (await q.finditer_async(copy.deepcopy(docs[1]), filter_context=extras[1])).__aiter__()
            ga, gb = [], []
            live = [(ia, ga), (ib, gb)]
            while live:
                for it, acc in list(live):
                    try:
                        acc.append(core.canon((await it.__anext__()).obj))
                    except StopAsyncIteration:
                        live.remove((it, acc))
            return [ga, gb]
        r2 = core.outcome(lambda: loop.run_until_complete(alternate()))
        if r2.get("ok") != want[:2]:
            ctx.violation("two asynchronous iterators of one compiled query advanced alternately must each yield their own result", inp, r2.get("ok", r2.get("err")), want[:2])


async def _collect(aw):
    return [m async for m in await aw]


def _gather(ctx, loop, batch):
    async def run():
        return await asyncio.gather(*[_async_iter(c, d, e) for c, d, e, _, _ in batch], return_exceptions=True)
    res = loop.run_until_complete(run())
    for r, (_, _, _, want, inp) in zip(res, batch):
        got = {"err": type(r).__name__} if isinstance(r, BaseException) else r
        ctx.count("gather")
        if got != want:
            ctx.violation("several evaluations awaited concurrently on one event loop must each return their own result", inp, got if isinstance(got, dict) else got[:6], want[:6])


def search(ctx):
    old = ctx.tier
    ctx.tier = "thorough"
    try:
        evaluate(ctx, gen(ctx))
    finally:
        ctx.tier = old


def probe(kf):
    return False
