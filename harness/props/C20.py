"""C20 — Match -> pointer -> patch edits exactly the matched node."""
from __future__ import annotations

import copy
import json

from .. import core, qeval, qgen
from .. import gen as G

LEVEL = "proof"
READY = True
CLAIM = {
    "text": "Lean theorems over ALL documents and ALL locations: for the parts a match carries (location of the matched node), test with the value found passes, "
            "replace yields the document that differs at exactly that location (every unrelated location keeps its value), remove yields the document without exactly "
            "that member/element - whatever characters member names contain and whether or not they look like integers (compositions of the C03 location invariant, "
            "C04 resolution and the C05 patch model). Tied to match.py/pointer.py/patch.py by running match.pointer() through JSONPatch on the implementation for every "
            "match of generated queries and comparing with the model and with a direct edit at the match's parts.",
    "note": "Trusted: Lean kernel; models JP.Query/JP.Pointer/JP.Patch; documents are trees (no aliasing).",
    "technique": "Lean 4 corollaries composing the evaluator, pointer and patch models + differential correspondence",
}
RULE = ("queries x documents with member names that are digits-only, signed-number look-alikes, '~', '/', empty, non-ASCII; every match x {test, replace, remove}; "
        "non-trivial = the match is not the root")
TRUSTED = ["Lean 4.33 kernel; standard axioms only", "models tied to the implementation by this differential run"]
ASSUMPTIONS = ["documents are trees (no aliasing)", "`$`-rooted queries without the keys selector"]

KEYS = ["-0", "-00", "0", "1", "-1", "+1", "１", "~", "/", "", "é", "a/b", "-", "0", "01", "a", "b", "~0", "~1", "#a", "1_0", " 1", "10", "😀", "a\\"]


def docs(ctx):
    out = []
    for i in range(0, len(KEYS), 4):
        ch = KEYS[i:i + 4]
        out.append({k: [10, {k: "x", "z": [k]}] for k in ch})
        out.append([{k: j} for j, k in enumerate(ch)] + [[1, 2, 3]])
    out.append({"1": "one", "-1": "neg", "01": "lead", "a": ["x", "y", "z"], "0": {"0": 0}})
    # members whose names are a sibling's name behind `~` / `#` (the pointer extensions' prefixes), with nodes strictly below them
    out.append({"": 0, "~": {"a": 1, "": [2]}, "a": [1], "~a": {"x": [1, {"y": 2}]}, "#id": {"k": [1]}, "id": 3, "#": {"z": [1]}, "#a": [[0]]})
    out.append([{"": 0, "~": [1, {"~": 2}]}, {"0": 1, "#0": {"0": 2}, "~0": [3]}])
    for _ in range(30 if ctx.tier == "quick" else 400):
        d = G.random_doc(ctx.rng, 4, keys=KEYS, width=4)
        if isinstance(d, (dict, list)):
            out.append(d)
    return out


def gen(ctx):
    cases = []
    ds = docs(ctx)
    fixed = ["$..*", "$.*", "$[*][*]", "$..[-1]", "$..[::-1]", "$[1]", "$['1']", "$[-1]", "$..['1']", "$..[0]", "$..[?@ == 'x']", "$[?@[0]]", "$",
             # slices whose explicit bounds lie outside the array, in both directions
             "$..[5::-1]", "$..[9:0:-2]", "$..[2::-1]", "$..[1::-1]", "$..[-9:9]", "$..[:-9:-1]", "$..[3:]", "$..[-1:-9:-1]", "$[1::-1]", "$[7::-3]"]
    for d in ds:
        for q in (fixed if ctx.tier != "quick" else fixed[:3] + ctx.rng.sample(fixed[3:], 5)):       # every node of every document, always
            cases.append({"text": q, "doc": d})
    for _ in range(200 if ctx.tier == "quick" else 4000):
        ast = qgen.gen_path(ctx.rng, names=KEYS, allow_filter=False)
        text = qgen.render_path(ast, qgen.R(ctx.rng, blanks=False, canonical=True))
        cases.append({"text": text, "doc": ctx.rng.choice(ds)})
    return cases


def _direct(doc, parts, kind, value):
    d = copy.deepcopy(doc)
    if not parts:
        if kind == "replace":
            return value
        if kind == "remove":
            raise KeyError("root")
        return d
    cur = d
    for p in parts[:-1]:
        cur = cur[p]
    if kind == "replace":
        cur[parts[-1]] = value
    elif kind == "remove":
        del cur[parts[-1]]
    return d


def evaluate(ctx, cases):
    from jsonpath import JSONPatch

    work = []
    for c in cases:
        o = qeval.compile_outcome(c["text"])
        if "err" in o:
            continue
        try:
            matches = list(o["ok"].finditer(c["doc"]))
        except Exception:  # noqa: BLE001
            continue
        if len(matches) > 12:
            matches = ctx.rng.sample(matches, 12)
        for m in matches:
            for kind in ("test", "replace", "remove"):
                work.append((c, list(m.parts), m.obj, kind))
    reqs = []
    for c, parts, obj, kind in work:
        r = {"op": "patch.apply_parts", "kind": kind, "parts": parts, "doc": core.enc(c["doc"])}
        if kind == "test":
            r["value"] = core.enc(obj)
        elif kind == "replace":
            r["value"] = {"o": [["new", True]]}
        reqs.append(r)
    outs = ctx.driver.run(reqs, jobs=ctx.jobs)
    for (c, parts, obj, kind), m in zip(work, outs):
        doc = c["doc"]
        where = {"text": c["text"], "doc": doc, "parts": parts, "op": kind}
        ctx.case((c["text"], repr(doc), tuple(map(str, parts)), kind), bool(parts), sample=where if kind == "replace" else None)
        ctx.count("op:" + kind)
        # implementation: build the patch from the match's own pointer
        match = next(x for x in core.outcome(lambda: list(__import__("jsonpath").finditer(c["text"], doc)))["ok"] if list(x.parts) == parts)
        po = core.outcome(lambda: match.pointer())
        if "err" in po:
            ctx.violation("every match has a pointer", where, po["err"] + ": " + po.get("msg", ""), "a JSON Pointer")
            continue
        ptr = po["ok"]
        # the pointer is handed over in each of the ways a caller would: the object, its text, a dict operation with its text
        for form in ("pointer-object", "pointer-text", "dict-with-text"):
            target = ptr if form == "pointer-object" else str(ptr)
            noesc = form != "pointer-object" and "\\" in target     # escape decoding must be off for pointer text with a backslash (C04)
            if form == "dict-with-text":
                op = {"op": kind, "path": target}
                if kind == "test":
                    op["value"] = copy.deepcopy(obj)
                elif kind == "replace":
                    op["value"] = {"new": True}
                built = core.outcome(lambda: JSONPatch([op], unicode_escape=not noesc))
                if "err" in built:
                    ctx.violation("a patch operation addressed by the text of a match's pointer must build", {**where, "form": form}, built["err"], "a patch")
                    continue
                p = built["ok"]
            else:
                p = JSONPatch(unicode_escape=not noesc)
                built = core.outcome(lambda: p.test(target, copy.deepcopy(obj)) if kind == "test" else p.replace(target, {"new": True}) if kind == "replace" else p.remove(target))
                if "err" in built:
                    ctx.violation("a patch operation addressed by a match's pointer (object or text) must build", {**where, "form": form}, built["err"], "a patch")
                    continue
            o = core.outcome(lambda: p.apply(copy.deepcopy(doc)))
            impl = {"ok": core.canon(o["ok"])} if "ok" in o else {"err": o["err"]}
            if form == "pointer-object" and impl != m["result"]:
                ctx.mismatch("pipeline.edit", where, impl, m["result"])
            # property: as if the location had been addressed directly
            try:
                want = {"ok": core.canon(_direct(doc, parts, kind, {"new": True}))}
            except KeyError:
                want = {"err": "JSONPatchError"}
            if impl != want:
                ctx.violation("using the match's pointer as a patch target must behave as if the match's location had been addressed directly", {**where, "form": form}, impl, want)
            if form == "pointer-object" and kind == "replace":
                # a new value that only *looks* like the old one (true for 1, [true] for [1], a number's float) is a new value
                from .C05 import lookalikes
                for nv in lookalikes(copy.deepcopy(obj))[1:4]:
                    ctx.count("replace-lookalike")
                    r2 = core.outcome(lambda: JSONPatch().replace(ptr, copy.deepcopy(nv)).apply(copy.deepcopy(doc)))
                    i2 = {"ok": core.canon(r2["ok"])} if "ok" in r2 else {"err": r2["err"]}
                    try:
                        w2 = {"ok": core.canon(_direct(doc, parts, "replace", nv))}
                    except KeyError:
                        w2 = {"err": "JSONPatchError"}
                    if i2 != w2:
                        ctx.violation("replace through the match's pointer must put the new value at exactly that location, also when the new value looks like the old one",
                                      {**where, "new value": core.canon(nv)}, i2, w2)
            if form == "pointer-text" and isinstance(doc, (dict, list)):
                # the document handed over as JSON text (the same text again and again, for every match and operation):
                # each application starts from what the text says
                try:
                    jtext = json.dumps(doc, ensure_ascii=False)
                except (TypeError, ValueError):
                    jtext = None
                if jtext is not None:
                    ctx.count("document-as-json-text")
                    ot = core.outcome(lambda: p.apply(jtext))
                    it = {"ok": core.canon(ot["ok"])} if "ok" in ot else {"err": ot["err"]}
                    if it != want:
                        ctx.violation("using the match's pointer as a patch target on the document given as JSON text must behave as if the match's location had been addressed directly",
                                      {**where, "form": form, "document": "json text"}, it, want)


def search(ctx):
    old = ctx.tier
    ctx.tier = "thorough"
    try:
        evaluate(ctx, gen(ctx))
    finally:
        ctx.tier = old


def probe(kf):
    return False
