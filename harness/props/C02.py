"""C02 — RFC 9535 filter expressions select exactly the nodes the RFC makes true."""
from __future__ import annotations

import copy

from .. import core, qeval, qgen
from .. import gen as G

LEVEL = "proof"
READY = True
CLAIM = {
    "text": "Lean theorems over ALL values and ALL well-typed standard filter expressions at any nesting depth: the comparison of the model of "
            "env.compare/_eq/_lt equals the RFC 9535 2.3.5.2.2 table on Option J (absent equals only absent; < <= > >= only between two numbers or two strings; "
            "deep equality never identifies a boolean with a number), existence tests do not depend on the value found, and filter selection of the model equals "
            "the RFC interpreter with `$` bound to the query argument and `@` to the candidate at every depth. Tied to filter.py/env.py by differential "
            "execution of the implementation's compiled AST; the comparison table is enumerated completely over a 46-value universe x 6 operators x both operand forms.",
    "note": "Trusted: Lean kernel; models JP.Query / JP.Rfc9535; Python `re` vs I-Regexp agreement on the generated dialect (regex engine abstract in the theorems, "
            "a small matcher in the driver); renderer harness/qgen.py for the text form.",
    "technique": "Lean 4 refinement proof (filter/compare model vs RFC 9535 typed interpreter) + differential correspondence incl. exhaustive comparison table",
}
RULE = ("(1) comparison table: every ordered pair of a 46-value universe (each JSON type, absent, int/float/bool look-alikes, nested containers) x 6 operators "
        "with query operands, and with a literal on either side for every primitive (complete); (2) generated well-typed logical expressions (depth <= 3; existence tests, "
        "comparisons of literals / singular queries / length,count,value results, match/search, ! && || with explicit and implicit grouping, nested filters using $ and @) "
        "rendered in random spellings x filter documents; non-trivial = the filtered container has at least one child")
TRUSTED = ["Lean 4.33 kernel; standard axioms only", "models JP/Query.lean, JP/Rfc9535.lean tied to filter.py/env.py by this differential run",
           "Python re == I-Regexp on the generated regex dialect"]
ASSUMPTIONS = ["floats are multiples of 1/8", "documents are trees of dict/list and JSON scalars"]

ABSENT = object()
UNIVERSE = [ABSENT, None, True, False, 0, 1, -1, 2, 1.0, 0.0, 0.5, 2.5, "", "a", "b", "ab", "1", "true", "null", "é",
            [], [1], [True], [1.0], [0], [False], [[1]], [1, 2], [2, 1], ["a"], [None],
            {}, {"a": 1}, {"a": True}, {"a": 1.0}, {"a": 1, "b": 2}, {"b": 2, "a": 1}, {"a": [1]}, {"a": [True]}, {"a": {"b": None}}, {"b": 1}, {"a": 2}, {"a": None}, {"b": None}, {"b": 5}, {"a": None, "b": 1}]
OPS = ["==", "!=", "<", "<=", ">", ">="]


NUMDOC = [0, 0.001, 0.005, 0.01, 0.05, 0.125, 0.25, 0.5, 1, 1.0, 1.25, 1.5, 5, 10, 12.5, 15, 15.0, 25, 50, 100, 125, 150, 250, 1000, 1250, 2500, 10000, 12500,
          -0.01, -0.025, -0.1, -0.25, -1, -2.5, -10, -25, -100, -250, 0.15, 0.015, 0.0015, 0.0125, 0.00125, 0.1, 2.5, 0.025, 0.0005, 0.000125, 0.0001, 500, 5000, 12500.0, "1", True, None]


def lit(v):
    if v is None:
        return "null"
    if v is True:
        return "true"
    if v is False:
        return "false"
    if isinstance(v, (int, float)):
        return repr(v)
    if isinstance(v, str):
        return "'" + v.replace("\\", "\\\\").replace("'", "\\'") + "'"
    return None


def filter_docs(ctx, n):
    base = [
        [{"a": 1, "b": 2}, {"a": 2, "b": 2}, {"a": "x", "b": "y"}, {"a": None}, {"b": 1}, {}, 5, "s", None, [1, 2], True],
        {"p": {"a": 1}, "q": {"a": [1, 2], "xs": [1, 2, 3], "k": 1}, "r": {"a": {"b": 1}}, "k": 1, "s": "ab"},
        [[1, 2, 3], [], [0], ["a", "b"], [[1]], {"ys": [1, 2], "k": 2}, {"ys": [], "k": 1}],
        {"xs": [{"ys": [1, 2], "k": 2}, {"ys": [2], "k": 2}, {"ys": [1], "k": 1}], "k": 1, "a": "ab", "b": "a.*"},
        [0, False, "", None, [], {}, 1, True, "a", 0.0, 1.0, -1],
        [{"a": "ab", "b": "a"}, {"a": "abc", "b": "[ab]+"}, {"a": "x.y"}, {"a": 1, "b": "a"}, {"a": "b"}, {"a": "é"}],
    ]
    keys = ["a", "b", "c", "k", "xs", "ys", "x"]
    for _ in range(n):
        base.append(G.random_doc(ctx.rng, 3, keys=keys, scalars=[None, True, False, 0, 1, 2, 1.0, 0.5, "", "a", "ab", "b"], width=4))
    return [d for d in base if isinstance(d, (list, dict))]


def gen(ctx):
    cases = []
    # (1) comparison table
    for li, l in enumerate(UNIVERSE):
        for ri, r in enumerate(UNIVERSE):
            doc = {}
            if l is not ABSENT:
                doc["l"] = l
            if r is not ABSENT:
                doc["r"] = r
            for op in OPS:
                cases.append({"kind": "cmp", "text": f"$[?@.l {op} @.r]", "doc": [doc]})
                ll, rl = lit(l) if l is not ABSENT else None, lit(r) if r is not ABSENT else None
                if ll is not None:
                    cases.append({"kind": "cmp-lit", "text": f"$[?{ll} {op} @.r]", "doc": [doc]})
                if rl is not None:
                    cases.append({"kind": "cmp-lit", "text": f"$[?@.l {op} {rl}]", "doc": [doc]})
                if ll is not None and rl is not None and ctx.tier != "quick":
                    cases.append({"kind": "cmp-lit", "text": f"$[?{ll} {op} {rl}]", "doc": [doc]})
    # function results as comparison operands, over the same universe (value() of a singular / non-singular query,
    # length() of each side, count() of the children) - complete in the thorough tier, every 3rd pair in the quick tier
    for li, l in enumerate(UNIVERSE):
        for ri, r in enumerate(UNIVERSE):
            if ctx.tier == "quick" and (li * len(UNIVERSE) + ri) % 3:
                continue
            doc = {}
            if l is not ABSENT:
                doc["l"] = l
            if r is not ABSENT:
                doc["r"] = r
            for op in OPS:
                for t in (f"$[?value(@.l) {op} @.r]", f"$[?@.l {op} value(@.r)]", f"$[?length(@.l) {op} length(@.r)]", f"$[?count(@.l.*) {op} @.r]",
                          f"$[?value(@.*) {op} @.zz]", f"$[?length(@.l) {op} @.r]", f"$[?value(@.l[0]) {op} value(@.r[0])]"):
                    cases.append({"kind": "cmp-fn", "text": t, "doc": [doc]})
    ctx.exhaustive_spaces.append("comparison table: 46 x 46 values x 6 operators, query operands, literal operands and function-result operands")
    # every pattern of the dialect pool x match / search x a set of subjects (dots inside and outside classes, escapes)
    subjects = ["", "a", "ab", "abc", "a.c", "a.b", ".", "..", "x.y", "xzy", "1.5", "10", ",", "a,b", "b", "ba", "aab", "cxx", "y", "xy", "ab\n", "a\n", "\n", "abc\n\n", "a\r", "x.y\n"]      # a line feed at the end is part of the string
    for pat in qgen.REGEXES:
        plit = "'" + pat.replace("\\", "\\\\").replace("'", "\\'") + "'"
        for fn in ("match", "search"):
            cases.append({"kind": "regex", "text": f"$[?{fn}(@, {plit})]", "doc": subjects})
            cases.append({"kind": "regex", "text": f"$[?!{fn}(@.s, {plit}) || {fn}(@.t, {plit})]", "doc": [{"s": a, "t": b} for a, b in zip(subjects, reversed(subjects))]})
    ctx.exhaustive_spaces.append(f"{len(qgen.REGEXES)} patterns of the common dialect x match/search x {len(subjects)} subjects")
    # every RFC 9535 spelling of a number literal (int / frac / exp parts, either case of the exponent marker, signs) denotes the
    # number it spells: decided against Python's own reading of the same text
    mants = ["0", "1", "5", "25", "125", "100", "-1", "-0", "1.5", "0.5", "1.0", "12.50", "-2.5"]
    exps = ["", "e0", "E0", "e1", "E1", "e+1", "E+1", "e-1", "E-1", "e-2", "E-2", "e2", "E2", "e-3", "E-3", "E-0", "e+0"]
    for m_ in mants:
        for x in exps:
            cases.append({"kind": "numlit", "text": m_ + x, "doc": NUMDOC})
    ctx.exhaustive_spaces.append(f"number literal spellings: {len(mants)} mantissas x {len(exps)} exponent parts x 3 operators")
    # (2) generated expressions
    docs = filter_docs(ctx, 25 if ctx.tier == "quick" else 300)
    nq = 1500 if ctx.tier == "quick" else 25000
    names = ["a", "b", "c", "k", "xs", "ys", "x"]
    for _ in range(nq):
        e = qgen.gen_logical(ctx.rng, ctx.rng.randint(0, 3), names)
        pre = qgen.gen_segs(ctx.rng, names, ctx.rng.randint(0, 1), 0, allow_filter=False)
        ast = {"segs": pre + [{"g": "child", "sels": [{"s": "filter", "e": e}]}], "fake": False}
        if ctx.rng.random() < 0.15:
            ast["segs"].insert(len(pre), {"g": "desc"})
        for _ in range(2):
            style = ctx.rng.choice(["free", "noblank", "canonical"])
            r = qgen.R(ctx.rng, blanks=style == "free", canonical=style == "canonical")
            text = qgen.render_path(ast, r)
            for doc in ctx.rng.sample(docs, 2):
                cases.append({"kind": "expr", "ast": ast, "text": text, "doc": doc})
    return cases


_compiled = {}


def evaluate(ctx, cases):
    # the composed lexer / literal-decoding / parser model compiles every filter text to the query the implementation compiles it to
    import jsonpath as _jp
    from .. import lexcorr
    lexcorr.run_compile(ctx, _jp.DEFAULT_ENV, [c["text"] for c in cases if c["kind"] in ("expr", "regex", "cmp-fn")] + [c["text"] for c in cases if c["kind"] in ("cmp", "cmp-lit")][::7])
    for c in [c for c in cases if c["kind"] == "numlit"]:
        want_v = float(c["text"])
        for op, f in (("==", lambda v: v == want_v), ("<", lambda v: v < want_v), (">=", lambda v: v >= want_v)):
            text = f"$[?@ {op} {c['text']}]"
            nums = lambda v: isinstance(v, (int, float)) and not isinstance(v, bool)   # noqa: E731
            want = [v for v in c["doc"] if nums(v) and f(v)]
            got = core.outcome(lambda: _jp.findall(text, c["doc"]))
            ctx.case(("numlit", text), True)
            ctx.count("kind:numlit")
            if got.get("ok") != want:
                ctx.violation("a number literal in any RFC 9535 spelling denotes the number it spells", {"text": text, "doc": c["doc"]}, got.get("ok", got.get("err")), want)
    cases = [c for c in cases if c["kind"] != "numlit"]
    reqs, meta = [], []
    for c in cases:
        o = _compiled.get(c["text"])
        if o is None:
            o = qeval.compile_outcome(c["text"])
            if len(_compiled) < 200000:
                _compiled[c["text"]] = o
        if "err" in o:
            ctx.case(c["text"], False)
            ctx.count("compile-error:" + o["err"])
            if c["kind"] in ("cmp", "cmp-lit", "cmp-fn", "expr", "regex"):
                ctx.violation("a well-typed RFC 9535 filter query must compile", {"text": c["text"], "ast": c.get("ast")}, o, "compiles")
            continue
        try:
            req = qeval.build_request(o["ok"], c["doc"], None, c.get("ast"))
        except core.Unencodable:
            continue
        reqs.append(req)
        meta.append((c, o["ok"]))
    outs = ctx.driver.run(reqs, jobs=ctx.jobs)
    for (c, compiled), m in zip(meta, outs):
        doc = c["doc"]
        inp = {"text": c["text"], "doc": doc}
        io = core.outcome(lambda: qeval.canon_nodes(qeval.impl_matches(compiled, doc)))
        ctx.case((c["text"], repr(doc)), bool(doc), sample={"query": c["text"], "doc": doc, "selected": len(io.get("ok", []))})
        ctx.count("kind:" + c["kind"])
        if "err" in io:
            ctx.mismatch("q.eval", inp, {"err": io["err"]}, "nodes")
            ctx.violation("evaluating a standard filter query must not raise", inp, io["err"], "a nodelist")
            continue
        impl = io["ok"]
        ctx.count("selected:" + ("none" if not impl else "some"))
        mod = qeval.model_nodes(m)
        if impl != mod:
            ctx.mismatch("q.eval", inp, impl[:6], mod[:6])
        if m["std"]:
            want = [(n["path"], n["val"]) for n in m["spec"]]
            got = [(n["path"], n["val"]) for n in impl]
            if got != want:
                ctx.violation("the children selected must be exactly those for which RFC 9535 2.3.5/2.4 make the expression true", inp, got[:8], want[:8])
        else:
            ctx.count("nonstd")
        # `$` inside a filter is the query argument as it is when the query is applied: apply the same compiled query
        # to the same document object again after the document was edited in place
        if "$" in c["text"][1:] and isinstance(doc, (dict, list)) and len(doc) > 1:
            ctx.count("reapplied-after-edit")
            live = copy.deepcopy(doc)
            core.outcome(lambda: qeval.impl_matches(compiled, live))
            if isinstance(live, dict):
                ks = list(live)
                new = {k: doc[ks[(i + 1) % len(ks)]] for i, k in enumerate(ks)}
                live.clear(); live.update(copy.deepcopy(new))
            else:
                new = doc[1:] + doc[:1]
                live[:] = copy.deepcopy(new)
            second = core.outcome(lambda: qeval.canon_nodes(qeval.impl_matches(compiled, live)))
            fresh = core.outcome(lambda: qeval.canon_nodes(qeval.impl_matches(_jp.compile(c["text"]), copy.deepcopy(new))))
            if second.get("ok") != fresh.get("ok") or ("err" in second) != ("err" in fresh):
                ctx.violation("at every nesting depth `$` denotes the query argument (as it is when the query is applied)", {**inp, "edited_in_place_to": new},
                              second.get("ok", second.get("err")), fresh.get("ok", fresh.get("err")))


def search(ctx):
    old = ctx.tier
    ctx.tier = "thorough"
    try:
        evaluate(ctx, gen(ctx))
    finally:
        ctx.tier = old


def probe(kf):
    return False
