"""C10 — A compiled query's string form recompiles to an equivalent query."""
from __future__ import annotations

from .. import astdump, core, qeval, qgen, qpool, surface

LEVEL = "proof"
READY = True
CLAIM = {
    "text": "Lean theorems over ALL compiled queries: (token level) parsing the tokens of the serializer's output with the model of the Pratt parser (precedence table "
            "regenerated from parse.py) gives the query back up to printing an omitted slice step as 1 (str_recompiles), the recompiled query evaluates identically on "
            "every document (recompiled_equivalent), printing is a fixed point (str_fixed_point), compound queries round-trip operand by operand; (character level) the "
            "model of the lexer - every rule of lex.py as a scanner, rule texts regenerated from the source (lex_source_ok) - turns the serializer's TEXT into exactly "
            "those tokens (printed_text_lexes, printed_compound_lexes), canonical_string survives lexing and literal decoding for every Unicode string "
            "(canonical_string_roundtrip), hence compiling the printed text gives the query back (text_roundtrip). Lexer, literal decoding, parser and serializer models "
            "are tied to the implementation by comparing raw tokens, cooked tokens, printed texts and parsed ASTs on every generated text, and the "
            "recompile / fixed-point / equal-results clauses are evaluated on the implementation itself.",
    "note": "Trusted: Lean kernel; models JP.Lex / JP.Surface tied to lex.py, parse.py, filter.py, selectors.py, path.py, serialize.py by translated tables and by correspondence; "
            "Python's \\w on non-ASCII characters is a parameter of the theorems; float repr/float() round trip of Python for floats that are not small multiples of 1/8.",
    "technique": "Lean 4 proofs: print/lex/parse round trip on character-level lexer + Pratt parser + serializer models; translated rule/precedence tables; differential correspondence",
}
RULE = ("query pool (standard, extension, compound) + every nesting of one infix operator in another (grouping grid) + string literals over the dangerous-name pool in both "
        "quote styles + float literals in every spelling class + generated standard queries in random spellings + mutated accepted strings + token soup for the lexer; for each "
        "accepted text: raw and cooked tokens vs the lexer model, compile vs the composed model, str() vs the printer model, recompile, fixed point, AST equality modulo an "
        "omitted slice step, equal results on probe documents; non-trivial = the query has at least one segment")
TRUSTED = ["Lean 4.33 kernel; standard axioms only", "translator harness/tables.py (lexer rule texts, precedence tables)",
           "lexer / parser / serializer models tied to the implementation by this differential run", "Python's \\w for non-ASCII characters (parameter uword)"]
ASSUMPTIONS = ["float literals are multiples of 1/8 in the model correspondence (others are checked on the implementation only)"]

EXTRA = [
    "$[?!(@.a == 1)]", "$[?!(@.a && @.b)]", "$[?!(!@.a)]", "$[?(@.a == 1) == true]", "$[?@.a == (1 == 1)]", "$[?!(@.a == 1) || @.b < 2 && !@.c]", "$[?(@.a || @.b) && @.c]",
    "$[?@.a || @.b && @.c]", "$[?(@.a && @.b) || @.c]", "$[?@.a && (@.b || (@.c && !@.d))]", "^[?@.a]", "$[?^.a == 1]", "^.a | $.b & ^[0]", "$[?@ =~ /a.*/im]", "$[?@ =~ /a\\.b/]",
    "$[?@.a == 'it\\'s']", '$[?@.a == "q\\"q"]', "$[?@.a == 'back\\\\slash']", "$['a\\\\']['b']", "$['\\u0001', '\\n']", '$["\\ud83d\\ude00"]', "$[?@.a == 1e2]", "$[?@.a == -0.5]",
    "$[?@.a == 1.5e1]", "$[?@.a == 100000000000000000000]", "$[?@.a == 2.5E-1]", "$[-1:]", "$[::2]", "$[1:2:3, 4]", "$..[1:]", "$[?@[1:2]]", "$.~", "$[~, 'a']", "$..~",
    "$[?# == 'a' && _.x == @.b]", "$[?@.a in [1, 'x', null, true]]", "$[?count(@.*) == 1 || !match(@.s, 'a')]", "$[?length(value(@..a)) > 1]", "$.a.b['c'][0]",
    "$['and']", "$..['or']", "$[?@['true'] == true]", "$[?@.a == undefined]", "$[?@.a == nil]", "a", "[0]", "$[a]", "$.[a]", "$[?@.a <> 1]", "$[?@.a contains 'x']",
    "$[?typeof(@.a) == 'number']", "$[?type(@.s) == 'string']", "$[?is(@.a, 'array')]", "$[?isinstance(@, 'object') && !is(@.a, 'null')]", "$[?typeof(@.nope) == 'undefined']",
    "$[?not @.a and not (@.b or @.c)]", "$[?!@.a == false]", "$[?(!@.a) == false]", "$[?@.a == !@.b]",
    # regex literals whose pattern text looks like it sets a flag
    "$[?@.s =~ /(?i:ab)c/i]", "$[?@.s =~ /\\(?item/i]", "$[?@.s =~ /(?s:a.b)x/s]", "$[?@.s =~ /(?i)ab/i]", "$[?@.s =~ /(?:a)b/m]", "$[?@.s =~ /(?i:A)b/]",
]


CMP_OPS = ["==", "!=", "<", ">", "<=", ">=", "<>", "in", "contains"]
LOG_OPS = ["&&", "||", "and", "or"]


def grouping_grid():
    """Every way of nesting one infix expression inside another, on either side, with and without a
    leading negation (complete over the operator tables); the compiler decides which are accepted."""
    out = []
    ops = CMP_OPS + LOG_OPS
    for o1 in ops:
        for o2 in ops:
            out.append(f"$[?(@.a {o1} @.b) {o2} @.c]")
            out.append(f"$[?@.a {o1} (@.b {o2} @.c)]")
            out.append(f"$[?@.a {o1} @.b {o2} @.c]")
            out.append(f"$[?!(@.a {o1} @.b) {o2} @.c]")
            out.append(f"$[?@.a {o1} !(@.b {o2} @.c)]")
    for o1 in ops:
        out.append(f"$[?!(@.a {o1} @.b)]")
        out.append(f"$[?(@.a {o1} @.b)]")
        out.append(f"$[?@.a {o1} [1, 2]]")
        out.append(f"$[?(@.s =~ /a/) {o1} @.c]")
        out.append(f"$[?@.c {o1} (@.s =~ /a/)]")
        out.append(f"$[?count(@.*) {o1} length(@.a)]")
        out.append(f"$[?match(@.s, 'a') {o1} (@.a {o1} @.b)]")
    return out


SOUP = ["$", "@", ".", "..", "[", "]", "*", "?", "'a'", '"b"', "1", "-1", "1.5", "1e2", "1e-2", ":", " ", "==", "!=", "<", "<=", "<>", "=~", "/a/i", "!", "&&", "||",
        "and", "or", "not", "in", "contains", "true", "True", "null", "None", "nil", "undefined", "missing", "(", ")", ",", "a", "_x", "~", "#", "^", "_", "|", "&", "length(",
        "x(", "not(", "and(", "in(", "\u00e9", "\U0001f600", "\\", "'", '"', "/", "-", "e", "\t", "\n", "\xa0", "=", "0", "01", "1:2", "::", "a-b", "and1", "inx", "1e", "1e+",
        "1.", ".5", "1.e3", "12a", "1_0", "\u0663", "'\\''", '"\\""', "'\\u00e9'", "\u2003", "..a", ".._", "..and"]


def lexer_soup(ctx):
    """random concatenations of lexer-relevant fragments (mostly not queries): stress for the rule order"""
    n = 3000 if ctx.tier == "quick" else 60000
    return ["".join(ctx.rng.choice(SOUP) for _ in range(ctx.rng.randint(1, 6))) for _ in range(n)]


FLOATS = ["1e-7", "1e22", "12345678901234567890.5", "0.1", "-0.0", "0.0", "1E2", "1.5e300", "5e-324", "2.5e-5", "123456789.125", "1e16", "1e15", "9007199254740993.0", "0.30000000000000004",
          "1e+2", "1.0e0", "100.0", "-1e-7", "1.7976931348623157e308"]


def literal_texts(ctx):
    """string literals over the whole dangerous-name pool in both quote styles, in name selectors and in comparisons;
    float literals in every spelling class"""
    out = []
    for n in qgen.NAMES + ["\x1f", "\x1e", "\x00", "a\x7fb", "tab\there", "\U0001d11e", "''", '""', "\\'", "</script>"]:
        for q in ("'", '"'):
            lit = qgen.quote(n, ctx.rng, q)
            out.append(f"$[?@.a == {lit}]")
            out.append(f"$[{lit}]")
            out.append(f"$[?{lit} in @.list]")
    for f in FLOATS:
        out.append(f"$[?@.a == {f}]")
        out.append(f"$[?@.a > {f} && @.b <= -{f.lstrip('-')}]")
    return out


def gen(ctx):
    ctx.exhaustive_spaces.append("grouping grid: every infix operator nested in every other, on either side, with and without negation (13 x 13 x 5 forms)")
    # slices written without brackets (a legacy spelling the default environment accepts), alone, in a row, after names and `..`
    bare_slices = ["$1:2", "$1:2 3:4", "$ 1:3 0:2", "$:5 2:", "$..1:2 3:4", "$.a 1:2", "$1:2.a", "$[0]1:3", "$.xs 0:2 0:1", "$[?@ 1:2]", "$[?count(@ 0:2) > 1]", "$.xs -2: ::2", "$::-1 1:"]
    texts = qpool.all_texts() + EXTRA + bare_slices + literal_texts(ctx) + grouping_grid() + qpool.generated_texts(ctx.rng, 500 if ctx.tier == "quick" else 12000)
    # fuzz: mutate accepted strings
    base = list(texts)
    import jsonpath
    for _ in range(800 if ctx.tier == "quick" else 20000):
        t = ctx.rng.choice(base)
        if not t:
            continue
        i = ctx.rng.randrange(len(t))
        op = ctx.rng.random()
        frag = ctx.rng.choice(["!", "(", ")", " ", "&&", "||", "==", "'a'", "1", "@", "$", ".", "[", "]", "*", "..", "?", ",", "-", ":", "not ", "#", "_", "^", "~", "/a/", "true", "null", "\\", "'"])
        if op < 0.4:
            m = t[:i] + frag + t[i:]
        elif op < 0.7:
            m = t[:i] + t[i + 1:]
        else:
            m = t[:i] + frag + t[i + 1:]
        try:
            jsonpath.compile(m)
        except Exception:  # noqa: BLE001
            continue
        texts.append(m)
    docs = qpool.DOCS
    return [{"text": t, "docs": docs} for t in dict.fromkeys(texts)]


def _norm(x):
    """AST equivalence that cannot affect evaluation: an omitted slice step is the step 1."""
    if isinstance(x, dict):
        if x.get("s") == "slice" and x.get("c") is None:
            x = {**x, "c": 1}
        return {k: _norm(v) for k, v in x.items()}
    if isinstance(x, list):
        return [_norm(v) for v in x]
    return x


def _decode_tie(ctx, env):
    """`Lex.decodeSQ` / `Lex.decodeDQ` (the parser's `_decode_string_literal`: two `replace` and `json.loads`) through their own driver
    operation (`lex.decode`), on every token value the quoted-string rules can produce that is a sequence of <= 3 units - a plain
    character or a backslash followed by a character - plus `\\uXXXX` escapes (either case, controls, surrogate pairs, lone and reversed
    surrogates, too few digits). A result holding a lone surrogate is outside the model's strings (`outside`) and is not compared."""
    from jsonpath.parse import Parser
    from jsonpath.token import TOKEN_DOUBLE_QUOTE_STRING, TOKEN_SINGLE_QUOTE_STRING, Token

    parser = Parser(env=env)
    plain = ["a", "u", "n", "0", "/", " ", "\x01", "\x1f", "\x7f", "\u00e9", "\u2028", "\U0001f600"]
    esc = ["\\" + c for c in ["\\", "'", '"', "/", "b", "f", "n", "r", "t", "u", "x", "a", "0", " ", "\u00e9"]]
    uni = ["\\u0041", "\\u00e9", "\\u00E9", "\\u0000", "\\u001f", "\\u2028", "\\ud83d\\ude00", "\\uD83D\\uDE00", "\\ud83d", "\\ude00", "\\ude00\\ud83d",
           "\\ud83dx", "\\ud83d\\u0041", "\\u004", "\\u00g1", "\\u", "\\U0041", "\\u0041\\u0042", "\\\\u0041", "\\u005c", "\\u0027", "\\u0022"]
    for q, kind in (("'", TOKEN_SINGLE_QUOTE_STRING), ('"', TOKEN_DOUBLE_QUOTE_STRING)):
        units = plain + [("'" if q == '"' else '"')] + esc
        vals = [""] + units + [a + b for a in units for b in units] + uni + [a + x + b for x in uni for a in ("", "a", "\\n") for b in ("", "b", "\\\\")]
        vals += [a + b + c for a in units[::3] for b in units[::2] for c in units[::3]]
        vals = list(dict.fromkeys(vals))
        outs = ctx.driver.run([{"op": "lex.decode", "v": v, "q": q} for v in vals], jobs=ctx.jobs)
        for v, m in zip(vals, outs):
            r = core.outcome(lambda: parser._decode_string_literal(Token(kind, v, 0, "$[" + q + v + q + "]")))
            ctx.case(("lex.decode", q, v), nontrivial=bool(v))
            if m.get("err") == "outside":
                ctx.count("lex.decode:outside")
                continue
            if "ok" in r:
                try:
                    r["ok"].encode("utf-8")
                except UnicodeEncodeError:
                    ctx.mismatch("lex.decode", {"value": v, "quote": q}, "a string with a lone surrogate", m)
                    continue
                impl = {"ok": r["ok"]}
            else:
                impl = {"err": "syntax" if r["err"] == "JSONPathSyntaxError" else r["err"]}
            if impl != m:
                ctx.mismatch("lex.decode", {"value": v, "quote": q}, impl, m)


def evaluate(ctx, cases):
    import jsonpath

    env = jsonpath.DEFAULT_ENV
    if not getattr(ctx, "_decode_tie_done", False):
        ctx._decode_tie_done = True
        _decode_tie(ctx, env)
    # --- character-level correspondence with the Lean lexer / printer model (JP.Lex)
    from .. import lexcorr
    texts = [c["text"] for c in cases] + lexer_soup(ctx)
    lexcorr.run_texts(ctx, env, texts)
    lexcorr.run_compile(ctx, env, texts)
    compiled = []
    for c in cases:
        o = qeval.compile_outcome(c["text"])
        if "ok" in o:
            compiled.append((c["text"], o["ok"]))
    lexcorr.run_queries(ctx, env, compiled)
    # --- token-level correspondence with the Lean surface model (printer tokens, parser, round trip)
    reqs, meta = [], []
    for c in cases:
        o = qeval.compile_outcome(c["text"])
        if "err" in o:
            continue
        try:
            q = astdump.dump_query(o["ok"])
            tl = surface.impl_tokens(env, c["text"])
            ts = surface.impl_tokens(env, str(o["ok"]))
        except (core.Unencodable, Exception):  # noqa: BLE001
            ctx.count("surface-skip")
            continue
        paths = [q["first"]] + [p for _, p in q["rest"]]
        src_ops = [x for x in tl if isinstance(x, str)]
        str_ops = [x for x in ts if isinstance(x, str)]
        src_toks = [x for x in tl if not isinstance(x, str)]
        str_toks = [x for x in ts if not isinstance(x, str)]
        if src_ops != [op for op, _ in q["rest"]] or str_ops != src_ops or len(src_toks) != len(paths) or len(str_toks) != len(paths):
            ctx.violation("the string form must preserve the union/intersection structure of a compound query", {"text": c["text"], "str": str(o["ok"])}, str_ops, src_ops)
            continue
        for p, t_src, t_str in zip(paths, src_toks, str_toks):
            reqs.append({"op": "sf.ptoks", "path": p}); meta.append((c, "ptoks", p, t_str))
            reqs.append({"op": "sf.parse", "tokens": t_src}); meta.append((c, "parse", p, t_src))
    outs = ctx.driver.run(reqs, jobs=ctx.jobs)
    for (c, what, p, toks), m in zip(meta, outs):
        if what == "ptoks":
            ctx.count("surface:printer")
            bare = any(isinstance(t, list) and t[0] == "SLICE" and (i == 0 or toks[i - 1] not in ("LBRACKET", "COMMA")) for i, t in enumerate(toks))
            if bare:
                ctx.count("surface:legacy-bare-slice")   # `$.1:2` style slices outside brackets: not distinguished by the evaluation AST
                continue
            if m["tokens"] != toks:
                ctx.mismatch("sf.ptoks (tokens of str(query))", {"text": c["text"], "path": p}, toks, m["tokens"])
            if m["parsed"] and m["reparse"] != {"ok": {"segs": m["norm"], "fake": p["fake"]}}:
                ctx.violation("model: parsing the printed tokens does not give back the (normalised) query (proof obligation parse_ptoks)", {"text": c["text"], "path": p}, m["reparse"], m["norm"])
            if not m["parsed"]:
                ctx.count("surface:outside-Parsed")
        else:
            ctx.count("surface:parser")
            want = {"ok": {"segs": p["segs"], "fake": p["fake"]}}
            if m != want:
                ctx.mismatch("sf.parse (parser model on the lexer's tokens)", {"text": c["text"], "tokens": toks}, want, m)
    # --- the property on the implementation
    for c in cases:
        text = c["text"]
        o = qeval.compile_outcome(text)
        if "err" in o:
            continue
        q = o["ok"]
        s = core.outcome(lambda: str(q))
        inp = {"text": text}
        ctx.case(text, len(text) > 1, sample={"query": text, "str": s.get("ok")})
        if "err" in s:
            ctx.violation("converting a compiled query to text raised", inp, s["err"], "text")
            continue
        r = qeval.compile_outcome(s["ok"])
        if "err" in r:
            ctx.violation("the string form of an accepted query must compile", {**inp, "str": s["ok"]}, r, "compiles")
            continue
        s2 = str(r["ok"])
        if s2 != s["ok"]:
            ctx.violation("the string form must be a fixed point", {**inp, "str": s["ok"]}, s2, s["ok"])
        try:
            a1, a2 = _norm(astdump.dump_query(q)), _norm(astdump.dump_query(r["ok"]))
            if a1 != a2:
                ctx.violation("the recompiled query must be the same query (operator grouping, negation scope, strings, numbers, flags, identifiers, compound structure)",
                              {**inp, "str": s["ok"]}, a2, a1)
        except core.Unencodable:
            ctx.count("unencodable-ast")
        for d in c["docs"]:
            for extra in ({}, {"x": {"y": 1}, "flag": True, "v": 2, "list": [1, 2]}):
                x = core.outcome(lambda: [[m.path, core.canon(m.obj)] for m in q.finditer(d, filter_context=extra)])
                y = core.outcome(lambda: [[m.path, core.canon(m.obj)] for m in r["ok"].finditer(d, filter_context=extra)])
                nx = x.get("ok", {"err": x.get("err")})
                ny = y.get("ok", {"err": y.get("err")})
                if nx != ny:
                    ctx.violation("the recompiled query must return the same matches on every document", {**inp, "str": s["ok"], "doc": d, "filter_context": extra}, ny, nx)
                    break


def search(ctx):
    old = ctx.tier
    ctx.tier = "thorough"
    try:
        evaluate(ctx, gen(ctx))
    finally:
        ctx.tier = old


def probe(kf):
    return False
