"""C01 — RFC 9535 segments and selectors yield exactly the specified nodelist."""
from __future__ import annotations

import itertools

from .. import core, qeval, qgen
from .. import gen as G

LEVEL = "proof"
READY = True
CLAIM = {
    "text": "Lean theorems over ALL arrays/slices and ALL documents: the code-shaped slice (CPython slice.indices + range) equals the RFC 9535 "
            "Normalize/Bounds/loop definition for every start/stop/step and length; name/index/wildcard selectors and child/descendant segments of the "
            "model of selectors.py produce exactly the RFC nodelist (values, order, duplicates, normalized paths), primitives (strings included) select "
            "nothing, with the index-on-object departure stated explicitly. The model is tied to selectors.py/path.py by differential execution of the "
            "implementation's own compiled AST; surface forms (dot/bracket, quote styles, escapes, blanks) are tied by rendering generated ASTs to text "
            "in random RFC spellings and comparing the implementation with the RFC interpreter run on the generated AST. Character level: for every spelling the RFC grammar allows for a string literal (Lex.Spells) the lexer model's quoted-string rule takes the text between the quotes and the parser's decoding yields the string spelled (string_spelling); .name is one name token for every name of the shorthand shape (dot_shorthand); lexer rule texts regenerated from lex.py (lex_source_ok).",
    "note": "Trusted: Lean kernel; models JP.Query / JP.Rfc9535; the renderer harness/qgen.py (RFC printer) for the surface-form clause, which is "
            "correspondence-level (the lexer/parser are not modelled in Lean); dict/list only (no other Mapping/Sequence types).",
    "technique": "Lean 4 refinement proof (selector/segment model vs RFC 9535 interpreter) + differential correspondence on rendered spellings",
}
RULE = ("(1) every slice start/stop/step in {omitted,-3..3}^3 x array length 0..4 (complete: 2560) through both the driver and '$[a:b:c]' on the implementation; "
        "(2) generated standard queries (0-4 segments, names from a 40-name pool incl. empty/non-ASCII/non-BMP/quotes/backslash/control, indices, slices, "
        "wildcards, bracketed lists, descendant segments) each rendered in several random spellings x documents from a structured universe + seeded random "
        "documents; non-trivial = at least one segment and a container document")
TRUSTED = ["Lean 4.33 kernel; standard axioms only", "models JP/Query.lean, JP/Rfc9535.lean tied to selectors.py/path.py by this differential run",
           "harness/qgen.py renderer as the RFC 9535 printer for the surface-form clause"]
ASSUMPTIONS = ["documents are trees of dict/list/str/int/float/bool/None; a root document that is a str is JSON text to the API and is not used",
               "floats are multiples of 1/8"]

OPT = [None, -3, -2, -1, 0, 1, 2, 3]


def docs_for(ctx, n_random):
    docs = [d for d in G.structured_docs(qgen.NAMES) if not isinstance(d, str)]
    for _ in range(n_random):
        d = G.random_doc(ctx.rng, 4, keys=qgen.NAMES, width=4)
        if not isinstance(d, str):
            docs.append(d)
    return docs


def gen(ctx):
    cases = []
    for a, b, c in itertools.product(OPT, OPT, OPT):
        for n in range(5):
            cases.append({"kind": "slice", "a": a, "b": b, "c": c, "len": n})
    ctx.exhaustive_spaces.append("slices: start/stop/step in {omitted,-3..3}^3 x length 0..4")
    docs = docs_for(ctx, 60 if ctx.tier == "quick" else 600)
    nq = 700 if ctx.tier == "quick" else 12000
    for i in range(nq):
        names = qgen.NAMES if ctx.rng.random() < 0.7 else qgen.SIMPLE_NAMES
        ast = qgen.gen_path(ctx.rng, names=names, allow_filter=False)
        for _ in range(3 if ctx.tier == "quick" else 4):
            style = ctx.rng.choice(["free", "free", "noblank", "canonical"])
            r = qgen.R(ctx.rng, blanks=style == "free", canonical=style == "canonical")
            text = qgen.render_path(ast, r)
            for doc in ctx.rng.sample(docs, 3):
                cases.append({"kind": "query", "ast": ast, "text": text, "doc": doc, "style": style})
    # strings and scalars reached by every selector kind (wrong-kind targets)
    wrong = {"s": "abc", "n": 5, "t": True, "z": None, "f": 1.5, "o": {"0": "zero", "1": "one", "-1": "neg"}, "l": ["x", "y", "z"],
             "on": {"0": None, "1": None, "-1": None, "a": None}, "ln": [None, None]}        # null is a value: members and elements that hold it are selected
    for key in wrong:
        for sel in ["[0]", "[-1]", "[0:2]", "[::-1]", "[*]", ".*", "['a']", ".a", "..a", "..[0]", "..*", "[0, 'a', *]", "[1:]", "['0']", "[0, '0', 0]", "[-1, 1]"]:
            text = f"$.{key}{sel}"
            cases.append({"kind": "text", "text": text, "doc": wrong})
    # indices and slice bounds exactly at the interoperability limits +-(2**53 - 1) are valid RFC 9535 integers
    big = 2 ** 53 - 1
    for doc in ([1, 2, 3], {str(big): "x", str(-big): "y", "a": [1, 2]}, []):
        for t in [f"$[{big}]", f"$[-{big}]", f"$[0:{big}]", f"$[-{big}:]", f"$[::{big}]", f"$[::-{big}]", f"$[{big}, 0]", f"$..[{big}]", f"$[{big - 1}]", f"$[-{big}:{big}:1]",
                  f"$.a[:{big}]", f"$.a[{big}:-{big}:-1]"]:
            cases.append({"kind": "limit", "text": t, "doc": doc})
    return cases


def evaluate(ctx, cases):
    # every spelling: the composed lexer / literal-decoding / parser model compiles the text to the query the
    # implementation compiles it to
    import jsonpath as _jp
    from .. import lexcorr
    lexcorr.run_compile(ctx, _jp.DEFAULT_ENV, [c["text"] for c in cases if isinstance(c.get("text"), str)])
    import jsonpath

    reqs, meta = [], []
    for c in cases:
        if c["kind"] == "slice":
            reqs.append({"op": "q.slice", "len": c["len"], "a": c["a"], "b": c["b"], "c": c["c"]})
            meta.append((c, None))
            continue
        o = qeval.compile_outcome(c["text"])
        if "err" in o:
            if c["kind"] in ("query", "limit"):
                ctx.violation("a query in a spelling the RFC 9535 grammar allows must compile", {k: c.get(k) for k in ("text", "ast", "style")}, o, "compiles")
            ctx.case(c["text"], False)
            continue
        try:
            req = qeval.build_request(o["ok"], c["doc"], None, c.get("ast"))
        except core.Unencodable:
            continue
        reqs.append(req)
        meta.append((c, o["ok"]))
    outs = ctx.driver.run(reqs, jobs=ctx.jobs)
    for (c, compiled), m in zip(meta, outs):
        if c["kind"] == "slice":
            f = lambda x: "" if x is None else str(x)  # noqa: E731
            text = f"$[{f(c['a'])}:{f(c['b'])}:{f(c['c'])}]"
            arr = list(range(c["len"]))
            impl = core.outcome(lambda: jsonpath.findall(text, arr))
            ctx.case(("slice", text, c["len"]), c["len"] > 0, sample={"query": text, "array": arr, "rfc": m["spec"]})
            ctx.count("kind:slice")
            if m["code"] != m["spec"]:
                ctx.violation("model slice differs from the RFC slice (proof obligation slice_refines_rfc)", c, m["code"], m["spec"])
            if impl != {"ok": m["code"]}:
                ctx.mismatch("slice", c, impl, m["code"])
            if impl != {"ok": m["spec"]}:
                ctx.violation("array slice selector must select exactly the RFC 9535 2.3.4.2.2 elements, in order", {"query": text, "array": arr}, impl, {"ok": m["spec"]})
            continue
        doc = c["doc"]
        inp = {"text": c["text"], "doc": doc}
        io = core.outcome(lambda: qeval.canon_nodes(qeval.impl_matches(compiled, doc)))
        nontrivial = isinstance(doc, (dict, list)) and len(c["text"]) > 1
        ctx.case((c["text"], repr(doc)), nontrivial, sample={"query": c["text"], "doc": doc, "matches": len(io.get("ok", []))})
        ctx.count("kind:" + c["kind"] + ":" + c.get("style", ""))
        if "err" in io:
            ctx.mismatch("q.eval", inp, {"err": io["err"]}, "nodes")
            ctx.violation("evaluating a standard query must not raise", inp, io["err"], "a nodelist")
            continue
        impl = io["ok"]
        ctx.count("matches:" + ("0" if not impl else "1" if len(impl) == 1 else "2+"))
        mod = qeval.model_nodes(m)
        if impl != mod:
            ctx.mismatch("q.eval", inp, impl[:6], mod[:6])
        if ctx.rng.random() < (0.08 if ctx.tier == "quick" else 0.3):
            # the observation points named by the property: the module-level functions on the query text and the
            # compiled query's findall, next to the compiled finditer used above
            ctx.count("entry-points")
            qeval.compare_entry_points(ctx, c["text"], compiled, doc, None, [[n["path"], n["val"]] for n in impl],
                                       "jsonpath.findall / jsonpath.finditer / compile().findall must agree with compile().finditer", inp,
                                       only=("compiled.findall:values", "env.finditer", "env.findall:values", "compiled.query", "env.match:first",
                                             "compiled.finditer, advanced alternately with another evaluation of the same compiled query"))
        if m["std"]:
            want = [(n["path"], n["val"]) for n in m["spec"]]
            got = [(n["path"], n["val"]) for n in impl]
            if got != want:
                ctx.violation("the matched values (length, order, duplicates) and their normalized paths must be exactly the RFC 9535 nodelist",
                              inp, got[:8], want[:8])


def search(ctx):
    old = ctx.tier
    ctx.tier = "thorough"
    try:
        evaluate(ctx, gen(ctx))
    finally:
        ctx.tier = old


def probe(kf):
    return False
