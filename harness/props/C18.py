"""C18 — The command-line tool is a faithful front end to the library."""
from __future__ import annotations

import contextlib
import io
import itertools
import json
import os
import shutil
import sys
import tempfile

from .. import core

LEVEL = "proof"
READY = True
CLAIM = {
    "text": "Lean theorems, re-proved on every run by `decide` over tables the translator regenerates from cli.py and exceptions.py (the space is finite, so this is a "
            "complete proof, not a sample): every `args.<attr>` a handler reads is a dest its sub-command or the global parser defines; every exception class the library "
            "call in a try block can raise for a rejected input (the documented families incl. JSONPathNameError, and the undecodable-document errors - malformed JSON, bytes that are not text, a number too long for int() - with the built-in class hierarchy translated too, so `except ValueError` is known to catch them) is caught with "
            "exit status 1, one line on stderr and no traceback, and re-raised exactly under --debug; an expression file is read inside a try block (file_reads_guarded); each handler is installed by one sub-command. Output faithfulness for "
            "accepted inputs - every option combination of each sub-command, expression inline or from a file, output to stdout or a file, stdin input - is tied by running "
            "the real main() in-process and comparing with the corresponding library call.",
    "note": "Trusted: Lean kernel; the translator harness/tables.py (Python ast; fails closed); argparse, the file system and text encodings of the OS; the model starts after "
            "argument parsing.",
    "technique": "Lean 4 `decide` proofs over tables translated from cli.py on every run + differential correspondence of main() with the library calls",
}
RULE = ("every option combination of each sub-command (complete: path 2^5 x 2 sources x 2 sinks, pointer 2^5 x 2 x 2, patch 2^4 x 2 sinks) x {valid input, each error class "
        "provoked by a minimal input, undecodable bytes, malformed JSON}; non-trivial = every case")
TRUSTED = ["Lean 4.33 kernel; standard axioms only", "harness/tables.py translator", "argparse / OS file handling"]
ASSUMPTIONS = ["main() is driven in-process with patched sys.argv / stdin / stdout / stderr"]
SIDE_CONDITIONS = ["attrsDefined Generated.cliAttrReads Generated.cliSubcommands Generated.cliGlobalDests", "errorsCaught Generated.exceptionClasses Generated.cliHandlers",
                   "handlersInstalled Generated.cliHandlers Generated.cliSubcommands"]

DOC = {"a": [1, 2, {"b": "é"}], "k": "x\\u00e9", "s%20t": 1, "n": None, "é": "decoded", "\\u00e9": "literal", "s t": "space"}
PATH_INPUTS = [("", "ok"), ("$.a[*]", "ok"), ("$..b", "ok"), ("$[?length(@) > 1]", "ok"), ("$[?length(@.*)]", "type"), ("$[", "syntax"), ("$[?nosuch(@)]", "name"), ("$.a[?count(1) > 0]", "type"), ("$[?typeof(1) == 'number']", "type"), ("$..[?value(1) == 1 || is(2, 'int')]", "type"),
               ("$[9007199254740992]", "index"), ("$[?@.k == 'x\\u00e9']", "ok"), ("$.a[*] | $.k", "ok"), ("$[?@ == 1e400]", "syntax"),
               ("$.a\n  [*]\n", "ok"), ("$[\n  ?length(@) > 1\n  && @[0] == 1\n]", "ok"), ("$.a\n[", "syntax"), ("\n$.k", "ok")]
PTR_INPUTS = [("/a/0", "ok"), ("/a/2/b", "ok"), ("", "ok"), ("/nope", "resolution"), ("/a/9", "resolution"), ("a", "pointer"), ("/s%20t", "ok"), ("/k", "ok"), ("/a\\", "pointer"),
              ("/\\u00e9", "ok"), ("/s t", "ok"), ("#/a/0", "pointer"), ("#", "pointer"), ("#/s%20t", "pointer")]          # these two resolve to different members depending on --no-unicode-escape / -u
PATCH_INPUTS = [([{"op": "add", "path": "/z", "value": 1}], "ok"), ([{"op": "remove", "path": "/a/0"}, {"op": "copy", "from": "/a", "path": "/c"}], "ok"), ([], "ok"),
                ([{"op": "remove", "path": "/nope"}], "patch"), ([{"op": "test", "path": "/a", "value": 1}], "patch"), ([{"op": "nosuch"}], "patch"), ({"op": "add"}, "notlist"),
                ([{"op": "add", "path": "x", "value": 1}], "patch"),
                ([{"op": "replace", "path": "/\\u00e9", "value": "changed"}], "ok"), ([{"op": "replace", "path": "/s%20t", "value": "changed"}], "ok"),
                ([{"op": "test", "path": "/\\u00e9", "value": "literal"}], "ok"),
                # every operation the library's patch builder knows, the documented non-standard ones included
                ([{"op": "addne", "path": "/a", "value": "kept?"}, {"op": "addne", "path": "/fresh", "value": 1}], "ok"), ([{"op": "addap", "path": "/a/99", "value": "appended"}], "ok"),
                ([{"op": "move", "from": "/a/0", "path": "/m"}, {"op": "test", "path": "/m", "value": 1}, {"op": "replace", "path": "/m", "value": None}], "ok"),
                ([1, 2], "patch"), ([{"path": "/a"}], "patch"), ([{"op": "ADD", "path": "/z", "value": 1}], "patch")]     # flag-sensitive: --no-unicode-escape / -u decide which member is meant
DOC_KINDS = ["valid", "bigint", "malformed", "undecodable", "bom", "utf16", "nonfinite", "word", "two-values", "open-string", "empty", "string-json", "string-plain"]       # the last two: valid JSON the library decodes from bytes (BOM, UTF-16)


def gen(ctx):
    cases = []
    flags = list(itertools.product([False, True], repeat=3))  # pretty, debug, no_unicode_escape
    for kind in DOC_KINDS:
        for (pretty, debug, noue) in flags:
            for src in ("inline", "file"):
                for sink in ("stdout", "file"):
                    for stdin in (False, True):
                        if (kind != "valid" and sink == "file") or (kind in ("bom", "utf16") and stdin):
                            continue
                        for q, qk in PATH_INPUTS:
                            for notc in (False, True):
                                if ctx.tier == "quick" and ctx.rng.random() < 0.6:
                                    continue
                                cases.append({"cmd": "path", "expr": q, "expr_kind": qk, "src": src, "sink": sink, "stdin": stdin, "pretty": pretty, "debug": debug,
                                              "noue": noue, "notc": notc, "doc": kind})
                        for p, pk in PTR_INPUTS:
                            for uri in (False, True):
                                if ctx.tier == "quick" and ctx.rng.random() < 0.5:
                                    continue
                                cases.append({"cmd": "pointer", "expr": p, "expr_kind": pk, "src": src, "sink": sink, "stdin": stdin, "pretty": pretty, "debug": debug,
                                              "noue": noue, "uri": uri, "doc": kind})
                    if src == "inline":
                        for sink2 in ("stdout", "file"):
                            pass
            for sink in ("stdout", "file"):
                for stdin in (False, True):
                    if (kind != "valid" and sink == "file") or (kind in ("bom", "utf16") and stdin):
                        continue
                    for ops, pk in PATCH_INPUTS:
                        for uri in (False, True):
                            cases.append({"cmd": "patch", "expr": ops, "expr_kind": pk, "sink": sink, "stdin": stdin, "pretty": pretty, "debug": debug, "noue": noue,
                                          "uri": uri, "doc": kind})
    cases.append({"cmd": "patch", "expr": "{not json", "expr_kind": "badpatch", "sink": "stdout", "stdin": False, "pretty": False, "debug": False, "noue": False, "uri": False, "doc": "valid"})
    cases.append({"cmd": "patch", "expr": b"\xff\xfe\xff", "expr_kind": "badpatch", "sink": "stdout", "stdin": False, "pretty": False, "debug": False, "noue": False, "uri": False, "doc": "valid"})
    # an expression file that is not text: nothing the library could accept
    for cmd, raw in (("path", b"$.caf\xe9"), ("pointer", b"/caf\xe9"), ("path", b"\xff\xfe$\x00.\x00a\x00"), ("pointer", b"/a/\x80")):
        for debug in (False, True):
            for pretty in (False, True):
                cases.append({"cmd": cmd, "expr": raw, "expr_kind": "undecodable-file", "src": "file", "sink": "stdout", "stdin": False, "pretty": pretty, "debug": debug,
                              "noue": False, "notc": False, "uri": False, "doc": "valid"})
    ctx.exhaustive_spaces.append("all option combinations of the three sub-commands (quick: sampled expressions per combination)")
    return cases


class _Stdin:
    def __init__(self, data):
        self._d = data
        self.buffer = io.BytesIO(data.encode() if isinstance(data, str) else data)

    def read(self):
        return self._d


def run_cli(argv, stdin_data=None):
    import jsonpath.cli as cli

    out, err = io.StringIO(), io.StringIO()
    old = (sys.argv, sys.stdin, sys.stdout, sys.stderr)
    sys.argv = ["json"] + argv
    if stdin_data is not None:
        sys.stdin = io.TextIOWrapper(io.BytesIO(stdin_data.encode() if isinstance(stdin_data, str) else stdin_data), encoding="utf-8")
    sys.stdout, sys.stderr = out, err
    status, exc = 0, None
    try:
        cli.main()
    except SystemExit as e:
        status = e.code if isinstance(e.code, int) else (0 if e.code is None else 1)
    except BaseException as e:  # noqa: BLE001
        if type(e).__name__ == "WidenStop":      # the harness's own timer, not something the tool did
            raise
        status, exc = -1, type(e).__name__
    finally:
        sys.argv, sys.stdin, sys.stdout, sys.stderr = old
    return status, out.getvalue(), err.getvalue(), exc


def evaluate(ctx, cases):
    import jsonpath

    tmp = tempfile.mkdtemp(prefix="jpverif-cli-", dir="/var/tmp")
    try:
        docs = {"valid": json.dumps(DOC).encode(), "malformed": b'{"a": [1, 2', "undecodable": b"\xff\xfe\xff",
                "bigint": (json.dumps(DOC)[:-1] + ', "big": ' + "9" * 5000 + "}").encode(),      # JSON by the grammar; Python's decoder refuses the number (int() digit limit)
                "word": b"nope", "two-values": b"1 2", "open-string": b'"unterminated', "empty": b"",      # not JSON, and without any bracket
                "string-json": json.dumps(json.dumps(DOC)).encode(), "string-plain": b'"a[0] {x}"',      # valid documents whose top-level value is a string (one that holds JSON text, one that does not)
                "nonfinite": json.dumps({**DOC, "a": [1e999, -1e999, {"b": float("nan")}], "k": 1e999}).encode(),      # Infinity / NaN, as Python's json reads and writes them
                "bom": b"\xef\xbb\xbf" + json.dumps(DOC, ensure_ascii=False).encode("utf-8"), "utf16": json.dumps(DOC, ensure_ascii=False).encode("utf-16")}
        for kname, data in docs.items():
            with open(os.path.join(tmp, kname + ".json"), "wb") as f:
                f.write(data)
        n = 0
        for c in cases:
            n += 1
            argv = []
            if c["pretty"]:
                argv.append("--pretty")
            if c["debug"]:
                argv.append("--debug")
            if c["noue"]:
                argv.append("--no-unicode-escape")
            argv.append(c["cmd"])
            outfile = os.path.join(tmp, f"out{n}.json")
            if c["cmd"] in ("path", "pointer"):
                lng = (n % 2 == 1)        # alternate the short and the long spelling of every option
                if c["src"] == "inline":
                    argv += [("--query" if lng else "-q") if c["cmd"] == "path" else ("--pointer" if lng else "-p"), c["expr"]]
                else:
                    ef = os.path.join(tmp, f"expr{n}.txt")
                    with open(ef, "wb") as f:
                        f.write((c["expr"] if isinstance(c["expr"], bytes) else c["expr"].encode("utf-8")) + b"\n")
                    argv += [(("--path-file" if c["cmd"] == "path" else "--pointer-file") if lng else "-r"), ef]
                if c["cmd"] == "path" and c["notc"]:
                    argv.append("--no-type-checks")
                if c["cmd"] == "pointer" and c["uri"]:
                    argv.append("--uri-decode" if lng else "-u")
            else:
                pf = os.path.join(tmp, f"patch{n}.json")
                with open(pf, "wb") as f:
                    f.write(c["expr"] if isinstance(c["expr"], bytes) else (c["expr"].encode() if isinstance(c["expr"], str) else json.dumps(c["expr"]).encode()))
                lng = (n % 2 == 1)
                argv.append(pf)
                if c["uri"]:
                    argv.append("--uri-decode" if lng else "-u")
            stdin_data = None
            if c["stdin"]:
                stdin_data = docs[c["doc"]]          # bytes: malformed and undecodable documents arrive on stdin too
            else:
                argv += ["--file" if lng else "-f", os.path.join(tmp, c["doc"] + ".json")]
            if c["sink"] == "file":
                argv += ["--output" if lng else "-o", outfile]
            status, out, err, exc = run_cli(argv, stdin_data)
            if n % 293 == 7 and c["sink"] == "stdout":
                # the same command line through `python -m jsonpath` (the __main__ module) in a fresh process
                import subprocess
                ctx.count("python -m jsonpath")
                pr = subprocess.run([sys.executable, "-m", "jsonpath"] + argv, input=stdin_data if stdin_data is not None else None, capture_output=True, timeout=60,
                                    env={**os.environ, "PYTHONPATH": core.REPO})
                sub = (pr.returncode, pr.stdout.decode("utf-8", "replace"), len(pr.stderr.decode("utf-8", "replace").splitlines()))
                here = (status, out, len(err.splitlines()))
                if exc is None and sub != here:
                    ctx.violation("`python -m jsonpath` must behave as jsonpath.cli.main() with the same arguments", {"argv": argv}, list(sub), list(here))
            if c["sink"] == "file" and os.path.exists(outfile):
                with open(outfile) as f:
                    out_text = f.read()
            else:
                out_text = out
            # the corresponding library call
            doc_bytes = docs[c["doc"]]

            def lib():
                if c["expr_kind"] == "undecodable-file":
                    return c["expr"].decode("utf-8")         # raises: the expression cannot even be read
                if c["cmd"] == "path":
                    env = jsonpath.JSONPathEnvironment(unicode_escape=not c["noue"], well_typed=not c["notc"])
                    return env.compile(c["expr"]).findall(io.BytesIO(doc_bytes))
                if c["cmd"] == "pointer":
                    return jsonpath.pointer.resolve(c["expr"], io.BytesIO(doc_bytes), unicode_escape=not c["noue"], uri_decode=c["uri"])
                patch = json.loads(c["expr"]) if isinstance(c["expr"], (str, bytes)) else c["expr"]
                if not isinstance(patch, list):
                    raise ValueError("not a list")
                return jsonpath.patch.apply(patch, io.BytesIO(doc_bytes), unicode_escape=not c["noue"], uri_decode=c["uri"])
            lo = core.outcome(lib)
            # an independent reading of "the document is JSON" (Python's own decoder on the bytes): a target document that
            # is not JSON must be refused by the tool, whatever leniency the library's loader has for *string* arguments
            try:
                json.loads(doc_bytes)
                doc_is_json = True
            except (ValueError, UnicodeDecodeError):
                doc_is_json = False
            if not doc_is_json and "ok" in lo:
                lo = {"err": "not JSON (python json.loads rejects the document)", "family": None}
            inp = {k: (v if not isinstance(v, bytes) else repr(v)) for k, v in c.items()}
            inp["argv"] = argv
            ctx.case(repr(sorted(inp.items(), key=str)), True, sample={"argv": argv, "status": status, "library": "ok" if "ok" in lo else lo["err"]})
            ctx.count(f"{c['cmd']}:{'ok' if 'ok' in lo else 'rejected'}")
            if "ok" in lo:
                want = json.dumps(lo["ok"], indent=2 if c["pretty"] else None)
                if status != 0 or exc is not None:
                    ctx.violation("a call the library accepts must exit with status 0", inp, {"status": status, "exception": exc, "stderr": err[-200:]}, {"status": 0})
                elif out_text != want:
                    ctx.violation("the tool must write exactly the JSON serialisation of what the library call returns", inp, out_text[:300], want[:300])
                elif err != "":
                    ctx.violation("nothing is written to standard error on success", inp, err[:200], "")
            else:
                if c["debug"]:
                    if exc is None and status == 0:
                        ctx.violation("an input the library rejects must not succeed", inp, {"status": status}, {"status": "non-zero / traceback"})
                    continue
                if status != 1 or exc is not None:
                    ctx.violation("an input the library rejects must exit with status 1 and no traceback", inp, {"status": status, "exception": exc, "library_error": lo["err"]}, {"status": 1})
                elif not (len(err.splitlines()) == 1 and err.strip() and "Traceback" not in err):
                    ctx.violation("an input the library rejects must produce a one-line message on standard error", inp, err[:300], "one line")
    finally:
        shutil.rmtree(tmp, ignore_errors=True)


def search(ctx):
    old = ctx.tier
    ctx.tier = "thorough"
    try:
        evaluate(ctx, gen(ctx))
    finally:
        ctx.tier = old


def probe(kf):
    return False
