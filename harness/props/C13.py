"""C13 — Documented non-standard syntax means what the documentation says."""
from __future__ import annotations

import json

import re

from .. import core, qeval, qpool
from .. import gen as G

LEVEL = "proof"
READY = True
CLAIM = {
    "text": "Lean theorems over ALL documents and filter contexts, for the evaluator model: the keys selector yields exactly an object's member names in order and nothing "
            "for other values; the fake root evaluates as the root query on the one-element array holding the document; the current-key identifier is the candidate's member "
            "name or index; the filter-context identifier reads the caller's mapping in every nested evaluation (the context is an invariant of the evaluation environment); "
            "`in`/`contains` are converse and test array membership (with the equality of `==`: membership_uses_filter_equality; an operand that selects nothing is a member of nothing: absent_never_member), substring and member name; the type functions typeof/type and isinstance/is are inside the evaluator model (typeof_spec, isinstance_accepts_typeof); `=~` is a full match with the literal's flags; `<>` equals `!=`; comparison "
            "with undefined equals the negated existence test. Alias spellings (and/or/not, nil/none/Null/None/Nil, True/False, missing, missing root, bare names) are lexer/"
            "parser facts: they are tied by compiling both spellings and comparing the implementation's compiled ASTs and results; the model is tied to the implementation "
            "with filter contexts on every case. Character level: alias_and/or/not/nil/true/false/undefined - each pair of spellings is read by the lexer model as the same parser token at any word boundary (also directly before a parenthesis).",
    "note": "Trusted: Lean kernel; model JP.Query; alias/spelling equivalences are decided by AST equality of the two compilations on the implementation (the lexer and parser "
            "are not modelled in Lean); Python re for the `=~` oracle on the generated dialect.",
    "technique": "Lean 4 theorems on the extension constructs of the evaluator model + differential correspondence + alias-vs-standard AST comparison",
}
RULE = ("each extension construct placed at top level, inside bracketed lists, after a descendant segment, and nested one and two filters deep x documents x filter-context "
        "mappings; each alias spelling compiled next to its standard spelling (AST equality and equal results); non-trivial = the query has a match on the document")
TRUSTED = ["Lean 4.33 kernel; standard axioms only", "model JP/Query.lean tied to the implementation by this differential run", "Python re as the regex oracle"]
ASSUMPTIONS = ["regex literals within the dialect on which Python re and the driver's matcher agree"]

ALIASES = [
    ("a.b", "$.a.b"), ("a", "$.a"), ("[0]", "$[0]"), ("a[0]", "$.a[0]"), ("$[a]", "$['a']"), ("$[a, b]", "$['a', 'b']"), ("$..[a]", "$..['a']"), ("$.a[b, 0]", "$.a['b', 0]"),
    ("$[?@.a and @.b]", "$[?@.a && @.b]"), ("$[?@.a or @.b]", "$[?@.a || @.b]"), ("$[?not @.a]", "$[?!@.a]"), ("$[?not (@.a == 1)]", "$[?!(@.a == 1)]"),
    ("$[?@.a == 1 and not @.b or @.c]", "$[?@.a == 1 && !@.b || @.c]"), ("$[?@.a and (@.b or @.c)]", "$[?@.a && (@.b || @.c)]"),
    ("$[?@.a == nil]", "$[?@.a == null]"), ("$[?@.a == none]", "$[?@.a == null]"), ("$[?@.a == Nil]", "$[?@.a == null]"), ("$[?@.a == None]", "$[?@.a == null]"),
    ("$[?@.a == Null]", "$[?@.a == null]"), ("$[?@.a == True]", "$[?@.a == true]"), ("$[?@.a == False]", "$[?@.a == false]"),
    ("$[?@.a == missing]", "$[?@.a == undefined]"), ("$[?@.a != missing]", "$[?@.a != undefined]"),     ("$..[?@.a and @.b]", "$..[?@.a && @.b]"), ("$[?@.xs[?@ == 1 or @ == 2]]", "$[?@.xs[?@ == 1 || @ == 2]]"), ("$[0, ?not @.a]", "$[0, ?!@.a]"),
    ("a | b", "$.a | $.b"), ("a & [0]", "$.a & $[0]"), ("a[*] | b[*] & c[*]", "$.a[*] | $.b[*] & $.c[*]"), ("$[é]", "$['é']"),
    ("é.b", "$.é.b"),
    ("$[?not(@.a)]", "$[?!(@.a)]"), ("$[?@.a and(@.b)]", "$[?@.a &&(@.b)]"), ("$[?(@.a)or(@.b)]", "$[?(@.a)||(@.b)]"), ("$[?not(@.a == 1)and not(@.b)]", "$[?!(@.a == 1)&&!(@.b)]"),
    ("$[?@.a==nil]", "$[?@.a==null]"), ("$[?nil==@.a]", "$[?null==@.a]"), ("$[?@.a in [True,None]]", "$[?@.a in [true,null]]"), ("$[?count(@.*) == 1 and not(match(@.s, 'a'))]", "$[?count(@.*) == 1 && !(match(@.s, 'a'))]"),
]
SEMANTIC = [  # (query, equivalent query)
    # the fake root and the root across a filter boundary: `^[0]` is the document, and inside the filter of a `^` query `$` still is
    ("$.xs[?@.k == ^[0].k]", "$.xs[?@.k == $.k]"), ("$.a[?@ > ^[0].k]", "$.a[?@ > $.k]"), ("$.a[?@ > value(^[0].k)]", "$.a[?@ > value($.k)]"), ("^[?@.k == $.k]", "^[?@.k == ^[0].k]"),
    ("^[?@.a == $.a]", "^[?@.a == @.a]"), ("$[?^[?@.k == 1]]", "$[?$.k == 1]"), ("$.xs[?^[0].list[?@ == 1]]", "$.xs[?$.list[?@ == 1]]"), ("^[?$.k == 1].a", "^[?@.k == 1].a"),
    ("$[?@.a <> 1]", "$[?@.a != 1]"), ("$[?@.a <> @.b]", "$[?@.a != @.b]"), ("$[?@.a <> undefined]", "$[?@.a != undefined]"), ("$..[?@ <> 'a']", "$..[?@ != 'a']"),
    ("$[?@.a == undefined]", "$[?!@.a]"), ("$[?@.a != undefined]", "$[?@.a]"), ("$[?undefined == @.a]", "$[?!@.a]"), ("$[?@.a.b == undefined]", "$[?!@.a.b]"),
    ("$[?@.a in $.list]", "$[?$.list contains @.a]"), ("$[?'a' in @]", "$[?@ contains 'a']"), ("$[?@.s in ['ab', 'x']]", "$[?['ab', 'x'] contains @.s]"),
    ("$..[?@.k in [1, 2]]", "$..[?[1, 2] contains @.k]"), ("$[?@.xs[?@ in [1]]]", "$[?@.xs[?[1] contains @]]"),
]
CTX_QUERIES = ["$[?@.a == _.x]", "$[?_.flag]", "$[?@[?@ == _.x.y]]", "$[?$.a[?@ == _.v]]", "$..[?@.k == _.v]", "$[?@.xs[?@.ys[?@ == _.v]]]", "$[?_.list contains @.a]", "$[?@.a in _.list]",
               "$..xs[?@.k == _.v]", "$..[?@.ys[?@ == _.v]]", "$.xs..[?@ == _.v]", "$..*[?@ == _.x.y]", "$..a..[?@ == _.x.y]", "$..[?@.a == _.x.y].b", "$[*]..[?@ == _.v]",
               "$[?@.a == _.x.y] | $[?@.a != _.x.y]", "$[?@.k == _.v] & $[?_.flag]", "$..[?@ == _.v] | ^[?_.flag]", "$.xs[?@.k == _.v] & $.xs[*] | $.list[?@ == _.v]",
               "$[0, ?_.flag]", "$[?count(_.list[*]) == 2 && @.a]", "$[?length(_.x) == 1 || @.k == _.v]"]
KEY_QUERIES = ["$.~", "$[~]", "$..~", "$.a.~", "$[*].~", "$[~, a]", "$..[~]", "$.xs[*].~", "$[?@.~]"]
HASH_QUERIES = ["$[?# == 'a']", "$[?# == 0]", "$[?# > 0]", "$..[?# == 'k']", "$[?# in ['a', 'b']]", "$[?@[?# == 1]]", "$[?# == 'a' && @ == 1]", "$.xs[?# == 1]", "$[0, ?# == 'b']"]
FAKE = ["^[?@.a]", "^[0]", "^.*", "^[0].a", "^..k", "^[?@.k == 1]", "^[0, 0]"]
REGEXES = [("a.*", ""), ("A.*", "i"), ("a.b", "s"), ("a.b", ""), ("[ab]+", ""), ("(ab)*", ""), ("a|b", ""), ("ab", "a"), ("A", "im"), ("b", "")]
MEMBER = [("1", "[1, 2]"), ("'a'", "'abc'"), ("'b'", "'abc'"), ("'a'", "['a']"), ("1", "[true]"), ("true", "[1]"), ("null", "[null]"), ("1", "'1'"), ("'x'", "$.o"), ("'a'", "$.o"),
          ("@.a", "$.list"), ("@.k", "[1, 2]"), ("[1]", "$.list"), ("@", "$.o"), ("@.s", "'xabx'")]


def gen(ctx):
    docs = qpool.DOCS + qpool.generated_docs(ctx.rng, 10 if ctx.tier == "quick" else 150)
    cases = []
    for a, b in ALIASES:
        for d in docs:
            cases.append({"kind": "alias", "text": a, "std": b, "doc": d, "ctx": {}})
    for a, b in SEMANTIC:
        for d in docs:
            cases.append({"kind": "equiv", "text": a, "std": b, "doc": d, "ctx": {}})
    for q in CTX_QUERIES:
        for d in docs:
            for c in qpool.CONTEXTS:
                cases.append({"kind": "ctx", "text": q, "doc": d, "ctx": c})
    for q in KEY_QUERIES:
        for d in docs:
            cases.append({"kind": "keys", "text": q, "doc": d, "ctx": {}})
    for q in HASH_QUERIES:
        for d in docs:
            cases.append({"kind": "key", "text": q, "doc": d, "ctx": {}})
    for q in FAKE:
        for d in docs:
            cases.append({"kind": "fake", "text": q, "doc": d, "ctx": {}})
    for pat, fl in REGEXES:
        for d in docs:
            cases.append({"kind": "regex", "text": f"$[?@.s =~ /{pat}/{fl}]", "pat": pat, "flags": fl, "doc": d, "ctx": {}})
            cases.append({"kind": "regex", "text": f"$..[?@ =~ /{pat}/{fl}]", "pat": pat, "flags": fl, "doc": d, "ctx": {}, "self": True})
    for l, r in MEMBER:
        for d in docs:
            cases.append({"kind": "member", "text": f"$[?{l} in {r}]", "std": f"$[?{r} contains {l}]", "doc": d, "ctx": {}})
    # membership grid: every operand kind (literal, list literal, singular query, query that selects nothing) against
    # arrays that hold arrays, empty arrays, booleans next to numbers, strings, objects; decided by an independent oracle
    mdoc = [{"m": 1, "c": [True]}, {"m": 1, "c": [1.0, "1"]}, {"m": True, "c": [1]}, {"m": [1, 2], "c": [[1, 2], [3, 4]]}, {"m": [1], "c": [[True]]},
            {"m": [], "c": [[]]}, {"c": [[]]}, {"c": [None]}, {"m": None, "c": [None]}, {"m": "a", "c": "cab"}, {"m": "a", "c": {"a": 1}}, {"m": 1, "c": {"1": 1}},
            {"m": {"k": [1]}, "c": [{"k": [1.0]}, 2]}, {"m": {"k": [1]}, "c": [{"k": [True]}]}, {"m": "", "c": []}, {"m": 0, "c": [False, ""]}, {"m": [1, 2], "c": [1, 2]}]
    for item in ("@.m", "@.nope", "1", "true", "null", "'a'", "[1, 2]", "[1]", "[]", "[true]", "1.0"):
        for cont in ("@.c", "[1, 2]", "[true, 'a']", "'cab'", "@.nope", "$[3].c", "$[5].c"):
            cases.append({"kind": "member-grid", "text": f"$[?{item} in {cont}]", "std": f"$[?{cont} contains {item}]", "item": item, "cont": cont, "doc": mdoc, "ctx": {}})
    for q in ("^[?@ == 5]", "^[0]", "^[?@.a]", "^[*]", "^..*"):
        for d in (5, "abc", None, True, 1.5, [], {}):
            cases.append({"kind": "fake", "text": q, "doc": d, "ctx": {}})
    for parts in (["$.a", "|", "^[?@.k == 1]"], ["^[?@.k == 1]", "|", "$.a"], ["^[?@.a]", "|", "$.b", "|", "^[0].s"], ["$.*", "&", "^[0].*"], ["^[0].*", "&", "$.*"], ["^[?@.a]", "|", "a"],
                  ["a", "|", "^[?@.b]", "&", "^[?@.a]"], ["^[0]", "|", "^[0]", "|", "$"]):
        for d in docs:
            cases.append({"kind": "compound-fake", "text": " ".join(parts), "parts": parts, "doc": d, "ctx": {}})
    for t in qpool.EXTENSION:
        for d in (docs if ctx.tier != "quick" else ctx.rng.sample(docs, 4)):
            cases.append({"kind": "pool", "text": t, "doc": d, "ctx": ctx.rng.choice(qpool.CONTEXTS)})
    return cases


def _vals(compiled, doc, extra):
    return core.outcome(lambda: [[m.path, core.canon(m.obj)] for m in compiled.finditer(doc, filter_context=extra)])


def evaluate(ctx, cases):
    import jsonpath
    from .. import astdump

    reqs, meta = [], []
    compiled_once = {}      # a query is compiled once and the compiled object reused for every document and filter context
    for c in cases:
        if c["text"] not in compiled_once:
            compiled_once[c["text"]] = qeval.compile_outcome(c["text"])
        o = compiled_once[c["text"]]
        if "err" in o:
            ctx.violation("a documented extension spelling must compile", {"text": c["text"]}, o, "compiles")
            continue
        try:
            reqs.append(qeval.build_request(o["ok"], c["doc"], c["ctx"]))
        except core.Unencodable:
            continue
        meta.append((c, o["ok"]))
    outs = ctx.driver.run(reqs, jobs=ctx.jobs)
    for (c, compiled), m in zip(meta, outs):
        doc, extra, kind = c["doc"], c["ctx"], c["kind"]
        inp = {"text": c["text"], "doc": doc, "filter_context": extra}
        got = _vals(compiled, doc, extra)
        ctx.case((c["text"], repr(doc), repr(extra)), bool(got.get("ok")), sample={"query": c["text"], "kind": kind, "matches": len(got.get("ok", []))})
        ctx.count("kind:" + kind)
        if "err" in got:
            ctx.violation("evaluating a documented extension raised", inp, got["err"], "matches")
            continue
        mod = [[n["path"], n["val"]] for n in m["nodes"]]
        if got["ok"] != mod:
            ctx.mismatch("q.finditer", inp, got["ok"][:6], mod[:6])
        if kind in ("ctx", "pool", "key", "keys", "fake") and (kind == "ctx" or ctx.rng.random() < 0.3):
            # the same question through every public entry point (module-level and compiled, sync and async,
            # keyword and positional filter context)
            ctx.count("entry-points")
            qeval.compare_entry_points(ctx, c["text"], compiled, doc, extra, got["ok"],
                                       "an extension query must mean the same through every entry point (the filter context is forwarded by each)", inp)
        if kind == "member-grid":
            want = []
            for i, cand in enumerate(doc):
                def operand(txt):
                    if txt == "@.m":
                        return ("v", cand["m"]) if "m" in cand else None
                    if txt == "@.c":
                        return ("v", cand["c"]) if "c" in cand else None
                    if txt == "@.nope":
                        return None
                    if txt.startswith("$["):
                        return ("v", doc[int(txt[2])]["c"])
                    return ("v", json.loads(txt.replace("'", '"')))
                it, co = operand(c["item"]), operand(c["cont"])
                found = False
                if it is not None and co is not None:
                    iv, cv = it[1], co[1]
                    if isinstance(cv, str):
                        found = isinstance(iv, str) and iv in cv
                    elif isinstance(cv, dict):
                        found = isinstance(iv, str) and iv in cv
                    elif isinstance(cv, list):
                        found = any(core.json_equal(iv, e) for e in cv)
                if found:
                    want.append(core.canon(cand))
            if [v for _, v in got["ok"]] != want:
                ctx.violation("`in` / `contains` test membership in arrays (with the equality of `==`), substrings and object member names; an operand that selects nothing is a member of nothing",
                              inp, [v for _, v in got["ok"]], want)
        if kind in ("alias", "equiv", "member", "member-grid"):
            so = qeval.compile_outcome(c["std"])
            if "err" in so:
                ctx.violation("the standard spelling must compile", {"text": c["std"]}, so, "compiles")
                continue
            if kind == "alias" and astdump.dump_query(compiled) != astdump.dump_query(so["ok"]):
                ctx.violation("an alias spelling must compile to the same query as its standard spelling", {"alias": c["text"], "standard": c["std"]}, astdump.dump_query(compiled), astdump.dump_query(so["ok"]))
            want = _vals(so["ok"], doc, extra)
            if want != got:
                ctx.violation("the extension spelling must evaluate exactly as its documented equivalent", {**inp, "equivalent": c["std"]}, got["ok"][:6], want.get("ok", want)[:6] if "ok" in want else want)
        elif kind == "keys" and c["text"] in ("$.~", "$[~]"):
            want = list(doc.keys()) if isinstance(doc, dict) else []
            if [v for _, v in got["ok"]] != want:
                ctx.violation("the keys selector yields an object's member names in order and nothing for other values", inp, [v for _, v in got["ok"]], want)
        elif kind == "compound-fake":
            # each operand means what it means on its own: `^` wraps the document for that operand only
            acc = None
            op = None
            try:
                for piece in c["parts"]:
                    if piece in ("|", "&"):
                        op = piece
                        continue
                    vals = [core.canon(v) for v in jsonpath.findall(piece, doc)]
                    acc = vals if acc is None else (acc + vals if op == "|" else [x for x in acc if x in vals])
            except Exception:  # noqa: BLE001
                acc = None
            if acc is not None and [v for _, v in got["ok"]] != acc:
                ctx.violation("in a compound query each operand keeps its own root identifier: the fake root wraps the document for that operand only", inp, [v for _, v in got["ok"]][:6], acc[:6])
        elif kind == "fake":
            std = "$" + c["text"][1:]
            want = _vals(jsonpath.compile(std), [doc], extra)
            if [v for _, v in want.get("ok", [])] != [v for _, v in got["ok"]]:
                ctx.violation("the fake root yields the document itself wrapped in an array", {**inp, "equivalent": std + " on [doc]"}, got["ok"][:6], want)
        elif kind == "key" and c["text"] in ("$[?# == 'a']", "$[?# == 0]", "$[?# > 0]"):
            if c["text"] == "$[?# == 'a']":
                want = [doc["a"]] if isinstance(doc, dict) and "a" in doc else []
            elif c["text"] == "$[?# == 0]":
                want = [doc[0]] if isinstance(doc, list) and doc else []
            else:
                want = doc[1:] if isinstance(doc, list) else []
            if [v for _, v in got["ok"]] != [core.canon(x) for x in want]:
                ctx.violation("the current-key identifier is the member name or array index of the candidate", inp, got["ok"], want)
        elif kind == "regex":
            fl = 0
            for ch in c["flags"]:
                fl |= {"a": re.A, "i": re.I, "m": re.M, "s": re.S}[ch]
            rx = re.compile(c["pat"], fl)
            if c.get("self"):
                cand = [v for _, v in G.locations(doc)][1:]
                want = [core.canon(v) for v in _desc_children(doc) if isinstance(v, str) and rx.fullmatch(v)]
            else:
                ch = list(doc.values()) if isinstance(doc, dict) else (doc if isinstance(doc, list) else [])
                want = [core.canon(v) for v in ch if isinstance(v, dict) and isinstance(v.get("s"), str) and rx.fullmatch(v["s"])]
            if [v for _, v in got["ok"]] != want:
                ctx.violation("`=~` is a full regular-expression match honouring its flags", inp, [v for _, v in got["ok"]], want)
        elif kind == "ctx" and extra == qpool.CONTEXTS[1] and c["text"].replace("_.x.y", "1").replace("_.v", "2") != c["text"] and "_" not in c["text"].replace("_.x.y", "1").replace("_.v", "2"):
            # a singular filter-context query naming a number means that number, wherever the filter sits
            std = c["text"].replace("_.x.y", "1").replace("_.v", "2")
            want = _vals(jsonpath.compile(std), doc, extra)
            if want != got:
                ctx.violation("the filter-context identifier reads the caller-supplied mapping at any nesting depth, also after descendant segments",
                              {**inp, "equivalent": std}, got["ok"][:6], want.get("ok", want)[:6] if "ok" in want else want)
        elif kind == "ctx" and c["text"] == "$[?@.a == _.x]":
            ch = list(doc.values()) if isinstance(doc, dict) else (doc if isinstance(doc, list) else [])
            has = "x" in extra
            want = [core.canon(v) for v in ch if (isinstance(v, dict) and "a" in v and has and core.json_equal(v["a"], extra["x"])) or (not has and not (isinstance(v, dict) and "a" in v))]
            if [v for _, v in got["ok"]] != want:
                ctx.violation("the filter-context identifier reads the caller-supplied mapping", inp, [v for _, v in got["ok"]], want)


def _desc_children(doc):
    """values visited by `$..[?...]`: children of the root and of every container descendant, pre-order"""
    out = []

    def visit(v):
        ch = list(v.values()) if isinstance(v, dict) else (list(v) if isinstance(v, list) else [])
        out.extend(ch)

    def walk(v):
        visit(v)
        ch = list(v.values()) if isinstance(v, dict) else (list(v) if isinstance(v, list) else [])
        for x in ch:
            if isinstance(x, (dict, list)):
                walk(x)
    walk(doc)
    return out


def search(ctx):
    old = ctx.tier
    ctx.tier = "thorough"
    try:
        evaluate(ctx, gen(ctx))
    finally:
        ctx.tier = old


def probe(kf):
    return False
