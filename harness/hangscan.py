"""Termination probe that survives hangs inside C code (a regular expression that backtracks forever never
returns to the interpreter, so no Python-level alarm fires): the calls are made in a worker process that
reports after each item; an item during which nothing is reported for `limit` seconds is recorded as
non-terminating, the worker is killed and a new one continues after it."""
from __future__ import annotations

import json
import select
import os
import subprocess
import sys
import threading

WORKER = r'''
import sys, json
import jsonpath
from jsonpath import JSONPointer, RelativeJSONPointer
out = sys.stdout
for line in sys.stdin:
    kind, text = json.loads(line)
    try:
        if kind == "query":
            jsonpath.compile(text)
        elif kind == "pointer":
            JSONPointer(text)
        elif kind == "rel":
            RelativeJSONPointer(text)
        elif kind == "selftest-sleep":
            import time
            time.sleep(float(text))
    except BaseException:
        pass
    out.write("\n")
    out.flush()
'''


def _encodable(t):
    try:
        t.encode("utf-8")
        return True
    except UnicodeEncodeError:
        return False


def scan(items, limit=6.0, max_hangs=5):
    """items: list of (kind, text). Returns the indices of the items that did not finish within `limit` seconds
    (at most `max_hangs`, then the scan stops)."""
    hung = []
    start = 0
    n = len(items)
    while start < n and len(hung) < max_hangs:
        p = subprocess.Popen([sys.executable, "-u", "-c", WORKER], stdin=subprocess.PIPE, stdout=subprocess.PIPE, stderr=subprocess.DEVNULL,
                             env={**os.environ, "PYTHONPATH": os.environ.get("JP_REPO", "/repo")})
        batch = items[start:]

        def feed(proc=p, batch=batch):
            try:
                for kind, text in batch:
                    proc.stdin.write((json.dumps([kind, text if _encodable(text) else ""]) + "\n").encode())
                proc.stdin.close()
            except (BrokenPipeError, OSError):
                pass
        th = threading.Thread(target=feed, daemon=True)
        th.start()
        done = 0
        fd = p.stdout.fileno()
        stuck = False
        while done < len(batch):
            r, _, _ = select.select([fd], [], [], limit)
            if not r:
                stuck = True
                break
            chunk = p.stdout.read1(65536) if hasattr(p.stdout, "read1") else p.stdout.read(1)
            if not chunk:
                break
            done += chunk.count(b"\n")
        p.kill()
        p.wait()
        if stuck:
            hung.append(start + done)
            start = start + done + 1
        elif done < len(batch):
            raise RuntimeError(f"termination probe worker stopped after {done} of {len(batch)} items")
        else:
            break
    return hung
