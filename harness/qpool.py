"""A pool of hand-written query texts (standard, extension syntax, compound) and documents, plus
seeded generation of more. Shared by the relational properties (C08, C09, C10, C11, C13, C17)."""
from __future__ import annotations

from . import gen as G
from . import qgen

STANDARD = [
    "$", "$.a", "$['a']", "$.a.b", "$.a[0]", "$.a[-1]", "$[*]", "$.*", "$..*", "$..a", "$..[0]", "$..[*]", "$.a[1:3]", "$.a[::-1]", "$.a[::2]",
    "$[0, 1]", "$['a', 'b']", "$.a[0, 0]", "$.a[*].b", "$..b[?@ > 1]", "$[?@.a]", "$[?@.a == 1]", "$[?@.a != @.b]", "$[?@.a < 2 && @.b]", "$[?@.a || !@.b]",
    "$[?!(@.a == 1)]", "$[?(@.a == 1 || @.b == 2) && @.c]", "$[?length(@) > 1]", "$[?count(@.*) == 2]", "$[?value(@.a) == 1]", "$[?match(@.s, 'a.*')]",
    "$[?search(@.s, 'b')]", "$[?@.xs[?@ > 1]]", "$.xs[?@.ys[?@ == $.k]]", "$[?@ == $.k]", "$..[?@.a == 1].b", "$[?@.a == 'x']", "$[?@.a == null]",
    "$[?@.a == true]", "$[?@.a >= 1.5]", "$[?length(@.s) == 2]", "$[?@[0] == 1]", "$.s[*]", "$.s[0:2]", "$..s[*]", "$[?@.s[*]]", "$..[?@]",
]
EXTENSION = [
    "a", "a.b", "a[0]", "[0]", "$[a, b]", "$[a]", "$.~", "$[~]", "$..~", "$.a.~", "$[*].~", "$[~, a]", "^[?@.a]", "^[0]", "^.*",
    "$[?# == 'a']", "$[?# == 0]", "$[?# > 0]", "$..[?# == 'b']", "$[?@.a == _.x]", "$[?_.flag]", "$[?@[?@ == _.x.y]]", "$[?$.a[?@ == _.v]]",
    "$[?@.a in [1, 2]]", "$[?@.a in $.list]", "$[?'a' in @]", "$[?@ contains 'a']", "$[?@.s contains 'b']", "$[?$.list contains @.a]", "$[?1 in @]",
    "$[?@.s =~ /a.*/]", "$[?@.s =~ /A.*/i]", "$[?@.s =~ /a.b/s]", "$[?@.a <> 1]", "$[?@.a and @.b]", "$[?@.a or @.b]", "$[?not @.a]", "$[?not (@.a == 1)]",
    "$[?@.a == undefined]", "$[?@.a != undefined]", "$[?@.a == missing]", "$[?@.a != missing]", "$[?@.a == nil]", "$[?@.a == none]", "$[?@.a == Nil]",
    "$[?@.a == None]", "$[?@.a == Null]", "$[?@.a == True]", "$[?@.a == False]", "$[?^[0].k == @.a]", "$[?@.a == 1 and not @.b or @.c]", "$.[a]", "$.['a']",
    "$[?@.a in 'abc']", "$[?@ in $.o]", "$[?@.s in ['ab', 'x']]", "$..[?# == 'a' && @ == 1]", "$[?_.list contains @.a]", "$[?@.a == _['x']]",
    # each root identifier inside a filter nested in a query rooted at another one
    "$[?_.list[?@ == $.k]]", "$.xs[?_.list[?@ == $.k]]", "$[?_.x[?@ == $.k]]", "$[?^[0].list[?@ == _.v]]", "$.xs[?$.list[?@ == _.v && # == 1]]", "$[?_.list[?@ == ^[0].k]]",
    # alternative operator spellings as operands of the logical operators, unparenthesised
    "$[?@.b && @.a <> 1]", "$[?@.a <> 1 && @.b]", "$[?@.a <> @.b || @.s]", "$[?@.s and @.a <> 2 or @.b <> 2]", "$[?@.a in [1, 2] && @.b]", "$[?@.b && @.s contains 'b']", "$[?@.b || @.s =~ /a.*/]",
    "$[?!@.b && @.a <> 1]", "$[?@.a <> 1 == true]",
    # the non-standard type functions, under both of their names, on singular, empty and multi-node arguments
    "$[?typeof(@.a) == 'number']", "$[?type(@.s) == 'string']", "$[?typeof(@) == 'object']", "$[?typeof(@.nope) == 'undefined']", "$[?typeof(@.*) == 'array']",
    "$..[?typeof(@) == 'array']", "$[?typeof(@.a) == typeof(@.b)]", "$[?typeof(@.b) == 'boolean' || typeof(@.a) == 'null']", "$[?isinstance(@.a, 'number')]",
    "$[?is(@.s, 'string')]", "$[?is(@, 'object') && !is(@.a, 'missing')]", "$[?isinstance(@.nope, 'undefined')]", "$[?is(@.*, 'list')]", "$..[?is(@, 'int')]",
    "$[?is(@.a, 'float') || is(@.a, 'bool')]", "$[?isinstance(@.a, typeof(@.a))]", "$[?is(@.a, 'nosuchtype')]", "$[?is(@.xs, 'sequence') && is(@.o, 'mapping')]",
    "$[?is(@.a, _.tname)]", "$[?isinstance(@.n, 'null') || is(@.n, 'None')]",
    # a flag letter given twice
    "$[?@.s =~ /a.b/ss]", "$[?@.s =~ /A.*/ii]", "$[?@.s =~ /a.b/sis]", "$[?@.s =~ /^b/mm]", "$[?@.s =~ /A.B/isi]",
]
COMPOUND = [
    "$.a | $.b", "$.a[*] | $.b[*]", "$.a[*] & $.b[*]", "$.a[*] & $.b[*] & $.c[*]", "$.a[*] | $.b[*] & $.c[*]", "$.a[*] & $.b[*] | $.c[*]",
    "$.a[*] | $.b[*] | $.c[*]", "$..a | $..b", "$.* & $..*", "^[0] | $.a", "$.a[*] & ^[0].b[*]", "$[?@.a] | $[?@.b]", "$.a[*] | $.a[*]",
    "$.a[*] & $.a[*] & $.a[*] & $.b[*]", "$.x | $.y | $.z | $.a | $.b",
    "$.a | ^[?@.k == 1]", "^[?@.k == 1] | $.a", "^[?@.a] & $", "$.* & ^[0].*", "^[0].a[*] | $.b[*] | ^[?@.s]", "$[?@.a || @.b] | $[?@.a && @.b]",
    # the filter context in operands after the first
    "$.a[?@ > _.v] | $.b[?@ >= _.v]", "$.a[*] & $.b[?@ == _.v]", "$.xs[?@.k == _.v] | $.xs[?@.k != _.v]", "$.a | $.list[?@ == _.v] | $[?_.flag]", "^[?_.flag] | $.a[?@ == _.v]",
]

DOCS = [
    {"a": [1, 2, 3], "b": [1, 2], "c": [2, 3], "k": 1, "s": "ab", "list": [1, 2], "o": {"a": 1}, "xs": [{"ys": [1, 2], "k": 2}, {"ys": [2], "k": 2}]},
    [{"a": 1, "b": 2, "s": "ab"}, {"a": 2, "b": 2, "s": "a\nb"}, {"a": "x", "s": "Ab"}, {"a": None}, {"b": 1}, {}, 5, "abc", None, [1, 2], True],
    {"a": {"b": 1, "a": [0, {"b": 2}]}, "b": "abc", "s": "abc", "~": 1, "": 2},
    [[1, 2, 3], [], [0], ["a", "b"], "str", {"a": [1]}],
    {"a": "abc", "s": "xyz"},
    [0, False, "", None, [], {}, 1, True, "a"],
    {"x": {"y": 1}, "list": [1, "ab"], "a": 1},
    [{"a": [], "id": 1}, {"a": {}, "id": 2}, {"a": "", "id": 3}, {"a": 0, "id": 4}, {"a": False, "id": 5}, {"a": None, "id": 6}, {"b": 1, "id": 7}, {"a": [[]], "b": []}],
    [],
    {},
    # null-valued members and elements at every kind of location (a null is a value, not an absence)
    {"0": None, "1": None, "2": [None, {"0": None}], "a": None, "": None, "n": {"0": None, "a": None, "b": [None]}},
    [None, [None], {"0": None, "a": None}, None],
]
CONTEXTS = [{}, {"x": {"y": 1}, "flag": True, "v": 2, "list": [1, 2]}, {"x": 1, "flag": 0}]


def all_texts():
    return STANDARD + EXTENSION + COMPOUND


def generated_texts(rng, n, filters=True):
    names = ["a", "b", "c", "k", "s", "xs", "ys", "x"]
    out = []
    for _ in range(n):
        ast = qgen.gen_path(rng, names=names if rng.random() < 0.8 else qgen.NAMES, allow_filter=filters)
        style = rng.choice(["free", "noblank", "canonical"])
        out.append(qgen.render_path(ast, qgen.R(rng, blanks=style == "free", canonical=style == "canonical")))
    return out


def generated_docs(rng, n):
    keys = ["a", "b", "c", "k", "s", "xs", "ys", "x", "list", "o"]
    out = []
    for _ in range(n):
        d = G.random_doc(rng, 4, keys=keys, scalars=[None, True, False, 0, 1, 2, 1.0, 0.5, "", "a", "ab", "abc"], width=4)
        if isinstance(d, (dict, list)):
            out.append(d)
    return out
