"""Lean side of every check: table regeneration, lake build, axiom audit."""
from __future__ import annotations

import os
import re
import subprocess
import time

from . import core

ALLOWED_AXIOMS = {"propext", "Classical.choice", "Quot.sound"}
FORBIDDEN = re.compile(r"\b(sorry|admit|native_decide|bv_decide|implemented_by|unsafe)\b|^\s*axiom\s|maxHeartbeats\s+0\b")


def _strip_comments(src: str) -> str:
    src = re.sub(r"/-.*?-/", lambda m: "\n" * m.group(0).count("\n"), src, flags=re.S)
    return re.sub(r"--.*", "", src)


def import_closure(mods):
    """Files (relative module names) transitively imported from `mods` inside the JP library."""
    seen, todo = set(), list(mods)
    while todo:
        m = todo.pop()
        if m in seen or not m.startswith("JP"):
            continue
        path = os.path.join(core.LEAN_DIR, *m.split(".")) + ".lean"
        if not os.path.exists(path):
            continue
        seen.add(m)
        with open(path) as f:
            for line in f:
                mm = re.match(r"\s*import\s+(\S+)", line)
                if mm:
                    todo.append(mm.group(1))
    return sorted(seen)


def forbidden_constructs(mods):
    hits = []
    for m in import_closure(mods):
        p = os.path.join(core.LEAN_DIR, *m.split(".")) + ".lean"
        with open(p) as f:
            src = _strip_comments(f.read())
        for i, line in enumerate(src.splitlines(), 1):
            if FORBIDDEN.search(line):
                hits.append(f"{os.path.relpath(p, core.LEAN_DIR)}:{i}: {line.strip()[:100]}")
    return hits


def lake(args, timeout=3000):
    env = dict(os.environ)
    p = subprocess.run(["lake"] + args, cwd=core.LEAN_DIR, capture_output=True, text=True, timeout=timeout, env=env)
    return p.returncode, (p.stdout + p.stderr)


# which translated tables each property's theorems, model or driver operations read; a table that cannot be extracted breaks
# only these (the parser / filter / environment tables parametrise the driver's query evaluation: every query property)
ALL_TABLES = ("parser", "filter", "env", "pointer", "exceptions", "lexer", "cli", "twins", "guards")
_Q = ("parser", "filter", "env")
TABLE_DEPS = {
    "C01": _Q + ("lexer",), "C02": _Q + ("lexer",), "C03": _Q + ("lexer", "pointer"), "C04": ("pointer",), "C05": ("pointer",), "C06": _Q + ("pointer", "guards", "lexer"),
    "C07": _Q, "C08": _Q + ("twins",), "C09": _Q, "C10": _Q + ("lexer",), "C11": _Q, "C12": _Q, "C13": _Q + ("lexer",), "C14": ("pointer",), "C15": ("pointer",),
    "C16": ("pointer",), "C17": _Q + ("lexer",), "C18": ("cli", "exceptions"), "C19": _Q, "C20": _Q + ("pointer",),
}


def build_and_audit(pid: str, tier: str, modules=None, side_conditions=()):
    """Regenerate tables, build `JP.Props.<pid>` (+ extra modules) and the driver, audit axioms."""
    t0 = time.time()
    st = {"build_ok": False, "audit_ok": False, "obligations": 0, "discharged": 0,
          "theorems": [], "axioms": [], "side_conditions": list(side_conditions)}
    # 1. translated tables
    try:
        from . import tables
        tables.regenerate()
        failed = {k: v for k, v in tables.FAILED.items() if k in TABLE_DEPS.get(pid, ALL_TABLES)}
        if failed:
            raise tables.TableError("; ".join(f"{k}: {v}" for k, v in sorted(failed.items())))
    except Exception as e:  # noqa: BLE001  (fail closed: an unrecognised table is a broken obligation of the properties that use it)
        st["build_error"] = f"table extraction failed: {type(e).__name__}: {e}"
        st["checker_cmd"] = "harness/tables.py"
        return st
    mods = [f"JP.Props.{pid}"] + list(modules or [])
    st["checker_cmd"] = f"cd lean && lake build {' '.join(mods)} JP.Audit jpdrv && lake env lean .lake/audit/{pid}.lean"
    # 2. driver first (so that correspondence can run even when a theorem breaks)
    rc, out = lake(["build", "jpdrv"])
    if rc != 0:
        st["build_error"] = "driver: " + out[-3000:]
        return st
    rc, out = lake(["build"] + mods + ["JP.Audit"])
    if rc != 0:
        st["build_error"] = out[-4000:]
        return st
    st["build_ok"] = True
    # 3. audit
    hits = forbidden_constructs(mods)
    audit_dir = os.path.join(core.LEAN_DIR, ".lake", "audit")
    os.makedirs(audit_dir, exist_ok=True)
    af = os.path.join(audit_dir, f"{pid}.lean")
    with open(af, "w") as f:
        f.write("".join(f"import {m}\n" for m in mods) + f"import JP.Audit\n#audit_ns JP.Props.{pid}\n")
    rc, out = lake(["env", "lean", af])
    thms, axioms, bad = [], set(), []
    for m in re.finditer(r"AUDIT (\S+) : \[(.*?)\]", out):
        name, axs = m.group(1), [a.strip() for a in m.group(2).split(",") if a.strip()]
        thms.append(name)
        axioms.update(axs)
        extra = [a for a in axs if a not in ALLOWED_AXIOMS]
        if extra:
            bad.append(f"{name} depends on {extra}")
    st["theorems"] = thms
    st["axioms"] = sorted(axioms)
    if rc != 0:
        st["audit_error"] = out[-2000:]
    elif hits:
        st["audit_error"] = "forbidden constructs: " + "; ".join(hits[:10])
    elif bad:
        st["audit_error"] = "; ".join(bad[:10])
    elif not thms:
        st["audit_error"] = f"no theorems found under JP.Props.{pid}"
    else:
        st["audit_ok"] = True
    if tier == "thorough" and st["audit_ok"] and os.environ.get("VERIF_LEANCHECKER", "1") == "1":
        rc, out = lake(["env", "leanchecker"] + mods, timeout=3000)
        st["leanchecker"] = "ok" if rc == 0 else out[-1500:]
        if rc != 0:
            st["audit_ok"] = False
            st["audit_error"] = "leanchecker: " + out[-1500:]
    n = len(thms) + len(st["side_conditions"]) + 1  # +1: the axiom/forbidden-construct audit itself
    st["obligations"] = n
    st["discharged"] = n if st["audit_ok"] else len(thms)
    st["lean_wall_s"] = round(time.time() - t0, 2)
    return st
