"""Shared machinery for the JSONPath query properties: run a query text on the implementation,
dump its compiled AST, evaluate the model (and the RFC spec) in the driver, compare."""
from __future__ import annotations

from . import astdump, core


def impl_matches(compiled, doc, extra=None):
    """[(path, parts, value)] from the implementation (sync finditer)."""
    out = []
    for m in compiled.finditer(doc, filter_context=extra or {}):
        out.append({"path": m.path, "parts": list(m.parts), "val": m.obj})
    return out


def canon_nodes(nodes):
    return [{"parts": [p for p in n["parts"]], "path": n["path"], "val": core.canon(n["val"])} for n in nodes]


def model_nodes(resp):
    return [{"parts": n["parts"], "path": n["path"], "val": n["val"]} for n in resp["nodes"]]


def build_request(compiled, doc, extra=None, spec_path=None):
    q = astdump.dump_query(compiled)
    if q["rest"]:
        return {"op": "q.compound", "first": q["first"], "rest": q["rest"], "doc": core.enc(doc), "extra": core.enc(extra or {})}
    req = {"op": "q.eval", "path": q["first"], "doc": core.enc(doc), "extra": core.enc(extra or {})}
    if spec_path is not None:
        req["spec_path"] = spec_path
    return req


def compile_outcome(text, env=None):
    import jsonpath

    e = env or jsonpath.DEFAULT_ENV
    return core.outcome(lambda: e.compile(text))


# ---------------------------------------------------------------- every way of asking the same question

_loop = None


def _run(coro):
    import asyncio
    global _loop
    if _loop is None or _loop.is_closed():
        _loop = asyncio.new_event_loop()
    return _loop.run_until_complete(coro)


def entry_points(text, compiled, env=None):
    """name -> function(doc, filter_context) returning the list of (path, value) pairs (or values only, marked by the
    name ending in ':values') through one public entry point. `env` None = the module-level functions."""
    import jsonpath

    E = env if env is not None else jsonpath

    def pv(ms):
        return [[m.path, core.canon(m.obj)] for m in ms]

    async def acollect(ait):
        return [m async for m in ait]

    def shifted(v):
        """a document of the same shape with other values"""
        if isinstance(v, dict):
            return {k: shifted(x) for k, x in v.items()}
        if isinstance(v, list):
            return [shifted(x) for x in v]
        if isinstance(v, bool) or v is None:
            return v
        if isinstance(v, (int, float)):
            return v + 1000
        if isinstance(v, str):
            return v + "~"
        return v

    def interleaved(d, c):
        # two lazy evaluations of the same compiled query advanced alternately: the other one, over another document,
        # must not show in this one's matches
        import itertools
        a = compiled.finditer(d, filter_context=c)
        b = compiled.finditer(shifted(d) if isinstance(d, (dict, list)) else d, filter_context=c)
        return pv([x for x, _ in itertools.zip_longest(a, b) if x is not None])

    eps = {
        "compiled.finditer": lambda d, c: pv(compiled.finditer(d, filter_context=c)),
        "compiled.finditer, advanced alternately with another evaluation of the same compiled query": interleaved,
        "compiled.findall:values": lambda d, c: [core.canon(v) for v in compiled.findall(d, filter_context=c)],
        "compiled.match:first": lambda d, c: (lambda m: [] if m is None else pv([m]))(compiled.match(d, filter_context=c)),
        "compiled.query": lambda d, c: pv(compiled.query(d, filter_context=c)),
        "compiled.query.items": lambda d, c: [[p, core.canon(v)] for p, v in compiled.query(d, filter_context=c).items()],
        "compiled.finditer_async": lambda d, c: pv(_run(acollect(_run(_aw(compiled.finditer_async(d, filter_context=c)))))),
        "compiled.findall_async:values": lambda d, c: [core.canon(v) for v in _run(compiled.findall_async(d, filter_context=c))],
        "env.finditer": lambda d, c: pv(E.finditer(text, d, filter_context=c)),
        "env.findall:values": lambda d, c: [core.canon(v) for v in E.findall(text, d, filter_context=c)],
        "env.match:first": lambda d, c: (lambda m: [] if m is None else pv([m]))(E.match(text, d, filter_context=c)),
        "env.query(positional context)": lambda d, c: pv(E.query(text, d, c)),
        "env.finditer_async": lambda d, c: pv(_run(acollect(_run(_aw(E.finditer_async(text, d, filter_context=c)))))),
        "env.findall_async:values": lambda d, c: [core.canon(v) for v in _run(E.findall_async(text, d, filter_context=c))],
    }
    return eps


async def _aw(x):
    return await x


def compare_entry_points(ctx, text, compiled, doc, extra, reference, what, inp, env=None, only=None):
    """`reference` = [[path, value], …] from the harness's primary call. Every other entry point must give the same."""
    for name, fn in entry_points(text, compiled, env).items():
        if only is not None and name not in only:
            continue
        r = core.outcome(lambda: fn(doc, extra))
        if "err" in r:
            ctx.violation(what, {**inp, "entry_point": name}, r["err"], "the same matches as every other entry point")
            continue
        got = r["ok"]
        if name.endswith(":values"):
            want = [v for _, v in reference]
        elif name.endswith(":first"):
            want = reference[:1]
        else:
            want = reference
        if got != want:
            ctx.violation(what, {**inp, "entry_point": name}, got[:6], want[:6])
