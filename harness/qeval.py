"""Shared machinery for the JSONPath query properties: run a query text on the implementation,
dump its compiled AST, evaluate the model (and the RFC spec) in the driver, compare."""
from __future__ import annotations

from . import astdump, core


def impl_matches(compiled, doc, extra=None):
    """[(path, parts, value)] from the implementation (sync finditer)."""
    out = []
    for m in compiled.finditer(doc, filter_context=extra or {}):
        out.append({"path": m.path, "parts": list(m.parts), "val": m.obj})
    return out


def canon_nodes(nodes):
    return [{"parts": [p for p in n["parts"]], "path": n["path"], "val": core.canon(n["val"])} for n in nodes]


def model_nodes(resp):
    return [{"parts": n["parts"], "path": n["path"], "val": n["val"]} for n in resp["nodes"]]


def build_request(compiled, doc, extra=None, spec_path=None):
    q = astdump.dump_query(compiled)
    if q["rest"]:
        return {"op": "q.compound", "first": q["first"], "rest": q["rest"], "doc": core.enc(doc), "extra": core.enc(extra or {})}
    req = {"op": "q.eval", "path": q["first"], "doc": core.enc(doc), "extra": core.enc(extra or {})}
    if spec_path is not None:
        req["spec_path"] = spec_path
    return req


def compile_outcome(text, env=None):
    import jsonpath

    e = env or jsonpath.DEFAULT_ENV
    return core.outcome(lambda: e.compile(text))
