"""Dump the implementation's compiled query objects as the JSON AST the model driver reads."""
from __future__ import annotations

import re

from . import core


def _imports():
    import jsonpath.filter as F
    import jsonpath.selectors as S
    from jsonpath.path import CompoundJSONPath, JSONPath

    return F, S, JSONPath, CompoundJSONPath


def dump_expr(e):
    F, S, JSONPath, _ = _imports()
    if isinstance(e, F.BooleanExpression):
        return dump_expr(e.expression)
    if isinstance(e, F.CachingFilterExpression):
        return dump_expr(e._expr)  # noqa: SLF001
    if isinstance(e, F.Nil):
        return {"t": "nil"}
    if isinstance(e, F.Undefined):
        return {"t": "undef"}
    if isinstance(e, F.BooleanLiteral):
        return {"t": "bool", "v": bool(e.value)}
    if isinstance(e, F.IntegerLiteral):
        return {"t": "int", "v": int(e.value)}
    if isinstance(e, F.FloatLiteral):
        enc = core.enc(float(e.value))
        return {"t": "flt", "m": enc["f"]}
    if isinstance(e, F.StringLiteral):
        core.enc(e.value)
        return {"t": "str", "v": e.value}
    if isinstance(e, F.RegexLiteral):
        flags = "".join(ch for flag, ch in ((re.A, "a"), (re.I, "i"), (re.M, "m"), (re.S, "s")) if e.value.flags & flag)
        return {"t": "regex", "p": e.value.pattern, "f": flags}
    if isinstance(e, F.ListLiteral):
        return {"t": "list", "items": [dump_expr(i) for i in e.items]}
    if isinstance(e, F.PrefixExpression):
        if e.operator != "!":
            raise core.Unencodable("prefix operator " + e.operator)
        return {"t": "not", "e": dump_expr(e.right)}
    if isinstance(e, F.InfixExpression):
        return {"t": "infix", "l": dump_expr(e.left), "op": e.operator, "r": dump_expr(e.right)}
    if isinstance(e, F.SelfPath):
        return {"t": "self", "q": dump_segs(e.path.selectors)}
    if isinstance(e, F.RootPath):
        return {"t": "root", "q": dump_segs(e.path.selectors), "fake": bool(e.path.fake_root)}
    if isinstance(e, F.FilterContextPath):
        return {"t": "ctx", "q": dump_segs(e.path.selectors)}
    if isinstance(e, F.FunctionExtension):
        return {"t": "func", "name": e.name, "args": [dump_expr(a) for a in e.args]}
    if isinstance(e, F.CurrentKey):
        return {"t": "key"}
    raise core.Unencodable("expression " + type(e).__name__)


def dump_sel(s):
    F, S, JSONPath, _ = _imports()
    if isinstance(s, S.PropertySelector):
        core.enc(s.name)
        return {"s": "name", "v": s.name}
    if isinstance(s, S.IndexSelector):
        return {"s": "index", "v": s.index}
    if isinstance(s, S.SliceSelector):
        return {"s": "slice", "a": s.slice.start, "b": s.slice.stop, "c": s.slice.step}
    if isinstance(s, S.WildSelector):
        return {"s": "wild"}
    if isinstance(s, S.KeysSelector):
        return {"s": "keys"}
    if isinstance(s, S.Filter):
        return {"s": "filter", "e": dump_expr(s.expression)}
    raise core.Unencodable("selector " + type(s).__name__)


def dump_segs(selectors):
    F, S, JSONPath, _ = _imports()
    out = []
    for s in selectors:
        if isinstance(s, S.RecursiveDescentSelector):
            out.append({"g": "desc"})
        elif isinstance(s, S.ListSelector):
            out.append({"g": "child", "sels": [dump_sel(i) for i in s.items]})
        else:
            out.append({"g": "child", "sels": [dump_sel(s)]})
    return out


def dump_path(p):
    return {"segs": dump_segs(p.selectors), "fake": bool(p.fake_root)}


def dump_query(q):
    """JSONPath or CompoundJSONPath -> {"first": path, "rest": [[op, path], ...]}"""
    F, S, JSONPath, CompoundJSONPath = _imports()
    if isinstance(q, CompoundJSONPath):
        first = dump_query(q.path)
        rest = list(first["rest"])
        for op, p in q.paths:
            rest.append(["|" if op == q.env.union_token else "&", dump_path(p)])
        return {"first": first["first"], "rest": rest}
    return {"first": dump_path(q), "rest": []}
