import JP.Basic
import JP.Pointer
import JP.RelPointer
import JP.Patch
