/-
  JP.Audit — `#audit_ns NS` prints, for every theorem whose name lives under the
  namespace `NS`, the axioms its proof depends on (what `#print axioms` prints).
-/
import Lean
open Lean Elab Command

elab "#audit_ns " ns:ident : command => do
  let env ← getEnv
  let nsName := ns.getId
  let names := env.constants.fold (init := #[]) fun acc n ci =>
    if nsName.isPrefixOf n && !n.isInternalDetail then
      match ci with
      | .thmInfo _ => acc.push n
      | _ => acc
    else acc
  for n in names.qsort (fun a b => a.toString < b.toString) do
    let axs ← liftCoreM (collectAxioms n)
    let axs := axs.qsort (fun a b => a.toString < b.toString)
    logInfo m!"AUDIT {n} : {axs.toList}"
