/-
  JP.TokenCfg — the configurable identifier tokens (`root_token`, `self_token`, `key_token`,
  `filter_context_token`, `keys_selector_token`, `fake_root_token`, `union_token`,
  `intersection_token`) in the lexer (`lex.py: compile_rules`).

  The environment's spellings are spliced into the rule list as alternatives of one regular
  expression, `re.escape`d and **sorted by length, longest first** (stable); at a given position the
  first alternative that matches wins. `lexEnv` models exactly that sub-list of alternatives.
-/
import JP.Query
import JP.Generated.Tables
namespace JP
namespace TokenCfg

inductive Ident where
  | root | fakeRoot | self | key | union | inter | ctx | keys
  deriving Repr, DecidableEq, Inhabited

abbrev Cfg := List (Ident × Str)

/-- stable insertion of `x` into a list sorted by spelling length, longest first
    (`sorted(env_tokens, key=len, reverse=True)` keeps the original order among equal lengths) -/
def insertByLen (x : Ident × Str) : Cfg → Cfg
  | [] => [x]
  | y :: ys => if x.2.length ≥ y.2.length then x :: y :: ys else y :: insertByLen x ys

/-- `sorted(env_tokens, key=lambda x: len(x[1]), reverse=True)` (stable) -/
def sortLongestFirst : Cfg → Cfg
  | [] => []
  | x :: xs => insertByLen x (sortLongestFirst xs)


/-- the mutated order (shortest first), as a counter-model -/
def insertByLenAsc (x : Ident × Str) : Cfg → Cfg
  | [] => [x]
  | y :: ys => if x.2.length ≤ y.2.length then x :: y :: ys else y :: insertByLenAsc x ys

def sortShortestFirst : Cfg → Cfg
  | [] => []
  | x :: xs => insertByLenAsc x (sortShortestFirst xs)

/-- the environment-token alternatives tried in order at the current position; empty spellings are
    dropped (`if pattern`) -/
def lexWith (ordered : Cfg) (input : Str) : Option (Ident × Str) :=
  match ordered.find? (fun t => !t.2.isEmpty && t.2.isPrefixOf input) with
  | some (k, s) => some (k, input.drop s.length)
  | none => none

def lexEnv (cfg : Cfg) (input : Str) : Option (Ident × Str) := lexWith (sortLongestFirst cfg) input

/-- the source splices the environment tokens longest first, after `..`, `&&`/`and`, `||`/`or` and
    before every other punctuation / keyword / name rule -/
def spliceOK (rules : List (String × String)) (longestFirst : Bool) : Bool :=
  let names := rules.map (·.1)
  let pos := fun (n : String) => names.idxOf n
  longestFirst &&
  names.contains "<ENV_TOKENS>" &&
  decide (pos "TOKEN_DDOT" < pos "<ENV_TOKENS>") && decide (pos "TOKEN_AND" < pos "<ENV_TOKENS>") &&
  decide (pos "TOKEN_OR" < pos "<ENV_TOKENS>") && decide (pos "TOKEN_DOT_PROPERTY" < pos "<ENV_TOKENS>") &&
  decide (pos "<ENV_TOKENS>" < pos "TOKEN_WILD") && decide (pos "<ENV_TOKENS>" < pos "TOKEN_FILTER") &&
  decide (pos "<ENV_TOKENS>" < pos "TOKEN_LT") && decide (pos "<ENV_TOKENS>" < pos "TOKEN_NOT") &&
  decide (pos "<ENV_TOKENS>" < pos "TOKEN_BARE_PROPERTY") && decide (pos "<ENV_TOKENS>" < pos "TOKEN_LIST_START")

/-- the eight identifiers are the ones the lexer splices -/
def envTokensOK (toks : List (String × String)) : Bool :=
  toks.map (·.1) == ["TOKEN_ROOT", "TOKEN_FAKE_ROOT", "TOKEN_SELF", "TOKEN_KEY", "TOKEN_UNION", "TOKEN_INTERSECTION",
                     "TOKEN_FILTER_CONTEXT", "TOKEN_KEYS"]

/-- two environments that differ at most in the spellings the evaluator embeds in paths / keys parts -/
def SameButTokens (e1 e2 : Query.Env) : Prop :=
  e1.rx = e2.rx ∧ e1.root = e2.root ∧ e1.extra = e2.extra

end TokenCfg
end JP
