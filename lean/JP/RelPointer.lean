/-
  JP.RelPointer — code-shaped model of `RelativeJSONPointer` (`jsonpath/pointer.py`) and
  the specification of draft-hha-relative-json-pointer it is compared with.
-/
import JP.Pointer
namespace JP
namespace RelPointer
open Pointer

/-- Either a JSON Pointer suffix or the key marker `#`. -/
inductive Suffix where
  | ptr (ps : List Part)
  | hash
  deriving Repr, DecidableEq, Inhabited

structure Rel where
  origin : Nat
  index : Int
  suffix : Suffix
  deriving Repr, DecidableEq, Inhabited

/-- Longest prefix of ASCII digits, and the rest. -/
def spanDigits : Str → Str × Str
  | [] => ([], [])
  | c :: cs =>
    if isAsciiDigit c then
      let (d, r) := spanDigits cs
      (c :: d, r)
    else ([], c :: cs)

/-- `RE_RELATIVE_POINTER.match(rel)`:
    `([0-9]+)(([+\-])([0-9]+))?(.*)` — groups ORIGIN, SIGN, INDEX, POINTER. -/
def reMatch (s : Str) : Option (Str × Option (Char × Str) × Str) :=
  match spanDigits s with
  | ([], _) => none
  | (origin, rest) =>
    match rest with
    | c :: rest' =>
      if c = '+' ∨ c = '-' then
        match spanDigits rest' with
        | ([], _) => some (origin, none, rest)
        | (idx, rest'') => some (origin, some (c, idx), rest'')
      else some (origin, none, rest)
    | [] => some (origin, none, [])

/-- `RelativeJSONPointer._zero_or_positive` -/
def zeroOrPositive (s : Str) : Res Nat :=
  match s with
  | '0' :: _ :: _ => throw .relSyntax
  | _ => if s.length > maxStrDigits then throw .relSyntax else pure (digitsVal s)

/-- the pointer text `_parse` goes on with: blank space is dropped around `#` and when nothing else follows the
    numbers; otherwise it belongs to a reference token and stays -/
def ptrChoice (s : Str) : Str := if strip s = [] ∨ strip s = ['#'] then strip s else s

/-- `RelativeJSONPointer._parse` (with `uri_decode=False`). -/
def parse (dec : EscDec) (unicodeEsc : Bool) (rel : Str) : Res Rel := do
  let rel := lstrip rel
  match reMatch rel with
  | none => throw .relSyntax
  | some (originS, idxG, ptrS) =>
    let origin ← zeroOrPositive originS
    let index ← match idxG with
      | none => pure (0 : Int)
      | some (sign, idxS) => do
        let n ← zeroOrPositive idxS
        if n = 0 then throw .relSyntax
        else pure (if sign = '-' then -(n : Int) else (n : Int))
    let ptrS := ptrChoice ptrS
    if ptrS = ['#'] then pure ⟨origin, index, .hash⟩
    else do
      let ps ← Pointer.parse dec unicodeEsc ptrS
      pure ⟨origin, index, .ptr ps⟩

/-- `RelativeJSONPointer.__str__` -/
def toStr (r : Rel) : Str :=
  let idx : Str := if r.index = 0 then [] else if r.index > 0 then '+' :: intStr r.index else intStr r.index
  natStr r.origin ++ idx ++ (match r.suffix with | .ptr ps => encode ps | .hash => ['#'])

/-- `RelativeJSONPointer._int_like` with the value `int()` gives. -/
def intLike : Part → Option Int
  | .idx i => some i
  | .key s =>
    match parseIndexToken s with
    | some i =>
      if s.length > maxStrDigits + 1 ∨ (s.length > maxStrDigits ∧ s.head? ≠ some '-') then none
      else some i
    | none => none

/-- `RelativeJSONPointer.to(base)` followed by `JSONPointer.from_parts(parts, unicode_escape=False,
    uri_decode=False)`: the parts of the two parsed pointers are not decoded again (`dec` and `unicodeEsc`
    are the options under which a base given as text is parsed, by the caller). -/
def applyTo (dec : EscDec) (unicodeEsc : Bool) (r : Rel) (base : List Part) : Res (List Part) := do
  if r.origin > base.length then throw .relIndex
  let parts := if r.origin < 1 then base else base.take (base.length - r.origin)
  let parts ←
    if r.index ≠ 0 then
      match parts.getLast? with
      | some last =>
        match intLike last with
        | some i =>
          if i + r.index < 0 then throw .relIndex
          else pure (parts.dropLast ++ [Part.idx (i + r.index)])
        | none => pure parts
      | none => pure parts
    else pure parts
  let parts ← match r.suffix with
    | .ptr ps => pure (parts ++ ps)
    | .hash =>
      match parts.getLast? with
      | none => throw .relIndex
      | some last => pure (parts.dropLast ++ [Part.key ('#' :: partStr last)])
  let _ := unicodeEsc
  Pointer.fromParts dec false parts

/-! ## Specification (draft-hha-relative-json-pointer, on reference tokens) -/

/-- Grammar: `origin [ ("+"|"-") offset ] ( "#" | json-pointer )`, canonical non-negative
    integers, offset non-zero. Returned as (origin, offset, suffix text). -/
structure RelSpec where
  origin : Nat
  offset : Int          -- 0 = absent
  hash : Bool
  suffix : List Str     -- reference tokens (when `hash = false`)
  deriving Repr, DecidableEq

/-- The text of a relative pointer per the grammar. -/
def specText (r : RelSpec) : Str :=
  natStr r.origin
  ++ (if r.offset = 0 then [] else if r.offset > 0 then '+' :: natStr r.offset.toNat else '-' :: natStr (-r.offset).toNat)
  ++ (if r.hash then ['#'] else spellTokens r.suffix)

/-- Applying a relative pointer to a base token list, per the draft. `none` = forbidden. -/
def specApply (r : RelSpec) (base : List Str) : Option (List Str) :=
  if r.origin > base.length then none
  else
    let kept := base.take (base.length - r.origin)
    let kept? : Option (List Str) :=
      if r.offset = 0 then some kept
      else match kept.getLast? with
        | none => some kept
        | some last =>
          if isCanonNat last then
            let n : Int := (digitsVal last : Int) + r.offset
            if n < 0 then none else some (kept.dropLast ++ [natStr n.toNat])
          else some kept
    match kept? with
    | none => none
    | some kept =>
      if r.hash then
        match kept.getLast? with
        | none => none
        | some last => some (kept.dropLast ++ ['#' :: last])
      else some (kept ++ r.suffix)

end RelPointer
end JP
