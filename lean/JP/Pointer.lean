/-
  JP.Pointer — code-shaped model of `jsonpath/pointer.py` (class `JSONPointer`) and the
  RFC 6901 specification it is compared with.

  Mirrors, in source order: `_parse`, `_index`, `_getitem`, `resolve`, `resolve_parent`,
  `exists`, `_encode`, `from_parts`, `parent`, `__truediv__`, `join`, `is_relative_to`,
  `__eq__`.  `_unicode_escape` is a parameter (`EscDec`): the code returns its argument
  unchanged when it contains no backslash (that fast path *is* modelled) and otherwise
  defers to Python's `unicode-escape` codec (abstract; `none` = the codec rejects the text).
  `uri_decode` (urllib `unquote`) is not modelled: the model is the `uri_decode=False` path.
-/
import JP.Basic
namespace JP

/-- A parsed pointer part: Python `int` or `str`. -/
inductive Part where
  | idx (i : Int)
  | key (s : Str)
  deriving Repr, DecidableEq, Inhabited, BEq

/-- The abstract `unicode-escape` codec, applied only to text that contains a backslash. -/
abbrev EscDec := Str → Option Str

def maxIntIndex : Int := 2^53 - 1
def minIntIndex : Int := -(2^53) + 1
/-- CPython refuses `int(s)` for more than this many digits (ValueError). -/
def maxStrDigits : Nat := 4300

namespace Pointer

/-- `JSONPointer._unicode_escape` -/
def unicodeEscape (dec : EscDec) (s : Str) : Res Str :=
  if !s.contains '\\' then pure s
  else match dec s with
    | some r => pure r
    | none => throw .ptr

/-- `JSONPointer._index` -/
def indexOf (s : Str) : Res Part :=
  match parseIndexToken s with
  | none => pure (.key s)
  | some i =>
    if s.length > maxStrDigits + 1 ∨ (s.length > maxStrDigits ∧ s.head? ≠ some '-') then
      pure (.key s)                          -- `int(s)` raises ValueError: too many digits
    else if i < minIntIndex ∨ i > maxIntIndex then throw .ptrIndex
    else pure (.idx i)

/-- `p.replace("~1", "/").replace("~0", "~")` -/
def unescapeTok (t : Str) : Str := replace2 '~' '0' '~' (replace2 '~' '1' '/' t)

/-- `str(p).replace("~", "~0").replace("/", "~1")` -/
def escapeTok (t : Str) : Str := replaceChar '/' ['~', '1'] (replaceChar '~' ['~', '0'] t)

def partStr : Part → Str
  | .idx i => intStr i
  | .key s => s

/-- `JSONPointer._parse` (with `uri_decode=False`). -/
def parse (dec : EscDec) (unicodeEsc : Bool) (s : Str) : Res (List Part) := do
  let s ← if unicodeEsc then unicodeEscape dec s else pure s
  let s := lstrip s
  match s with
  | [] => pure []
  | c :: _ =>
    if c ≠ '/' then throw .ptr
    else (splitOn '/' s).tail.mapM (fun p => indexOf (unescapeTok p))

/-- `JSONPointer._encode` -/
def encode (ps : List Part) : Str :=
  match ps with
  | [] => []
  | _ => '/' :: joinWith '/' (ps.map (fun p => escapeTok (partStr p)))

/-- `JSONPointer._getitem` -/
def getitem (obj : J) (key : Part) : Res J :=
  match obj with
  | .str _ => throw .ptrType
  | .obj kvs =>
    match key with
    | .idx i =>
      match dictGet kvs (intStr i) with
      | some v => pure v
      | none => throw .ptrKey
    | .key k =>
      match dictGet kvs k with
      | some v => pure v
      | none =>
        match k with
        | c :: rest =>
          if (c = '~' ∨ c = '#') ∧ dictHas kvs rest then pure (.str rest) else throw .ptrKey
        | [] => throw .ptrKey
  | .arr xs =>
    match key with
    | .idx i =>
      match pyListGet xs i with
      | some v => pure v
      | none => throw .ptrIndex
    | .key k =>
      if k = ['-'] then throw .ptrIndex
      else match k with
        | '#' :: rest => do
          match ← indexOf rest with
          | .idx i =>
            if i ≥ (xs.length : Int) ∨ i < -(xs.length : Int) then throw .ptrIndex
            else pure (.int i)
          | .key _ => throw .ptrType
        | _ => do
          match ← indexOf k with
          | .idx i =>
            match pyListGet xs i with
            | some v => pure v
            | none => throw .ptrIndex
          | .key _ => throw .ptrType
  | _ => throw .ptrType

/-- `reduce(self._getitem, parts, data)` -/
def resolveParts (doc : J) (ps : List Part) : Res J := ps.foldlM getitem doc

/-- `JSONPointer(s, unicode_escape=…).resolve(doc)` -/
def resolveText (dec : EscDec) (unicodeEsc : Bool) (s : Str) (doc : J) : Res J := do
  let ps ← parse dec unicodeEsc s
  resolveParts doc ps

/-- `JSONPointer.exists` -/
def existsIn (doc : J) (ps : List Part) : Res Bool :=
  match resolveParts doc ps with
  | .ok _ => pure true
  | .error e => if e.isPointerResolution then pure false else throw e

/-- `JSONPointer.resolve_parent`: `(parent, obj)` with `none` for Python `None` / `UNDEFINED`. -/
def resolveParent (doc : J) (ps : List Part) : Res (Option J × Option J) :=
  match ps.getLast? with
  | none => pure (none, some doc)
  | some last => do
    let parent ← resolveParts doc ps.dropLast
    match getitem parent last with
    | .ok v => pure (some parent, some v)
    | .error .ptrIndex => pure (some parent, none)
    | .error .ptrKey => pure (some parent, none)
    | .error e => throw e

/-- `JSONPointer.from_parts` (with `uri_decode=False`): every part is stringified. -/
def fromParts (dec : EscDec) (unicodeEsc : Bool) (ps : List Part) : Res (List Part) :=
  ps.mapM (fun p => do
    let s := partStr p
    let s ← if unicodeEsc then unicodeEscape dec s else pure s
    pure (Part.key s))

/-- `JSONPointer.parent` -/
def parent (ps : List Part) : List Part := ps.dropLast

/-- `JSONPointer.__truediv__` -/
def truediv (dec : EscDec) (ps : List Part) (other : Str) : Res (List Part) := do
  let other ← unicodeEscape dec (lstrip other)
  match other with
  | '/' :: _ => parse dec false other
  | _ => do
    let more ← (splitOn '/' other).mapM (fun p => indexOf (unescapeTok p))
    pure (ps ++ more)

/-- `JSONPointer.join` -/
def join (dec : EscDec) (ps : List Part) (others : List Str) : Res (List Part) :=
  others.foldlM (truediv dec) ps

/-- `JSONPointer._tokens` -/
def tokens (ps : List Part) : List Str := ps.map partStr

/-- `JSONPointer.__eq__` -/
def eq (p q : List Part) : Bool := tokens p == tokens q

/-- `JSONPointer.is_relative_to` -/
def isRelativeTo (self other : List Part) : Bool :=
  other.length < self.length && (tokens self).take other.length == tokens other

/-! ## RFC 6901 -/

/-- A location in a document: member names and array positions. -/
inductive Step where
  | name (k : Str)
  | index (n : Nat)
  deriving Repr, DecidableEq, Inhabited

/-- The value at a location. -/
def valueAt : J → List Step → Option J
  | v, [] => some v
  | .obj kvs, .name k :: rest => (dictGet kvs k).bind (valueAt · rest)
  | .arr xs, .index n :: rest => (xs[n]?).bind (valueAt · rest)
  | _, _ => none

/-- The reference token of a step. -/
def stepToken : Step → Str
  | .name k => k
  | .index n => natStr n

/-- RFC 6901 §3/§5: the string form of a list of reference tokens. -/
def spellTokens (ts : List Str) : Str := ts.flatMap (fun t => '/' :: escapeTok t)

/-- The pointer string spelled from a location. -/
def spell (ps : List Step) : Str := spellTokens (ps.map stepToken)

/-- RFC 6901 §4: one evaluation step on a reference token. -/
def rfcStep (v : J) (t : Str) : Option J :=
  match v with
  | .obj kvs => dictGet kvs t
  | .arr xs => if isCanonNat t then xs[digitsVal t]? else none
  | _ => none

/-- RFC 6901 §4 evaluation of a token list. -/
def rfcEval (v : J) (ts : List Str) : Option J := ts.foldlM rfcStep v

/-- RFC 6901 §3 syntax: `*( "/" reference-token )`, where `~` is followed by `0` or `1`. -/
def rfcTokenOk : Str → Bool
  | [] => true
  | '~' :: '0' :: rest => rfcTokenOk rest
  | '~' :: '1' :: rest => rfcTokenOk rest
  | '~' :: _ => false
  | '/' :: _ => false
  | _ :: rest => rfcTokenOk rest

/-- Parse an RFC 6901 pointer string into reference tokens (`none`: not a pointer). -/
def rfcParse (s : Str) : Option (List Str) :=
  match s with
  | [] => some []
  | '/' :: _ =>
    let raw := (splitOn '/' s).tail
    if raw.all rfcTokenOk then some (raw.map unescapeTok) else none
  | _ => none

/-- The documented extensions, which RFC-conformance statements exclude: negative indices,
    `#`- and `~`-prefixed tokens, integers beyond the index limit. -/
def isExtensionToken (t : Str) : Bool :=
  match t with
  | '#' :: _ => true
  | '~' :: _ => true
  | _ =>
    match parseIndexToken t with
    | some i => i < 0 || i > maxIntIndex
    | none => false

/-- Side condition on locations: an integer-like member name or an array index must lie
    within the pointer index limits (`JSONPointer.min_int_index/max_int_index`); names that
    are canonical integers beyond the limit are rejected by the constructor (known finding). -/
def StepInRange : Step → Prop
  | .name k => ∀ i, parseIndexToken k = some i → minIntIndex ≤ i ∧ i ≤ maxIntIndex
  | .index n => (n : Int) ≤ maxIntIndex

end Pointer
end JP
