/-
  JP.Lex — the surface syntax at the *character* level.

  * `lexRaw` — `Lexer.tokenize` (`lex.py`): one alternation of named rules, tried in order at each
    position (Python `re` semantics: the first alternative that matches wins, inside a rule the usual
    greedy/lazy backtracking). Every rule is written here as a deterministic scanner; the comments give
    the regular expression it stands for and why the scanner is equivalent (the alternatives inside a
    rule are disjoint on their first character, so backtracking can never find a second parse).
    The rule *texts* are regenerated from `lex.py` by the translator and compared with the texts this
    model was written for (`sourceOK`, discharged by `decide` in the property files).
  * `jsonBody`, `decodeSQ`, `decodeDQ` — `Parser._decode_string_literal` (`json.loads` of a string).
  * `cook` — from raw tokens to the parser's tokens (`Surface.Tok`): literal decoding as the parser does it.
  * `pstr*` — the serializer at the character level (`__str__` of `JSONPath`, selectors, filter
    expressions, `canonical_string`), parametrised by the environment's identifier spellings.

  Unicode: `\w`/`\b` on non-ASCII characters (`Py_UNICODE_ISALNUM`) is a parameter (`uword`);
  `\s` is `str.isspace` (`isPyBlank`); `[0-9]` is ASCII.
-/
import JP.Surface
namespace JP
namespace Lex
open Query Surface

inductive Kind where
  | dq | sq | rePattern | reFlags | sliceStart | sliceStop | sliceStep | func | prop | bare | flt | int
  | ddot | and_ | or_
  | root | fakeRoot | self | key | union | inter | fctx | keys
  | wild | filter | in_ | true_ | false_ | nil | contains | undefined | missing
  | lbracket | rbracket | comma | eq | ne | lg | le | ge | re | lt | gt | not_ | lparen | rparen
  deriving Repr, DecidableEq, Inhabited

/-- `Token(kind, value, …)` -/
structure RawTok where
  kind : Kind
  value : Str
  deriving Repr, DecidableEq, Inhabited

/-- the environment's identifier spellings (`env.root_token`, …) -/
structure Spell where
  root : Str
  fakeRoot : Str
  self : Str
  key : Str
  union : Str
  inter : Str
  fctx : Str
  keys : Str
  deriving Repr, DecidableEq

def dflt : Spell :=
  { root := ['$'], fakeRoot := ['^'], self := ['@'], key := ['#'], union := ['|'], inter := ['&'], fctx := ['_'], keys := ['~'] }

/-- `env_tokens` of `compile_rules`, in declaration order -/
def Spell.envTokens (sp : Spell) : List (Kind × Str) :=
  [(.root, sp.root), (.fakeRoot, sp.fakeRoot), (.self, sp.self), (.key, sp.key), (.union, sp.union),
   (.inter, sp.inter), (.fctx, sp.fctx), (.keys, sp.keys)]

structure Cfg where
  spell : Spell
  /-- `\w` on characters ≥ U+0080 -/
  uword : Char → Bool

/-! ## Character classes -/

/-- first character of `key_pattern`: `[\u0080-\U0010FFFFa-zA-Z_]` -/
def keyStart (c : Char) : Bool := decide (c.toNat ≥ 0x80) || c.isAlpha || c == '_'

/-- later characters of `key_pattern`: `[\u0080-\U0010FFFFa-zA-Z0-9_-]` -/
def keyCont (c : Char) : Bool := keyStart c || c.isDigit || c == '-'

/-- `\w` -/
def isWord (uw : Char → Bool) (c : Char) : Bool :=
  if c.toNat < 0x80 then c.isAlphanum || c == '_' else uw c

/-- `\b` after a word character: end of input or a non-word character -/
def atBoundary (uw : Char → Bool) : Str → Bool
  | [] => true
  | c :: _ => !isWord uw c

/-- `\s*` -/
def skipWs (s : Str) : Str := s.dropWhile isPyBlank

abbrev M := Str → Option (List RawTok × Str)

/-! ## The rules -/

/-- `(?:[^q\\]|\\.)*q` (DOTALL): the content up to the first unescaped quote. The two alternatives
    start with different characters, so the decomposition is unique. -/
def scanQuoted (q : Char) : Str → Option (Str × Str)
  | [] => none
  | c :: cs =>
    if c == q then some ([], cs)
    else if c == '\\' then
      match cs with
      | [] => none
      | d :: ds => (scanQuoted q ds).map fun (a, r) => (c :: d :: a, r)
    else (scanQuoted q cs).map fun (a, r) => (c :: a, r)

def mQuoted (q : Char) (k : Kind) : M
  | [] => none
  | c :: cs => if c == q then (scanQuoted q cs).map fun (v, r) => ([⟨k, v⟩], r) else none

def isReFlag (c : Char) : Bool := c == 'a' || c == 'i' || c == 'm' || c == 's'

/-- `/(?P<G_RE>.+?)/(?P<G_RE_FLAGS>[aims]*)` (DOTALL): lazy — one arbitrary character, then up to the
    next slash; the flags greedily. -/
def mRe : M
  | '/' :: c :: cs =>
    let (p, r) := cs.span (· != '/')
    match r with
    | _ :: r' =>
      let (fl, r'') := r'.span isReFlag
      some ([⟨.rePattern, c :: p⟩, ⟨.reFlags, fl⟩], r'')
    | [] => none
  | _ => none

/-- `(?:\-?[0-9]+)?` — greedy; when what follows fails the whole rule fails whatever shorter choice
    is tried (a shorter digit run is followed by a digit) -/
def optInt (s : Str) : Str × Str :=
  match s with
  | '-' :: cs =>
    let (d, r) := cs.span Char.isDigit
    if d.isEmpty then ([], s) else ('-' :: d, r)
  | _ => s.span Char.isDigit

/-- `slice_list_pattern` -/
def mSlice (s : Str) : Option (List RawTok × Str) :=
  let (a, r1) := optInt s
  match skipWs r1 with
  | ':' :: r2 =>
    let (b, r3) := optInt (skipWs r2)
    let r4 := skipWs r3
    match r4 with
    | ':' :: r5 =>
      let (c, r6) := optInt (skipWs r5)
      some ([⟨.sliceStart, a⟩, ⟨.sliceStop, b⟩, ⟨.sliceStep, c⟩], r6)
    | _ => some ([⟨.sliceStart, a⟩, ⟨.sliceStop, b⟩, ⟨.sliceStep, []⟩], r4)
  | _ => none

def isFuncCont (c : Char) : Bool := c.isLower || c == '_' || c.isDigit

/-- the operator keywords, which are not function names: `(?:and|or|not|in|contains)` -/
def isKeywordOp (n : Str) : Bool :=
  n == ['a', 'n', 'd'] || n == ['o', 'r'] || n == ['n', 'o', 't'] || n == ['i', 'n'] ||
  n == ['c', 'o', 'n', 't', 'a', 'i', 'n', 's']

/-- `(?P<G_FUNC>(?!(?:and|or|not|in|contains)\()[a-z][a-z_0-9]+)\(\s*`: the name is the whole run of
    name characters (the run is followed by `(`, which is not a name character), and the look-ahead
    refuses exactly the runs that are an operator keyword -/
def mFunc : M
  | [] => none
  | c :: cs =>
    if c.isLower then
      let (n, r) := cs.span isFuncCont
      if n.isEmpty then none else
      match r with
      | '(' :: r' => if isKeywordOp (c :: n) then none else some ([⟨.func, c :: n⟩], skipWs r')
      | _ => none
    else none

/-- `key_pattern` -/
def scanKey : Str → Option (Str × Str)
  | [] => none
  | c :: cs => if keyStart c then let (n, r) := cs.span keyCont; some (c :: n, r) else none

/-- `\.(?P<G_PROP>key_pattern)` → PROPERTY -/
def mDotProp : M
  | '.' :: s => (scanKey s).map fun (n, r) => ([⟨.prop, n⟩], r)
  | _ => none

/-- `\.\.(?P<G_DPROP>key_pattern)` → DDOT, BARE_PROPERTY -/
def mDDotProp : M
  | '.' :: '.' :: s => (scanKey s).map fun (n, r) => ([⟨.ddot, ['.', '.']⟩, ⟨.bare, n⟩], r)
  | _ => none

/-- `(?:[eE][+-]?[0-9]+)?` -/
def optExp (s : Str) : Str × Str :=
  match s with
  | e :: cs =>
    if e == 'e' || e == 'E' then
      match cs with
      | sg :: ds =>
        if sg == '+' || sg == '-' then
          let (d, r) := ds.span Char.isDigit
          if d.isEmpty then ([], s) else (e :: sg :: d, r)
        else
          let (d, r) := cs.span Char.isDigit
          if d.isEmpty then ([], s) else (e :: d, r)
      | [] => ([], s)
    else ([], s)
  | [] => ([], s)

def optSign (s : Str) : Str × Str :=
  match s with
  | '-' :: cs => (['-'], cs)
  | _ => ([], s)

/-- `-?[0-9]+\.[0-9]*(?:[eE][+-]?[0-9]+)?` -/
def mFloat (s : Str) : Option (List RawTok × Str) :=
  let (sg, s1) := optSign s
  let (d, r) := s1.span Char.isDigit
  if d.isEmpty then none else
  match r with
  | '.' :: r1 =>
    let (f, r2) := r1.span Char.isDigit
    let (ex, r3) := optExp r2
    some ([⟨.flt, sg ++ d ++ '.' :: f ++ ex⟩], r3)
  | _ => none

/-- `-?[0-9]+(?P<G_EXP>[eE][+\-]?[0-9]+)?\b`: every shorter choice of digits / exponent ends between two
    word characters, so the rule matches iff the longest choice ends at a boundary. A negative exponent
    makes the token a FLOAT. -/
def mInt (uw : Char → Bool) (s : Str) : Option (List RawTok × Str) :=
  let (sg, s1) := optSign s
  let (d, r) := s1.span Char.isDigit
  if d.isEmpty then none else
  let (ex, r2) := optExp r
  if atBoundary uw r2 then
    let k := match ex with
      | _ :: '-' :: _ => Kind.flt
      | _ => Kind.int
    some ([⟨k, sg ++ d ++ ex⟩], r2)
  else none

/-- a literal -/
def mLit (k : Kind) (lit : Str) : M := fun s =>
  if lit.isPrefixOf s then some ([⟨k, lit⟩], s.drop lit.length) else none

/-- `word\b` -/
def mWord (uw : Char → Bool) (k : Kind) (w : Str) : M := fun s =>
  if w.isPrefixOf s && atBoundary uw (s.drop w.length) then some ([⟨k, w⟩], s.drop w.length) else none

def orElse (a b : M) : M := fun s =>
  match a s with
  | some r => some r
  | none => b s

/-- `[Xx]rest\b` -/
def mWordCI (uw : Char → Bool) (k : Kind) (upper lower : Char) (rest : Str) : M :=
  orElse (mWord uw k (upper :: rest)) (mWord uw k (lower :: rest))

/-- stable insertion, longest first (`sorted(env_tokens, key=len, reverse=True)`) -/
def insertByLen (x : Kind × Str) : List (Kind × Str) → List (Kind × Str)
  | [] => [x]
  | y :: ys => if x.2.length ≥ y.2.length then x :: y :: ys else y :: insertByLen x ys

def sortLongestFirst : List (Kind × Str) → List (Kind × Str)
  | [] => []
  | x :: xs => insertByLen x (sortLongestFirst xs)

/-- the spliced environment tokens: `re.escape`d literals, empty spellings dropped -/
def envRules (sp : Spell) : List M :=
  ((sortLongestFirst sp.envTokens).filter (fun t => !t.2.isEmpty)).map fun t => mLit t.1 t.2

/-- `[ \n\t\r]+|\.` — nothing is emitted -/
def mSkip : M
  | [] => none
  | c :: cs =>
    if c == ' ' || c == '\n' || c == '\t' || c == '\r' then
      some ([], cs.dropWhile (fun c => c == ' ' || c == '\n' || c == '\t' || c == '\r'))
    else if c == '.' then some ([], cs)
    else none

/-- the rule list of `compile_rules`, in order (ILLEGAL is the absence of a match) -/
def rules (cfg : Cfg) : List M :=
  let uw := cfg.uword
  [ mQuoted '"' .dq, mQuoted '\'' .sq, mRe, mSlice, mFunc, mDotProp, mFloat, mInt uw, mDDotProp,
    mLit .ddot ['.', '.'],
    orElse (mLit .and_ ['&', '&']) (mWord uw .and_ ['a', 'n', 'd']),
    orElse (mLit .or_ ['|', '|']) (mWord uw .or_ ['o', 'r']) ]
  ++ envRules cfg.spell ++
  [ mLit .wild ['*'], mLit .filter ['?'],
    mWord uw .in_ ['i', 'n'],
    mWordCI uw .true_ 'T' 't' ['r', 'u', 'e'],
    mWordCI uw .false_ 'F' 'f' ['a', 'l', 's', 'e'],
    mWordCI uw .nil 'N' 'n' ['i', 'l'],
    mWordCI uw .nil 'N' 'n' ['u', 'l', 'l'],       -- NULL is emitted as NIL
    mWordCI uw .nil 'N' 'n' ['o', 'n', 'e'],       -- NONE is emitted as NIL
    mWord uw .contains ['c', 'o', 'n', 't', 'a', 'i', 'n', 's'],
    mWord uw .undefined ['u', 'n', 'd', 'e', 'f', 'i', 'n', 'e', 'd'],
    mWord uw .missing ['m', 'i', 's', 's', 'i', 'n', 'g'],
    mLit .lbracket ['['], mLit .rbracket [']'], mLit .comma [','],
    mLit .eq ['=', '='], mLit .ne ['!', '='], mLit .lg ['<', '>'], mLit .le ['<', '='], mLit .ge ['>', '='],
    mLit .re ['=', '~'], mLit .lt ['<'], mLit .gt ['>'],
    orElse (mWord uw .not_ ['n', 'o', 't']) (mLit .not_ ['!']),
    fun s => (scanKey s).map fun (n, r) => ([⟨.bare, n⟩], r),
    mLit .lparen ['('], mLit .rparen [')'],
    mSkip ]

def firstMatch : List M → Str → Option (List RawTok × Str)
  | [], _ => none
  | m :: ms, s =>
    match m s with
    | some r => some r
    | none => firstMatch ms s

/-- `tokenize`: `finditer` over the alternation. The fuel (the length of the input) is never exhausted:
    every rule consumes at least one character. -/
def lexAux (cfg : Cfg) : Nat → Str → Res (List RawTok)
  | _, [] => .ok []
  | 0, _ :: _ => .error (.builtin .recursionError)
  | n + 1, s@(_ :: _) =>
    match firstMatch (rules cfg) s with
    | some (ts, rest) =>
      match lexAux cfg n rest with
      | .ok more => .ok (ts ++ more)
      | .error e => .error e
    | none => .error .pathSyntax                       -- TOKEN_ILLEGAL

def lexRaw (cfg : Cfg) (s : Str) : Res (List RawTok) := lexAux cfg s.length s

/-! ## String literals: `json.loads('"' + value + '"')` -/

def hexVal (c : Char) : Option Nat :=
  if c.isDigit then some (c.toNat - 48)
  else if 'a' ≤ c ∧ c ≤ 'f' then some (c.toNat - 87)
  else if 'A' ≤ c ∧ c ≤ 'F' then some (c.toNat - 55)
  else none

def hex4 (a b c d : Char) : Option Nat :=
  match hexVal a, hexVal b, hexVal c, hexVal d with
  | some a, some b, some c, some d => some (a * 4096 + b * 256 + c * 16 + d)
  | _, _, _, _ => none

inductive DecErr where
  | syntax        -- json.JSONDecodeError → JSONPathSyntaxError
  | surrogate     -- the result would hold a lone surrogate: a Python str outside the model
  deriving Repr, DecidableEq, Inhabited

def simpleEscape (c : Char) : Option Char :=
  if c == '"' then some '"' else if c == '\\' then some '\\' else if c == '/' then some '/'
  else if c == 'b' then some '\x08' else if c == 'f' then some '\x0c' else if c == 'n' then some '\n'
  else if c == 'r' then some '\r' else if c == 't' then some '\t' else none

/-- `py_scanstring(strict=True)` on the text between the quotes; an unescaped quote ends the JSON
    string early ("Extra data"), a control character is refused -/
def jsonBody : Str → Except DecErr Str
  | [] => .ok []
  | c :: rest =>
    if c == '\\' then
      match rest with
      | [] => .error .syntax
      | e :: rest1 =>
        if e == 'u' then
          match rest1 with
          | a :: b :: c2 :: d :: rest2 =>
            match hex4 a b c2 d with
            | none => .error .syntax
            | some n =>
              if 0xD800 ≤ n ∧ n ≤ 0xDBFF then
                match rest2 with
                | '\\' :: 'u' :: a' :: b' :: c' :: d' :: rest3 =>
                  match hex4 a' b' c' d' with
                  | none => .error .syntax
                  | some m =>
                    if 0xDC00 ≤ m ∧ m ≤ 0xDFFF then
                      (jsonBody rest3).map fun t => Char.ofNat (0x10000 + (n - 0xD800) * 0x400 + (m - 0xDC00)) :: t
                    else .error .surrogate
                | _ => .error .surrogate
              else if 0xDC00 ≤ n ∧ n ≤ 0xDFFF then .error .surrogate
              else (jsonBody rest2).map fun t => Char.ofNat n :: t
          | _ => .error .syntax
        else
          match simpleEscape e with
          | some x => (jsonBody rest1).map fun t => x :: t
          | none => .error .syntax
    else if c == '"' then .error .syntax
    else if c.toNat < 0x20 then .error .syntax
    else (jsonBody rest).map fun t => c :: t

/-- `token.value.replace('"', '\\"').replace("\\'", "'")` then `json.loads` -/
def decodeSQ (v : Str) : Except DecErr Str :=
  jsonBody (replace2 '\\' '\'' '\'' (replaceChar '"' ['\\', '"'] v))

def decodeDQ (v : Str) : Except DecErr Str := jsonBody v

/-! ## Numbers -/

/-- `int(text)` for `-?[0-9]+` -/
def intOfStr (s : Str) : Int :=
  match s with
  | '-' :: d => - (digitsVal d : Int)
  | d => (digitsVal d : Int)

def optIntVal (s : Str) : Option Int := if s.isEmpty then none else some (intOfStr s)

inductive CookErr where
  | syntax      -- the parser refuses the literal (`JSONPathSyntaxError`)
  | outside     -- a literal beyond the model's numbers (precision / range / lone surrogate)
  deriving Repr, DecidableEq, Inhabited

/-- mantissa digits (sign apart), fraction digits, exponent of a FLOAT/INT token text -/
structure Dec where
  neg : Bool
  digits : Str        -- integer digits followed by fraction digits
  scale : Int         -- value = digits × 10^scale
  deriving Repr

def expVal (ex : Str) : Int :=
  match ex with
  | _ :: '+' :: d => (digitsVal d : Int)
  | _ :: '-' :: d => - (digitsVal d : Int)
  | _ :: d => (digitsVal d : Int)
  | [] => 0

def parseDec (s : Str) : Dec :=
  let (sg, s1) := optSign s
  let (d, r) := s1.span Char.isDigit
  match r with
  | '.' :: r1 =>
    let (f, r2) := r1.span Char.isDigit
    { neg := !sg.isEmpty, digits := d ++ f, scale := expVal r2 - f.length }
  | _ => { neg := !sg.isEmpty, digits := d, scale := expVal r }

/-- eight times the value, when that is an integer of magnitude below 2^53 (then `float(text)` is exact) -/
def Dec.eighths (x : Dec) : Option Int :=
  let n := digitsVal x.digits * 8
  let v : Option Nat :=
    if x.scale ≥ 0 then
      if x.scale > 40 then (if n = 0 then some 0 else none) else some (n * 10 ^ x.scale.toNat)
    else
      let k := (-x.scale).toNat
      if k > 400 then (if n = 0 then some 0 else none)
      else if n % 10 ^ k = 0 then some (n / 10 ^ k) else none
  match v with
  | some v => if v < 2 ^ 53 then some (if x.neg then - (v : Int) else (v : Int)) else none
  | none => none

/-- `int(float(text))` for an INT token with an exponent, `int(text)` otherwise -/
def intLiteral (s : Str) : Except CookErr Int :=
  if s.any (fun c => c == 'e' || c == 'E') then
    match (parseDec s).eighths with
    | some m => if m % 8 = 0 then .ok (m / 8) else .error .outside
    | none => .error .outside
  else .ok (intOfStr s)

def fltLiteral (s : Str) : Except CookErr Int :=
  match (parseDec s).eighths with
  | some m => .ok m
  | none => .error .outside

/-! ## From raw tokens to the parser's tokens -/

inductive CTok where
  | tok (t : Tok)
  | union
  | inter
  deriving Repr, DecidableEq, Inhabited

def normFlags (fl : Str) : Str := ['a', 'i', 'm', 's'].filter (fun c => fl.contains c)

def ofDec : Except DecErr Str → Except CookErr Str
  | .ok s => .ok s
  | .error .syntax => .error .syntax
  | .error .surrogate => .error .outside

def cook : List RawTok → Except CookErr (List CTok)
  | [] => .ok []
  | ⟨.sliceStart, a⟩ :: ⟨.sliceStop, b⟩ :: ⟨.sliceStep, c⟩ :: rest =>
    (cook rest).map fun ts => .tok (.slice (optIntVal a) (optIntVal b) (optIntVal c)) :: ts
  | ⟨.rePattern, p⟩ :: ⟨.reFlags, fl⟩ :: rest =>
    (cook rest).map fun ts => .tok (.re p (normFlags fl)) :: ts
  | t :: rest =>
    let one : Except CookErr CTok :=
      match t.kind with
      | .dq => (ofDec (decodeDQ t.value)).map fun s => .tok (.str s)
      | .sq => (ofDec (decodeSQ t.value)).map fun s => .tok (.str s)
      | .func => .ok (.tok (.func t.value))
      | .prop => .ok (.tok (.prop t.value))
      | .bare => .ok (.tok (.bare t.value))
      | .flt => (fltLiteral t.value).map fun m => .tok (.flt m)
      | .int => (intLiteral t.value).map fun i => .tok (.int i)
      | .ddot => .ok (.tok .ddot)
      | .and_ => .ok (.tok (.op .and)) | .or_ => .ok (.tok (.op .or))
      | .root => .ok (.tok .root) | .fakeRoot => .ok (.tok .fakeRoot) | .self => .ok (.tok .self)
      | .key => .ok (.tok .key) | .fctx => .ok (.tok .ctx) | .keys => .ok (.tok .keys)
      | .union => .ok .union | .inter => .ok .inter
      | .wild => .ok (.tok .wild) | .filter => .ok (.tok .filter)
      | .in_ => .ok (.tok (.op .in_)) | .contains => .ok (.tok (.op .contains))
      | .true_ => .ok (.tok .true_) | .false_ => .ok (.tok .false_) | .nil => .ok (.tok .nil)
      | .undefined => .ok (.tok .undefined) | .missing => .ok (.tok .undefined)
      | .lbracket => .ok (.tok .lbracket) | .rbracket => .ok (.tok .rbracket) | .comma => .ok (.tok .comma)
      | .eq => .ok (.tok (.op .eq)) | .ne => .ok (.tok (.op .ne)) | .lg => .ok (.tok (.op .lg))
      | .le => .ok (.tok (.op .le)) | .ge => .ok (.tok (.op .ge)) | .re => .ok (.tok (.op .re))
      | .lt => .ok (.tok (.op .lt)) | .gt => .ok (.tok (.op .gt))
      | .not_ => .ok (.tok .not) | .lparen => .ok (.tok .lparen) | .rparen => .ok (.tok .rparen)
      | .rePattern | .reFlags | .sliceStart | .sliceStop | .sliceStep => .error .syntax   -- never emitted alone
    match one with
    | .ok c => (cook rest).map fun ts => c :: ts
    | .error e => .error e

/-- the tokens of a single (non-compound) query -/
def plainToks : List CTok → Option (List Tok)
  | [] => some []
  | .tok t :: rest => (plainToks rest).map fun ts => t :: ts
  | _ :: _ => none

/-! ## The serializer, as text -/

def opStr : CmpOp → Str
  | .eq => ['=', '='] | .ne => ['!', '='] | .lt => ['<'] | .gt => ['>'] | .le => ['<', '='] | .ge => ['>', '=']
  | .lg => ['<', '>'] | .and => ['&', '&'] | .or => ['|', '|'] | .in_ => ['i', 'n']
  | .contains => ['c', 'o', 'n', 't', 'a', 'i', 'n', 's'] | .re => ['=', '~']

def fracStr (r : Nat) : Str :=
  match r with
  | 0 => ['0'] | 1 => ['1', '2', '5'] | 2 => ['2', '5'] | 3 => ['3', '7', '5'] | 4 => ['5']
  | 5 => ['6', '2', '5'] | 6 => ['7', '5'] | _ => ['8', '7', '5']

/-- `repr(m / 8)` for a float of moderate size (positional notation, exact) -/
def fltStr (m : Int) : Str :=
  (if m < 0 then ['-'] else []) ++ natStr (m.natAbs / 8) ++ '.' :: fracStr (m.natAbs % 8)

def optIntStr : Option Int → Str
  | none => []
  | some i => intStr i

def commaSp : Str := [',', ' ']

mutual
  /-- `str(expr)` -/
  def pstrE (sp : Spell) : Expr → Str
    | .nil => ['n', 'i', 'l']
    | .undefined => ['u', 'n', 'd', 'e', 'f', 'i', 'n', 'e', 'd']
    | .bool b => if b then ['t', 'r', 'u', 'e'] else ['f', 'a', 'l', 's', 'e']
    | .int i => intStr i
    | .flt m => fltStr m
    | .str s => canonicalString s
    | .regex p f => '/' :: p ++ '/' :: f
    | .list items => '[' :: pstrArgs sp items ++ [']']
    | .not e =>
      match e with
      | .infix l op r =>
        if isLogical op then '!' :: pstrE sp (.infix l op r)
        else '!' :: '(' :: pstrE sp (.infix l op r) ++ [')']
      | e => '!' :: pstrE sp e
    | .infix l op r =>
      if isLogical op then '(' :: pstrE sp l ++ ' ' :: opStr op ++ ' ' :: pstrE sp r ++ [')']
      else pstrOperand sp l ++ ' ' :: opStr op ++ ' ' :: pstrOperand sp r
    | .self q => sp.self ++ pstrSegs sp q
    | .root q fake => (if fake then sp.fakeRoot else sp.root) ++ pstrSegs sp q
    | .ctx q => sp.fctx ++ pstrSegs sp q
    | .func name args => name ++ '(' :: pstrArgs sp args ++ [')']
    | .key => sp.key

  def pstrOperand (sp : Spell) : Expr → Str
    | .infix l op r =>
      if isLogical op then pstrE sp (.infix l op r)
      else '(' :: pstrE sp (.infix l op r) ++ [')']
    | e => pstrE sp e

  def pstrArgs (sp : Spell) : List Expr → Str
    | [] => []
    | [e] => pstrE sp e
    | e :: es => pstrE sp e ++ commaSp ++ pstrArgs sp es

  /-- `BooleanExpression._canonical_string` -/
  def pstrCanon (sp : Spell) (parent : Nat) : Expr → Str
    | .infix l .and r =>
      let inner := pstrCanon sp 4 l ++ [' ', '&', '&', ' '] ++ pstrCanon sp 4 r
      if parent ≥ 4 then '(' :: inner ++ [')'] else inner
    | .infix l .or r =>
      let inner := pstrCanon sp 3 l ++ [' ', '|', '|', ' '] ++ pstrCanon sp 3 r
      if parent ≥ 3 then '(' :: inner ++ [')'] else inner
    | .not e =>
      let operand := pstrCanon sp 7 e
      let operand := match e with
        | .infix _ op _ => if isLogical op then operand else '(' :: operand ++ [')']
        | _ => operand
      let inner := '!' :: operand
      if parent > 7 then '(' :: inner ++ [')'] else inner
    | e => pstrE sp e

  def pstrSel (sp : Spell) : Sel → Str
    | .name s => canonicalString s
    | .index i => intStr i
    | .slice a b c => optIntStr a ++ ':' :: optIntStr b ++ ':' :: intStr (c.getD 1)
    | .wild => ['*']
    | .keys => sp.keys
    | .filter e => '?' :: pstrCanon sp 1 e

  def pstrSels (sp : Spell) : List Sel → Str
    | [] => []
    | [s] => pstrSel sp s
    | s :: ss => pstrSel sp s ++ commaSp ++ pstrSels sp ss

  def pstrSegs (sp : Spell) : List Seg → Str
    | [] => []
    | .child sels :: rest => '[' :: pstrSels sp sels ++ ']' :: pstrSegs sp rest
    | .desc :: rest => '.' :: '.' :: pstrSegs sp rest
end

/-- `str(JSONPath)` -/
def pstrPath (sp : Spell) (p : Path) : Str := (if p.fake then sp.fakeRoot else sp.root) ++ pstrSegs sp p.segs

/-- `str(CompoundJSONPath)` -/
def pstrCompound (sp : Spell) (c : Compound) : Str :=
  pstrPath sp c.first ++ (c.rest.map fun (u, p) => ' ' :: (if u then sp.union else sp.inter) ++ ' ' :: pstrPath sp p).flatten

/-! ## The source this model was written for -/

/-- the rule list of `compile_rules` (kinds and pattern texts), the class-level patterns and the
    patterns built in `__init__`, as the translator reads them from `lex.py` -/
def sourceOK (rulesTbl : List (String × String)) (classPats initPats : List (String × String)) : Bool :=
  rulesTbl == [("TOKEN_DOUBLE_QUOTE_STRING", "<double_quote_pattern>"), ("TOKEN_SINGLE_QUOTE_STRING", "<single_quote_pattern>"),
    ("TOKEN_RE_PATTERN", "<re_pattern>"), ("TOKEN_LIST_SLICE", "<slice_list_pattern>"), ("TOKEN_FUNCTION", "<function_pattern>"),
    ("TOKEN_DOT_PROPERTY", "<dot_property_pattern>"), ("TOKEN_FLOAT", "-?[0-9]+\\.[0-9]*(?:[eE][+-]?[0-9]+)?"),
    ("TOKEN_INT", "-?[0-9]+(?P<G_EXP>[eE][+\\-]?[0-9]+)?\\b"), ("TOKEN_DDOT_PROPERTY", "<ddot_property_pattern>"),
    ("TOKEN_DDOT", "\\.\\."), ("TOKEN_AND", "<logical_and_pattern>"), ("TOKEN_OR", "<logical_or_pattern>"), ("<ENV_TOKENS>", ""),
    ("TOKEN_WILD", "\\*"), ("TOKEN_FILTER", "\\?"), ("TOKEN_IN", "in\\b"), ("TOKEN_TRUE", "[Tt]rue\\b"), ("TOKEN_FALSE", "[Ff]alse\\b"),
    ("TOKEN_NIL", "[Nn]il\\b"), ("TOKEN_NULL", "[Nn]ull\\b"), ("TOKEN_NONE", "[Nn]one\\b"), ("TOKEN_CONTAINS", "contains\\b"),
    ("TOKEN_UNDEFINED", "undefined\\b"), ("TOKEN_MISSING", "missing\\b"), ("TOKEN_LIST_START", "\\["), ("TOKEN_RBRACKET", "]"),
    ("TOKEN_COMMA", ","), ("TOKEN_EQ", "=="), ("TOKEN_NE", "!="), ("TOKEN_LG", "<>"), ("TOKEN_LE", "<="), ("TOKEN_GE", ">="),
    ("TOKEN_RE", "=~"), ("TOKEN_LT", "<"), ("TOKEN_GT", ">"), ("TOKEN_NOT", "<logical_not_pattern>"),
    ("TOKEN_BARE_PROPERTY", "<key_pattern>"), ("TOKEN_LPAREN", "\\("), ("TOKEN_RPAREN", "\\)"),
    ("TOKEN_SKIP", "[ \\n\\t\\r]+|\\."), ("TOKEN_ILLEGAL", ".")] &&
  classPats == [("key_pattern", "[\\u0080-\\U0010FFFFa-zA-Z_][\\u0080-\\U0010FFFFa-zA-Z0-9_-]*"),
    ("logical_and_pattern", "&&|(?:and\\b)"), ("logical_not_pattern", "(?:not\\b)|!"), ("logical_or_pattern", "\\|\\||(?:or\\b)")] &&
  initPats == [("double_quote_pattern", "\"(?P<G_DQUOTE>(?:[^\"\\\\]|\\\\.)*)\""),
    ("single_quote_pattern", "'(?P<G_SQUOTE>(?:[^'\\\\]|\\\\.)*)'"),
    ("dot_property_pattern", "\\.(?P<G_PROP>{key_pattern})"),
    ("ddot_property_pattern", "\\.\\.(?P<G_DPROP>{key_pattern})"),
    ("slice_list_pattern", "(?P<G_LSLICE_START>(?:\\-?[0-9]+)?)\\s*:\\s*(?P<G_LSLICE_STOP>(?:\\-?[0-9]+)?)\\s*(?::\\s*(?P<G_LSLICE_STEP>(?:\\-?[0-9]+)?))?"),
    ("re_pattern", "/(?P<G_RE>.+?)/(?P<G_RE_FLAGS>[aims]*)"),
    ("function_pattern", "(?P<G_FUNC>(?!(?:and|or|not|in|contains)\\()[a-z][a-z_0-9]+)\\(\\s*"), ("<flags>", "DOTALL")]


/-! ## Text to tokens, text to query -/

/-- `tokenize` followed by the parser's literal decoding -/
def tokenize (cfg : Cfg) (s : Str) : Except CookErr (List CTok) :=
  match lexRaw cfg s with
  | .ok ts => cook ts
  | .error _ => .error .syntax

/-- `compile(text)` for a single (non-compound) query, in the model: lexer, literal decoding, parser -/
def compileText (pr : Prec) (cfg : Cfg) (s : Str) : Option Path :=
  match tokenize cfg s with
  | .ok cs =>
    match plainToks cs with
    | some ts =>
      match parseQuery pr ts with
      | .ok p => some p
      | .error _ => none
    | none => none
  | .error _ => none

def ptoksCompound (c : Compound) : List CTok :=
  (ptoksPath c.first).map CTok.tok ++
    (c.rest.map fun (u, p) => (if u then CTok.union else CTok.inter) :: (ptoksPath p).map CTok.tok).flatten

/-! ## What the printer can print so that the lexer reads it back

Function names and regular-expression literals in a *compiled* query come from the lexer, so they have
the lexer's shape; float literals are exact below 2^53 eighths. -/

def funcNameOK (n : Str) : Bool :=
  match n with
  | c :: cs => c.isLower && !cs.isEmpty && cs.all isFuncCont && !isKeywordOp n
  | [] => false

def rePatOK (p : Str) : Bool :=
  match p with
  | _ :: cs => cs.all (· != '/')
  | [] => false

def reFlagsOK (f : Str) : Bool := normFlags f == f

def fltOK (m : Int) : Bool := decide (m.natAbs < 2 ^ 53)

mutual
  def printableE : Expr → Bool
    | .flt m => fltOK m
    | .regex p f => rePatOK p && reFlagsOK f
    | .list items => printableEs items
    | .not e => printableE e
    | .infix l _ r => printableE l && printableE r
    | .self q => printableSegs q
    | .root q _ => printableSegs q
    | .ctx q => printableSegs q
    | .func name args => funcNameOK name && printableEs args
    | _ => true
  def printableEs : List Expr → Bool
    | [] => true
    | e :: es => printableE e && printableEs es
  def printableSel : Sel → Bool
    | .filter e => printableE e
    | _ => true
  def printableSels : List Sel → Bool
    | [] => true
    | s :: ss => printableSel s && printableSels ss
  def printableSegs : List Seg → Bool
    | [] => true
    | .child sels :: rest => printableSels sels && printableSegs rest
    | .desc :: rest => printableSegs rest
end

/-! ## RFC 9535 §2.3.1.1: the spellings of a string literal -/

/-- `unescaped`: %x20-21 / %x23-26 / %x28-5B / %x5D-D7FF / %xE000-10FFFF -/
def rfcUnescaped (c : Char) : Bool :=
  let n := c.toNat
  decide (0x20 ≤ n) && c != '"' && c != '\'' && c != '\\'

def isHexDigit (c : Char) : Bool := (hexVal c).isSome

/-- one character of the value and one way the grammar lets it be written inside quotes `q` -/
inductive CharSpell (q : Char) : Char → Str → Prop
  | unescaped (c : Char) (h : rfcUnescaped c = true) : CharSpell q c [c]
  | otherQuote (c : Char) (h : (c = '"' ∨ c = '\'') ∧ c ≠ q) : CharSpell q c [c]
  | quote : CharSpell q q ['\\', q]
  | bs : CharSpell q '\\' ['\\', '\\']
  | slash : CharSpell q '/' ['\\', '/']
  | b : CharSpell q '\x08' ['\\', 'b']
  | f : CharSpell q '\x0c' ['\\', 'f']
  | n : CharSpell q '\n' ['\\', 'n']
  | r : CharSpell q '\r' ['\\', 'r']
  | t : CharSpell q '\t' ['\\', 't']
  /-- `\uXXXX`, any case, for a character of the basic plane -/
  | hex (c : Char) (a b' c' d : Char) (h : hex4 a b' c' d = some c.toNat) (hb : c.toNat < 0xD800 ∨ 0xE000 ≤ c.toNat) :
      CharSpell q c ['\\', 'u', a, b', c', d]
  /-- a surrogate pair `\uD8xx\uDCxx` for a character beyond the basic plane -/
  | pair (c : Char) (a b' c' d e f' g h' : Char) (hi lo : Nat)
      (h1 : hex4 a b' c' d = some hi) (h2 : hex4 e f' g h' = some lo)
      (hhi : 0xD800 ≤ hi ∧ hi ≤ 0xDBFF) (hlo : 0xDC00 ≤ lo ∧ lo ≤ 0xDFFF)
      (hc : c.toNat = 0x10000 + (hi - 0xD800) * 0x400 + (lo - 0xDC00)) :
      CharSpell q c ['\\', 'u', a, b', c', d, '\\', 'u', e, f', g, h']

/-- `Spells q s w`: `w` is a way to write the string `s` between quotes `q` -/
inductive Spells (q : Char) : Str → Str → Prop
  | nil : Spells q [] []
  | cons {c : Char} {w : Str} {s t : Str} (h : CharSpell q c w) (rest : Spells q s t) : Spells q (c :: s) (w ++ t)

/-- the literal decoding the parser applies to a quoted token -/
def decodeQ (q : Char) (v : Str) : Except DecErr Str := if q == '\'' then decodeSQ v else decodeDQ v

/-- the text between the quotes of `canonical_string(s)` -/
def sqBody (s : Str) : Str := replaceChar '\'' ['\\', '\''] (replace2 '\\' '"' '"' (jsonEscape s))

/-! ## Spellings the lexer reads back unambiguously -/

/-- symbol characters that no fixed rule of the lexer starts with -/
def safeChar (c : Char) : Bool :=
  c == '$' || c == '@' || c == '#' || c == '_' || c == '~' || c == '^' || c == '%' || c == '+' || c == '|' || c == '&'

def startsWith2 (s : Str) (a b : Char) : Bool :=
  match s with
  | x :: y :: _ => x == a && y == b
  | _ => false

/-- one spelling: non-empty, made of symbol characters, not beginning like `&&` or `||` -/
def okSpelling (s : Str) : Bool := !s.isEmpty && s.all safeChar && !startsWith2 s '&' '&' && !startsWith2 s '|' '|'

def pairwiseDistinct : List Str → Bool
  | [] => true
  | x :: xs => !xs.contains x && pairwiseDistinct xs

/-- a set of identifier spellings the model proves to be read back as intended: every spelling is made of the
    symbol characters `$ @ # _ ~ ^ % + | &`, none begins like the fixed `&&` / `||`, and they are pairwise
    distinct. One may be a prefix of another (`$` / `$$`): the longest-first splice decides. -/
def ValidSpell (sp : Spell) : Bool :=
  (sp.envTokens.map (·.2)).all okSpelling && pairwiseDistinct (sp.envTokens.map (·.2))

end Lex
end JP
