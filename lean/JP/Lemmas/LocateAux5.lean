/-
  Every node of an RFC 9535 nodelist (filter-free query, duplicate-free document) sits at its
  location: `locValue doc r.loc = some r.val` (C03).
-/
import JP.Lemmas.LocateAux1
import JP.Lemmas.Query
namespace JP.Lemmas
open JP JP.Query

/-- the RFC node is where it says it is -/
def Located (doc : J) (r : Rfc.RNode) : Prop := locValue doc r.loc = some r.val

theorem representsAll_mem {ns : List Node} {rs : List Rfc.RNode} (h : RepresentsAll ns rs) :
    ∀ n ∈ ns, ∃ r ∈ rs, Represents n r := by
  induction ns generalizing rs with
  | nil => intro n hn; cases hn
  | cons n0 ns ih =>
    cases rs with
    | nil => exact absurd h (by simp [RepresentsAll])
    | cons r0 rs =>
      obtain ⟨h0, hrest⟩ := h
      intro n hn
      rcases List.mem_cons.1 hn with rfl | hn
      · exact ⟨r0, by simp, h0⟩
      · obtain ⟨r, hr, hrep⟩ := ih hrest n hn
        exact ⟨r, by simp [hr], hrep⟩

theorem mem_enumFrom {α} {xs : List α} {s i : Nat} {v : α} (h : (i, v) ∈ enumFrom s xs) :
    s ≤ i ∧ xs[i - s]? = some v := by
  induction xs generalizing s with
  | nil => cases h
  | cons x xs ih =>
    simp only [enumFrom, List.mem_cons, Prod.mk.injEq] at h
    rcases h with ⟨rfl, rfl⟩ | h
    · simp
    · obtain ⟨h1, h2⟩ := ih h
      refine ⟨by omega, ?_⟩
      have : i - s = (i - (s + 1)) + 1 := by omega
      rw [this, List.getElem?_cons_succ]; exact h2

section
variable (doc : J) (hwf : doc.wf = true)
include hwf

omit hwf in
theorem located_member' {r : Rfc.RNode} (hr : Located doc r) {kvs : List (Str × J)}
    (hv : r.val = .obj kvs) {k : Str} {v : J} (hd : dictGet kvs k = some v) :
    Located doc ⟨r.loc ++ [.name k], v⟩ := by
  unfold Located at hr ⊢
  rw [hv] at hr
  exact locValue_append hr (by simp [locValue_obj_name, hd])

omit hwf in
theorem located_elem {r : Rfc.RNode} (hr : Located doc r) {xs : List J}
    (hv : r.val = .arr xs) {n : Nat} {v : J} (hd : xs[n]? = some v) :
    Located doc ⟨r.loc ++ [.index n], v⟩ := by
  unfold Located at hr ⊢
  rw [hv] at hr
  exact locValue_append hr (by simp [locValue_arr_index, hd])

theorem located_children {r : Rfc.RNode} (hr : Located doc r) :
    ∀ c ∈ Rfc.children r, Located doc c := by
  have hrwf : r.val.wf = true := locValue_wf hr hwf
  intro c hc
  unfold Rfc.children at hc
  split at hc
  · rename_i kvs hv
    obtain ⟨⟨k, v⟩, hm, rfl⟩ := List.mem_map.1 hc
    rw [hv] at hrwf
    exact located_member' doc hr hv
      (pa_dictGet_of_mem_nodup kvs k v hm ((pa_wf_obj kvs).1 hrwf).1)
  · rename_i xs hv
    obtain ⟨⟨i, v⟩, hm, rfl⟩ := List.mem_map.1 hc
    have := (mem_enumFrom hm).2
    exact located_elem doc hr hv (by simpa using this)
  · cases hc

theorem located_evalSel (renv : Rfc.REnv) {r : Rfc.RNode} (hr : Located doc r) (s : Sel)
    (hs : plainSel s = true) : ∀ x ∈ Rfc.evalSel renv r s, Located doc x := by
  intro x hx
  cases s with
  | name k =>
    simp only [Rfc.evalSel] at hx
    split at hx
    · rename_i kvs hv
      split at hx
      · rename_i v hd
        simp only [List.mem_singleton] at hx; subst hx
        exact located_member' doc hr hv hd
      · cases hx
    · cases hx
  | index i =>
    simp only [Rfc.evalSel] at hx
    split at hx
    · rename_i xs hv
      split at hx
      · split at hx
        · rename_i v hd
          simp only [List.mem_singleton] at hx; subst hx
          exact located_elem doc hr hv hd
        · cases hx
      · cases hx
    · rename_i kvs hv
      split at hx
      · rename_i v hd
        simp only [List.mem_singleton] at hx; subst hx
        exact located_member' doc hr hv hd
      · cases hx
    · cases hx
  | slice start stop step =>
    simp only [Rfc.evalSel] at hx
    split at hx
    · rename_i xs hv
      obtain ⟨i, _, hi⟩ := List.mem_filterMap.1 hx
      split at hi
      · split at hi
        · rename_i v hd
          simp only [Option.some.injEq] at hi; subst hi
          exact located_elem doc hr hv hd
        · cases hi
      · cases hi
    · cases hx
  | wild =>
    simp only [Rfc.evalSel] at hx
    exact located_children doc hwf hr x hx
  | keys => simp [plainSel] at hs
  | filter e => simp [plainSel] at hs

theorem located_evalSels (renv : Rfc.REnv) {r : Rfc.RNode} (hr : Located doc r) (sels : List Sel)
    (hs : plainSels sels = true) : ∀ x ∈ Rfc.evalSels renv r sels, Located doc x := by
  induction sels with
  | nil => intro x hx; simp [Rfc.evalSels] at hx
  | cons s ss ih =>
    simp only [plainSels, Bool.and_eq_true] at hs
    intro x hx
    simp only [Rfc.evalSels, List.mem_append] at hx
    rcases hx with hx | hx
    · exact located_evalSel doc hwf renv hr s hs.1 x hx
    · exact ih hs.2 x hx

/-! ### descendants -/

def DescLocated (doc : J) (v : J) : Prop :=
  ∀ loc, locValue doc loc = some v → ∀ x ∈ Rfc.descendantsOrSelf.go loc v, Located doc x

omit hwf in
theorem located_goMembers (loc : List Rfc.LStep) (kvs : List (Str × J))
    (ih : ∀ kv ∈ kvs, DescLocated doc kv.2)
    (hl : ∀ kv ∈ kvs, locValue doc (loc ++ [.name kv.1]) = some kv.2) :
    ∀ x ∈ Rfc.descendantsOrSelf.goMembers loc kvs, Located doc x := by
  induction kvs with
  | nil => intro x hx; simp [Rfc.descendantsOrSelf.goMembers] at hx
  | cons kv kvs ihk =>
    obtain ⟨k, v⟩ := kv
    intro x hx
    simp only [Rfc.descendantsOrSelf.goMembers, List.mem_append] at hx
    rcases hx with hx | hx
    · exact ih (k, v) (by simp) _ (hl (k, v) (by simp)) x hx
    · exact ihk (fun kv h => ih kv (by simp [h])) (fun kv h => hl kv (by simp [h])) x hx

omit hwf in
theorem located_goElems (loc : List Rfc.LStep) (xs : List J)
    (ih : ∀ v ∈ xs, DescLocated doc v) :
    ∀ i, (∀ j v, xs[j]? = some v → locValue doc (loc ++ [.index (i + j)]) = some v) →
    ∀ x ∈ Rfc.descendantsOrSelf.goElems loc i xs, Located doc x := by
  induction xs with
  | nil => intro i _ x hx; simp [Rfc.descendantsOrSelf.goElems] at hx
  | cons v xs ihx =>
    intro i hl x hx
    simp only [Rfc.descendantsOrSelf.goElems, List.mem_append] at hx
    rcases hx with hx | hx
    · exact ih v (by simp) _ (by simpa using hl 0 v (by simp)) x hx
    · refine ihx (fun w h => ih w (by simp [h])) (i + 1) ?_ x hx
      intro j w hj
      have := hl (j + 1) w (by simpa using hj)
      have e : i + 1 + j = i + (j + 1) := by omega
      rw [e]; exact this

theorem descLocated_all (v : J) : DescLocated doc v := by
  have prim : ∀ v : J, v.isContainer = false → DescLocated doc v := by
    intro v hv loc hl x hx
    have e : Rfc.descendantsOrSelf.go loc v = [⟨loc, v⟩] := by
      cases v <;> simp_all [Rfc.descendantsOrSelf.go, J.isContainer]
    rw [e] at hx
    simp only [List.mem_singleton] at hx; subst hx
    exact hl
  induction v using JP.Lemmas.J.induct with
  | hnull => exact prim _ rfl
  | hbool b => exact prim _ rfl
  | hint i => exact prim _ rfl
  | hflt m => exact prim _ rfl
  | hstr s => exact prim _ rfl
  | harr xs ih =>
    intro loc hl x hx
    simp only [Rfc.descendantsOrSelf.go, List.mem_cons] at hx
    rcases hx with rfl | hx
    · exact hl
    · refine located_goElems doc loc xs ih 0 ?_ x hx
      intro j w hj
      exact locValue_append hl (by simp [locValue_arr_index, hj])
  | hobj kvs ih =>
    intro loc hl x hx
    simp only [Rfc.descendantsOrSelf.go, List.mem_cons] at hx
    rcases hx with rfl | hx
    · exact hl
    · have hvwf : (J.obj kvs).wf = true := locValue_wf hl hwf
      refine located_goMembers doc loc kvs ih ?_ x hx
      intro kv hkv
      have hd := pa_dictGet_of_mem_nodup kvs kv.1 kv.2 hkv ((pa_wf_obj kvs).1 hvwf).1
      exact locValue_append hl (by simp [locValue_obj_name, hd])

theorem located_desc {r : Rfc.RNode} (hr : Located doc r) :
    ∀ x ∈ Rfc.descendantsOrSelf r, Located doc x :=
  descLocated_all doc hwf r.val r.loc hr

theorem located_evalSegs (renv : Rfc.REnv) : ∀ (segs : List Seg) (rs : List Rfc.RNode)
    (_ : plainSegs segs = true) (_ : Rfc.wellFormedSegs segs = true)
    (_ : ∀ r ∈ rs, Located doc r), ∀ x ∈ Rfc.evalSegs renv segs rs, Located doc x
  | [], rs, _, _, hr => by simpa [Rfc.evalSegs] using hr
  | .child sels :: rest, rs, hp, hw, hr => by
    simp only [plainSegs, Bool.and_eq_true] at hp
    simp only [Rfc.wellFormedSegs] at hw
    simp only [Rfc.evalSegs]
    refine located_evalSegs renv rest _ hp.2 hw ?_
    intro x hx
    obtain ⟨r, hrm, hx⟩ := List.mem_flatMap.1 hx
    exact located_evalSels doc hwf renv (hr r hrm) sels hp.1 x hx
  | .desc :: .child sels :: rest, rs, hp, hw, hr => by
    simp only [plainSegs, Bool.and_eq_true] at hp
    simp only [Rfc.wellFormedSegs] at hw
    simp only [Rfc.evalSegs]
    refine located_evalSegs renv rest _ hp.2 hw ?_
    intro x hx
    obtain ⟨r, hrm, hx⟩ := List.mem_flatMap.1 hx
    obtain ⟨d, hdm, hx⟩ := List.mem_flatMap.1 hx
    exact located_evalSels doc hwf renv (located_desc doc hwf (hr r hrm) d hdm) sels hp.1 x hx
  | [.desc], _, _, hw, _ => by simp [Rfc.wellFormedSegs] at hw
  | .desc :: .desc :: _, _, _, hw, _ => by simp [Rfc.wellFormedSegs] at hw

end

/-- `match_located` for duplicate-free documents. -/
theorem match_located_wf (rx : Rx) (segs : List Seg) (doc extra : J) (hwf : doc.wf = true)
    (hp : plainSegs segs = true) (hw : Rfc.wellFormedSegs segs = true) :
    ∀ n ∈ finditer rx ⟨segs, false⟩ doc extra,
      ∃ loc, n.parts = locParts loc ∧ n.path = Rfc.normalizedPath loc ∧ locValue doc loc = some n.val := by
  intro n hn
  have hrep : RepresentsAll (finditer rx ⟨segs, false⟩ doc extra) (Rfc.query rx segs doc) := by
    unfold finditer Rfc.query
    exact segs_refines_rfc _ _ segs _ _ hp hw ⟨⟨rfl, rfl, rfl⟩, trivial⟩
  obtain ⟨r, hr, h1, h2, h3⟩ := representsAll_mem hrep n hn
  have hloc : Located doc r := by
    refine located_evalSegs doc hwf ⟨rx, doc⟩ segs [⟨[], doc⟩] hp hw ?_ r hr
    intro r0 hr0
    simp only [List.mem_singleton] at hr0; subst hr0
    simp [Located]
  exact ⟨r.loc, h1, h2, by rw [h3]; exact hloc⟩

end JP.Lemmas
