/-
  RfcSpellF helpers, part 2: the lexer on the tokens of a filter expression, written without blanks around
  them: what may follow a token, blanks, operators, keywords, `!`, function names.
-/
import JP.Lemmas.RfcSpellFAux1
set_option linter.unusedSimpArgs false
namespace JP.Lemmas.RfcSpellF
open JP JP.Query JP.Surface JP.Lex JP.RfcSpell JP.RfcSpellF JP.Lemmas.LexPrint JP.Lemmas.RfcSpell

/-! ### what follows a piece of a filter expression -/

/-- a delimiter: `)`, `]`, `,` or the first character of a binary operator -/
def dlc (c : Char) : Bool :=
  c == ')' || c == ']' || c == ',' || c == '=' || c == '!' || c == '<' || c == '>' || c == '&' || c == '|'

def dlm : Str → Bool
  | [] => true
  | c :: _ => dlc c

/-- blanks, then a delimiter or the end of the text -/
def Fol (rest : Str) : Prop := ∃ bl r, isS bl = true ∧ dlm r = true ∧ rest = bl ++ r

/-- a blank or a delimiter -/
def flc (c : Char) : Bool := isB c || dlc c

theorem dlc_cases {c : Char} (h : dlc c = true) :
    c = ')' ∨ c = ']' ∨ c = ',' ∨ c = '=' ∨ c = '!' ∨ c = '<' ∨ c = '>' ∨ c = '&' ∨ c = '|' := by
  simpa [dlc, or_assoc] using h

theorem flc_cases {c : Char} (h : flc c = true) :
    c = ' ' ∨ c = '\t' ∨ c = '\n' ∨ c = '\r' ∨ c = ')' ∨ c = ']' ∨ c = ',' ∨ c = '=' ∨ c = '!' ∨ c = '<' ∨
      c = '>' ∨ c = '&' ∨ c = '|' := by
  simp only [flc, Bool.or_eq_true] at h
  rcases h with h | h
  · rcases isB_cases h with h | h | h | h <;> simp [h]
  · rcases dlc_cases h with h | h | h | h | h | h | h | h | h <;> simp [h]

theorem flc_facts (uw : Char → Bool) {c : Char} (h : flc c = true) :
    isWord uw c = false ∧ isFuncCont c = false ∧ keyCont c = false ∧ c.isDigit = false ∧ c ≠ '.' ∧ c ≠ 'e' ∧
      c ≠ 'E' ∧ c ≠ ':' ∧ c ≠ '(' := by
  rcases flc_cases h with h | h | h | h | h | h | h | h | h | h | h | h | h <;> subst h <;>
    refine ⟨by simp [isWord], by decide, by decide, by decide, by decide, by decide, by decide, by decide, by decide⟩

/-- the head of a followed text -/
def folH : Str → Bool
  | [] => true
  | c :: _ => flc c

theorem fol_head {rest : Str} (h : Fol rest) : folH rest = true := by
  obtain ⟨bl, r, hb, hr, rfl⟩ := h
  cases bl with
  | nil =>
    cases r with
    | nil => rfl
    | cons c t => simp only [List.nil_append, folH, flc, Bool.or_eq_true]; exact .inr hr
  | cons c t => simp only [List.cons_append, folH, flc, Bool.or_eq_true]; exact .inl (isS_cons.mp hb).1

theorem folH_cases {rest : Str} (h : folH rest = true) : rest = [] ∨ ∃ c t, rest = c :: t ∧ flc c = true := by
  cases rest with
  | nil => exact .inl rfl
  | cons c t => exact .inr ⟨c, t, rfl, h⟩

theorem dlm_nb {r : Str} (h : dlm r = true) : nb r = true := by
  cases r with
  | nil => rfl
  | cons c t =>
    rcases dlc_cases h with h | h | h | h | h | h | h | h | h <;> subst h <;> rfl

theorem dlm_stops_blank {r : Str} (h : dlm r = true) : stops isPyBlank r = true := by
  cases r with
  | nil => rfl
  | cons c t =>
    rcases dlc_cases h with h | h | h | h | h | h | h | h | h <;> subst h <;> rfl

theorem fol_dlm {r : Str} (h : dlm r = true) : Fol r := ⟨[], r, rfl, h, rfl⟩

theorem fol_blanks {bl r : Str} (hb : isS bl = true) (h : dlm r = true) : Fol (bl ++ r) := ⟨bl, r, hb, h, rfl⟩

theorem fol_nil : Fol [] := ⟨[], [], rfl, rfl, rfl⟩

theorem fol_skipWs {rest : Str} (h : Fol rest) (t : Str) : skipWs rest ≠ ':' :: t := by
  obtain ⟨bl, r, hb, hr, rfl⟩ := h
  rw [skipWs_blanks hb (dlm_stops_blank hr)]
  rintro rfl
  simp [dlm, dlc] at hr

/-- a name does not go on into a followed text -/
theorem folH_keyCont {rest : Str} (h : folH rest = true) : ∀ d r, rest = d :: r → keyCont d = false := by
  intro d r e
  subst e
  exact (flc_facts (fun _ => true) h).2.2.1

/-! ### blanks before anything that is not a blank or a colon -/

theorem dropWhile_blanks' {w rest : Str} (hw : isS w = true) (hr : nb rest = true) :
    (w ++ rest).dropWhile (fun c => c == ' ' || c == '\n' || c == '\t' || c == '\r') = rest := by
  induction w with
  | nil =>
    rcases nb_cases hr with rfl | ⟨c, t, rfl, hc, _⟩
    · rfl
    · obtain ⟨h1, h2, h3, h4⟩ := blank_ne hc
      simp [h1, h2, h3, h4]
  | cons c w ih =>
    obtain ⟨h1, h2⟩ := isS_cons.mp hw
    have := ih h2
    rcases isB_cases h1 with rfl | rfl | rfl | rfl <;> simpa using this

theorem nb_stops {rest : Str} (h : nb rest = true) : stops isPyBlank rest = true := by
  rcases nb_cases h with rfl | ⟨c, t, rfl, hc, _⟩
  · rfl
  · simp [stops, hc]

theorem mSlice_blanks' (c : Char) (w rest : Str) (hc : isB c = true) (hw : isS w = true) (hr : nb rest = true) :
    mSlice (c :: (w ++ rest)) = none := by
  have h1 : optInt (c :: (w ++ rest)) = ([], c :: (w ++ rest)) := optInt_noInt (noInt_blank hc _)
  have h2 : skipWs (c :: (w ++ rest)) = rest :=
    skipWs_blanks (w := c :: w) (isS_cons.mpr ⟨hc, hw⟩) (nb_stops hr)
  unfold mSlice
  simp only [h1, h2]
  split
  · simp [nb] at hr
  · rfl

theorem fm_blanks' (uw : Char → Bool) (c : Char) (w rest : Str) (hc : isB c = true) (hw : isS w = true)
    (hr : nb rest = true) : firstMatch (R uw) (c :: (w ++ rest)) = some ([], rest) := by
  have hs := mSlice_blanks' c w rest hc hw hr
  have hd := dropWhile_blanks' hw hr
  have hk : mSkip (c :: (w ++ rest)) = some ([], rest) := by
    rcases isB_cases hc with rfl | rfl | rfl | rfl <;> simp [mSkip, hd]
  rcases isB_cases hc with rfl | rfl | rfl | rfl <;>
    simp [R, firstMatch, mQuoted, mRe_ne, hs, mFunc, mDotProp_ne, mFloat, mInt, optSign, mDDotProp_ne, mLit, mWord,
      mWordCI, orElse, scanKey, keyStart, keyCont, isFuncCont, atBoundary, isWord, hk, span_eq]

theorem tokz_skip' {uw : Char → Bool} {w rest : Str} {cs : List CTok} (hw : isS w = true) (hr : nb rest = true)
    (ht : Tokz uw rest cs) : Tokz uw (w ++ rest) cs := by
  cases w with
  | nil => exact ht
  | cons c w =>
    obtain ⟨h1, h2⟩ := isS_cons.mp hw
    exact tokz_step (fm_blanks' uw c w rest h1 h2 hr) CookB.nil ht

/-- lexing in front of a followed text -/
theorem tokz_fol {uw : Char → Bool} {bl r : Str} {cs : List CTok} (hb : isS bl = true) (hr : dlm r = true)
    (ht : Tokz uw r cs) : Tokz uw (bl ++ r) cs := tokz_skip' hb (dlm_nb hr) ht

/-! ### the first character and the first token of an expression -/

/-- the first token, given the first character -/
def tokOK (c : Char) : Tok → Bool
  | .not => c == '!'
  | .lparen => c == '('
  | .self | .root | .func _ | .true_ | .false_ | .nil | .str _ | .int _ | .flt _ => true
  | _ => false

def hdOK (c : Char) (t : Tok) : Bool :=
  !isPyBlank c && c != ':' && c != '=' && c != '>' && tokOK c t

def Hd (w : Str) (T : List Tok) : Prop := ∃ c w' t T', w = c :: w' ∧ T = t :: T' ∧ hdOK c t = true

theorem hdOK_facts {c : Char} {t : Tok} (h : hdOK c t = true) :
    isPyBlank c = false ∧ c ≠ ':' ∧ c ≠ '=' ∧ c ≠ '>' := by
  simp only [hdOK, Bool.and_eq_true, Bool.not_eq_true', bne_iff_ne, ne_eq] at h
  exact ⟨h.1.1.1.1, h.1.1.1.2, h.1.1.2, h.1.2⟩

theorem hd_append {w : Str} {T : List Tok} (h : Hd w T) (x : Str) (Y : List Tok) : Hd (w ++ x) (T ++ Y) := by
  obtain ⟨c, w', t, T', rfl, rfl, hc⟩ := h
  exact ⟨c, w' ++ x, t, T' ++ Y, rfl, rfl, hc⟩

theorem hd_nb {w : Str} {T : List Tok} (h : Hd w T) (x : Str) : nb (w ++ x) = true := by
  obtain ⟨c, w', t, T', rfl, rfl, hc⟩ := h
  obtain ⟨h1, h2, _, _⟩ := hdOK_facts hc
  simp [nb, h1, h2]

/-- what may follow a comparison operator or `!`: not `=`, not `>` -/
def opFol : Str → Bool
  | [] => true
  | c :: _ => c != '=' && c != '>'

theorem hd_opFol {w : Str} {T : List Tok} (h : Hd w T) (x : Str) : opFol (w ++ x) = true := by
  obtain ⟨c, w', t, T', rfl, rfl, hc⟩ := h
  obtain ⟨_, _, h3, h4⟩ := hdOK_facts hc
  simp [opFol, h3, h4]

theorem opFol_blanks {s x : Str} (hs : isS s = true) (hx : opFol x = true) : opFol (s ++ x) = true := by
  cases s with
  | nil => exact hx
  | cons c t =>
    rcases isB_cases (isS_cons.mp hs).1 with rfl | rfl | rfl | rfl <;> rfl

theorem nb_blanks_of {s x : Str} (hx : nb x = true) (hs : isS s = true) : stops isPyBlank x = true ∧ isS s = true :=
  ⟨nb_stops hx, hs⟩

theorem hd_argHead {w : Str} {T : List Tok} (h : Hd w T) (hh : w.head? ≠ some '!' ∧ w.head? ≠ some '(') :
    argHead T = true := by
  obtain ⟨c, w', t, T', rfl, rfl, hc⟩ := h
  simp only [List.head?_cons, ne_eq, Option.some.injEq] at hh
  simp only [hdOK, Bool.and_eq_true] at hc
  have h2 := hc.2
  cases t <;> first
    | rfl
    | (simp only [tokOK, beq_iff_eq] at h2; first | exact absurd h2 hh.1 | exact absurd h2 hh.2)
    | (simp [tokOK] at h2)

theorem hd_ne_nil {w : Str} {T : List Tok} (h : Hd w T) : w ≠ [] := by
  obtain ⟨c, w', t, T', rfl, rfl, hc⟩ := h
  simp

theorem hd_mk (c : Char) (w' : Str) (t : Tok) (T' : List Tok) (h : hdOK c t = true) : Hd (c :: w') (t :: T') :=
  ⟨c, w', t, T', rfl, rfl, h⟩

end JP.Lemmas.RfcSpellF
