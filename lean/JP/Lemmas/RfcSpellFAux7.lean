/-
  RfcSpellF helpers, part 7: one step of the grammar at a time (queries, function calls, selectors,
  segments), and the simultaneous induction over the derivations.
-/
import JP.Lemmas.RfcSpellFAux6
set_option linter.unusedSimpArgs false
namespace JP.Lemmas.RfcSpellF
open JP JP.Query JP.Surface JP.Lex JP.RfcSpell JP.RfcSpellF JP.Lemmas.LexPrint JP.Lemmas.RfcSpell

/-- a spelling of segments is empty or begins with a blank, `.` or `[` -/
def segHd : Str → Bool
  | [] => true
  | c :: _ => isB c || c == '.' || c == '['

/-- segments: tokens, parser, lexer, first character -/
def SX (pr : Prec) (uw : Char → Bool) (q : List Seg) (w : Str) : Prop :=
  ∃ T, TPathOK pr T q ∧ LexOK uw w T ∧ segHd w = true

/-! ### queries inside expressions -/

theorem px_self {pr : Prec} {uw : Char → Bool} {q : List Seg} {w : Str} (h : SX pr uw q w) :
    PX pr uw (.self q) ('@' :: w) := by
  obtain ⟨T, hT, hl, _⟩ := h
  exact ⟨.self :: T, pfx_self' hT, hd_mk '@' w .self T rfl,
    fun rest cs hf ht => Tokz.char (emit_self uw) (rfl : anyS _ = true) (hl rest cs hf ht)⟩

theorem px_root {pr : Prec} {uw : Char → Bool} {q : List Seg} {w : Str} (h : SX pr uw q w) :
    PX pr uw (.root q false) ('$' :: w) := by
  obtain ⟨T, hT, hl, _⟩ := h
  exact ⟨.root :: T, pfx_root' hT, hd_mk '$' w .root T rfl,
    fun rest cs hf ht => Tokz.char (emit_root uw) (rfl : anyS _ = true) (hl rest cs hf ht)⟩

/-! ### function calls -/

def AX (pr : Prec) (uw : Char → Bool) (e : Expr) (w : Str) : Prop :=
  ∃ T, TArgOK pr T e ∧ LexOK uw w T ∧ ∀ x, nb (w ++ x) = true

def ASX (pr : Prec) (uw : Char → Bool) (args : List Expr) (w : Str) : Prop :=
  ∃ T, TArgsOK pr T args ∧ LexOK uw w T ∧ ((args = [] ∧ w = [] ∧ T = []) ∨ ∀ x, nb (w ++ x) = true)

theorem ax_lit {pr : Prec} (hp : PrecFacts pr) (uw : Char → Bool) {e : Expr} {w : Str} (h : LitSpell e w) :
    AX pr uw e w := by
  obtain ⟨t, h1, h2, h3, h4⟩ := lit_ok pr uw h
  exact ⟨[t], TArgOK.of_expr hp (ExprOK.of_pfx h1 _) (by simpa [argHead] using h4), h3, hd_nb h2⟩

theorem ax_logical {pr : Prec} (hp : PrecFacts pr) {uw : Char → Bool} {e : Expr} {w : Str}
    (h : EX pr uw (pr.ofOp .or) e w) (hh : w.head? ≠ some '!' ∧ w.head? ≠ some '(') : AX pr uw e w := by
  obtain ⟨T, hT, hd, hl⟩ := h
  exact ⟨T, TArgOK.of_expr hp hT (hd_argHead hd hh), hl, hd_nb hd⟩

theorem asx_nil (pr : Prec) (uw : Char → Bool) : ASX pr uw [] [] :=
  ⟨[], TArgsOK.nil pr, fun _ _ _ ht => ht, .inl ⟨rfl, rfl, rfl⟩⟩

theorem asx_one {pr : Prec} {uw : Char → Bool} {e : Expr} {w : Str} (h : AX pr uw e w) : ASX pr uw [e] w := by
  obtain ⟨T, hT, hl, hn⟩ := h
  exact ⟨T, TArgsOK.single hT, hl, .inr hn⟩

theorem asx_cons {pr : Prec} {uw : Char → Bool} {e e2 : Expr} {es : List Expr} {w ws s1 s2 : Str}
    (h : AX pr uw e w) (ih : ASX pr uw (e2 :: es) ws) (h1 : isS s1 = true) (h2 : isS s2 = true) :
    ASX pr uw (e :: e2 :: es) (w ++ s1 ++ ',' :: s2 ++ ws) := by
  obtain ⟨T, hT, hl, hn⟩ := h
  obtain ⟨T', hT', hl', hn'⟩ := ih
  have hn'' : ∀ x, nb (ws ++ x) = true := by
    rcases hn' with ⟨h, _, _⟩ | h
    · cases h
    · exact h
  refine ⟨T ++ .comma :: T', TArgsOK.cons hT hT', ?_, .inr (fun x => ?_)⟩
  · intro rest cs hf ht
    have a1 := hl' rest cs hf ht
    have a2 := tokz_skip' h2 (hn'' rest) a1
    have a3 := Tokz.char (emit_comma uw) (rfl : anyS _ = true) a2
    have a4 := hl (s1 ++ ',' :: (s2 ++ (ws ++ rest))) _ (fol_blanks h1 rfl) (tokz_fol h1 rfl a3)
    simpa [List.append_assoc] using a4
  · have := hn (s1 ++ ',' :: s2 ++ ws ++ x)
    simpa [List.append_assoc] using this

theorem px_func {pr : Prec} {uw : Char → Bool} {name : Str} {args : List Expr} {w s1 s2 : Str}
    (hn : funcNameOK name = true) (ha : ASX pr uw args w) (h1 : isS s1 = true) (h2 : isS s2 = true) :
    PX pr uw (.func name args) (name ++ '(' :: s1 ++ w ++ s2 ++ [')']) := by
  obtain ⟨T, hT, hl, hd⟩ := ha
  refine ⟨.func name :: (T ++ [.rparen]), pfx_func' name hT, ?_, ?_⟩
  · have := funcName_hd hn ('(' :: (s1 ++ (w ++ (s2 ++ [')'])))) (T ++ [.rparen])
    simpa [List.append_assoc] using this
  · intro rest cs _ ht
    have a1 := Tokz.char (emit_rparen uw) (rfl : anyS rest = true) ht
    rcases hd with ⟨_, rfl, rfl⟩ | hnb
    · have a3 := tokz_step (fm_func uw name (s1 ++ s2) (')' :: rest) hn (isS_append h1 h2) rfl) cook_func a1
      simpa [List.append_assoc] using a3
    · have a2 := hl (s2 ++ ')' :: rest) _ (fol_blanks h2 rfl) (tokz_fol h2 rfl a1)
      have a3 := tokz_step (fm_func uw name s1 _ hn h1 (nb_stops (hnb _))) cook_func a2
      simpa [List.append_assoc] using a3

/-! ### selectors -/

def LexSel (uw : Char → Bool) (w : Str) (T : List Tok) : Prop :=
  ∀ (pre bl r : Str) (cs : List CTok), isS pre = true → isS bl = true → endc r = true → Tokz uw r cs →
    Tokz uw (pre ++ (w ++ (bl ++ r))) (T.map CTok.tok ++ cs)

def LX (pr : Prec) (uw : Char → Bool) (s : Sel) (w : Str) : Prop := ∃ T, TSelOK pr T s ∧ LexSel uw w T

def LSX (pr : Prec) (uw : Char → Bool) (ss : List Sel) (w : Str) : Prop := ∃ T, TSelsOK pr T ss ∧ LexSel uw w T

theorem endc_dlm {r : Str} (h : endc r = true) : dlm r = true := by
  obtain ⟨t, rfl | rfl⟩ := endc_cases h <;> rfl

theorem lx_plain (pr : Prec) (uw : Char → Bool) {s : Sel} {w : Str} (h : SelSpell s w) : LX pr uw s w :=
  ⟨[selTok s], TSelOK.plain pr s (plainSel_of_spell h),
    fun pre bl r cs a b c d => lex_sel uw h pre bl r cs a b c d⟩

theorem lx_filter {pr : Prec} (hp : PrecFacts pr) {uw : Char → Bool} {e : Expr} {w s : Str}
    (h : EX pr uw (pr.ofOp .or) e w) (hs : isS s = true) : LX pr uw (.filter e) ('?' :: s ++ w) := by
  obtain ⟨T, hT, hd, hl⟩ := h
  refine ⟨.filter :: T, TSelOK.filter hp hT, ?_⟩
  intro pre bl r cs hpre hbl hr ht
  have a1 := hl (bl ++ r) cs (fol_blanks hbl (endc_dlm hr)) (tokz_fol hbl (endc_dlm hr) ht)
  have a2 := tokz_skip' hs (hd_nb hd _) a1
  have a3 := Tokz.char (emit_filter uw) (rfl : anyS _ = true) a2
  have a4 := tokz_skip' hpre (rfl : nb ('?' :: _) = true) a3
  simpa [List.append_assoc] using a4

theorem lsx_one {pr : Prec} {uw : Char → Bool} {s : Sel} {w : Str} (h : LX pr uw s w) : LSX pr uw [s] w := by
  obtain ⟨T, hT, hl⟩ := h
  exact ⟨T, TSelsOK.single hT, hl⟩

theorem lsx_cons {pr : Prec} {uw : Char → Bool} {s : Sel} {ss : List Sel} {w ws s1 s2 : Str} (h : LX pr uw s w)
    (ih : LSX pr uw ss ws) (h1 : isS s1 = true) (h2 : isS s2 = true) :
    LSX pr uw (s :: ss) (w ++ s1 ++ ',' :: s2 ++ ws) := by
  obtain ⟨T, hT, hl⟩ := h
  obtain ⟨T', hT', hl'⟩ := ih
  refine ⟨T ++ .comma :: T', TSelsOK.cons hT hT', ?_⟩
  intro pre bl r cs hpre hbl hr ht
  have z1 := hl' s2 bl r cs h2 hbl hr ht
  have z2 := Tokz.char (emit_comma uw) (rfl : anyS _ = true) z1
  have z3 := hl pre s1 _ _ hpre h1 (rfl : endc (',' :: _) = true) z2
  simpa [List.append_assoc] using z3

/-! ### segments -/

/-- what may follow `.` / `..`, with what the induction knows of a bracketed selection -/
def ADX (pr : Prec) (uw : Char → Bool) (g : Seg) (w : Str) : Prop :=
  (∃ sels wb s1 s2, g = .child sels ∧ w = '[' :: s1 ++ wb ++ s2 ++ [']'] ∧ isS s1 = true ∧ isS s2 = true ∧
      LSX pr uw sels wb) ∨
  (g = .child [.wild] ∧ w = ['*']) ∨
  (∃ n, g = .child [.name n] ∧ w = n ∧ isShorthand n = true)

theorem segHd_blanks {s0 rest : Str} (h0 : isS s0 = true) (h : segHd rest = true) : segHd (s0 ++ rest) = true := by
  cases s0 with
  | nil => exact h
  | cons c t => simp [segHd, (isS_cons.mp h0).1]

theorem name_end {ws rest : Str} (hh : segHd ws = true) (hf : Fol rest) :
    ∀ d r, ws ++ rest = d :: r → keyCont d = false := by
  cases ws with
  | nil => exact folH_keyCont (fol_head hf)
  | cons c t =>
    intro d r e
    simp only [List.cons_append, List.cons.injEq] at e
    obtain ⟨rfl, _⟩ := e
    simp only [segHd, Bool.or_eq_true, beq_iff_eq] at hh
    rcases hh with (h | rfl) | rfl
    · rcases isB_cases h with rfl | rfl | rfl | rfl <;> decide
    · decide
    · decide

theorem sx_nil (pr : Prec) (uw : Char → Bool) : SX pr uw [] [] :=
  ⟨[], TPathOK.nil pr, fun _ _ _ ht => ht, rfl⟩

theorem sx_bracket {pr : Prec} {uw : Char → Bool} {sels : List Sel} {segs : List Seg} {w s0 s1 s2 ws : Str}
    (hs : LSX pr uw sels w) (h0 : isS s0 = true) (h1 : isS s1 = true) (h2 : isS s2 = true)
    (ih : SX pr uw segs ws) : SX pr uw (.child sels :: segs) (s0 ++ '[' :: s1 ++ w ++ s2 ++ ']' :: ws) := by
  obtain ⟨Ts, hTs, hls⟩ := hs
  obtain ⟨T, hT, hl, _⟩ := ih
  refine ⟨.lbracket :: (Ts ++ .rbracket :: T), TPathOK.bracket hTs hT, ?_, ?_⟩
  · intro rest cs hf ht
    have z0 := hl rest cs hf ht
    have z1 := Tokz.char (emit_rbracket uw) (rfl : anyS _ = true) z0
    have z2 := hls s1 s2 _ _ h1 h2 (rfl : endc (']' :: _) = true) z1
    have z3 := Tokz.char (emit_lbracket uw) (rfl : anyS _ = true) z2
    have z4 := tokz_skip' h0 (rfl : nb ('[' :: _) = true) z3
    simpa [List.append_assoc] using z4
  · have := segHd_blanks h0 (rfl : segHd ('[' :: (s1 ++ (w ++ (s2 ++ ']' :: ws)))) = true)
    simpa [List.append_assoc] using this

theorem sx_dotWild {pr : Prec} {uw : Char → Bool} {segs : List Seg} {s0 ws : Str} (h0 : isS s0 = true)
    (ih : SX pr uw segs ws) : SX pr uw (.child [.wild] :: segs) (s0 ++ '.' :: '*' :: ws) := by
  obtain ⟨T, hT, hl, _⟩ := ih
  refine ⟨.wild :: T, TPathOK.wild hT, ?_, segHd_blanks h0 rfl⟩
  intro rest cs hf ht
  have z0 := hl rest cs hf ht
  have z1 := Tokz.char (emit_wild uw) (rfl : anyS _ = true) z0
  have z2 := tokz_step (fm_dot_wild uw _) CookB.nil z1
  have z3 := tokz_skip' h0 (rfl : nb ('.' :: _) = true) z2
  simpa [List.append_assoc] using z3

theorem sx_dotName {pr : Prec} {uw : Char → Bool} {segs : List Seg} {n s0 ws : Str} (hn : isShorthand n = true)
    (h0 : isS s0 = true) (ih : SX pr uw segs ws) : SX pr uw (.child [.name n] :: segs) (s0 ++ '.' :: n ++ ws) := by
  obtain ⟨T, hT, hl, hh⟩ := ih
  obtain ⟨c, cs', rfl, hc, hcs⟩ := shorthand_shape hn
  refine ⟨.prop (c :: cs') :: T, TPathOK.prop _ hT, ?_, ?_⟩
  · intro rest cs hf ht
    have z0 := hl rest cs hf ht
    have z2 := tokz_step (fm_dot_name uw c cs' _ hc hcs (name_end hh hf)) cook_prop z0
    have z3 := tokz_skip' h0 (rfl : nb ('.' :: _) = true) z2
    simpa [List.append_assoc] using z3
  · have := segHd_blanks h0 (rfl : segHd ('.' :: (c :: cs' ++ ws)) = true)
    simpa [List.append_assoc] using this

theorem sx_ddot {pr : Prec} {uw : Char → Bool} {g : Seg} {segs : List Seg} {w s0 ws : Str} (h : ADX pr uw g w)
    (h0 : isS s0 = true) (ih : SX pr uw segs ws) : SX pr uw (.desc :: g :: segs) (s0 ++ '.' :: '.' :: w ++ ws) := by
  obtain ⟨T, hT, hl, hh⟩ := ih
  have hseg : ∀ t : Str, segHd (s0 ++ '.' :: t) = true := fun t => segHd_blanks h0 rfl
  rcases h with ⟨sels, wb, s1, s2, rfl, rfl, h1, h2, Ts, hTs, hls⟩ | ⟨rfl, rfl⟩ | ⟨n, rfl, rfl, hn⟩
  · refine ⟨.ddot :: .lbracket :: (Ts ++ .rbracket :: T), TPathOK.ddot (TPathOK.bracket hTs hT), ?_, ?_⟩
    · intro rest cs hf ht
      have z0 := hl rest cs hf ht
      have z1 := Tokz.char (emit_rbracket uw) (rfl : anyS _ = true) z0
      have z2 := hls s1 s2 _ _ h1 h2 (rfl : endc (']' :: _) = true) z1
      have z3 := Tokz.char (emit_lbracket uw) (rfl : anyS _ = true) z2
      have z4 := Tokz.one (emit_ddot uw) (rfl : stops keyStart ('[' :: _) = true) z3
      have z5 := tokz_skip' h0 (rfl : nb ('.' :: _) = true) z4
      simpa [List.append_assoc] using z5
    · simpa [List.append_assoc] using hseg ('.' :: '[' :: (s1 ++ (wb ++ (s2 ++ ']' :: ws))))
  · refine ⟨.ddot :: .wild :: T, TPathOK.ddot (TPathOK.wild hT), ?_, ?_⟩
    · intro rest cs hf ht
      have z0 := hl rest cs hf ht
      have z1 := Tokz.char (emit_wild uw) (rfl : anyS _ = true) z0
      have z4 := Tokz.one (emit_ddot uw) (rfl : stops keyStart ('*' :: _) = true) z1
      have z5 := tokz_skip' h0 (rfl : nb ('.' :: _) = true) z4
      simpa [List.append_assoc] using z5
    · simpa [List.append_assoc] using hseg ('.' :: '*' :: ws)
  · obtain ⟨c, cs', rfl, hc, hcs⟩ := shorthand_shape hn
    refine ⟨.ddot :: .bare (c :: cs') :: T, TPathOK.ddot (TPathOK.bare _ hT), ?_, ?_⟩
    · intro rest cs hf ht
      have z0 := hl rest cs hf ht
      have z2 := tokz_step (fm_ddot_name uw c cs' _ hc hcs (name_end hh hf)) cook_ddot_bare z0
      have z3 := tokz_skip' h0 (rfl : nb ('.' :: _) = true) z2
      simpa [List.append_assoc] using z3
    · simpa [List.append_assoc] using hseg ('.' :: c :: (cs' ++ ws))

/-! ### the simultaneous induction -/

theorem all_segs {pr : Prec} (hp : PrecFacts pr) (uw : Char → Bool) {q : List Seg} {w : Str} (h : FSegsSpell q w) :
    SX pr uw q w :=
  FSegsSpell.rec
    (motive_1 := fun e w _ => EX pr uw (pr.ofOp .or) e w)
    (motive_2 := fun e w _ => EX pr uw (pr.ofOp .and) e w)
    (motive_3 := fun e w _ => EX pr uw (pr.ofOp .and + 1) e w)
    (motive_4 := fun e w _ => PX pr uw e w)
    (motive_5 := fun e w _ => PX pr uw e w)
    (motive_6 := fun e w _ => PX pr uw e w)
    (motive_7 := fun args w _ => ASX pr uw args w)
    (motive_8 := fun e w _ => AX pr uw e w)
    (motive_9 := fun s w _ => LX pr uw s w)
    (motive_10 := fun ss w _ => LSX pr uw ss w)
    (motive_11 := fun g w _ => ADX pr uw g w)
    (motive_12 := fun q w _ => SX pr uw q w)
    (fun _ _ _ ih => ih.mono (Nat.le_of_lt hp.or_and))
    (fun _ _ _ _ _ _ _ _ h1 h2 ihl ihr => ex_or hp ihl ihr h1 h2)
    (fun _ _ _ ih => ih.mono (Nat.le_succ _))
    (fun _ _ _ _ _ _ _ _ h1 h2 ihl ihr => ex_and hp ihl ihr h1 h2)
    (fun _ _ _ _ _ _ hn _ h1 h2 ih => ex_paren hp hn ih h1 h2)
    (fun _ _ _ _ hn _ ih => ex_test hp hn ih)
    (fun _ _ _ _ _ _ _ _ ho _ _ h1 h2 ihl ihr => ex_cmp hp ho ihl ihr h1 h2)
    (fun _ _ _ ih => px_self ih)
    (fun _ _ _ ih => px_root ih)
    (fun _ _ _ ih => ih)
    (fun _ _ h => px_lit pr uw h)
    (fun _ _ _ ih => px_self ih)
    (fun _ _ _ ih => px_root ih)
    (fun _ _ _ ih => ih)
    (fun _ _ _ _ _ hn _ h1 h2 ih => px_func hn ih h1 h2)
    (asx_nil pr uw)
    (fun _ _ _ ih => asx_one ih)
    (fun _ _ _ _ _ _ _ _ h1 h2 _ ih ihs => asx_cons ih ihs h1 h2)
    (fun _ _ h => ax_lit hp uw h)
    (fun _ _ _ hh ih => ax_logical hp ih hh)
    (fun _ _ h => lx_plain pr uw h)
    (fun _ _ _ _ hs ih => lx_filter hp ih hs)
    (fun _ _ _ ih => lsx_one ih)
    (fun _ _ _ _ _ _ _ h1 h2 _ ih ihs => lsx_cons ih ihs h1 h2)
    (fun sels w s1 s2 _ h1 h2 ih => .inl ⟨sels, w, s1, s2, rfl, rfl, h1, h2, ih⟩)
    (.inr (.inl ⟨rfl, rfl⟩))
    (fun n h => .inr (.inr ⟨n, rfl, rfl, h⟩))
    (sx_nil pr uw)
    (fun _ _ _ _ _ _ h0 h1 h2 _ _ _ ihs ih => sx_bracket ihs h0 h1 h2 ih)
    (fun _ h0 _ _ _ ih => sx_dotWild h0 ih)
    (fun _ _ hn h0 _ _ _ ih => sx_dotName hn h0 ih)
    (fun _ _ _ _ h0 _ _ _ ihd ih => sx_ddot ihd h0 ih)
    h

/-- the lexer and the literal decoding on a spelling of a query with filters -/
theorem tokenize_spellF {pr : Prec} (hp : PrecFacts pr) (uw : Char → Bool) {segs : List Seg} {text : Str}
    (h : QuerySpellF segs text) :
    ∃ T, TPathOK pr T segs ∧ tokenize ⟨dflt, uw⟩ text = .ok ((Tok.root :: T).map CTok.tok) := by
  obtain ⟨w, hw, rfl⟩ := h
  obtain ⟨T, hT, hl, _⟩ := all_segs hp uw hw
  refine ⟨T, hT, tokenize_of_Tokz ?_⟩
  have z := hl [] [] fol_nil (Tokz.nil uw)
  have := Tokz.char (emit_root uw) (rfl : anyS _ = true) z
  simpa using this

end JP.Lemmas.RfcSpellF
