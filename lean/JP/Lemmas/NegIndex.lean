/-
  Helper lemmas for the library's negative index extension (C04, C05): Python's wrap-around of a negative list index.
-/
import JP.Pointer
namespace JP.Lemmas
open JP

theorem pyListGet_neg {α} (xs : List α) (k : Nat) (hk : 1 ≤ k) :
    pyListGet xs (-(k : Int)) = if k ≤ xs.length then xs[xs.length - k]? else none := by
  unfold pyListGet
  have h0 : ¬ (0 : Int) ≤ -(k : Int) := by omega
  simp only [h0, if_false]
  by_cases h : k ≤ xs.length
  · have h1 : -(xs.length : Int) ≤ -(k : Int) := by omega
    have : ((xs.length : Int) + -(k : Int)).toNat = xs.length - k := by omega
    simp only [h, h1, if_true, this]
  · have h1 : ¬ -(xs.length : Int) ≤ -(k : Int) := by omega
    simp only [h, h1, if_false]

theorem pyIndexPos_neg (len k : Nat) (hk : 1 ≤ k) (hl : k ≤ len) : pyIndexPos len (-(k : Int)) = some (len - k) := by
  unfold pyIndexPos
  have h0 : ¬ (0 : Int) ≤ -(k : Int) := by omega
  have h1 : -(len : Int) ≤ -(k : Int) := by omega
  have : ((len : Int) + -(k : Int)).toNat = len - k := by omega
  simp only [h0, h1, if_false, if_true, this]

end JP.Lemmas
