/-
  Every RFC 9535 spelling of a filter-free query compiles (lexer model, literal decoding, parser model) to
  that query.
-/
import JP.RfcSpell
import JP.Lemmas.LexPrint
import JP.Lemmas.RfcSpellAux3
namespace JP.Lemmas
open JP JP.Query JP.Surface JP.Lex JP.RfcSpell

/-- the lexer and the literal decoding turn any spelling of the segments into the tokens of those segments
    (in the bracketed form the parser reads them in) — stated through the final result: -/
theorem rfc_spelling_compiles (pr : Prec) (hpr : precOK pr = true) (uw : Char → Bool) (segs : List Seg) (text : Str)
    (h : QuerySpell segs text) :
    compileText pr ⟨dflt, uw⟩ text = some ⟨segs, false⟩ := by
  have _ := hpr
  obtain ⟨T, hT, hz⟩ := RfcSpell.tokenize_spell uw h
  unfold compileText
  rw [hz]
  simp only [plainToks_map]
  rw [RfcSpell.parseQuery_segsToks pr hT]

end JP.Lemmas
