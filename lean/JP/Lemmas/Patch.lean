/-
  Helper lemmas for C05 (JSON Patch). Statements used by JP/Props/C05.lean.
-/
import JP.Patch
import JP.Lemmas.JInduct
import JP.Lemmas.PatchAuxOps
import JP.Lemmas.PatchAuxWf
set_option linter.unusedSimpArgs false
namespace JP.Lemmas
open JP JP.Pointer JP.Patch

/-- Same JSON type at every position (numbers: int or float both count as number). -/
def sameShape : J → J → Bool
  | .null, .null => true
  | .bool _, .bool _ => true
  | .int _, .int _ => true
  | .int _, .flt _ => true
  | .flt _, .int _ => true
  | .flt _, .flt _ => true
  | .str _, .str _ => true
  | .arr xs, .arr ys => shapeList xs ys
  | .obj xs, .obj ys => xs.length == ys.length && shapeMembers xs ys
  | _, _ => false
where
  shapeList : List J → List J → Bool
    | [], [] => true
    | x :: xs, y :: ys => sameShape x y && shapeList xs ys
    | _, _ => false
  shapeMembers : List (Str × J) → List (Str × J) → Bool
    | [], _ => true
    | (k, v) :: rest, ys =>
      (match dictGet ys k with
       | some v' => sameShape v v'
       | none => false) && shapeMembers rest ys


/-! ### helpers for the named corollaries -/

theorem pa_std_natStr (n : Nat) (hr : (n : Int) ≤ maxIntIndex) : PaStd (natStr n) := by
  show isExtensionToken (natStr n) = false
  unfold isExtensionToken
  split
  · rename_i cs h; exact absurd h (pa_natStr_ne_hash_cons n cs)
  · rename_i cs h; exact absurd h (pa_natStr_ne_tilde_cons n cs)
  · rw [pa_parseIndexToken_natStr]
    simp only [Bool.or_eq_false_iff, decide_eq_false_iff_not]
    omega

theorem pa_apply_single (doc : J) (op : Op) :
    Patch.apply [op] doc = (applyOp doc op).mapError translate := by
  simp only [Patch.apply, List.foldlM_cons, List.foldlM_nil]
  cases (applyOp doc op).mapError translate <;> rfl

theorem pa_length_natStr_huge (n : Nat) (h : 10 ^ 4300 ≤ n) : 4300 < (natStr n).length := by
  have := @Nat.length_toDigits_le_iff 10 n 4300 (by decide) (by decide)
  unfold natStr
  omega

theorem pa_length_natStr_small (n : Nat) (h : n < 10 ^ 4300) : (natStr n).length ≤ 4300 := by
  have := @Nat.length_toDigits_le_iff 10 n 4300 (by decide) (by decide)
  unfold natStr
  omega

theorem pa_natStr_head_ne_dash (n : Nat) : (natStr n).head? ≠ some '-' := by
  intro hh
  cases hq : natStr n with
  | nil => rw [hq] at hh; cases hh
  | cons c cs =>
    rw [hq] at hh; simp at hh; subst hh
    exact pa_natStr_ne_dash_cons _ _ hq

theorem pa_target_arr_miss_key (doc : J) (ps : List Part) (xs : List J) (s : Str)
    (h : resolveParts doc ps = .ok (.arr xs))
    (hg : getitem (.arr xs) (.key s) = .error .ptrIndex) (hh : ∀ cs, s ≠ '#' :: cs) :
    target doc (ps ++ [.key s]) = .ok (some (.arr xs), .key s, none) := by
  simp [target, resolveParent, h, hg, pa_bind_ok, pa_pure]
  split
  · rename_i h1 _; cases h1
  · rename_i h2; cases h2; exact absurd rfl (hh _)
  · rename_i h1 h2; cases h1; cases h2; rfl
  · rename_i h1 h2 h3; exact (h3 _ _ rfl rfl).elim

/-- **Counterexample to `add_at_length` as stated**: for a list with at least `10^4300`
    elements the decimal text of the length is too long for `int()`, `_index` keeps it as a
    string, and `_getitem` on the array raises `JSONPointerTypeError`. -/
theorem add_at_length_huge (xs : List J) (v : J) (h : 10 ^ 4300 ≤ xs.length) :
    applyOp (.arr xs) (.add [toPart (natStr xs.length)] v) = .error .ptrType := by
  have hlen := pa_length_natStr_huge _ h
  have hhead := pa_natStr_head_ne_dash xs.length
  have hidx : indexOf (natStr xs.length) = .ok (.key (natStr xs.length)) := by
    unfold indexOf
    rw [pa_parseIndexToken_natStr]
    have hc : (natStr xs.length).length > maxStrDigits + 1 ∨
        ((natStr xs.length).length > maxStrDigits ∧ (natStr xs.length).head? ≠ some '-') :=
      Or.inr ⟨hlen, hhead⟩
    simp only [hc, if_true]; rfl
  have htp : toPart (natStr xs.length) = .key (natStr xs.length) := by
    unfold toPart; rw [hidx]
  have hg : getitem (.arr xs) (.key (natStr xs.length)) = .error .ptrType := by
    have hh := pa_natStr_ne_hash_cons xs.length
    have hd := pa_natStr_ne_dash xs.length
    unfold getitem
    simp only [hd, if_false]
    rw [hidx]; rfl
  have htgt := pa_target_type (.arr xs) [] (.key (natStr xs.length)) (.arr xs) rfl hg
  rw [htp]
  simp only [List.nil_append] at htgt
  simp [applyOp, applyAdd, htgt, pa_bind_error]

theorem add_at_length_false :
    ¬ ∀ (xs : List J) (v : J),
      applyOp (.arr xs) (.add [toPart (natStr xs.length)] v) = .ok (.arr (xs ++ [v])) := by
  intro hall
  have h1 := hall (List.replicate (10 ^ 4300) .null) .null
  rw [add_at_length_huge _ _ (by rw [List.length_replicate]; exact Nat.le_refl _)] at h1
  cases h1

/-- `add_at_length` for every list whose length has at most 4300 decimal digits. -/
theorem add_at_length_partial (xs : List J) (v : J) (hlen : xs.length < 10 ^ 4300) :
    applyOp (.arr xs) (.add [toPart (natStr xs.length)] v) = .ok (.arr (xs ++ [v])) := by
  by_cases hr : (xs.length : Int) ≤ maxIntIndex
  · rw [pa_toPart_natStr _ hr]
    have htgt := pa_target_arr_idx (.arr xs) [] xs xs.length rfl
    simp only [List.nil_append] at htgt
    have hins := pa_insertArr_nat xs xs.length v
    have hnone : xs[xs.length]? = none := by simp
    rw [hnone] at hins htgt
    simp only [Nat.le_refl, if_true, List.take_length, List.drop_length] at hins
    simp [applyOp, applyAdd, htgt, pa_bind_ok, hins, writeBack, pa_pure]
  · have hl := pa_length_natStr_small _ hlen
    have hidx : indexOf (natStr xs.length) = .error .ptrIndex := by
      unfold indexOf
      rw [pa_parseIndexToken_natStr]
      have h1 : ¬ ((natStr xs.length).length > maxStrDigits + 1 ∨
          ((natStr xs.length).length > maxStrDigits ∧ (natStr xs.length).head? ≠ some '-')) := by
        unfold maxStrDigits; omega
      have h2 : ((xs.length : Nat) : Int) < minIntIndex ∨ ((xs.length : Nat) : Int) > maxIntIndex :=
        Or.inr (by omega)
      simp only [h1, h2, if_false, if_true]; rfl
    have htp : toPart (natStr xs.length) = .key (natStr xs.length) := by
      unfold toPart; rw [hidx]
    have hg : getitem (.arr xs) (.key (natStr xs.length)) = .error .ptrIndex := by
      have hh := pa_natStr_ne_hash_cons xs.length
      have hd := pa_natStr_ne_dash xs.length
      unfold getitem
      simp only [hd, if_false]
      rw [hidx]; rfl
    have hh := pa_natStr_ne_hash_cons xs.length
    have htgt := pa_target_arr_miss_key (.arr xs) [] xs (natStr xs.length) rfl hg hh
    simp only [List.nil_append] at htgt
    rw [htp]
    simp [applyOp, applyAdd, htgt, pa_bind_ok, insertArr, partStr, writeBack, pa_pure]

theorem apply_refines_rfc (doc : J) (ops : List SOp) (hstd : ∀ op ∈ ops, op.standard) :
    Refines (Patch.apply (ops.map opOfSpec) doc) (rfcApply ops doc) := by
  exact pa_apply_refines ops hstd doc

theorem wf_preserved (doc d : J) (ops : List SOp) (hstd : ∀ op ∈ ops, op.standard)
    (hdoc : doc.wf = true)
    (hvals : ∀ op ∈ ops, ∀ p v, (op = .add p v ∨ op = .replace p v) → v.wf = true)
    (h : Patch.apply (ops.map opOfSpec) doc = .ok d) : d.wf = true := by
  have href := pa_apply_refines ops hstd doc
  cases hS : rfcApply ops doc with
  | ok d' =>
    rw [hS] at href
    have hc : Patch.apply (ops.map opOfSpec) doc = .ok d' := href
    rw [hc] at h
    cases h
    exact pa_wf_rfcApply ops doc d hdoc hvals hS
  | error se =>
    rw [hS] at href
    cases se with
    | violation =>
      obtain ⟨e, he, _⟩ := href
      rw [he] at h; cases h
    | testFailed =>
      have hc : Patch.apply (ops.map opOfSpec) doc = .error .patchTest := href
      rw [hc] at h; cases h

-- Arrays longer than the index limit are outside the pointer index range (see
-- `add_at_length_huge` / `add_at_length_false` for why the hypothesis is needed).
theorem add_at_length (xs : List J) (v : J) (hr : (xs.length : Int) ≤ maxIntIndex) :
    applyOp (.arr xs) (.add [toPart (natStr xs.length)] v) = .ok (.arr (xs ++ [v])) := by
  refine add_at_length_partial xs v ?_
  unfold maxIntIndex at hr
  have : (2 : Nat) ^ 53 ≤ 10 ^ 4300 := by
    calc (2 : Nat) ^ 53 ≤ 10 ^ 53 := Nat.pow_le_pow_left (by decide) 53
      _ ≤ 10 ^ 4300 := Nat.pow_le_pow_right (by decide) (by decide)
  omega

theorem add_dash (xs : List J) (v : J) :
    applyOp (.arr xs) (.add [.key ['-']] v) = .ok (.arr (xs ++ [v])) := by
  have htgt := pa_target_arr_dash (.arr xs) [] xs rfl
  simp only [List.nil_append] at htgt
  simp [applyOp, applyAdd, htgt, pa_bind_ok, insertArr, writeBack, pa_pure]

theorem move_copy_dash (a b : Str) (hab : a ≠ b) (v : J) (xs : List J) :
    applyOp (.obj [(a, v), (b, .arr xs)]) (.copy [.key a] [.key b, .key ['-']])
      = .ok (.obj [(a, v), (b, .arr (xs ++ [v]))]) ∧
    applyOp (.obj [(a, v), (b, .arr xs)]) (.move [.key a] [.key b, .key ['-']])
      = .ok (.obj [(b, .arr (xs ++ [v]))]) := by
  have hba : b ≠ a := fun h => hab h.symm
  have hga : getitem (.obj [(a, v), (b, .arr xs)]) (.key a) = .ok v := by
    simp [getitem, dictGet, pa_pure]
  have hgb : getitem (.obj [(a, v), (b, .arr xs)]) (.key b) = .ok (.arr xs) := by
    simp [getitem, dictGet, hab, pa_pure]
  have hta : target (.obj [(a, v), (b, .arr xs)]) [.key a] =
      .ok (some (.obj [(a, v), (b, .arr xs)]), .key a, some v) := by
    have := pa_target_obj (.obj [(a, v), (b, .arr xs)]) [] (.key a) _ rfl
      (by simp [getitem, dictGet, partStr, pa_pure])
    simpa [partStr, dictGet] using this
  have hrb : resolveParts (.obj [(a, v), (b, .arr xs)]) [.key b] = .ok (.arr xs) := by
    rw [pa_resolveParts_cons, hgb]; rfl
  have htb := pa_target_arr_dash (.obj [(a, v), (b, .arr xs)]) [.key b] xs hrb
  simp only [List.cons_append, List.nil_append] at htb
  have hwb : writeBack (.obj [(a, v), (b, .arr xs)]) [.key b] (.arr (xs ++ [v])) =
      .ok (.obj [(a, v), (b, .arr (xs ++ [v]))]) := by
    simp [writeBack, slotOf, partStr, dictHas, dictGet, dictSet, hab, pa_bind_ok, pa_pure]
  constructor
  · simp [applyOp, applyCopy, hta, htb, pa_bind_ok, insertArr, pa_pure, hwb]
  · have hrel : isRelativeTo [Part.key b, Part.key ['-']] [Part.key a] = false := by
      simp [isRelativeTo, tokens, partStr, hba]
    have hg1 : getitem (.obj [(b, .arr xs)]) (.key b) = .ok (.arr xs) := by
      simp [getitem, dictGet, pa_pure]
    have hr1 : resolveParts (.obj [(b, .arr xs)]) [.key b] = .ok (.arr xs) := by
      rw [pa_resolveParts_cons, hg1]; rfl
    have ht1 := pa_target_arr_dash (.obj [(b, .arr xs)]) [.key b] xs hr1
    simp only [List.cons_append, List.nil_append] at ht1
    have hw1 : writeBack (.obj [(b, .arr xs)]) [.key b] (.arr (xs ++ [v])) =
        .ok (.obj [(b, .arr (xs ++ [v]))]) := by
      simp [writeBack, slotOf, partStr, dictHas, dictGet, dictSet, pa_bind_ok, pa_pure]
    have hrem : applyRemove (.obj [(a, v), (b, .arr xs)]) [.key a] = .ok (.obj [(b, .arr xs)]) := by
      simp [applyRemove, hta, pa_bind_ok, writeBack, partStr, dictErase, pa_pure]
    have hadd : applyAdd (.obj [(b, .arr xs)]) [.key b, .key ['-']] v =
        .ok (.obj [(b, .arr (xs ++ [v]))]) := by
      simp [applyAdd, ht1, pa_bind_ok, insertArr, pa_pure, hw1]
    show applyMove _ _ _ = _
    rw [pa_applyMove_obj _ _ _ _ _ v hrel hta, hrem]
    exact hadd

theorem index_gt_length_fails (xs : List J) (v : J) (n : Nat) (h : xs.length < n)
    (hr : (n : Int) ≤ maxIntIndex) :
    ∃ e, Patch.apply [.add [toPart (natStr n)] v] (.arr xs) = .error e ∧ e.isPatchFamily = true := by
  rw [pa_apply_single, pa_toPart_natStr n hr]
  have htgt := pa_target_arr_idx (.arr xs) [] xs n rfl
  simp only [List.nil_append] at htgt
  have hins := pa_insertArr_nat xs n v
  rw [if_neg (by omega)] at hins
  refine ⟨.patch, ?_, rfl⟩
  simp [applyOp, applyAdd, htgt, pa_bind_ok, pa_bind_error, hins, Except.mapError, translate]

theorem noncanonical_index_fails (xs : List J) (v : J) (t : Str)
    (ht : parseIndexToken t = none) (hd : t ≠ ['-']) (hh : t.head? ≠ some '#') :
    ∃ e, Patch.apply [.add [toPart t] v] (.arr xs) = .error e ∧ e.isPatchFamily = true := by
  rw [pa_apply_single, pa_toPart_of_none t ht]
  have hh' : ∀ cs, t ≠ '#' :: cs := by
    intro cs h; apply hh; rw [h]; rfl
  have htgt := pa_target_type (.arr xs) [] (.key t) (.arr xs) rfl
    (pa_getitem_arr_key xs t ht hd hh')
  simp only [List.nil_append] at htgt
  refine ⟨.patch, ?_, rfl⟩
  simp [applyOp, applyAdd, htgt, pa_bind_error, Except.mapError, translate]

theorem integer_like_member_names (kvs : List (Str × J)) (v : J) (n : Nat) (hr : (n : Int) ≤ maxIntIndex) :
    applyOp (.obj kvs) (.add [toPart (natStr n)] v) = .ok (.obj (dictSet kvs (natStr n) v)) ∧
    (dictHas kvs (natStr n) = true →
      applyOp (.obj kvs) (.remove [toPart (natStr n)]) = .ok (.obj (dictErase kvs (natStr n)))) := by
  have hstd : ∀ t ∈ [natStr n], PaStd t := by
    intro t ht; simp at ht; subst ht; exact pa_std_natStr n hr
  constructor
  · have h := pa_add (.obj kvs) [natStr n] v hstd
    have hs : rfcAdd (.obj kvs) [natStr n] v = some (.obj (dictSet kvs (natStr n) v)) := by
      simp [rfcAdd, rfcUpdate, rfcAddLast]
    rw [hs] at h
    exact h
  · intro hhas
    have h := pa_remove (.obj kvs) [natStr n] hstd
    have hs : rfcRemove (.obj kvs) [natStr n] = some (.obj (dictErase kvs (natStr n))) := by
      simp [rfcRemove, rfcUpdate, rfcRemoveLast, hhas]
    rw [hs] at h
    exact h

theorem replace_root (doc v : J) :
    applyOp doc (.replace [] v) = .ok v ∧ applyOp doc (.add [] v) = .ok v := by
  constructor
  · simp [applyOp, applyReplace, pa_target_nil, pa_bind_ok, pa_pure]
  · simp [applyOp, applyAdd, pa_target_nil, pa_bind_ok, pa_pure]

theorem move_into_own_child_fails (doc : J) (src : List Str) (t : Str) (more : List Str) :
    ∃ e, Patch.apply [opOfSpec (.move src (src ++ t :: more))] doc = .error e ∧ e.isPatchFamily = true := by
  rw [pa_apply_single]
  have hrel : isRelativeTo (toParts (src ++ t :: more)) (toParts src) = true := by
    simp [isRelativeTo, toParts, tokens, List.take_left']
  refine ⟨.patch, ?_, rfl⟩
  show (applyMove doc (toParts src) (toParts (src ++ t :: more))).mapError translate = _
  rw [pa_applyMove_rel _ _ _ hrel]; rfl

theorem eqv_no_bool_num (b : Bool) (i : Int) :
    (J.bool b).eqv (.int i) = false ∧ (J.bool b).eqv (.flt i) = false ∧
    (J.int i).eqv (.bool b) = false ∧ (J.flt i).eqv (.bool b) = false := by
  simp [J.eqv]

theorem pa_eqvList_shape (xs : List J)
    (ih : ∀ x ∈ xs, ∀ b, x.eqv b = true → sameShape x b = true) (ys : List J)
    (h : J.eqv.eqvList xs ys = true) : sameShape.shapeList xs ys = true := by
  induction xs generalizing ys with
  | nil => cases ys <;> simp_all [J.eqv.eqvList, sameShape.shapeList]
  | cons x xs ihx =>
    cases ys with
    | nil => simp [J.eqv.eqvList] at h
    | cons y ys =>
      simp only [J.eqv.eqvList, Bool.and_eq_true] at h
      simp only [sameShape.shapeList, Bool.and_eq_true]
      exact ⟨ih x (by simp) y h.1, ihx (fun x' hx' => ih x' (by simp [hx'])) ys h.2⟩

theorem pa_eqvMembers_shape (kvs : List (Str × J))
    (ih : ∀ kv ∈ kvs, ∀ b, kv.2.eqv b = true → sameShape kv.2 b = true) (ys : List (Str × J))
    (h : J.eqv.eqvMembers kvs ys = true) : sameShape.shapeMembers kvs ys = true := by
  induction kvs with
  | nil => simp [sameShape.shapeMembers]
  | cons kv kvs ihx =>
    obtain ⟨k, v⟩ := kv
    simp only [J.eqv.eqvMembers, Bool.and_eq_true] at h
    simp only [sameShape.shapeMembers, Bool.and_eq_true]
    refine ⟨?_, ihx (fun x' hx' => ih x' (by simp [hx'])) h.2⟩
    cases hd : dictGet ys k with
    | none => rw [hd] at h; simp at h
    | some v' =>
      rw [hd] at h
      exact ih (k, v) (by simp) v' h.1

theorem pa_eqvList_refl (xs : List J) (ih : ∀ x ∈ xs, x.wf = true → x.eqv x = true)
    (hw : ∀ x ∈ xs, x.wf = true) : J.eqv.eqvList xs xs = true := by
  induction xs with
  | nil => simp [J.eqv.eqvList]
  | cons x xs ihx =>
    simp only [J.eqv.eqvList, Bool.and_eq_true]
    exact ⟨ih x (by simp) (hw x (by simp)),
      ihx (fun x' hx' => ih x' (by simp [hx'])) (fun x' hx' => hw x' (by simp [hx']))⟩

theorem pa_eqvMembers_refl (kvs sub : List (Str × J))
    (ih : ∀ kv ∈ kvs, kv.2.wf = true → kv.2.eqv kv.2 = true)
    (hw : ∀ kv ∈ kvs, kv.2.wf = true) (hn : (kvs.map (·.1)).Nodup)
    (hsub : ∀ kv ∈ sub, kv ∈ kvs) : J.eqv.eqvMembers sub kvs = true := by
  induction sub with
  | nil => simp [J.eqv.eqvMembers]
  | cons kv sub ihx =>
    obtain ⟨k, v⟩ := kv
    have hm : (k, v) ∈ kvs := hsub (k, v) (by simp)
    simp only [J.eqv.eqvMembers, Bool.and_eq_true]
    rw [pa_dictGet_of_mem_nodup kvs k v hm hn]
    exact ⟨ih (k, v) hm (hw (k, v) hm), ihx (fun x' hx' => hsub x' (by simp [hx']))⟩

theorem eqv_sameShape (a b : J) (h : a.eqv b = true) : sameShape a b = true := by
  revert b
  induction a using J.induct with
  | hnull => intro b h; cases b <;> simp_all [J.eqv, sameShape]
  | hbool x => intro b h; cases b <;> simp_all [J.eqv, sameShape]
  | hint x => intro b h; cases b <;> simp_all [J.eqv, sameShape]
  | hflt x => intro b h; cases b <;> simp_all [J.eqv, sameShape]
  | hstr x => intro b h; cases b <;> simp_all [J.eqv, sameShape]
  | harr xs ih =>
    intro b h
    cases b with
    | arr ys =>
      simp only [J.eqv] at h
      simp only [sameShape]
      exact pa_eqvList_shape xs ih ys h
    | _ => simp [J.eqv] at h
  | hobj kvs ih =>
    intro b h
    cases b with
    | obj ys =>
      simp only [J.eqv, Bool.and_eq_true] at h
      simp only [sameShape, Bool.and_eq_true]
      exact ⟨h.1, pa_eqvMembers_shape kvs ih ys h.2⟩
    | _ => simp [J.eqv] at h

theorem eqv_refl (a : J) (h : a.wf = true) : a.eqv a = true := by
  induction a using J.induct with
  | hnull => simp [J.eqv]
  | hbool x => simp [J.eqv]
  | hint x => simp [J.eqv]
  | hflt x => simp [J.eqv]
  | hstr x => simp [J.eqv]
  | harr xs ih =>
    simp only [J.eqv]
    exact pa_eqvList_refl xs ih ((pa_wf_arr xs).1 h)
  | hobj kvs ih =>
    rw [pa_wf_obj] at h
    simp only [J.eqv, Bool.and_eq_true]
    exact ⟨by simp, pa_eqvMembers_refl kvs kvs ih h.2 h.1 (fun _ h => h)⟩

end JP.Lemmas
