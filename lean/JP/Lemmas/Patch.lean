/-
  Helper lemmas for C05 (JSON Patch). Statements used by JP/Props/C05.lean.
-/
import JP.Patch
namespace JP.Lemmas
open JP JP.Pointer JP.Patch

/-- Same JSON type at every position (numbers: int or float both count as number). -/
def sameShape : J → J → Bool
  | .null, .null => true
  | .bool _, .bool _ => true
  | .int _, .int _ => true
  | .int _, .flt _ => true
  | .flt _, .int _ => true
  | .flt _, .flt _ => true
  | .str _, .str _ => true
  | .arr xs, .arr ys => shapeList xs ys
  | .obj xs, .obj ys => xs.length == ys.length && shapeMembers xs ys
  | _, _ => false
where
  shapeList : List J → List J → Bool
    | [], [] => true
    | x :: xs, y :: ys => sameShape x y && shapeList xs ys
    | _, _ => false
  shapeMembers : List (Str × J) → List (Str × J) → Bool
    | [], _ => true
    | (k, v) :: rest, ys =>
      (match dictGet ys k with
       | some v' => sameShape v v'
       | none => false) && shapeMembers rest ys

theorem apply_refines_rfc (doc : J) (ops : List SOp) (hstd : ∀ op ∈ ops, op.standard) :
    Refines (Patch.apply (ops.map opOfSpec) doc) (rfcApply ops doc) := by
  sorry

theorem wf_preserved (doc d : J) (ops : List SOp) (hstd : ∀ op ∈ ops, op.standard)
    (hdoc : doc.wf = true)
    (hvals : ∀ op ∈ ops, ∀ p v, (op = .add p v ∨ op = .replace p v) → v.wf = true)
    (h : Patch.apply (ops.map opOfSpec) doc = .ok d) : d.wf = true := by
  sorry

theorem add_at_length (xs : List J) (v : J) :
    applyOp (.arr xs) (.add [toPart (natStr xs.length)] v) = .ok (.arr (xs ++ [v])) := by
  sorry

theorem add_dash (xs : List J) (v : J) :
    applyOp (.arr xs) (.add [.key ['-']] v) = .ok (.arr (xs ++ [v])) := by
  sorry

theorem move_copy_dash (a b : Str) (hab : a ≠ b) (v : J) (xs : List J) :
    applyOp (.obj [(a, v), (b, .arr xs)]) (.copy [.key a] [.key b, .key ['-']])
      = .ok (.obj [(a, v), (b, .arr (xs ++ [v]))]) ∧
    applyOp (.obj [(a, v), (b, .arr xs)]) (.move [.key a] [.key b, .key ['-']])
      = .ok (.obj [(b, .arr (xs ++ [v]))]) := by
  sorry

theorem index_gt_length_fails (xs : List J) (v : J) (n : Nat) (h : xs.length < n)
    (hr : (n : Int) ≤ maxIntIndex) :
    ∃ e, Patch.apply [.add [toPart (natStr n)] v] (.arr xs) = .error e ∧ e.isPatchFamily = true := by
  sorry

theorem noncanonical_index_fails (xs : List J) (v : J) (t : Str)
    (ht : parseIndexToken t = none) (hd : t ≠ ['-']) (hh : t.head? ≠ some '#') :
    ∃ e, Patch.apply [.add [toPart t] v] (.arr xs) = .error e ∧ e.isPatchFamily = true := by
  sorry

theorem integer_like_member_names (kvs : List (Str × J)) (v : J) (n : Nat) (hr : (n : Int) ≤ maxIntIndex) :
    applyOp (.obj kvs) (.add [toPart (natStr n)] v) = .ok (.obj (dictSet kvs (natStr n) v)) ∧
    (dictHas kvs (natStr n) = true →
      applyOp (.obj kvs) (.remove [toPart (natStr n)]) = .ok (.obj (dictErase kvs (natStr n)))) := by
  sorry

theorem replace_root (doc v : J) :
    applyOp doc (.replace [] v) = .ok v ∧ applyOp doc (.add [] v) = .ok v := by
  sorry

theorem move_into_own_child_fails (doc : J) (src : List Str) (t : Str) (more : List Str) :
    ∃ e, Patch.apply [opOfSpec (.move src (src ++ t :: more))] doc = .error e ∧ e.isPatchFamily = true := by
  sorry

theorem eqv_no_bool_num (b : Bool) (i : Int) :
    (J.bool b).eqv (.int i) = false ∧ (J.bool b).eqv (.flt i) = false ∧
    (J.int i).eqv (.bool b) = false ∧ (J.flt i).eqv (.bool b) = false := by
  sorry

theorem eqv_sameShape (a b : J) (h : a.eqv b = true) : sameShape a b = true := by
  sorry

theorem eqv_refl (a : J) (h : a.wf = true) : a.eqv a = true := by
  sorry

end JP.Lemmas
