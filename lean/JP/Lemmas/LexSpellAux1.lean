/-
  LexSpell helpers, part 1: the rule list under arbitrary valid spellings — the environment rules are inert
  on texts that do not start with a symbol character, and an identifier spelling is read by its own rule.
-/
import JP.Lemmas.LexPrintAux6
set_option linter.unusedSimpArgs false
namespace JP.Lemmas.LexSpell
open JP JP.Query JP.Surface JP.Lex JP.Lemmas JP.Lemmas.LexPrint

/-! ### the rule list, split around the environment rules -/

def pre (uw : Char → Bool) : List M :=
  [ mQuoted '"' .dq, mQuoted '\'' .sq, mRe, mSlice, mFunc, mDotProp, mFloat, mInt uw, mDDotProp,
    mLit .ddot ['.', '.'],
    orElse (mLit .and_ ['&', '&']) (mWord uw .and_ ['a', 'n', 'd']),
    orElse (mLit .or_ ['|', '|']) (mWord uw .or_ ['o', 'r']) ]

def post (uw : Char → Bool) : List M :=
  [ mLit .wild ['*'], mLit .filter ['?'],
    mWord uw .in_ ['i', 'n'],
    mWordCI uw .true_ 'T' 't' ['r', 'u', 'e'],
    mWordCI uw .false_ 'F' 'f' ['a', 'l', 's', 'e'],
    mWordCI uw .nil 'N' 'n' ['i', 'l'],
    mWordCI uw .nil 'N' 'n' ['u', 'l', 'l'],
    mWordCI uw .nil 'N' 'n' ['o', 'n', 'e'],
    mWord uw .contains ['c', 'o', 'n', 't', 'a', 'i', 'n', 's'],
    mWord uw .undefined ['u', 'n', 'd', 'e', 'f', 'i', 'n', 'e', 'd'],
    mWord uw .missing ['m', 'i', 's', 's', 'i', 'n', 'g'],
    mLit .lbracket ['['], mLit .rbracket [']'], mLit .comma [','],
    mLit .eq ['=', '='], mLit .ne ['!', '='], mLit .lg ['<', '>'], mLit .le ['<', '='], mLit .ge ['>', '='],
    mLit .re ['=', '~'], mLit .lt ['<'], mLit .gt ['>'],
    orElse (mWord uw .not_ ['n', 'o', 't']) (mLit .not_ ['!']),
    (fun s => (scanKey s).map fun (n, r) => ([⟨.bare, n⟩], r)),
    mLit .lparen ['('], mLit .rparen [')'],
    mSkip ]

theorem rules_eq (sp : Spell) (uw : Char → Bool) : rules ⟨sp, uw⟩ = pre uw ++ (envRules sp ++ post uw) := by
  simp only [rules, pre, post, List.append_assoc]

theorem R_eq (uw : Char → Bool) : R uw = pre uw ++ (envRules dflt ++ post uw) := by
  rw [← rules_eq, rules_dflt]

theorem firstMatch_append_some {A : List M} {s : Str} {r : List RawTok × Str} (B : List M)
    (h : firstMatch A s = some r) : firstMatch (A ++ B) s = some r := by
  induction A with
  | nil => simp [firstMatch] at h
  | cons m ms ih =>
    simp only [List.cons_append, firstMatch] at h ⊢
    cases hm : m s with
    | some x => simpa [hm] using h
    | none => rw [hm] at h; exact ih h

theorem firstMatch_append_none {A : List M} {s : Str} (B : List M)
    (h : firstMatch A s = none) : firstMatch (A ++ B) s = firstMatch B s := by
  induction A with
  | nil => rfl
  | cons m ms ih =>
    simp only [List.cons_append, firstMatch] at h ⊢
    cases hm : m s with
    | some x => rw [hm] at h; cases h
    | none => rw [hm] at h; exact ih h

theorem firstMatch_map_none {α : Type} (f : α → M) (L : List α) (s : Str) (h : ∀ t ∈ L, f t s = none) :
    firstMatch (L.map f) s = none := by
  induction L with
  | nil => rfl
  | cons y ys ih =>
    simp only [List.map_cons, firstMatch, h y (by simp)]
    exact ih (fun t ht => h t (by simp [ht]))

/-! ### symbol characters -/

theorem safeChar_cases {c : Char} (h : safeChar c = true) :
    c = '$' ∨ c = '@' ∨ c = '#' ∨ c = '_' ∨ c = '~' ∨ c = '^' ∨ c = '%' ∨ c = '+' ∨ c = '|' ∨ c = '&' := by
  simpa [safeChar, or_assoc] using h

theorem safeChar_facts {c : Char} (h : safeChar c = true) :
    c ≠ '"' ∧ c ≠ '\'' ∧ c ≠ '/' ∧ c.isDigit = false ∧ c ≠ '-' ∧ isPyBlank c = false ∧ c ≠ ':' ∧
      c.isLower = false ∧ c ≠ '.' ∧ c ≠ '=' := by
  rcases safeChar_cases h with rfl | rfl | rfl | rfl | rfl | rfl | rfl | rfl | rfl | rfl <;> decide

theorem not_safe_of_lower {c : Char} (h : c.isLower = true) : safeChar c = false := by
  cases hs : safeChar c with
  | false => rfl
  | true => have := (safeChar_facts hs).2.2.2.2.2.2.2.1; rw [h] at this; cases this

theorem not_safe_of_intHead {c : Char} (h : c.isDigit = true ∨ c = '-') : safeChar c = false := by
  cases hs : safeChar c with
  | false => rfl
  | true =>
    have f := safeChar_facts hs
    rcases h with h | h
    · rw [h] at f; exact absurd f.2.2.2.1 (by simp)
    · exact absurd h f.2.2.2.2.1

theorem stops_append {p : Char → Bool} {w : Str} (hne : w ≠ []) (h : stops p w = true) (r : Str) :
    stops p (w ++ r) = true := by
  cases w with
  | nil => exact absurd rfl hne
  | cons c t => exact h

theorem stops_safeChar_safe {rest : Str} (h : safe rest = true) : stops safeChar rest = true :=
  stops_of_safe _ (by decide) (by decide) (by decide) (by decide) h

theorem stops_safeChar_sp {rest : Str} (h : LexPrint.sp rest = true) : stops safeChar rest = true := by
  obtain ⟨r, rfl⟩ := sp_cases h
  rfl

/-! ### valid spellings -/

theorem okSpelling_of_mem {sp : Spell} (hv : ValidSpell sp = true) {t : Kind × Str} (ht : t ∈ sp.envTokens) :
    okSpelling t.2 = true := by
  simp only [ValidSpell, Bool.and_eq_true, List.all_eq_true] at hv
  exact hv.1 t.2 (List.mem_map.2 ⟨t, ht, rfl⟩)

theorem okSpelling_shape {s : Str} (h : okSpelling s = true) :
    ∃ c t, s = c :: t ∧ safeChar c = true ∧ t.all safeChar = true := by
  cases s with
  | nil => simp [okSpelling] at h
  | cons c t =>
    simp only [okSpelling, Bool.and_eq_true, List.all_cons] at h
    exact ⟨c, t, rfl, h.1.1.2.1, h.1.1.2.2⟩

theorem okSpelling_all {s : Str} (h : okSpelling s = true) : s.all safeChar = true := by
  simp only [okSpelling, Bool.and_eq_true] at h
  exact h.1.1.2

theorem okSpelling_ne_nil {s : Str} (h : okSpelling s = true) : s ≠ [] := by
  obtain ⟨c, t, rfl, _⟩ := okSpelling_shape h
  simp

theorem pairwiseDistinct_pairwise : ∀ (l : List Str), pairwiseDistinct l = true → l.Pairwise (· ≠ ·)
  | [], _ => List.Pairwise.nil
  | x :: xs, h => by
    simp only [pairwiseDistinct, Bool.and_eq_true, Bool.not_eq_true'] at h
    refine List.pairwise_cons.2 ⟨?_, pairwiseDistinct_pairwise xs h.2⟩
    intro y hy e
    have : xs.contains x = true := by simp [e, hy]
    rw [h.1] at this; cases this

theorem envTokens_distinct {sp : Spell} (hv : ValidSpell sp = true) :
    sp.envTokens.Pairwise (fun a b => a.2 ≠ b.2) := by
  simp only [ValidSpell, Bool.and_eq_true] at hv
  exact List.pairwise_map.1 (pairwiseDistinct_pairwise _ hv.2)

/-! ### the sorted splice -/

theorem insertByLen_perm (x : Kind × Str) (l : List (Kind × Str)) : (insertByLen x l).Perm (x :: l) := by
  induction l with
  | nil => exact List.Perm.refl _
  | cons y ys ih =>
    simp only [insertByLen]
    split
    · exact List.Perm.refl _
    · exact (List.Perm.cons y ih).trans (List.Perm.swap x y ys)

theorem sortLongestFirst_perm (l : List (Kind × Str)) : (sortLongestFirst l).Perm l := by
  induction l with
  | nil => exact List.Perm.refl _
  | cons x xs ih =>
    simp only [sortLongestFirst]
    exact (insertByLen_perm x _).trans (List.Perm.cons x ih)

theorem insertByLen_sorted (x : Kind × Str) (l : List (Kind × Str))
    (h : l.Pairwise (fun a b => a.2.length ≥ b.2.length)) :
    (insertByLen x l).Pairwise (fun a b => a.2.length ≥ b.2.length) := by
  induction l with
  | nil => simp [insertByLen]
  | cons y ys ih =>
    have h' := List.pairwise_cons.1 h
    simp only [insertByLen]
    split
    · rename_i hge
      refine List.pairwise_cons.2 ⟨?_, h⟩
      intro z hz
      rcases List.mem_cons.1 hz with rfl | hz
      · exact hge
      · have := h'.1 z hz
        omega
    · rename_i hlt
      refine List.pairwise_cons.2 ⟨?_, ih h'.2⟩
      intro z hz
      rcases List.mem_cons.1 ((insertByLen_perm x ys).mem_iff.1 hz) with rfl | hz
      · omega
      · exact h'.1 z hz

theorem sortLongestFirst_sorted (l : List (Kind × Str)) :
    (sortLongestFirst l).Pairwise (fun a b => a.2.length ≥ b.2.length) := by
  induction l with
  | nil => exact List.Pairwise.nil
  | cons x xs ih =>
    simp only [sortLongestFirst]
    exact insertByLen_sorted x _ ih

/-- the spliced spellings -/
def envList (sp : Spell) : List (Kind × Str) :=
  (sortLongestFirst sp.envTokens).filter (fun t => !t.2.isEmpty)

theorem envRules_eq (sp : Spell) : envRules sp = (envList sp).map fun t => mLit t.1 t.2 := rfl

theorem mem_envList {sp : Spell} {t : Kind × Str} (h : t ∈ envList sp) : t ∈ sp.envTokens :=
  (sortLongestFirst_perm _).mem_iff.1 (List.mem_filter.1 h).1

theorem envList_mem {sp : Spell} (hv : ValidSpell sp = true) {t : Kind × Str} (h : t ∈ sp.envTokens) :
    t ∈ envList sp := by
  refine List.mem_filter.2 ⟨(sortLongestFirst_perm _).mem_iff.2 h, ?_⟩
  obtain ⟨c, r, hs, _⟩ := okSpelling_shape (okSpelling_of_mem hv h)
  simp [hs]

theorem envList_sorted (sp : Spell) : (envList sp).Pairwise (fun a b => a.2.length ≥ b.2.length) :=
  (sortLongestFirst_sorted _).filter _

theorem envList_distinct {sp : Spell} (hv : ValidSpell sp = true) :
    (envList sp).Pairwise (fun a b => a.2 ≠ b.2) := by
  refine List.Pairwise.filter _ ?_
  exact (List.Perm.pairwise_iff (fun h => Ne.symm h) (sortLongestFirst_perm sp.envTokens)).2
    (envTokens_distinct hv)

/-! ### the environment rules are inert on texts that do not start with a symbol character -/

theorem mLit_head_ne (k : Kind) {a c : Char} (l t : Str) (h : a ≠ c) : mLit k (a :: l) (c :: t) = none := by
  simp [mLit, h]

theorem mLit_nil (k : Kind) (a : Char) (l : Str) : mLit k (a :: l) [] = none := by
  simp [mLit]

theorem envRules_none {sp : Spell} (hv : ValidSpell sp = true) {s : Str} (hs : stops safeChar s = true) :
    firstMatch (envRules sp) s = none := by
  rw [envRules_eq]
  refine firstMatch_map_none _ _ _ (fun t ht => ?_)
  obtain ⟨a, l, hl, ha, _⟩ := okSpelling_shape (okSpelling_of_mem hv (mem_envList ht))
  rw [hl]
  cases s with
  | nil => exact mLit_nil _ _ _
  | cons c r =>
    refine mLit_head_ne _ _ _ ?_
    rintro rfl
    simp [stops, ha] at hs

theorem validSpell_dflt : ValidSpell dflt = true := by decide

/-- on a text whose first character is no symbol character, or that an early rule reads, the rule list
    behaves like the default one -/
theorem fm_transfer {sp : Spell} (hv : ValidSpell sp = true) (uw : Char → Bool) {s : Str}
    (hs : stops safeChar s = true ∨ (firstMatch (pre uw) s).isSome = true) :
    firstMatch (rules ⟨sp, uw⟩) s = firstMatch (R uw) s := by
  rw [rules_eq, R_eq]
  cases hp : firstMatch (pre uw) s with
  | some r => rw [firstMatch_append_some _ hp, firstMatch_append_some _ hp]
  | none =>
    rw [hp] at hs
    have hs' : stops safeChar s = true := by
      rcases hs with hs | hs
      · exact hs
      · cases hs
    rw [firstMatch_append_none _ hp, firstMatch_append_none _ hp,
      firstMatch_append_none _ (envRules_none hv hs'), firstMatch_append_none _ (envRules_none validSpell_dflt hs')]

/-! ### an identifier spelling is read by its own rule -/

theorem prefix_eq_of_len : ∀ (s t rest : Str), t.all safeChar = true → stops safeChar rest = true →
    t.isPrefixOf (s ++ rest) = true → s.length ≤ t.length → t = s
  | [], [], _, _, _, _, _ => rfl
  | [], a :: l, rest, ht, hr, hp, _ => by
    exfalso
    simp only [List.all_cons, Bool.and_eq_true] at ht
    cases rest with
    | nil => simp at hp
    | cons d r =>
      simp only [List.nil_append, List.isPrefixOf_cons_cons, Bool.and_eq_true, beq_iff_eq] at hp
      simp only [stops, Bool.not_eq_true'] at hr
      rw [← hp.1, ht.1] at hr; cases hr
  | c :: s, [], _, _, _, _, hl => by simp at hl
  | c :: s, a :: l, rest, ht, hr, hp, hl => by
    simp only [List.all_cons, Bool.and_eq_true] at ht
    simp only [List.cons_append, List.isPrefixOf_cons_cons, Bool.and_eq_true, beq_iff_eq] at hp
    simp only [List.length_cons, Nat.add_le_add_iff_right] at hl
    rw [hp.1, prefix_eq_of_len s l rest ht.2 hr hp.2 hl]

theorem mLit_self (k : Kind) (s rest : Str) : mLit k s (s ++ rest) = some ([⟨k, s⟩], rest) := by
  have : s.isPrefixOf (s ++ rest) = true := List.isPrefixOf_iff_prefix.2 (List.prefix_append s rest)
  simp [mLit, this]

theorem mLit_not_prefix (k : Kind) (t x : Str) (h : t.isPrefixOf x = false) : mLit k t x = none := by
  simp [mLit, h]

theorem fm_lits (L : List (Kind × Str)) (k : Kind) (s rest : Str)
    (hsorted : L.Pairwise (fun a b => a.2.length ≥ b.2.length))
    (hdist : L.Pairwise (fun a b => a.2 ≠ b.2))
    (hmem : (k, s) ∈ L)
    (hkey : ∀ t ∈ L, t.2.isPrefixOf (s ++ rest) = true → s.length ≤ t.2.length → t.2 = s) :
    firstMatch (L.map fun t => mLit t.1 t.2) (s ++ rest) = some ([⟨k, s⟩], rest) := by
  induction L with
  | nil => cases hmem
  | cons y ys ih =>
    have h1 := List.pairwise_cons.1 hsorted
    have h2 := List.pairwise_cons.1 hdist
    rcases List.mem_cons.1 hmem with e | hm
    · subst e
      simp only [List.map_cons, firstMatch, mLit_self]
    · have hlen : s.length ≤ y.2.length := h1.1 _ hm
      have hne : y.2 ≠ s := h2.1 _ hm
      have hnp : y.2.isPrefixOf (s ++ rest) = false := by
        cases hp : y.2.isPrefixOf (s ++ rest) with
        | false => rfl
        | true => exact absurd (hkey y (by simp) hp hlen) hne
      simp only [List.map_cons, firstMatch, mLit_not_prefix _ _ _ hnp]
      exact ih h1.2 h2.2 hm (fun t ht => hkey t (by simp [ht]))

theorem envRules_ident {sp : Spell} (hv : ValidSpell sp = true) {k : Kind} {s : Str} (hm : (k, s) ∈ sp.envTokens)
    {rest : Str} (hr : stops safeChar rest = true) :
    firstMatch (envRules sp) (s ++ rest) = some ([⟨k, s⟩], rest) := by
  rw [envRules_eq]
  refine fm_lits _ k s rest (envList_sorted sp) (envList_distinct hv) (envList_mem hv hm) ?_
  intro t ht hp hl
  exact prefix_eq_of_len s t.2 rest (okSpelling_all (okSpelling_of_mem hv (mem_envList ht))) hr hp hl

/-! ### the early rules fail on an identifier spelling -/

theorem mFloat_head {c : Char} (t : Str) (h1 : c.isDigit = false) (h2 : c ≠ '-') : mFloat (c :: t) = none := by
  unfold mFloat
  rw [optSign_of_ne _ h2]
  simp [LexPrint.span_eq, h1]

theorem mInt_head (uw : Char → Bool) {c : Char} (t : Str) (h1 : c.isDigit = false) (h2 : c ≠ '-') :
    mInt uw (c :: t) = none := by
  unfold mInt
  rw [optSign_of_ne _ h2]
  simp [LexPrint.span_eq, h1]

theorem mDDotProp_ne {c : Char} (s : Str) (h : c ≠ '.') : mDDotProp (c :: s) = none := by
  unfold mDDotProp
  split
  · rename_i heq; simp only [List.cons.injEq] at heq; exact absurd heq.1 h
  · rfl

theorem mWord_head_ne (uw : Char → Bool) (k : Kind) {a c : Char} (l t : Str) (h : a ≠ c) :
    mWord uw k (a :: l) (c :: t) = none := by
  simp [mWord, h]

theorem mLit2_none (k : Kind) (a b : Char) (x : Str) (h : startsWith2 x a b = false) : mLit k [a, b] x = none := by
  refine mLit_not_prefix _ _ _ ?_
  match x, h with
  | [], _ => rfl
  | [c], _ => simp [List.isPrefixOf]
  | c :: d :: r, h =>
    simp only [startsWith2, Bool.and_eq_false_iff, beq_eq_false_iff_ne] at h
    simp only [List.isPrefixOf_cons_cons, List.isPrefixOf_nil_left, Bool.and_true, Bool.and_eq_false_iff,
      beq_eq_false_iff_ne]
    rcases h with h | h
    · exact .inl (Ne.symm h)
    · exact .inr (Ne.symm h)

theorem startsWith2_ident {s rest : Str} (a b : Char) (hb : safeChar b = true) (hs : startsWith2 s a b = false)
    (hne : s ≠ []) (hr : stops safeChar rest = true) : startsWith2 (s ++ rest) a b = false := by
  match s, hne, hs with
  | [c], _, _ =>
    cases rest with
    | nil => rfl
    | cons d r =>
      simp only [stops, Bool.not_eq_true'] at hr
      have : d ≠ b := by rintro rfl; rw [hb] at hr; cases hr
      simp [startsWith2, this]
  | c :: d :: t, _, hs => simpa [startsWith2] using hs

theorem pre_none_ident (uw : Char → Bool) {s rest : Str} (hs : okSpelling s = true) (hr : stops safeChar rest = true) :
    firstMatch (pre uw) (s ++ rest) = none := by
  have hne := okSpelling_ne_nil hs
  have hs' := hs
  simp only [okSpelling, Bool.and_eq_true, Bool.not_eq_true'] at hs'
  have ha := mLit2_none .and_ '&' '&' _ (startsWith2_ident '&' '&' (by decide) hs'.1.2 hne hr)
  have ho := mLit2_none .or_ '|' '|' _ (startsWith2_ident '|' '|' (by decide) hs'.2 hne hr)
  obtain ⟨c, t, rfl, hc, _⟩ := okSpelling_shape hs
  obtain ⟨f1, f2, f3, f4, f5, f6, f7, f8, f9, f10⟩ := safeChar_facts hc
  have g1 : 'a' ≠ c := by rintro rfl; revert hc; decide
  have g2 : 'o' ≠ c := by rintro rfl; revert hc; decide
  rw [List.cons_append] at ha ho ⊢
  simp only [pre, firstMatch, mQuoted_ne _ _ f1, mQuoted_ne _ _ f2, mRe_ne _ f3, mSlice_head _ f4 f5 f6 f7,
    mFunc_not_lower _ f8, mDotProp_ne _ f9, mFloat_head _ f4 f5, mInt_head uw _ f4 f5, mDDotProp_ne _ f9,
    mLit_head_ne _ _ _ (Ne.symm f9), orElse, ha, ho, mWord_head_ne uw _ _ _ g1, mWord_head_ne uw _ _ _ g2]

theorem fm_ident {sp : Spell} (hv : ValidSpell sp = true) (uw : Char → Bool) {k : Kind} {s : Str}
    (hm : (k, s) ∈ sp.envTokens) {rest : Str} (hr : stops safeChar rest = true) :
    firstMatch (rules ⟨sp, uw⟩) (s ++ rest) = some ([⟨k, s⟩], rest) := by
  rw [rules_eq, firstMatch_append_none _ (pre_none_ident uw (okSpelling_of_mem hv hm) hr),
    firstMatch_append_some _ (envRules_ident hv hm hr)]

end JP.Lemmas.LexSpell

