/-
  Helper lemmas for C19, overlapping selections: `patchO` (the whole of `_patch_obj`) on selections that
  are all taken from one value `w`. The invariant is `Sub`: the intermediate object is a pruning of `w`.
-/
import JP.Lemmas.Projection
namespace JP.Lemmas
open JP JP.Projection

/-! ## `patchO` extends `patch` -/

theorem patch_extends (ps : List Part) (kvs k : List (Part × T)) (v : J) (h : patch ps kvs v = some k) :
    patchO ps kvs v = some k := by
  induction ps, kvs, v using patch.induct generalizing k with
  | case1 => simp [patch] at h
  | case2 p kvs v => simpa [patch, patchO] using h
  | case3 p q rest kvs v hg ih =>
    simp only [patch, hg, Option.map_eq_some_iff] at h
    obtain ⟨sub', hs, rfl⟩ := h
    simp [patchO, hg, ih sub' hs]
  | case4 p q rest kvs v sub hg ih =>
    simp only [patch, hg, Option.map_eq_some_iff] at h
    obtain ⟨sub', hs, rfl⟩ := h
    simp [patchO, hg, ih sub' hs]
  | case5 p q rest kvs v w hg => simp [patch, hg] at h

theorem patchAll_extends (sels : List (List Part × J)) (kvs k : List (Part × T))
    (h : patchAll sels kvs = some k) : patchAllO sels kvs = some k := by
  induction sels generalizing kvs with
  | nil => simpa [patchAll, patchAllO] using h
  | cons s rest ih =>
    obtain ⟨ps, v⟩ := s
    simp only [patchAll, Option.bind_eq_some_iff] at h
    obtain ⟨k1, h1, h2⟩ := h
    simp [patchAllO, patch_extends ps kvs k1 v h1, ih k1 h2]

/-! ## `lookupJ` -/

theorem lookupJ_cons (w : J) (p : Part) (rest : List Part) :
    lookupJ w (p :: rest) = (lookupJ w [p]).bind (lookupJ · rest) := by
  cases w <;> cases p <;> simp [lookupJ]
  split <;> simp

theorem lookupJ_append (w : J) (a b : List Part) :
    lookupJ w (a ++ b) = (lookupJ w a).bind (lookupJ · b) := by
  induction a generalizing w with
  | nil => simp [lookupJ]
  | cons p a ih =>
    rw [List.cons_append, lookupJ_cons, lookupJ_cons w p a]
    cases lookupJ w [p] with
    | none => rfl
    | some c => simp [ih]

theorem dictSet_same {α} (kvs : List (Str × α)) (k : Str) (c : α) (h : dictGet kvs k = some c) :
    dictSet kvs k c = kvs := by
  induction kvs with
  | nil => simp [dictGet] at h
  | cons kv kvs ih =>
    obtain ⟨k', v'⟩ := kv
    simp only [dictGet] at h
    by_cases hk : k' = k
    · simp only [hk, if_true, Option.some.injEq] at h
      subst h; subst hk; simp [dictSet]
    · simp only [hk, if_false] at h
      simp [dictSet, hk, ih h]

theorem list_set_same {α} (xs : List α) (n : Nat) (c : α) (h : xs[n]? = some c) : xs.set n c = xs := by
  induction xs generalizing n with
  | nil => simp at h
  | cons x xs ih =>
    cases n with
    | zero => simp at h; subst h; rfl
    | succ m => simp at h; simp [ih m h]

/-- assigning, inside a copied value, the value that is already there changes nothing -/
theorem setJ_same (ps : List Part) (w v : J) (hne : ps ≠ []) (h : lookupJ w ps = some v) :
    setJ w ps v = some w := by
  induction ps generalizing w with
  | nil => exact absurd rfl hne
  | cons p rest ih =>
    cases rest with
    | nil =>
      cases w <;> cases p <;> simp [lookupJ] at h
      · rename_i xs n
        obtain ⟨h0, h1⟩ := h
        have hlt : n.toNat < xs.length := by
          rcases Nat.lt_or_ge n.toNat xs.length with hl | hl
          · exact hl
          · simp [List.getElem?_eq_none hl] at h1
        simp [setJ, h0, hlt, list_set_same xs n.toNat v h1]
      · rename_i kvs k
        simp [setJ, dictSet_same kvs k v h]
    | cons q rest' =>
      rw [lookupJ_cons] at h
      cases w with
      | arr xs =>
        cases p with
        | idx n =>
          by_cases h0 : 0 ≤ n
          · cases hc : xs[n.toNat]? with
            | none => simp [lookupJ, h0, hc] at h
            | some c =>
              simp only [lookupJ, h0, if_true, hc, Option.bind_some] at h
              have := ih c (by simp) h
              simp [setJ, h0, hc, this, list_set_same xs n.toNat c hc]
          · simp [lookupJ, h0] at h
        | key k => simp [lookupJ] at h
      | obj kvs =>
        cases p with
        | idx n => simp [lookupJ] at h
        | key k =>
          cases hc : dictGet kvs k with
          | none => simp [lookupJ, hc] at h
          | some c =>
            simp only [lookupJ, hc, Option.bind_some] at h
            have := ih c (by simp) h
            simp [setJ, hc, this, dictSet_same kvs k c hc]
      | null | bool _ | int _ | flt _ | str _ => cases p <;> simp [lookupJ] at h

/-! ## `Sub` -/

theorem sub_leaf (v w : J) : Projection.Sub (.leaf v) w ↔ v = w := by rw [Projection.Sub]
theorem sub_node (kvs : List (Part × T)) (w : J) : Projection.Sub (.node kvs) w ↔ Sub.SubL kvs w := by rw [Projection.Sub]

theorem subL_get (kvs : List (Part × T)) (w : J) (p : Part) (t : T) (hs : Sub.SubL kvs w)
    (hg : getT kvs p = some t) : ∃ c, lookupJ w [p] = some c ∧ Projection.Sub t c := by
  induction kvs with
  | nil => simp [getT] at hg
  | cons kv kvs ih =>
    obtain ⟨q, u⟩ := kv
    rw [Sub.SubL] at hs
    simp only [getT] at hg
    by_cases hq : q = p
    · simp only [hq, if_true, Option.some.injEq] at hg
      subst hg; subst hq; exact hs.1
    · simp only [hq, if_false] at hg
      exact ih hs.2 hg

theorem subL_set (kvs : List (Part × T)) (w c : J) (p : Part) (t : T) (hs : Sub.SubL kvs w)
    (hc : lookupJ w [p] = some c) (ht : Projection.Sub t c) : Sub.SubL (setT kvs p t) w := by
  induction kvs with
  | nil => simp only [setT, Sub.SubL]; exact ⟨⟨c, hc, ht⟩, trivial⟩
  | cons kv kvs ih =>
    obtain ⟨q, u⟩ := kv
    rw [Sub.SubL] at hs
    simp only [setT]
    by_cases hq : q = p
    · simp only [hq, if_true, Sub.SubL]
      exact ⟨⟨c, hc, ht⟩, hs.2⟩
    · simp only [hq, if_false, Sub.SubL]
      exact ⟨hs.1, ih hs.2⟩

theorem setT_same (kvs : List (Part × T)) (p : Part) (t : T) (h : getT kvs p = some t) : setT kvs p t = kvs := by
  induction kvs with
  | nil => simp [getT] at h
  | cons kv kvs ih =>
    obtain ⟨q, u⟩ := kv
    simp only [getT] at h
    by_cases hq : q = p
    · simp only [hq, if_true, Option.some.injEq] at h
      subst h; subst hq; simp [setT]
    · simp only [hq, if_false] at h
      simp [setT, hq, ih h]

theorem getDeep_leaf (v : J) (ps : List Part) : getDeep (.leaf v) ps = lookupJ v ps := by rw [getDeep]
theorem getDeep_node_nil (kvs : List (Part × T)) : getDeep (.node kvs) [] = none := by rw [getDeep]
theorem getDeep_node_cons (kvs : List (Part × T)) (p : Part) (rest : List Part) :
    getDeep (.node kvs) (p :: rest) = (getT kvs p).bind (getDeep · rest) := by rw [getDeep]

/-- what is found at or below a leaf of a pruning of `w` is what `w` has there -/
theorem sub_getDeep (qs : List Part) (t : T) (w u : J) (hs : Projection.Sub t w) (hg : getDeep t qs = some u) :
    lookupJ w qs = some u := by
  induction qs generalizing t w with
  | nil =>
    cases t with
    | leaf v => rw [sub_leaf] at hs; subst hs; simpa [getDeep_leaf] using hg
    | node kvs => simp [getDeep_node_nil] at hg
  | cons q qs ih =>
    cases t with
    | leaf v => rw [sub_leaf] at hs; subst hs; simpa [getDeep_leaf] using hg
    | node kvs =>
      rw [sub_node] at hs
      rw [getDeep_node_cons] at hg
      cases hq : getT kvs q with
      | none => simp [hq] at hg
      | some t' =>
        simp only [hq, Option.bind_some] at hg
        obtain ⟨c, hc, hsc⟩ := subL_get kvs w q t' hs hq
        rw [lookupJ_cons, hc]
        exact ih t' c hsc hg

/-! ## one `_patch_obj` call -/

/-- **One call of `_patch_obj`** with a selection `(ps, v)` taken from `w`, on an intermediate object that is
    a pruning of `w`: it is defined, the result is again a pruning of `w`, the selected value is found at `ps`,
    and whatever was found at or below a leaf before is still found there. -/
theorem patchO_sub (ps : List Part) (kvs : List (Part × T)) (w v : J) (hne : ps ≠ [])
    (hs : Sub.SubL kvs w) (hv : lookupJ w ps = some v) :
    ∃ kvs', patchO ps kvs v = some kvs' ∧ Sub.SubL kvs' w ∧ getDeep (.node kvs') ps = some v ∧
      ∀ qs u, getDeep (.node kvs) qs = some u → getDeep (.node kvs') qs = some u := by
  induction ps generalizing kvs w with
  | nil => exact absurd rfl hne
  | cons p rest ih =>
    cases rest with
    | nil =>
      refine ⟨setT kvs p (.leaf v), by simp [patchO], ?_, ?_, ?_⟩
      · exact subL_set kvs w v p (.leaf v) hs hv ((sub_leaf v v).2 rfl)
      · simp [getDeep_node_cons, getT_setT_self, getDeep_leaf, lookupJ]
      · intro qs u hq
        have hwu := sub_getDeep qs (.node kvs) w u ((sub_node kvs w).2 hs) hq
        cases qs with
        | nil => simp [getDeep_node_nil] at hq
        | cons q qs' =>
          rw [getDeep_node_cons]
          by_cases hqp : q = p
          · subst hqp
            rw [getT_setT_self]
            simp only [Option.bind_some, getDeep_leaf]
            rw [lookupJ_cons, hv] at hwu
            simpa using hwu
          · rw [getT_setT_ne _ _ _ _ hqp]
            rw [getDeep_node_cons] at hq
            exact hq
    | cons q rest' =>
      rw [lookupJ_cons] at hv
      cases hc : lookupJ w [p] with
      | none => simp [hc] at hv
      | some c =>
        simp only [hc, Option.bind_some] at hv
        -- the frame part is the same in the three cases once the new subtree `t'` is known
        have frame : ∀ (t' : T), (∀ t0, getT kvs p = some t0 → ∀ qs u, getDeep t0 qs = some u → getDeep t' qs = some u) →
            ∀ qs u, getDeep (.node kvs) qs = some u → getDeep (.node (setT kvs p t')) qs = some u := by
          intro t' hfr qs u hq
          cases qs with
          | nil => simp [getDeep_node_nil] at hq
          | cons q0 qs' =>
            rw [getDeep_node_cons] at hq ⊢
            by_cases hqp : q0 = p
            · subst hqp
              rw [getT_setT_self]
              cases hg0 : getT kvs q0 with
              | none => simp [hg0] at hq
              | some t0 =>
                simp only [hg0, Option.bind_some] at hq
                simpa using hfr t0 hg0 qs' u hq
            · rw [getT_setT_ne _ _ _ _ hqp]; exact hq
        cases hg : getT kvs p with
        | none =>
          obtain ⟨sub', h1, h2, h3, _⟩ := ih [] c (by simp) (by simp [Sub.SubL]) hv
          refine ⟨setT kvs p (.node sub'), by simp [patchO, hg, h1], ?_, ?_, ?_⟩
          · exact subL_set kvs w c p (.node sub') hs hc ((sub_node sub' c).2 h2)
          · rw [getDeep_node_cons, getT_setT_self]; simpa using h3
          · exact frame (.node sub') (fun t0 h0 => by simp [hg] at h0)
        | some t0 =>
          obtain ⟨c0, hc0, hs0⟩ := subL_get kvs w p t0 hs hg
          rw [hc] at hc0
          injection hc0 with hc0
          subst hc0
          cases t0 with
          | node sub =>
            obtain ⟨sub', h1, h2, h3, h4⟩ := ih sub c (by simp) ((sub_node sub c).1 hs0) hv
            refine ⟨setT kvs p (.node sub'), by simp [patchO, hg, h1], ?_, ?_, ?_⟩
            · exact subL_set kvs w c p (.node sub') hs hc ((sub_node sub' c).2 h2)
            · rw [getDeep_node_cons, getT_setT_self]; simpa using h3
            · refine frame (.node sub') (fun t0 h0 qs u hq => ?_)
              rw [hg] at h0
              injection h0 with h0
              subst h0
              exact h4 qs u hq
          | leaf x =>
            have hx : x = c := (sub_leaf x c).1 hs0
            subst hx
            have hset := setJ_same (q :: rest') x v (by simp) hv
            refine ⟨setT kvs p (.leaf x), by simp [patchO, hg, hset], ?_, ?_, ?_⟩
            · rw [setT_same kvs p (.leaf x) hg]; exact hs
            · rw [getDeep_node_cons, getT_setT_self]; simpa [getDeep_leaf] using hv
            · rw [setT_same kvs p (.leaf x) hg]; intro qs u hq; exact hq

/-- **All selections**, in any order and however they overlap. -/
theorem patchAllO_sub (sels : List (List Part × J)) (kvs : List (Part × T)) (w : J)
    (hs : Sub.SubL kvs w) (hsel : ∀ s ∈ sels, s.1 ≠ [] ∧ lookupJ w s.1 = some s.2) :
    ∃ kvs', patchAllO sels kvs = some kvs' ∧ Sub.SubL kvs' w ∧
      (∀ s ∈ sels, getDeep (.node kvs') s.1 = some s.2) ∧
      ∀ qs u, getDeep (.node kvs) qs = some u → getDeep (.node kvs') qs = some u := by
  induction sels generalizing kvs with
  | nil => exact ⟨kvs, by simp [patchAllO], hs, by simp, fun _ _ h => h⟩
  | cons s rest ih =>
    obtain ⟨ps, v⟩ := s
    obtain ⟨hne, hv⟩ := hsel (ps, v) List.mem_cons_self
    obtain ⟨k1, h1, h2, h3, h4⟩ := patchO_sub ps kvs w v hne hs hv
    obtain ⟨k2, g1, g2, g3, g4⟩ := ih k1 h2 (fun s hs' => hsel s (List.mem_cons_of_mem _ hs'))
    refine ⟨k2, by simp [patchAllO, h1, g1], g2, ?_, fun qs u hq => g4 qs u (h4 qs u hq)⟩
    intro s hs'
    rcases List.mem_cons.1 hs' with rfl | hs'
    · exact g4 ps v h3
    · exact g3 s hs'

/-! ## no other leaves -/

theorem getPath_leaf_getDeep (qs : List Part) (t : T) (x : J) (h : getPath t qs = some (.leaf x)) :
    getDeep t qs = some x := by
  induction qs generalizing t with
  | nil =>
    simp only [getPath, Option.some.injEq] at h
    subst h; simp [getDeep_leaf, lookupJ]
  | cons q qs ih =>
    cases t with
    | leaf v => simp [getPath_leaf_cons] at h
    | node kvs =>
      rw [getPath_cons] at h
      rw [getDeep_node_cons]
      cases hg : getT kvs q with
      | none => simp [hg] at h
      | some t' => simp only [hg, Option.bind_some] at h ⊢; exact ih t' h

/-- after one `_patch_obj` call every leaf of the intermediate object sits at the selected location or where a
    leaf sat before -/
theorem patchO_leafpos (ps : List Part) (kvs kvs' : List (Part × T)) (v : J) (h : patchO ps kvs v = some kvs')
    (qs : List Part) (x : J) (hl : getPath (.node kvs') qs = some (.leaf x)) :
    qs = ps ∨ ∃ x0, getPath (.node kvs) qs = some (.leaf x0) := by
  induction ps generalizing kvs kvs' qs with
  | nil => simp [patchO] at h
  | cons p rest ih =>
    cases qs with
    | nil => simp [getPath] at hl
    | cons q0 qs' =>
      have other : ∀ t', kvs' = setT kvs p t' → q0 ≠ p → ∃ x0, getPath (.node kvs) (q0 :: qs') = some (.leaf x0) := by
        intro t' e hne
        subst e
        rw [getPath_cons, getT_setT_ne _ _ _ _ hne] at hl
        exact ⟨x, by rw [getPath_cons]; exact hl⟩
      cases rest with
      | nil =>
        simp only [patchO, Option.some.injEq] at h
        by_cases hq : q0 = p
        · subst hq; subst h
          rw [getPath_cons, getT_setT_self] at hl
          simp only [Option.bind_some] at hl
          cases qs' with
          | nil => left; rfl
          | cons a b => simp [getPath_leaf_cons] at hl
        · right; exact other _ h.symm hq
      | cons q rest' =>
        cases hg : getT kvs p with
        | none =>
          simp only [patchO, hg, Option.map_eq_some_iff] at h
          obtain ⟨sub', hs, rfl⟩ := h
          by_cases hq : q0 = p
          · subst hq
            rw [getPath_cons, getT_setT_self] at hl
            simp only [Option.bind_some] at hl
            rcases ih [] sub' hs qs' hl with e | ⟨x0, hx0⟩
            · left; rw [e]
            · cases qs' with
              | nil => simp [getPath] at hx0
              | cons a b => simp [getPath_nil_cons] at hx0
          · right; exact other _ rfl hq
        | some t0 =>
          cases t0 with
          | node sub =>
            simp only [patchO, hg, Option.map_eq_some_iff] at h
            obtain ⟨sub', hs, rfl⟩ := h
            by_cases hq : q0 = p
            · subst hq
              rw [getPath_cons, getT_setT_self] at hl
              simp only [Option.bind_some] at hl
              rcases ih sub sub' hs qs' hl with e | ⟨x0, hx0⟩
              · left; rw [e]
              · right; exact ⟨x0, by rw [getPath_cons, hg]; exact hx0⟩
            · right; exact other _ rfl hq
          | leaf w0 =>
            simp only [patchO, hg, Option.map_eq_some_iff] at h
            obtain ⟨w', _, rfl⟩ := h
            by_cases hq : q0 = p
            · subst hq
              rw [getPath_cons, getT_setT_self] at hl
              simp only [Option.bind_some] at hl
              cases qs' with
              | nil => right; exact ⟨w0, by rw [getPath_cons, hg]; simp [getPath]⟩
              | cons a b => simp [getPath_leaf_cons] at hl
            · right; exact other _ rfl hq

theorem patchAllO_leafpos (sels : List (List Part × J)) (kvs kvs' : List (Part × T))
    (h : patchAllO sels kvs = some kvs') (qs : List Part) (x : J)
    (hl : getPath (.node kvs') qs = some (.leaf x)) :
    (∃ s ∈ sels, s.1 = qs) ∨ ∃ x0, getPath (.node kvs) qs = some (.leaf x0) := by
  induction sels generalizing kvs with
  | nil =>
    simp only [patchAllO, Option.some.injEq] at h
    subst h; right; exact ⟨x, hl⟩
  | cons s rest ih =>
    obtain ⟨ps, v⟩ := s
    simp only [patchAllO, Option.bind_eq_some_iff] at h
    obtain ⟨k1, h1, h2⟩ := h
    rcases ih k1 h2 with ⟨s, hs, e⟩ | ⟨x0, hx0⟩
    · left; exact ⟨s, List.mem_cons_of_mem _ hs, e⟩
    · rcases patchO_leafpos ps kvs k1 v h1 qs x0 hx0 with e | hx
      · left; exact ⟨(ps, v), List.mem_cons_self, e.symm⟩
      · right; exact hx

/-! ## compaction -/

theorem subL_mem (kvs : List (Part × T)) (w : J) (hs : Sub.SubL kvs w) :
    ∀ kv ∈ kvs, ∃ c, lookupJ w [kv.1] = some c ∧ Projection.Sub kv.2 c := by
  induction kvs with
  | nil => intro kv h; cases h
  | cons kv0 kvs ih =>
    obtain ⟨q, u⟩ := kv0
    rw [Sub.SubL] at hs
    intro kv hkv
    rcases List.mem_cons.1 hkv with rfl | hkv
    · exact hs.1
    · exact ih hs.2 kv hkv

/-- a pruning of a JSON value never mixes indices and names on one level -/
theorem sub_homogeneous (t : T) : ∀ (w : J), Projection.Sub t w → homogeneous t = true := by
  induction t using T.rec (motive_2 := fun kvs => ∀ w, Sub.SubL kvs w → homogeneous.homL kvs = true)
      (motive_3 := fun kv => ∀ c, Projection.Sub kv.2 c → homogeneous kv.2 = true) with
  | leaf v => intro w _; rw [homogeneous]
  | node kvs ih =>
    intro w hs
    rw [sub_node] at hs
    rw [homogeneous, Bool.and_eq_true, Bool.or_eq_true]
    refine ⟨?_, ih w hs⟩
    have hm := subL_mem kvs w hs
    cases w with
    | arr xs =>
      left
      rw [List.all_eq_true]
      intro kv hkv
      obtain ⟨c, hc, _⟩ := hm kv hkv
      cases hk : kv.1 with
      | idx i => rfl
      | key a => rw [hk] at hc; simp [lookupJ] at hc
    | obj m =>
      right
      rw [List.all_eq_true]
      intro kv hkv
      obtain ⟨c, hc, _⟩ := hm kv hkv
      cases hk : kv.1 with
      | idx i => rw [hk] at hc; simp [lookupJ] at hc
      | key a => rfl
    | null | bool _ | int _ | flt _ | str _ =>
      left
      rw [List.all_eq_true]
      intro kv hkv
      obtain ⟨c, hc, _⟩ := hm kv hkv
      cases hk : kv.1 <;> rw [hk] at hc <;> simp [lookupJ] at hc
  | nil => rw [homogeneous.homL]
  | cons kv kvs ih1 ih2 =>
    rename_i w hs
    obtain ⟨q, u⟩ := kv
    rw [Sub.SubL] at hs
    obtain ⟨⟨c, _, hsc⟩, hrest⟩ := hs
    rw [homogeneous.homL, Bool.and_eq_true]
    exact ⟨ih1 c hsc, ih2 w hrest⟩
  | mk p t ih => rename_i c hs; exact ih c hs

theorem rankDeep_leaf (v : J) (ps : List Part) : rankDeep (.leaf v) ps = some ps := by rw [rankDeep]
theorem rankDeep_node_cons (kvs : List (Part × T)) (p : Part) (rest : List Part) :
    rankDeep (.node kvs) (p :: rest) =
      (getT kvs p).bind fun t => (keyPos kvs p).bind fun n => (rankDeep t rest).map (rankHead kvs p n :: ·) := by
  rw [rankDeep]

/-- **Compaction, continued into copied values**: what is found at or below a leaf of the intermediate object
    is found in the fixed value at the location whose indices, down to the leaf, are replaced by their
    positions among the selected ones and, inside the leaf, are kept. -/
theorem fix_lookup_deep (ps : List Part) (t : T) (rs : List Part) (v : J) (hh : homogeneous t = true)
    (hp : getDeep t ps = some v) (hr : rankDeep t ps = some rs) :
    lookupJ (fix t) rs = some v := by
  induction ps generalizing t rs with
  | nil =>
    cases t with
    | leaf x =>
      rw [rankDeep_leaf] at hr; injection hr with hr; subst hr
      rw [getDeep_leaf] at hp
      rw [fix, fixJ_id]; exact hp
    | node kvs => simp [getDeep_node_nil] at hp
  | cons p rest ih =>
    cases t with
    | leaf x =>
      rw [rankDeep_leaf] at hr; injection hr with hr; subst hr
      rw [getDeep_leaf] at hp
      rw [fix, fixJ_id]; exact hp
    | node kvs =>
      rw [getDeep_node_cons] at hp
      rw [rankDeep_node_cons] at hr
      cases hg : getT kvs p with
      | none => simp [hg] at hp
      | some t' =>
        cases hk : keyPos kvs p with
        | none => simp [hg, hk] at hr
        | some n =>
          simp only [hg, hk, Option.bind_some, Option.map_eq_some_iff] at hp hr
          obtain ⟨r, hr', rfl⟩ := hr
          rw [homogeneous, Bool.and_eq_true, Bool.or_eq_true] at hh
          obtain ⟨hkind, hL⟩ := hh
          have hmem := getT_mem kvs p t' hg
          have ht' : homogeneous t' = true := homL_mem kvs hL (p, t') hmem
          have IH := ih t' r ht' hp hr'
          unfold rankHead
          cases kvs with
          | nil => cases hmem
          | cons kv0 kr =>
            obtain ⟨p0, t0⟩ := kv0
            cases p0 with
            | idx i =>
              rw [fix_node_vals]
              simp only []
              rw [lookupJ]
              simp [fixVals_getElem _ p n t' hg hk, IH]
            | key k =>
              rw [fix_node_members]
              have hall : ∀ kv ∈ ((Part.key k, t0) :: kr), ∃ a, kv.1 = Part.key a := by
                rcases hkind with hk1 | hk1
                · simp at hk1
                · intro kv hkv
                  have := List.all_eq_true.1 hk1 kv hkv
                  cases hkv1 : kv.1 with
                  | idx j => simp [hkv1] at this
                  | key a => exact ⟨a, rfl⟩
              obtain ⟨b, hb⟩ := hall (p, t') hmem
              simp only at hb
              subst hb
              simp only []
              rw [Pointer.partStr, lookupJ]
              simp [fixMembers_dictGet _ b t' hall hg, IH]

/-- a location at or below a leaf of a pruning has a compacted location -/
theorem rankDeep_defined (ps : List Part) (t : T) (v : J) (hp : getDeep t ps = some v) :
    ∃ rs, rankDeep t ps = some rs := by
  induction ps generalizing t with
  | nil =>
    cases t with
    | leaf x => exact ⟨[], rankDeep_leaf x []⟩
    | node kvs => simp [getDeep_node_nil] at hp
  | cons p rest ih =>
    cases t with
    | leaf x => exact ⟨_, rankDeep_leaf x _⟩
    | node kvs =>
      rw [getDeep_node_cons] at hp
      cases hg : getT kvs p with
      | none => simp [hg] at hp
      | some t' =>
        simp only [hg, Option.bind_some] at hp
        obtain ⟨r, hr⟩ := ih t' hp
        have hk : ∃ n, keyPos kvs p = some n := by
          clear hp ih hr
          induction kvs with
          | nil => simp [getT] at hg
          | cons kv kvs ih2 =>
            obtain ⟨q, u⟩ := kv
            simp only [getT] at hg
            simp only [keyPos]
            by_cases hq : q = p
            · exact ⟨0, by simp [hq]⟩
            · simp only [hq, if_false] at hg ⊢
              obtain ⟨m, hm⟩ := ih2 hg
              exact ⟨m + 1, by simp [hm]⟩
        obtain ⟨n, hn⟩ := hk
        rw [rankDeep_node_cons, hg, hn]; simp [hr]

end JP.Lemmas
