/-
  Every RFC 9535 spelling of a query WITH filter selectors compiles (lexer model, literal decoding, Pratt
  parser model) to that query.
-/
import JP.RfcSpellF
import JP.Lemmas.RfcSpell
import JP.Lemmas.RfcSpellFAux7
namespace JP.Lemmas
open JP JP.Query JP.Surface JP.Lex JP.RfcSpell JP.RfcSpellF

theorem rfc_filter_spelling_compiles (pr : Prec) (hpr : precOK pr = true) (uw : Char → Bool) (segs : List Seg) (text : Str)
    (h : QuerySpellF segs text) :
    compileText pr ⟨dflt, uw⟩ text = some ⟨segs, false⟩ := by
  obtain ⟨T, hT, hz⟩ := RfcSpellF.tokenize_spellF (precFacts_of pr hpr) uw h
  unfold compileText
  rw [hz]
  simp only [plainToks_map]
  rw [RfcSpellF.parseQuery_path hT]

end JP.Lemmas
