/-
  Helpers for `JP.Lemmas.LexStr`: the quoted-string scanner and the literal decoding act blockwise
  on the RFC 9535 spellings of a string.
-/
import JP.Lex
import JP.Lemmas.QueryAuxStr
namespace JP.Lemmas.LexStr
open JP JP.Query JP.Surface JP.Lex

/-! ### Hex digits -/

theorem hexVal_ne {c : Char} {n : Nat} (h : hexVal c = some n) : c ≠ '"' ∧ c ≠ '\'' ∧ c ≠ '\\' := by
  refine ⟨?_, ?_, ?_⟩
  · intro e; subst e; rw [show hexVal '"' = none by decide] at h; cases h
  · intro e; subst e; rw [show hexVal '\'' = none by decide] at h; cases h
  · intro e; subst e; rw [show hexVal '\\' = none by decide] at h; cases h

theorem hex4_some {a b c d : Char} {n : Nat} (h : hex4 a b c d = some n) :
    (∃ x, hexVal a = some x) ∧ (∃ x, hexVal b = some x) ∧ (∃ x, hexVal c = some x) ∧ (∃ x, hexVal d = some x) := by
  unfold hex4 at h
  split at h
  · simp_all
  · simp at h

/-! ### scanQuoted, blockwise -/

theorem scanQuoted_plain {q c : Char} (h1 : c ≠ q) (h2 : c ≠ '\\') (u : Str) :
    scanQuoted q (c :: u) = (scanQuoted q u).map fun (a, r) => (c :: a, r) := by
  rw [scanQuoted.eq_def]; simp [h1, h2]

theorem scanQuoted_esc {q : Char} (hq : q ≠ '\\') (d : Char) (u : Str) :
    scanQuoted q ('\\' :: d :: u) = (scanQuoted q u).map fun (a, r) => ('\\' :: d :: a, r) := by
  have : ('\\' : Char) ≠ q := fun e => hq e.symm
  rw [scanQuoted.eq_def]; simp [this]

theorem scanQuoted_block {q : Char} (l : Str) (h : ∀ c ∈ l, c ≠ q ∧ c ≠ '\\') (u : Str) :
    scanQuoted q (l ++ u) = (scanQuoted q u).map fun (a, r) => (l ++ a, r) := by
  induction l with
  | nil => cases h' : scanQuoted q u <;> simp [h']
  | cons c l ih =>
    have hc := h c (by simp)
    rw [List.cons_append, scanQuoted_plain hc.1 hc.2, ih (fun x hx => h x (by simp [hx]))]
    cases h' : scanQuoted q u <;> simp

theorem rfcUnescaped_ne {c : Char} (h : rfcUnescaped c = true) :
    c ≠ '"' ∧ c ≠ '\'' ∧ c ≠ '\\' ∧ 0x20 ≤ c.toNat := by
  simp [rfcUnescaped] at h
  exact ⟨h.1.1.2, h.1.2, h.2, h.1.1.1⟩

theorem hex4_block {q a b c d : Char} {n : Nat} (hq : q = '\'' ∨ q = '"') (h : hex4 a b c d = some n) :
    ∀ x ∈ [a, b, c, d], x ≠ q ∧ x ≠ '\\' := by
  obtain ⟨⟨_, ha⟩, ⟨_, hb⟩, ⟨_, hc⟩, ⟨_, hd⟩⟩ := hex4_some h
  have ha := hexVal_ne ha; have hb := hexVal_ne hb; have hc := hexVal_ne hc; have hd := hexVal_ne hd
  intro x hx
  simp at hx
  rcases hq with rfl | rfl <;> rcases hx with rfl | rfl | rfl | rfl <;> simp_all

theorem scanQuoted_spell {q : Char} (hq : q = '\'' ∨ q = '"') {c : Char} {w : Str} (h : CharSpell q c w) (u : Str) :
    scanQuoted q (w ++ u) = (scanQuoted q u).map fun (a, r) => (w ++ a, r) := by
  have hqb : q ≠ '\\' := by rcases hq with rfl | rfl <;> decide
  cases h with
  | unescaped c h =>
    have := rfcUnescaped_ne h
    exact scanQuoted_block [c] (by intro x hx; simp at hx; subst hx; rcases hq with rfl | rfl <;> simp_all) u
  | otherQuote c h =>
    exact scanQuoted_block [c] (by intro x hx; simp at hx; subst hx; rcases h.1 with rfl | rfl <;> simp_all) u
  | quote => exact scanQuoted_esc hqb _ _
  | bs => exact scanQuoted_esc hqb _ _
  | slash => exact scanQuoted_esc hqb _ _
  | b => exact scanQuoted_esc hqb _ _
  | f => exact scanQuoted_esc hqb _ _
  | n => exact scanQuoted_esc hqb _ _
  | r => exact scanQuoted_esc hqb _ _
  | t => exact scanQuoted_esc hqb _ _
  | hex c a b' c' d h hb =>
    have := scanQuoted_block [a, b', c', d] (hex4_block hq h) u
    simp only [List.cons_append, List.nil_append] at this ⊢
    rw [scanQuoted_esc hqb, this]
    cases scanQuoted q u <;> simp
  | pair c a b' c' d e f' g h' hi lo h1 h2 hhi hlo hc =>
    have t2 := scanQuoted_block [e, f', g, h'] (hex4_block hq h2) u
    have t1 := scanQuoted_block [a, b', c', d] (hex4_block hq h1) ('\\' :: 'u' :: e :: f' :: g :: h' :: u)
    simp only [List.cons_append, List.nil_append] at t1 t2 ⊢
    rw [scanQuoted_esc hqb, t1, scanQuoted_esc hqb, t2]
    cases scanQuoted q u <;> simp

theorem scanQuoted_spells {q : Char} (hq : q = '\'' ∨ q = '"') {s w : Str} (h : Spells q s w) (rest : Str) :
    scanQuoted q (w ++ q :: rest) = some (w, rest) := by
  induction h with
  | nil => rw [List.nil_append, scanQuoted.eq_def]; simp
  | cons h _ ih =>
    rw [List.append_assoc, scanQuoted_spell hq h, ih]; simp

/-! ### jsonBody, blockwise -/

theorem jsonBody_plain {c : Char} (h1 : c ≠ '\\') (h2 : c ≠ '"') (h3 : 0x20 ≤ c.toNat) (v : Str) :
    jsonBody (c :: v) = (jsonBody v).map (c :: ·) := by
  rw [jsonBody.eq_def (c :: v)]; simp [h1, h2]; omega

theorem jsonBody_esc {e x : Char} (h1 : e ≠ 'u') (h2 : simpleEscape e = some x) (v : Str) :
    jsonBody ('\\' :: e :: v) = (jsonBody v).map (x :: ·) := by
  rw [jsonBody.eq_def ('\\' :: e :: v)]; simp [h1, h2]

theorem jsonBody_hex {a b c d : Char} {n : Nat} (h : hex4 a b c d = some n) (hn : n < 0xD800 ∨ 0xE000 ≤ n)
    (v : Str) :
    jsonBody ('\\' :: 'u' :: a :: b :: c :: d :: v) = (jsonBody v).map (Char.ofNat n :: ·) := by
  rw [jsonBody.eq_def ('\\' :: 'u' :: a :: b :: c :: d :: v)]
  have h1 : ¬ (0xD800 ≤ n ∧ n ≤ 0xDBFF) := by omega
  have h2 : ¬ (0xDC00 ≤ n ∧ n ≤ 0xDFFF) := by omega
  simp only [beq_self_eq_true, if_true, h, h1, h2, if_false]

theorem jsonBody_pair {a b c d e f g h : Char} {hi lo : Nat} (h1 : hex4 a b c d = some hi)
    (h2 : hex4 e f g h = some lo) (hhi : 0xD800 ≤ hi ∧ hi ≤ 0xDBFF) (hlo : 0xDC00 ≤ lo ∧ lo ≤ 0xDFFF) (v : Str) :
    jsonBody ('\\' :: 'u' :: a :: b :: c :: d :: '\\' :: 'u' :: e :: f :: g :: h :: v) =
      (jsonBody v).map (Char.ofNat (0x10000 + (hi - 0xD800) * 0x400 + (lo - 0xDC00)) :: ·) := by
  rw [jsonBody.eq_def ('\\' :: 'u' :: a :: b :: c :: d :: '\\' :: 'u' :: e :: f :: g :: h :: v)]
  simp only [beq_self_eq_true, if_true, h1, h2, hhi, hlo, and_self]

/-- one block of a double-quoted spelling decodes to its character -/
theorem jsonBody_spell_dq {c : Char} {w : Str} (h : CharSpell '"' c w) (v : Str) :
    jsonBody (w ++ v) = (jsonBody v).map (c :: ·) := by
  cases h with
  | unescaped c h =>
    have := rfcUnescaped_ne h
    exact jsonBody_plain this.2.2.1 this.1 this.2.2.2 v
  | otherQuote c h =>
    have : c = '\'' := by rcases h.1 with e | e; exact absurd e h.2; exact e
    subst this
    exact jsonBody_plain (by decide) (by decide) (by decide) v
  | quote => exact jsonBody_esc (by decide) (by decide) v
  | bs => exact jsonBody_esc (by decide) (by decide) v
  | slash => exact jsonBody_esc (by decide) (by decide) v
  | b => exact jsonBody_esc (by decide) (by decide) v
  | f => exact jsonBody_esc (by decide) (by decide) v
  | n => exact jsonBody_esc (by decide) (by decide) v
  | r => exact jsonBody_esc (by decide) (by decide) v
  | t => exact jsonBody_esc (by decide) (by decide) v
  | hex c a b' c' d h hb =>
    have := jsonBody_hex h hb v
    rw [Char.ofNat_toNat] at this
    exact this
  | pair c a b' c' d e f' g h' hi lo h1 h2 hhi hlo hc =>
    have := jsonBody_pair h1 h2 hhi hlo v
    rw [← hc, Char.ofNat_toNat] at this
    exact this

theorem decodeDQ_spells {s w : Str} (h : Spells '"' s w) : jsonBody w = .ok s := by
  induction h with
  | nil => rw [jsonBody.eq_def]
  | cons h _ ih => rw [jsonBody_spell_dq h, ih]; rfl

/-! ### The two replacements of `decodeSQ`, blockwise -/

/-- `.replace("\\'", "'")` as a scanner -/
abbrev R (u : Str) : Str := replace2Aux '\\' '\'' '\'' false u

/-- `.replace('"', '\\"')` -/
abbrev Q (u : Str) : Str := replaceChar '"' ['\\', '"'] u

theorem R_plain {c : Char} (h : c ≠ '\\') (u : Str) : R (c :: u) = c :: R u :=
  replace2Aux_false_cons_ne h u

theorem R_esc {y : Char} (h1 : y ≠ '\'') (h2 : y ≠ '\\') (u : Str) : R ('\\' :: y :: u) = '\\' :: y :: R u :=
  replace2Aux_false_pair_ne h1 h2 u

theorem R_quote (u : Str) : R ('\\' :: '\'' :: u) = '\'' :: R u := replace2Aux_false_pair u

theorem R_bs {u : Str} (h : u.head? ≠ some '\'') : R ('\\' :: '\\' :: u) = '\\' :: '\\' :: R u := by
  have := replace2Aux_true_of_head (a := '\\') (b := '\'') (r := '\'') u h
  simp [R, replace2Aux, this]

theorem Q_head {u : Str} (h : u.head? ≠ some '\'') : (Q u).head? ≠ some '\'' := by
  cases u with
  | nil => simp [Q, replaceChar]
  | cons x u =>
    have hx : x ≠ '\'' := by simpa using h
    rw [Q, replaceChar_cons]
    by_cases e : x = '"'
    · simp [e]
    · simp [e, hx]

theorem Q_plain {c : Char} (h : c ≠ '"') (u : Str) : Q (c :: u) = c :: Q u := by
  rw [Q, replaceChar_cons]; simp [h]

theorem spell_head {c : Char} {w : Str} (h : CharSpell '\'' c w) (t : Str) : (w ++ t).head? ≠ some '\'' := by
  cases h with
  | unescaped c h => have := rfcUnescaped_ne h; simp [this.2.1]
  | otherQuote c h => simp [h.2]
  | _ => simp

theorem spells_head {s w : Str} (h : Spells '\'' s w) : w.head? ≠ some '\'' := by
  cases h with
  | nil => simp
  | cons h _ => exact spell_head h _

/-- one block of a single-quoted spelling: the two replacements then `json.loads` give its character -/
theorem jsonBody_spell_sq {c : Char} {w : Str} (h : CharSpell '\'' c w) (t : Str) (ht : t.head? ≠ some '\'') :
    jsonBody (R (Q (w ++ t))) = (jsonBody (R (Q t))).map (c :: ·) := by
  have hQ := Q_head ht
  cases h with
  | unescaped c h =>
    have := rfcUnescaped_ne h
    rw [List.cons_append, List.nil_append, Q_plain this.1, R_plain this.2.2.1]
    exact jsonBody_plain this.2.2.1 this.1 this.2.2.2 _
  | otherQuote c h =>
    have : c = '"' := by rcases h.1 with e | e; exact e; exact absurd e h.2
    subst this
    have : Q ('"' :: t) = '\\' :: '"' :: Q t := by rw [Q, replaceChar_cons]; simp
    rw [List.cons_append, List.nil_append, this, R_esc (by decide) (by decide)]
    exact jsonBody_esc (by decide) (by decide) _
  | quote =>
    rw [List.cons_append, List.cons_append, List.nil_append, Q_plain (by decide), Q_plain (by decide), R_quote]
    exact jsonBody_plain (by decide) (by decide) (by decide) _
  | bs =>
    rw [List.cons_append, List.cons_append, List.nil_append, Q_plain (by decide), Q_plain (by decide), R_bs hQ]
    exact jsonBody_esc (by decide) (by decide) _
  | slash =>
    rw [List.cons_append, List.cons_append, List.nil_append, Q_plain (by decide), Q_plain (by decide),
      R_esc (by decide) (by decide)]
    exact jsonBody_esc (by decide) (by decide) _
  | b =>
    rw [List.cons_append, List.cons_append, List.nil_append, Q_plain (by decide), Q_plain (by decide),
      R_esc (by decide) (by decide)]
    exact jsonBody_esc (by decide) (by decide) _
  | f =>
    rw [List.cons_append, List.cons_append, List.nil_append, Q_plain (by decide), Q_plain (by decide),
      R_esc (by decide) (by decide)]
    exact jsonBody_esc (by decide) (by decide) _
  | n =>
    rw [List.cons_append, List.cons_append, List.nil_append, Q_plain (by decide), Q_plain (by decide),
      R_esc (by decide) (by decide)]
    exact jsonBody_esc (by decide) (by decide) _
  | r =>
    rw [List.cons_append, List.cons_append, List.nil_append, Q_plain (by decide), Q_plain (by decide),
      R_esc (by decide) (by decide)]
    exact jsonBody_esc (by decide) (by decide) _
  | t =>
    rw [List.cons_append, List.cons_append, List.nil_append, Q_plain (by decide), Q_plain (by decide),
      R_esc (by decide) (by decide)]
    exact jsonBody_esc (by decide) (by decide) _
  | hex c a b' c' d h hb =>
    obtain ⟨⟨_, ha⟩, ⟨_, hb'⟩, ⟨_, hc⟩, ⟨_, hd⟩⟩ := hex4_some h
    have ha := hexVal_ne ha; have hb' := hexVal_ne hb'; have hc := hexVal_ne hc; have hd := hexVal_ne hd
    simp only [List.cons_append, List.nil_append]
    rw [Q_plain (by decide), Q_plain (by decide), Q_plain ha.1, Q_plain hb'.1, Q_plain hc.1, Q_plain hd.1,
      R_esc (by decide) (by decide), R_plain ha.2.2, R_plain hb'.2.2, R_plain hc.2.2, R_plain hd.2.2]
    have := jsonBody_hex h hb (R (Q t))
    rw [Char.ofNat_toNat] at this
    exact this
  | pair c a b' c' d e f' g h' hi lo h1 h2 hhi hlo hc =>
    obtain ⟨⟨_, ha⟩, ⟨_, hb'⟩, ⟨_, hc'⟩, ⟨_, hd⟩⟩ := hex4_some h1
    have ha := hexVal_ne ha; have hb' := hexVal_ne hb'; have hc' := hexVal_ne hc'; have hd := hexVal_ne hd
    obtain ⟨⟨_, he⟩, ⟨_, hf⟩, ⟨_, hg⟩, ⟨_, hh⟩⟩ := hex4_some h2
    have he := hexVal_ne he; have hf := hexVal_ne hf; have hg := hexVal_ne hg; have hh := hexVal_ne hh
    simp only [List.cons_append, List.nil_append]
    rw [Q_plain (by decide), Q_plain (by decide), Q_plain ha.1, Q_plain hb'.1, Q_plain hc'.1, Q_plain hd.1,
      Q_plain (by decide), Q_plain (by decide), Q_plain he.1, Q_plain hf.1, Q_plain hg.1, Q_plain hh.1,
      R_esc (by decide) (by decide), R_plain ha.2.2, R_plain hb'.2.2, R_plain hc'.2.2, R_plain hd.2.2,
      R_esc (by decide) (by decide), R_plain he.2.2, R_plain hf.2.2, R_plain hg.2.2, R_plain hh.2.2]
    have := jsonBody_pair h1 h2 hhi hlo (R (Q t))
    rw [← hc, Char.ofNat_toNat] at this
    exact this

theorem decodeSQ_spells {s w : Str} (h : Spells '\'' s w) : decodeSQ w = .ok s := by
  unfold decodeSQ replace2
  show jsonBody (R (Q w)) = .ok s
  induction h with
  | nil => simp [R, Q, replaceChar, replace2Aux, jsonBody]
  | cons h rest ih => rw [jsonBody_spell_sq h _ (spells_head rest), ih]; rfl

/-! ### `canonical_string` writes one of the RFC spellings -/

theorem hex4_control : ∀ n < 32, hex4 '0' '0' (hexDigit (n / 16)) (hexDigit (n % 16)) = some n := by decide

theorem normalName_spells (s : Str) : Spells '\'' s (Rfc.normalName s) := by
  induction s with
  | nil => exact .nil
  | cons c cs ih =>
    rw [Rfc.normalName]
    refine .cons ?_ ih
    by_cases h1 : c = '\x08'
    · subst h1; exact .b
    by_cases h2 : c = '\x0c'
    · subst h2; exact .f
    by_cases h3 : c = '\n'
    · subst h3; exact .n
    by_cases h4 : c = '\r'
    · subst h4; exact .r
    by_cases h5 : c = '\t'
    · subst h5; exact .t
    by_cases h6 : c = '\''
    · subst h6; exact .quote
    by_cases h7 : c = '\\'
    · subst h7; exact .bs
    by_cases h8 : c.toNat < 0x20
    · simp only [h1, h2, h3, h4, h5, h6, h7, h8, if_false, if_true]
      exact .hex c _ _ _ _ (hex4_control c.toNat h8) (by omega)
    · simp only [h1, h2, h3, h4, h5, h6, h7, h8, if_false]
      by_cases h9 : c = '"'
      · exact .otherQuote c ⟨Or.inl h9, h6⟩
      · exact .unescaped c (by simp [rfcUnescaped, h6, h7, h9]; omega)

theorem sqBody_eq (s : Str) : sqBody s = Rfc.normalName s := canon_body s

/-! ### Shorthand names -/

theorem span_loop_eq {α : Type} (p : α → Bool) (l acc : List α) :
    List.span.loop p l acc = (acc.reverse ++ l.takeWhile p, l.dropWhile p) := by
  induction l generalizing acc with
  | nil => simp [List.span.loop]
  | cons a l ih =>
    cases h : p a <;> simp [List.span.loop, h, ih, List.takeWhile, List.dropWhile]

theorem span_eq {α : Type} (p : α → Bool) (l : List α) : l.span p = (l.takeWhile p, l.dropWhile p) := by
  simp [List.span, span_loop_eq]

theorem span_keyCont (cs rest : Str) (hcs : cs.all keyCont = true)
    (hrest : ∀ d r, rest = d :: r → keyCont d = false) : (cs ++ rest).span keyCont = (cs, rest) := by
  induction cs with
  | nil =>
    cases rest with
    | nil => rfl
    | cons d r => simp [span_eq, List.takeWhile, List.dropWhile, hrest d r rfl]
  | cons c cs ih =>
    simp only [List.all_cons, Bool.and_eq_true] at hcs
    have := ih hcs.2
    simp only [span_eq, Prod.mk.injEq] at this ⊢
    simp [hcs.1, this.1, this.2]

theorem mSlice_dot (s : Str) : mSlice ('.' :: s) = none := by
  have h1 : optInt ('.' :: s) = ([], '.' :: s) := by
    simp [optInt, span_eq, List.takeWhile, List.dropWhile,
      show Char.isDigit '.' = false by decide]
  have h2 : skipWs ('.' :: s) = '.' :: s := by
    simp [skipWs, List.dropWhile, show isPyBlank '.' = false by decide]
  simp [mSlice, h1, h2]

end JP.Lemmas.LexStr
