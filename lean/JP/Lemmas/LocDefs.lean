/-
  Locations in a document (RFC 9535 / RFC 6901 sense) and direct edits at a location — the
  specification vocabulary of C03 and C20.
-/
import JP.Lemmas.QueryDefs
namespace JP.Lemmas
open JP

/-- The value at a location. -/
def locValue : J → List Rfc.LStep → Option J
  | v, [] => some v
  | .obj kvs, .name k :: rest => (dictGet kvs k).bind (locValue · rest)
  | .arr xs, .index n :: rest => (xs[n]?).bind (locValue · rest)
  | _, _ => none

/-- The document with the value at `loc` replaced by `w` (`none` if `loc` does not exist). -/
def setAt : J → List Rfc.LStep → J → Option J
  | _, [], w => some w
  | .obj kvs, .name k :: rest, w =>
    (dictGet kvs k).bind (fun c => (setAt c rest w).map (fun c' => .obj (dictSet kvs k c')))
  | .arr xs, .index n :: rest, w =>
    (xs[n]?).bind (fun c => (setAt c rest w).map (fun c' => .arr (xs.set n c')))
  | _, _, _ => none

/-- The document without the member / element at `loc` (`none` for the root or a missing location). -/
def eraseAt : J → List Rfc.LStep → Option J
  | _, [] => none
  | .obj kvs, [.name k] => if dictHas kvs k then some (.obj (dictErase kvs k)) else none
  | .arr xs, [.index n] => if n < xs.length then some (.arr (xs.eraseIdx n)) else none
  | .obj kvs, .name k :: rest =>
    (dictGet kvs k).bind (fun c => (eraseAt c rest).map (fun c' => .obj (dictSet kvs k c')))
  | .arr xs, .index n :: rest =>
    (xs[n]?).bind (fun c => (eraseAt c rest).map (fun c' => .arr (xs.set n c')))
  | _, _ => none

/-- Two locations are related when one is a prefix of the other (one node contains the other). -/
def Related (a b : List Rfc.LStep) : Prop := a <+: b ∨ b <+: a

/-- parts of a location -/
def locParts (loc : List Rfc.LStep) : List Part := loc.map partOfStep

end JP.Lemmas
