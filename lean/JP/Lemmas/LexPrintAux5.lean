/-
  LexPrint helpers, part 5: shapes of the printed texts; the simultaneous induction over the AST.
-/
import JP.Lemmas.LexPrintAux4
set_option linter.unusedSimpArgs false
namespace JP.Lemmas.LexPrint
open JP JP.Query JP.Surface JP.Lex JP.Lemmas

/-! ### shapes of the printed texts -/

theorem pstrE_cmp (l r : Expr) (op : CmpOp) (h : isLogical op = false) :
    pstrE dflt (.infix l op r) = pstrOperand dflt l ++ ' ' :: (opStr op ++ ' ' :: pstrOperand dflt r) := by
  simp only [pstrE, h, Bool.false_eq_true, if_false, List.append_assoc, List.cons_append]

theorem pstrE_logical (l r : Expr) (op : CmpOp) (h : isLogical op = true) :
    pstrE dflt (.infix l op r) = '(' :: ((pstrE dflt l ++ ' ' :: (opStr op ++ ' ' :: pstrE dflt r)) ++ [')']) := by
  simp only [pstrE, h, if_true, List.append_assoc, List.cons_append]

theorem ptoksE_cmp' (l r : Expr) (op : CmpOp) (h : isLogical op = false) :
    ptoksE (.infix l op r) = ptoksOperand l ++ .op op :: ptoksOperand r := by
  rw [ptoksE_cmp l r op h]; simp

theorem ptoksE_logical' (l r : Expr) (op : CmpOp) (h : isLogical op = true) :
    ptoksE (.infix l op r) = .lparen :: ((ptoksE l ++ .op op :: ptoksE r) ++ [.rparen]) := by
  rw [ptoksE_logical l r op h]; simp

theorem pstrOperand_eq (e : Expr) :
    pstrOperand dflt e = if isCmp e then '(' :: (pstrE dflt e ++ [')']) else pstrE dflt e := by
  cases e <;> simp only [pstrOperand, isCmp, Bool.false_eq_true, if_false]
  case «infix» l op r =>
    by_cases h : isLogical op = true <;> simp [h]

theorem ptoksOperand_eq' (e : Expr) :
    ptoksOperand e = if isCmp e then .lparen :: (ptoksE e ++ [.rparen]) else ptoksE e := by
  rw [ptoksOperand_eq]; simp

theorem pstrE_not (e : Expr) :
    pstrE dflt (.not e) = '!' :: (if isCmp e then '(' :: (pstrE dflt e ++ [')']) else pstrE dflt e) := by
  cases e <;> simp only [pstrE, isCmp, Bool.false_eq_true, if_false]
  case «infix» l op r =>
    by_cases h : isLogical op = true <;> simp [h]

theorem ptoksE_not' (e : Expr) :
    ptoksE (.not e) = .not :: (if isCmp e then .lparen :: (ptoksE e ++ [.rparen]) else ptoksE e) := by
  rw [ptoksE_not]; simp

theorem pstrCanon_cmp (p : Nat) (l r : Expr) (op : CmpOp) (h : isLogical op = false) :
    pstrCanon dflt p (.infix l op r) = pstrE dflt (.infix l op r) := by
  cases op <;> first | (simp [isLogical] at h; done) | simp only [pstrCanon]

theorem pstrCanon_and (p : Nat) (l r : Expr) :
    pstrCanon dflt p (.infix l .and r) =
      if 4 ≤ p then '(' :: ((pstrCanon dflt 4 l ++ ' ' :: (opStr .and ++ ' ' :: pstrCanon dflt 4 r)) ++ [')'])
      else pstrCanon dflt 4 l ++ ' ' :: (opStr .and ++ ' ' :: pstrCanon dflt 4 r) := by
  simp only [pstrCanon, ge_iff_le, opStr, List.append_assoc, List.cons_append, List.nil_append]

theorem pstrCanon_or (p : Nat) (l r : Expr) :
    pstrCanon dflt p (.infix l .or r) =
      if 3 ≤ p then '(' :: ((pstrCanon dflt 3 l ++ ' ' :: (opStr .or ++ ' ' :: pstrCanon dflt 3 r)) ++ [')'])
      else pstrCanon dflt 3 l ++ ' ' :: (opStr .or ++ ' ' :: pstrCanon dflt 3 r) := by
  simp only [pstrCanon, ge_iff_le, opStr, List.append_assoc, List.cons_append, List.nil_append]

theorem ptoksCanon_and' (p : Nat) (l r : Expr) :
    ptoksCanon p (.infix l .and r) =
      if 4 ≤ p then .lparen :: ((ptoksCanon 4 l ++ .op .and :: ptoksCanon 4 r) ++ [.rparen])
      else ptoksCanon 4 l ++ .op .and :: ptoksCanon 4 r := by
  rw [ptoksCanon_and]; simp

theorem ptoksCanon_or' (p : Nat) (l r : Expr) :
    ptoksCanon p (.infix l .or r) =
      if 3 ≤ p then .lparen :: ((ptoksCanon 3 l ++ .op .or :: ptoksCanon 3 r) ++ [.rparen])
      else ptoksCanon 3 l ++ .op .or :: ptoksCanon 3 r := by
  rw [ptoksCanon_or]; simp

theorem pstrCanon_not (p : Nat) (e : Expr) :
    pstrCanon dflt p (.not e) =
      if 7 < p then '(' :: (('!' :: (if isCmp e then '(' :: (pstrCanon dflt 7 e ++ [')']) else pstrCanon dflt 7 e)) ++ [')'])
      else '!' :: (if isCmp e then '(' :: (pstrCanon dflt 7 e ++ [')']) else pstrCanon dflt 7 e) := by
  cases e <;> simp only [pstrCanon, isCmp, Bool.false_eq_true, if_false, gt_iff_lt, List.cons_append]
  case «infix» l op r =>
    by_cases h : isLogical op = true <;> simp [h]

theorem ptoksCanon_not' (p : Nat) (e : Expr) :
    ptoksCanon p (.not e) =
      if 7 < p then .lparen :: ((.not :: (if isCmp e then .lparen :: (ptoksCanon 7 e ++ [.rparen]) else ptoksCanon 7 e)) ++ [.rparen])
      else .not :: (if isCmp e then .lparen :: (ptoksCanon 7 e ++ [.rparen]) else ptoksCanon 7 e) := by
  rw [ptoksCanon_not]; simp

/-! ### expressions -/

/-- the printed expression, as it stands and in canonical form under any parent precedence -/
def AllP (uw : Char → Bool) (e : Expr) : Prop :=
  CE uw (pstrE dflt e) (ptoksE e) ∧ ∀ p, CE uw (pstrCanon dflt p e) (ptoksCanon p e)

theorem AllP.of_atom {uw : Char → Bool} {e : Expr} (h : CE uw (pstrE dflt e) (ptoksE e))
    (h1 : ∀ p, pstrCanon dflt p e = pstrE dflt e) (h2 : ∀ p, ptoksCanon p e = ptoksE e) : AllP uw e :=
  ⟨h, fun p => by rw [h1, h2]; exact h⟩

theorem CE.parenIf {uw : Char → Bool} {w : Str} {ts : List Tok} (b : Bool) (h : CE uw w ts) :
    CE uw (if b then '(' :: (w ++ [')']) else w) (if b then .lparen :: (ts ++ [.rparen]) else ts) := by
  cases b
  · exact h
  · exact h.paren

theorem CE.parenIfP {uw : Char → Bool} {w : Str} {ts : List Tok} (c : Prop) [Decidable c] (h : CE uw w ts) :
    CE uw (if c then '(' :: (w ++ [')']) else w) (if c then .lparen :: (ts ++ [.rparen]) else ts) := by
  by_cases hc : c
  · simp only [hc, if_true]; exact h.paren
  · simp only [hc, if_false]; exact h

theorem operandP {uw : Char → Bool} {e : Expr} (h : AllP uw e) : CE uw (pstrOperand dflt e) (ptoksOperand e) := by
  rw [pstrOperand_eq, ptoksOperand_eq']
  exact h.1.parenIf _

theorem AllP.not {uw : Char → Bool} {e : Expr} (h : AllP uw e) : AllP uw (.not e) := by
  constructor
  · rw [pstrE_not, ptoksE_not']
    exact (h.1.parenIf _).bang
  · intro p
    rw [pstrCanon_not, ptoksCanon_not']
    exact CE.parenIfP _ ((h.2 7).parenIf _).bang

theorem AllP.infix {uw : Char → Bool} {l r : Expr} (op : CmpOp) (hl : AllP uw l) (hr : AllP uw r) :
    AllP uw (.infix l op r) := by
  by_cases hop : isLogical op = true
  · have hE : CE uw (pstrE dflt (.infix l op r)) (ptoksE (.infix l op r)) := by
      rw [pstrE_logical l r op hop, ptoksE_logical' l r op hop]
      exact (hl.1.infx op hr.1).paren
    refine ⟨hE, fun p => ?_⟩
    have : op = .and ∨ op = .or := by
      cases op <;> simp [isLogical] at hop ⊢
    rcases this with rfl | rfl
    · rw [pstrCanon_and, ptoksCanon_and']
      exact CE.parenIfP _ ((hl.2 4).infx .and (hr.2 4))
    · rw [pstrCanon_or, ptoksCanon_or']
      exact CE.parenIfP _ ((hl.2 3).infx .or (hr.2 3))
  · have hop' : isLogical op = false := by simpa using hop
    have hE : CE uw (pstrE dflt (.infix l op r)) (ptoksE (.infix l op r)) := by
      rw [pstrE_cmp l r op hop', ptoksE_cmp' l r op hop']
      exact (operandP hl).infx op (operandP hr)
    exact AllP.of_atom hE (fun p => pstrCanon_cmp p l r op hop') (fun p => ptoksCanon_cmp p l r op hop')

end JP.Lemmas.LexPrint
