/-
  Segments: child and descendant segments against RFC 9535 (`expand` vs `descendantsOrSelf`).
-/
import JP.Lemmas.QueryAuxSel
import JP.Lemmas.JInduct
namespace JP.Lemmas
open JP JP.Query

theorem primitive_selects_nothing_aux (env : Env) (n : Node) (s : Sel)
    (h : n.val.isContainer = false) : evalSel env n s = [] := by
  cases s <;> cases hv : n.val <;> simp_all [evalSel, J.isContainer]

theorem sels_refines_rfc (env : Env) (renv : Rfc.REnv) (sels : List Sel) (hs : plainSels sels = true)
    (n : Node) (r : Rfc.RNode) (hr : Represents n r) :
    RepresentsAll (evalSels env n sels) (Rfc.evalSels renv r sels) := by
  induction sels with
  | nil => simp [evalSels, Rfc.evalSels]
  | cons s ss ih =>
    simp only [plainSels, Bool.and_eq_true] at hs
    simp only [evalSels, Rfc.evalSels]
    exact representsAll_append (sel_refines_rfc_aux env renv n r s hs.1 hr) (ih hs.2)

theorem primitive_sels_nothing (env : Env) (n : Node) (sels : List Sel)
    (h : n.val.isContainer = false) : evalSels env n sels = [] := by
  induction sels with
  | nil => simp [evalSels]
  | cons s ss ih => simp [evalSels, primitive_selects_nothing_aux env n s h, ih]

/-- RFC twin: a primitive node selects nothing (for plain selectors), derived from the refinement. -/
theorem rfc_primitive_sels_nothing (env : Env) (renv : Rfc.REnv) (sels : List Sel)
    (hs : plainSels sels = true) (loc : List Rfc.LStep) (v : J) (h : v.isContainer = false) :
    Rfc.evalSels renv ⟨loc, v⟩ sels = [] := by
  have hr : Represents ⟨loc.map partOfStep, Rfc.normalizedPath loc, v⟩ ⟨loc, v⟩ := ⟨rfl, rfl, rfl⟩
  have := sels_refines_rfc env renv sels hs _ _ hr
  rw [primitive_sels_nothing env _ sels h] at this
  exact representsAll_nil_left this

/-- the code's contribution of a subtree at `loc`: the node (if a container) and its container
    descendants -/
def codeDesc (loc : List Rfc.LStep) (v : J) : List Node :=
  if v.isContainer then
    ⟨loc.map partOfStep, Rfc.normalizedPath loc, v⟩ ::
      expand.go (loc.map partOfStep) (Rfc.normalizedPath loc) v
  else []

theorem goMembers_cons (loc : List Rfc.LStep) (k : Str) (v : J) (rest : List (Str × J)) :
    expand.goMembers (loc.map partOfStep) (Rfc.normalizedPath loc) ((k, v) :: rest) =
      codeDesc (loc ++ [.name k]) v ++
        expand.goMembers (loc.map partOfStep) (Rfc.normalizedPath loc) rest := by
  simp only [expand.goMembers, codeDesc, bracket_canonicalString, normalizedPath_append,
    List.map_append, List.map_cons, List.map_nil, partOfStep]

theorem goElems_cons (loc : List Rfc.LStep) (i : Nat) (v : J) (rest : List J) :
    expand.goElems (loc.map partOfStep) (Rfc.normalizedPath loc) i (v :: rest) =
      codeDesc (loc ++ [.index i]) v ++
        expand.goElems (loc.map partOfStep) (Rfc.normalizedPath loc) (i + 1) rest := by
  simp only [expand.goElems, codeDesc, bracket_natStr, normalizedPath_append,
    List.map_append, List.map_cons, List.map_nil, partOfStep]

section Desc
variable (env : Env) (renv : Rfc.REnv) (sels : List Sel) (hs : plainSels sels = true)
include hs

def DescP (env : Env) (renv : Rfc.REnv) (sels : List Sel) (v : J) : Prop :=
  ∀ loc, RepresentsAll ((codeDesc loc v).flatMap (fun n => evalSels env n sels))
      ((Rfc.descendantsOrSelf.go loc v).flatMap (fun d => Rfc.evalSels renv d sels))

omit hs in
theorem desc_elems (xs : List J) (ih : ∀ x ∈ xs, DescP env renv sels x) (loc : List Rfc.LStep) :
    ∀ i, RepresentsAll
      ((expand.goElems (loc.map partOfStep) (Rfc.normalizedPath loc) i xs).flatMap
        (fun n => evalSels env n sels))
      ((Rfc.descendantsOrSelf.goElems loc i xs).flatMap (fun d => Rfc.evalSels renv d sels)) := by
  induction xs with
  | nil => intro i; simp [expand.goElems, Rfc.descendantsOrSelf.goElems]
  | cons x xs ihx =>
    intro i
    rw [goElems_cons, Rfc.descendantsOrSelf.goElems, List.flatMap_append, List.flatMap_append]
    exact representsAll_append (ih x (by simp) _) (ihx (fun y hy => ih y (by simp [hy])) (i + 1))

omit hs in
theorem desc_members (kvs : List (Str × J)) (ih : ∀ kv ∈ kvs, DescP env renv sels kv.2)
    (loc : List Rfc.LStep) :
    RepresentsAll
      ((expand.goMembers (loc.map partOfStep) (Rfc.normalizedPath loc) kvs).flatMap
        (fun n => evalSels env n sels))
      ((Rfc.descendantsOrSelf.goMembers loc kvs).flatMap (fun d => Rfc.evalSels renv d sels)) := by
  induction kvs with
  | nil => simp [expand.goMembers, Rfc.descendantsOrSelf.goMembers]
  | cons kv kvs ihk =>
    obtain ⟨k, v⟩ := kv
    rw [goMembers_cons, Rfc.descendantsOrSelf.goMembers, List.flatMap_append, List.flatMap_append]
    exact representsAll_append (ih (k, v) (by simp) _) (ihk (fun y hy => ih y (by simp [hy])))

theorem descP_all (v : J) : DescP env renv sels v := by
  have prim : ∀ v : J, v.isContainer = false →
      DescP env renv sels v := by
    intro v hv loc
    have e : Rfc.descendantsOrSelf.go loc v = [⟨loc, v⟩] := by
      cases v <;> simp_all [Rfc.descendantsOrSelf.go, J.isContainer]
    simp [codeDesc, hv, e, rfc_primitive_sels_nothing env renv sels hs loc v hv]
  induction v using JP.Lemmas.J.induct with
  | hnull => exact prim _ rfl
  | hbool b => exact prim _ rfl
  | hint i => exact prim _ rfl
  | hflt m => exact prim _ rfl
  | hstr s => exact prim _ rfl
  | harr xs ih =>
    intro loc
    simp only [codeDesc, J.isContainer, if_true, expand.go, Rfc.descendantsOrSelf.go,
      List.flatMap_cons]
    exact representsAll_append (sels_refines_rfc env renv sels hs _ _ ⟨rfl, rfl, rfl⟩)
      (desc_elems env renv sels xs ih loc 0)
  | hobj kvs ih =>
    intro loc
    simp only [codeDesc, J.isContainer, if_true, expand.go, Rfc.descendantsOrSelf.go,
      List.flatMap_cons]
    exact representsAll_append (sels_refines_rfc env renv sels hs _ _ ⟨rfl, rfl, rfl⟩)
      (desc_members env renv sels kvs ih loc)

theorem desc_refines (n : Node) (r : Rfc.RNode) (hr : Represents n r) :
    RepresentsAll ((n :: expand n).flatMap (fun n => evalSels env n sels))
      ((Rfc.descendantsOrSelf r).flatMap (fun d => Rfc.evalSels renv d sels)) := by
  obtain ⟨parts, path, val⟩ := n
  obtain ⟨loc, rv⟩ := r
  obtain ⟨h1, h2, h3⟩ := hr
  simp only at h1 h2 h3
  subst h1 h2 h3
  by_cases hc : val.isContainer = true
  · have := descP_all env renv sels hs val loc
    simpa [codeDesc, hc, expand, Rfc.descendantsOrSelf] using this
  · have hc' : val.isContainer = false := by simpa using hc
    have e : Rfc.descendantsOrSelf.go loc val = [⟨loc, val⟩] := by
      cases val <;> simp_all [Rfc.descendantsOrSelf.go, J.isContainer]
    have e2 : expand.go (loc.map partOfStep) (Rfc.normalizedPath loc) val = [] := by
      cases val <;> simp_all [expand.go, J.isContainer]
    simp only [expand, Rfc.descendantsOrSelf, e, e2, List.flatMap_cons, List.flatMap_nil]
    exact representsAll_append (sels_refines_rfc env renv sels hs _ _ ⟨rfl, rfl, rfl⟩) trivial

end Desc

theorem segs_refines_rfc_aux (env : Env) (renv : Rfc.REnv) : ∀ (segs : List Seg) (ns : List Node)
    (rs : List Rfc.RNode) (_ : plainSegs segs = true) (_ : Rfc.wellFormedSegs segs = true)
    (_ : RepresentsAll ns rs),
    RepresentsAll (evalSegs env segs ns) (Rfc.evalSegs renv segs rs)
  | [], ns, rs, _, _, hr => by simpa [evalSegs, Rfc.evalSegs] using hr
  | .child sels :: rest, ns, rs, hp, hw, hr => by
    simp only [plainSegs, Bool.and_eq_true] at hp
    simp only [Rfc.wellFormedSegs] at hw
    simp only [evalSegs, Rfc.evalSegs]
    exact segs_refines_rfc_aux env renv rest _ _ hp.2 hw
      (representsAll_flatMap hr (fun n r h => sels_refines_rfc env renv sels hp.1 n r h))
  | .desc :: .child sels :: rest, ns, rs, hp, hw, hr => by
    simp only [plainSegs, Bool.and_eq_true] at hp
    simp only [Rfc.wellFormedSegs] at hw
    simp only [evalSegs, Rfc.evalSegs, List.flatMap_assoc]
    exact segs_refines_rfc_aux env renv rest _ _ hp.2 hw
      (representsAll_flatMap hr (fun n r h => desc_refines env renv sels hp.1 n r h))
  | [.desc], _, _, _, hw, _ => by simp [Rfc.wellFormedSegs] at hw
  | .desc :: .desc :: _, _, _, _, hw, _ => by simp [Rfc.wellFormedSegs] at hw
end JP.Lemmas
