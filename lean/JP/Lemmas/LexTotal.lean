/-
  Totality of the character-level lexer model `JP.Lex`.
-/
import JP.Lex
import JP.Lemmas.Surface
import JP.Lemmas.LexTotalAux
namespace JP.Lemmas
open JP JP.Query JP.Surface JP.Lex

/-! ### The lexer is total -/

/-- every rule consumes at least one character -/
theorem firstMatch_consumes (cfg : Cfg) (s : Str) (ts : List RawTok) (rest : Str)
    (h : firstMatch (rules cfg) s = some (ts, rest)) : rest.length < s.length :=
  LexTotal.firstMatch_consumes_of _ (LexTotal.rules_consumes cfg) s ts rest h

/-- the fuel is never exhausted: lexing fails only with a syntax error -/
theorem lexRaw_error (cfg : Cfg) (s : Str) (e : Err) (h : lexRaw cfg s = .error e) : e = .pathSyntax :=
  LexTotal.lexAux_error cfg s.length s e (Nat.le_refl _) h

end JP.Lemmas
