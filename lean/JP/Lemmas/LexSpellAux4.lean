/-
  LexSpell helpers, part 4: shapes of the printed texts, the atoms and the simultaneous induction over the AST
  (under spellings `sp`).
-/
import JP.Lemmas.LexSpellAux3
set_option linter.unusedSimpArgs false
set_option linter.unusedSectionVars false
namespace JP.Lemmas.LexSpell
open JP JP.Query JP.Surface JP.Lex JP.Lemmas JP.Lemmas.LexPrint

/-! ### shapes of the printed texts -/

theorem pstrE_cmpS (sp : Spell) (l r : Expr) (op : CmpOp) (h : isLogical op = false) :
    pstrE sp (.infix l op r) = pstrOperand sp l ++ ' ' :: (opStr op ++ ' ' :: pstrOperand sp r) := by
  simp only [pstrE, h, Bool.false_eq_true, if_false, List.append_assoc, List.cons_append]

theorem pstrE_logicalS (sp : Spell) (l r : Expr) (op : CmpOp) (h : isLogical op = true) :
    pstrE sp (.infix l op r) = '(' :: ((pstrE sp l ++ ' ' :: (opStr op ++ ' ' :: pstrE sp r)) ++ [')']) := by
  simp only [pstrE, h, if_true, List.append_assoc, List.cons_append]

theorem pstrOperand_eqS (sp : Spell) (e : Expr) :
    pstrOperand sp e = if isCmp e then '(' :: (pstrE sp e ++ [')']) else pstrE sp e := by
  cases e <;> simp only [pstrOperand, isCmp, Bool.false_eq_true, if_false]
  case «infix» l op r =>
    by_cases h : isLogical op = true <;> simp [h]

theorem pstrE_notS (sp : Spell) (e : Expr) :
    pstrE sp (.not e) = '!' :: (if isCmp e then '(' :: (pstrE sp e ++ [')']) else pstrE sp e) := by
  cases e <;> simp only [pstrE, isCmp, Bool.false_eq_true, if_false]
  case «infix» l op r =>
    by_cases h : isLogical op = true <;> simp [h]

theorem pstrCanon_cmpS (sp : Spell) (p : Nat) (l r : Expr) (op : CmpOp) (h : isLogical op = false) :
    pstrCanon sp p (.infix l op r) = pstrE sp (.infix l op r) := by
  cases op <;> first | (simp [isLogical] at h; done) | simp only [pstrCanon]

theorem pstrCanon_andS (sp : Spell) (p : Nat) (l r : Expr) :
    pstrCanon sp p (.infix l .and r) =
      if 4 ≤ p then '(' :: ((pstrCanon sp 4 l ++ ' ' :: (opStr .and ++ ' ' :: pstrCanon sp 4 r)) ++ [')'])
      else pstrCanon sp 4 l ++ ' ' :: (opStr .and ++ ' ' :: pstrCanon sp 4 r) := by
  simp only [pstrCanon, ge_iff_le, opStr, List.append_assoc, List.cons_append, List.nil_append]

theorem pstrCanon_orS (sp : Spell) (p : Nat) (l r : Expr) :
    pstrCanon sp p (.infix l .or r) =
      if 3 ≤ p then '(' :: ((pstrCanon sp 3 l ++ ' ' :: (opStr .or ++ ' ' :: pstrCanon sp 3 r)) ++ [')'])
      else pstrCanon sp 3 l ++ ' ' :: (opStr .or ++ ' ' :: pstrCanon sp 3 r) := by
  simp only [pstrCanon, ge_iff_le, opStr, List.append_assoc, List.cons_append, List.nil_append]

theorem pstrCanon_notS (sp : Spell) (p : Nat) (e : Expr) :
    pstrCanon sp p (.not e) =
      if 7 < p then '(' :: (('!' :: (if isCmp e then '(' :: (pstrCanon sp 7 e ++ [')']) else pstrCanon sp 7 e)) ++ [')'])
      else '!' :: (if isCmp e then '(' :: (pstrCanon sp 7 e ++ [')']) else pstrCanon sp 7 e) := by
  cases e <;> simp only [pstrCanon, isCmp, Bool.false_eq_true, if_false, gt_iff_lt, List.cons_append]
  case «infix» l op r =>
    by_cases h : isLogical op = true <;> simp [h]

/-! ### expressions -/

/-- the printed expression, as it stands and in canonical form under any parent precedence -/
def AllPS (sp : Spell) (uw : Char → Bool) (e : Expr) : Prop :=
  CES sp uw (pstrE sp e) (ptoksE e) ∧ ∀ p, CES sp uw (pstrCanon sp p e) (ptoksCanon p e)

/-- arguments and list items -/
def ArgsPS (sp : Spell) (uw : Char → Bool) (es : List Expr) : Prop :=
  es = [] ∨ CES sp uw (pstrArgs sp es) (ptoksArgs es)

def SelsPS (sp : Spell) (uw : Char → Bool) (ss : List Sel) : Prop :=
  ss = [] ∨ CSelS sp uw (pstrSels sp ss) (ptoksSels ss)

theorem AllPS.of_atom {sp : Spell} {uw : Char → Bool} {e : Expr} (h : CES sp uw (pstrE sp e) (ptoksE e))
    (h1 : ∀ p, pstrCanon sp p e = pstrE sp e) (h2 : ∀ p, ptoksCanon p e = ptoksE e) : AllPS sp uw e :=
  ⟨h, fun p => by rw [h1, h2]; exact h⟩

theorem ArgsPS.corr {sp : Spell} {uw : Char → Bool} {es : List Expr} (h : ArgsPS sp uw es) :
    CorrS sp uw (pstrArgs sp es) (ptoksArgs es) ∧ (pstrArgs sp es = [] ∨ ehS (pstrArgs sp es) = true) := by
  rcases h with rfl | h
  · refine ⟨?_, .inl ?_⟩
    · simp only [pstrArgs, ptoksArgs]; exact CorrS.nil sp uw
    · simp only [pstrArgs]
  · exact ⟨h.2, .inr h.1⟩

theorem SelsPS.corr {sp : Spell} {uw : Char → Bool} {ss : List Sel} (h : SelsPS sp uw ss) :
    CorrS sp uw (pstrSels sp ss) (ptoksSels ss) := by
  rcases h with rfl | h
  · simp only [pstrSels, ptoksSels]; exact CorrS.nil sp uw
  · exact h.1

section
variable {sp : Spell} (hv : ValidSpell sp = true) {uw : Char → Bool}
include hv

theorem CES.parenIf {w : Str} {ts : List Tok} (b : Bool) (h : CES sp uw w ts) :
    CES sp uw (if b then '(' :: (w ++ [')']) else w) (if b then .lparen :: (ts ++ [.rparen]) else ts) := by
  cases b
  · exact h
  · exact CES.paren hv h

theorem CES.parenIfP {w : Str} {ts : List Tok} (c : Prop) [Decidable c] (h : CES sp uw w ts) :
    CES sp uw (if c then '(' :: (w ++ [')']) else w) (if c then .lparen :: (ts ++ [.rparen]) else ts) := by
  by_cases hc : c
  · simp only [hc, if_true]; exact CES.paren hv h
  · simp only [hc, if_false]; exact h

theorem operandPS {e : Expr} (h : AllPS sp uw e) : CES sp uw (pstrOperand sp e) (ptoksOperand e) := by
  rw [pstrOperand_eqS, ptoksOperand_eq']
  exact CES.parenIf hv _ h.1

theorem AllPS.not {e : Expr} (h : AllPS sp uw e) : AllPS sp uw (.not e) := by
  constructor
  · rw [pstrE_notS, ptoksE_not']
    exact CES.bang hv (CES.parenIf hv _ h.1)
  · intro p
    rw [pstrCanon_notS, ptoksCanon_not']
    exact CES.parenIfP hv _ (CES.bang hv (CES.parenIf hv _ (h.2 7)))

theorem AllPS.infix {l r : Expr} (op : CmpOp) (hl : AllPS sp uw l) (hr : AllPS sp uw r) :
    AllPS sp uw (.infix l op r) := by
  by_cases hop : isLogical op = true
  · have hE : CES sp uw (pstrE sp (.infix l op r)) (ptoksE (.infix l op r)) := by
      rw [pstrE_logicalS sp l r op hop, ptoksE_logical' l r op hop]
      exact CES.paren hv (CES.infx hv op hl.1 hr.1)
    refine ⟨hE, fun p => ?_⟩
    have : op = .and ∨ op = .or := by
      cases op <;> simp [isLogical] at hop ⊢
    rcases this with rfl | rfl
    · rw [pstrCanon_andS, ptoksCanon_and']
      exact CES.parenIfP hv _ (CES.infx hv .and (hl.2 4) (hr.2 4))
    · rw [pstrCanon_orS, ptoksCanon_or']
      exact CES.parenIfP hv _ (CES.infx hv .or (hl.2 3) (hr.2 3))
  · have hop' : isLogical op = false := by simpa using hop
    have hE : CES sp uw (pstrE sp (.infix l op r)) (ptoksE (.infix l op r)) := by
      rw [pstrE_cmpS sp l r op hop', ptoksE_cmp' l r op hop']
      exact CES.infx hv op (operandPS hv hl) (operandPS hv hr)
    exact AllPS.of_atom hE (fun p => pstrCanon_cmpS sp p l r op hop') (fun p => ptoksCanon_cmp p l r op hop')

/-! ### atoms -/

theorem allPS_nil : AllPS sp uw .nil :=
  AllPS.of_atom (by simp only [pstrE, ptoksE]; exact CES.of_emit hv (emitS_nil hv uw) (fun _ h => h) rfl)
    (fun p => by simp only [pstrCanon]) (fun p => by simp only [ptoksCanon])

theorem allPS_undefined : AllPS sp uw .undefined :=
  AllPS.of_atom (by simp only [pstrE, ptoksE]; exact CES.of_emit hv (emitS_undefined hv uw) (fun _ h => h) rfl)
    (fun p => by simp only [pstrCanon]) (fun p => by simp only [ptoksCanon])

theorem allPS_bool (b : Bool) : AllPS sp uw (.bool b) :=
  AllPS.of_atom (by
      cases b
      · simp only [pstrE, ptoksE, Bool.false_eq_true, if_false]
        exact CES.of_emit hv (emitS_false hv uw) (fun _ h => h) rfl
      · simp only [pstrE, ptoksE, if_true]
        exact CES.of_emit hv (emitS_true hv uw) (fun _ h => h) rfl)
    (fun p => by simp only [pstrCanon]) (fun p => by simp only [ptoksCanon])

theorem allPS_int (i : Int) : AllPS sp uw (.int i) :=
  AllPS.of_atom (by
      simp only [pstrE, ptoksE]
      exact CES.of_emit hv (emitS_int hv uw i) (fun _ h => h) (ehS_of_eh (eh_intStr i)))
    (fun p => by simp only [pstrCanon]) (fun p => by simp only [ptoksCanon])

theorem allPS_flt (m : Int) (h : fltOK m = true) : AllPS sp uw (.flt m) :=
  AllPS.of_atom (by
      simp only [pstrE, ptoksE]
      exact CES.of_emit hv (emitS_flt hv uw m h) (fun _ h => h) (ehS_of_eh (eh_fltStr m)))
    (fun p => by simp only [pstrCanon]) (fun p => by simp only [ptoksCanon])

theorem allPS_str (s : Str) : AllPS sp uw (.str s) :=
  AllPS.of_atom (by simp only [pstrE, ptoksE]; exact CES.of_emit hv (emitS_str hv uw s) anyS_of rfl)
    (fun p => by simp only [pstrCanon]) (fun p => by simp only [ptoksCanon])

theorem allPS_regex (p f : Str) (hp : rePatOK p = true) (hf : reFlagsOK f = true) :
    AllPS sp uw (.regex p f) :=
  AllPS.of_atom (by simp only [pstrE, ptoksE]; exact CES.of_emit hv (emitS_regex hv uw p f hp hf) (fun _ h => h) rfl)
    (fun p => by simp only [pstrCanon]) (fun p => by simp only [ptoksCanon])

theorem allPS_key : AllPS sp uw .key :=
  AllPS.of_atom (by
      simp only [pstrE, ptoksE]
      have := ehS_ident (ok_key hv) []
      rw [List.append_nil] at this
      exact CES.of_emit hv (emitS_key hv uw) (fun _ h => stops_safeChar_safe h) this)
    (fun p => by simp only [pstrCanon]) (fun p => by simp only [ptoksCanon])

theorem allPS_list (items : List Expr) (h : ArgsPS sp uw items) : AllPS sp uw (.list items) :=
  AllPS.of_atom (by
      have e1 : pstrE sp (.list items) = '[' :: (pstrArgs sp items ++ [']']) := by
        simp only [pstrE, List.cons_append]
      have e2 : ptoksE (.list items) = .lbracket :: (ptoksArgs items ++ [.rbracket]) := by
        simp only [ptoksE, List.cons_append, List.nil_append]
      rw [e1, e2]
      exact CorrS.bracket hv h.corr.1)
    (fun p => by simp only [pstrCanon]) (fun p => by simp only [ptoksCanon])

theorem allPS_func (name : Str) (args : List Expr) (hn : funcNameOK name = true)
    (h : ArgsPS sp uw args) : AllPS sp uw (.func name args) :=
  AllPS.of_atom (by
      have e1 : pstrE sp (.func name args) = name ++ '(' :: (pstrArgs sp args ++ [')']) := by
        simp only [pstrE, List.cons_append, List.append_assoc]
      have e2 : ptoksE (.func name args) = .func name :: (ptoksArgs args ++ [.rparen]) := by
        simp only [ptoksE, List.cons_append, List.nil_append]
      rw [e1, e2]
      exact CES.call hv hn h.corr.1 h.corr.2)
    (fun p => by simp only [pstrCanon]) (fun p => by simp only [ptoksCanon])

theorem allPS_self (q : List Seg) (h : CSS sp uw (pstrSegs sp q) (ptoksSegs q)) : AllPS sp uw (.self q) :=
  AllPS.of_atom (by
      simp only [pstrE, ptoksE]
      exact CES.query hv (emitS_self hv uw) (ok_self hv) h)
    (fun p => by simp only [pstrCanon]) (fun p => by simp only [ptoksCanon])

theorem allPS_ctx (q : List Seg) (h : CSS sp uw (pstrSegs sp q) (ptoksSegs q)) : AllPS sp uw (.ctx q) :=
  AllPS.of_atom (by
      simp only [pstrE, ptoksE]
      exact CES.query hv (emitS_fctx hv uw) (ok_fctx hv) h)
    (fun p => by simp only [pstrCanon]) (fun p => by simp only [ptoksCanon])

theorem allPS_root (q : List Seg) (fake : Bool) (h : CSS sp uw (pstrSegs sp q) (ptoksSegs q)) :
    AllPS sp uw (.root q fake) :=
  AllPS.of_atom (by
      cases fake
      · simp only [pstrE, ptoksE, Bool.false_eq_true, if_false]
        exact CES.query hv (emitS_root hv uw) (ok_root hv) h
      · simp only [pstrE, ptoksE, if_true]
        exact CES.query hv (emitS_fakeRoot hv uw) (ok_fakeRoot hv) h)
    (fun p => by simp only [pstrCanon]) (fun p => by simp only [ptoksCanon])

/-! ### selectors -/

theorem cselS_name (s : Str) : CSelS sp uw (pstrSel sp (.name s)) (ptoksSel (.name s)) := by
  simp only [pstrSel, ptoksSel]
  exact CSelS.of_corr hv (CorrS.of_emit hv (emitS_str hv uw s) anyS_of) (by simp [canonicalString])
    (by simp [canonicalString, nb, isPyBlank])

theorem cselS_index (i : Int) : CSelS sp uw (pstrSel sp (.index i)) (ptoksSel (.index i)) := by
  simp only [pstrSel, ptoksSel]
  exact CSelS.of_corr hv (CorrS.of_emit hv (emitS_int hv uw i) (fun _ h => h)) (eh_ne_nil (eh_intStr i))
    (nb_of_eh (eh_intStr i))

theorem cselS_slice (a b c : Option Int) :
    CSelS sp uw (pstrSel sp (.slice a b c)) (ptoksSel (.slice a b c)) := by
  simp only [pstrSel, ptoksSel]
  exact CSelS.slice hv a b (c.getD 1)

theorem cselS_wild : CSelS sp uw (pstrSel sp .wild) (ptoksSel .wild) := by
  simp only [pstrSel, ptoksSel]
  exact CSelS.of_corr hv (CorrS.of_emit hv (emitS_wild hv uw) anyS_of) (by simp) (by simp [nb, isPyBlank])

theorem cselS_keys : CSelS sp uw (pstrSel sp .keys) (ptoksSel .keys) := by
  simp only [pstrSel, ptoksSel]
  have := nb_ident (ok_keys hv) []
  rw [List.append_nil] at this
  exact CSelS.of_corr hv (CorrS.of_emit hv (emitS_keys hv uw) (fun _ h => stops_safeChar_safe h))
    (okSpelling_ne_nil (ok_keys hv)) this

theorem cselS_filter (e : Expr) (h : AllPS sp uw e) :
    CSelS sp uw (pstrSel sp (.filter e)) (ptoksSel (.filter e)) := by
  simp only [pstrSel, ptoksSel]
  exact CSelS.filter hv (h.2 1)

end

/-! ### the simultaneous induction -/

mutual
theorem lexES {sp : Spell} (hv : ValidSpell sp = true) (uw : Char → Bool) (e : Expr) (h : printableE e = true) :
    AllPS sp uw e :=
  match e, h with
  | .nil, _ => allPS_nil hv
  | .undefined, _ => allPS_undefined hv
  | .bool b, _ => allPS_bool hv b
  | .int i, _ => allPS_int hv i
  | .flt m, h => by
    simp only [printableE] at h
    exact allPS_flt hv m h
  | .str s, _ => allPS_str hv s
  | .regex p f, h => by
    simp only [printableE, Bool.and_eq_true] at h
    exact allPS_regex hv p f h.1 h.2
  | .key, _ => allPS_key hv
  | .list items, h => by
    simp only [printableE] at h
    exact allPS_list hv items (lexArgsS hv uw items h)
  | .not e, h => by
    simp only [printableE] at h
    exact AllPS.not hv (lexES hv uw e h)
  | .infix l op r, h => by
    simp only [printableE, Bool.and_eq_true] at h
    exact AllPS.infix hv op (lexES hv uw l h.1) (lexES hv uw r h.2)
  | .self q, h => by
    simp only [printableE] at h
    exact allPS_self hv q (lexSegsS hv uw q h)
  | .root q fake, h => by
    simp only [printableE] at h
    exact allPS_root hv q fake (lexSegsS hv uw q h)
  | .ctx q, h => by
    simp only [printableE] at h
    exact allPS_ctx hv q (lexSegsS hv uw q h)
  | .func name args, h => by
    simp only [printableE, Bool.and_eq_true] at h
    exact allPS_func hv name args h.1 (lexArgsS hv uw args h.2)
termination_by sizeOf e
theorem lexArgsS {sp : Spell} (hv : ValidSpell sp = true) (uw : Char → Bool) (es : List Expr)
    (h : printableEs es = true) : ArgsPS sp uw es :=
  match es, h with
  | [], _ => .inl rfl
  | [e], h => by
    simp only [printableEs, Bool.and_true] at h
    refine .inr ?_
    simp only [pstrArgs, ptoksArgs]
    exact (lexES hv uw e h).1
  | e :: e' :: es, h => by
    rw [printableEs, Bool.and_eq_true] at h
    refine .inr ?_
    have h2 := lexArgsS hv uw (e' :: es) h.2
    rcases h2 with h2 | h2
    · cases h2
    · have e1 : pstrArgs sp (e :: e' :: es) = pstrE sp e ++ commaSp ++ pstrArgs sp (e' :: es) := by
        rw [pstrArgs]; exact List.cons_ne_nil _ _
      have e2 : ptoksArgs (e :: e' :: es) = ptoksE e ++ [.comma] ++ ptoksArgs (e' :: es) := by
        rw [ptoksArgs]; exact List.cons_ne_nil _ _
      rw [e1, e2]
      exact CES.comma hv (lexES hv uw e h.1).1 h2
termination_by sizeOf es
theorem lexSelS {sp : Spell} (hv : ValidSpell sp = true) (uw : Char → Bool) (s : Sel) (h : printableSel s = true) :
    CSelS sp uw (pstrSel sp s) (ptoksSel s) :=
  match s, h with
  | .filter e, h => by
    simp only [printableSel] at h
    exact cselS_filter hv e (lexES hv uw e h)
  | .name s, _ => cselS_name hv s
  | .index i, _ => cselS_index hv i
  | .slice a b c, _ => cselS_slice hv a b c
  | .wild, _ => cselS_wild hv
  | .keys, _ => cselS_keys hv
termination_by sizeOf s
theorem lexSelsS {sp : Spell} (hv : ValidSpell sp = true) (uw : Char → Bool) (ss : List Sel)
    (h : printableSels ss = true) : SelsPS sp uw ss :=
  match ss, h with
  | [], _ => .inl rfl
  | [s], h => by
    simp only [printableSels, Bool.and_true] at h
    refine .inr ?_
    simp only [pstrSels, ptoksSels]
    exact lexSelS hv uw s h
  | s :: s' :: ss, h => by
    rw [printableSels, Bool.and_eq_true] at h
    refine .inr ?_
    have h2 := lexSelsS hv uw (s' :: ss) h.2
    rcases h2 with h2 | h2
    · cases h2
    · have e1 : pstrSels sp (s :: s' :: ss) = pstrSel sp s ++ commaSp ++ pstrSels sp (s' :: ss) := by
        rw [pstrSels]; exact List.cons_ne_nil _ _
      have e2 : ptoksSels (s :: s' :: ss) = ptoksSel s ++ [.comma] ++ ptoksSels (s' :: ss) := by
        rw [ptoksSels]; exact List.cons_ne_nil _ _
      rw [e1, e2]
      exact CSelS.comma hv (lexSelS hv uw s h.1) h2
termination_by sizeOf ss
theorem lexSegsS {sp : Spell} (hv : ValidSpell sp = true) (uw : Char → Bool) (q : List Seg)
    (h : printableSegs q = true) : CSS sp uw (pstrSegs sp q) (ptoksSegs q) :=
  match q, h with
  | [], _ => by simp only [pstrSegs, ptoksSegs]; exact CSS.nil hv
  | .desc :: q, h => by
    simp only [printableSegs] at h
    simp only [pstrSegs, ptoksSegs]
    exact CSS.desc hv (lexSegsS hv uw q h)
  | .child sels :: q, h => by
    simp only [printableSegs, Bool.and_eq_true] at h
    have e1 : pstrSegs sp (.child sels :: q) = '[' :: (pstrSels sp sels ++ ']' :: pstrSegs sp q) := by
      simp only [pstrSegs, List.cons_append]
    have e2 : ptoksSegs (.child sels :: q) = .lbracket :: (ptoksSels sels ++ .rbracket :: ptoksSegs q) := by
      simp only [ptoksSegs, List.cons_append, List.nil_append, List.append_assoc]
    rw [e1, e2]
    exact CSS.child hv (lexSelsS hv uw sels h.1).corr (lexSegsS hv uw q h.2)
termination_by sizeOf q
end

end JP.Lemmas.LexSpell
