/-
  C06, patch side: the built-in-exception branches of `writeBack`, `insertArr`, `delArr`,
  `setArr` are unreachable from the patch operations, for arbitrary parts.
-/
import JP.Lemmas.SafetyAux
set_option linter.unusedSimpArgs false
namespace JP.Lemmas
open JP JP.Pointer JP.Patch

/-! ### list positions -/

theorem sf_pyListGet_pos {α} (xs : List α) (i : Int) (v : α) (h : pyListGet xs i = some v) :
    ∃ n, pyIndexPos xs.length i = some n ∧ xs[n]? = some v := by
  unfold pyListGet at h
  unfold pyIndexPos
  split at h
  · rename_i h0
    have hl : i.toNat < xs.length := by
      rcases Nat.lt_or_ge i.toNat xs.length with hl | hl
      · exact hl
      · rw [List.getElem?_eq_none hl] at h; cases h
    exact ⟨i.toNat, by simp [h0, hl], h⟩
  · rename_i h0
    split at h
    · rename_i h1
      exact ⟨(xs.length + i).toNat, by simp [h0, h1], h⟩
    · cases h

/-! ### one navigation step -/

theorem sf_getitem_ok_container (v : J) (p : Part) (c : J) (h : getitem v p = .ok c) :
    v.isContainer = true := by
  cases v <;> first | rfl | (exfalso; unfold getitem at h; cases h)

theorem sf_getitem_obj_container (kvs : List (Str × J)) (p : Part) (c : J)
    (h : getitem (.obj kvs) p = .ok c) (hc : c.isContainer = true) :
    dictGet kvs (partStr p) = some c := by
  unfold getitem at h
  err_norm h
  cases p with
  | idx i =>
    dsimp only at h
    split at h
    · rename_i v hv; cases h; exact hv
    · cases h
  | key k =>
    dsimp only at h
    split at h
    · rename_i v hv; cases h; exact hv
    · split at h
      · split at h
        · cases h; cases hc
        · cases h
      · cases h

/-- What a successful `getitem` on an array means. -/
theorem sf_getitem_arr (xs : List J) (p : Part) (c : J) (h : getitem (.arr xs) p = .ok c) :
    (∃ rest, p = .key ('#' :: rest) ∧ c.isContainer = false) ∨
    (∃ i, tokenInt p = some i ∧ (∀ rest, p ≠ .key ('#' :: rest)) ∧ pyListGet xs i = some c) := by
  unfold getitem at h
  err_norm h
  cases p with
  | idx i =>
    dsimp only at h
    split at h
    · rename_i v hv; cases h
      exact Or.inr ⟨i, rfl, fun _ hh => (by cases hh), hv⟩
    · cases h
  | key k =>
    dsimp only at h
    split at h
    · cases h
    · split at h
      · rename_i rest _
        left
        refine ⟨rest, rfl, ?_⟩
        cases hi : indexOf rest with
        | error e => rw [hi] at h; cases h
        | ok q =>
          rw [hi] at h
          err_norm h
          err_leaves h with skip
      · rename_i hnh
        right
        cases hi : indexOf k with
        | error e => rw [hi] at h; cases h
        | ok q =>
          rw [hi] at h
          err_norm h
          split at h
          · rename_i i
            split at h
            · rename_i v hv
              cases h
              refine ⟨i, ?_, ?_, hv⟩
              · simp only [tokenInt, hi]
              · intro rest hh
                cases hh
                exact hnh rest rfl
            · cases h
          · cases h

theorem sf_slotOf_arr (xs : List J) (p : Part) (i : Int) (ht : tokenInt p = some i)
    (hh : ∀ rest, p ≠ .key ('#' :: rest)) :
    slotOf (.arr xs) p = (pyIndexPos xs.length i).map .elem := by
  cases p with
  | idx j => cases ht; rfl
  | key k =>
    unfold slotOf
    dsimp only
    split
    · rename_i rest; exact absurd rfl (hh rest)
    · unfold tokenInt at ht
      dsimp only at ht
      split at ht
      · cases ht; rfl
      · cases ht

/-- A step that yields a container selects a real child slot, and `writeBack` descends
    through exactly that child. -/
theorem sf_writeBack_step (cur : J) (p : Part) (c : J) (rest : List Part) (new : J)
    (h : getitem cur p = .ok c) (hc : c.isContainer = true) (d : J)
    (hd : writeBack c rest new = .ok d) : ∃ d', writeBack cur (p :: rest) new = .ok d' := by
  cases cur with
  | obj kvs =>
    have hg := sf_getitem_obj_container kvs p c h hc
    refine ⟨.obj (dictSet kvs (partStr p) d), ?_⟩
    simp [writeBack, slotOf, dictHas, hg, hd, sf_bind_ok_eq, sf_pure_eq]
  | arr xs =>
    rcases sf_getitem_arr xs p c h with ⟨rest', _, hf⟩ | ⟨i, ht, hh, hv⟩
    · rw [hc] at hf; cases hf
    · obtain ⟨n, hn, hx⟩ := sf_pyListGet_pos xs i c hv
      refine ⟨.arr (xs.set n d), ?_⟩
      simp [writeBack, sf_slotOf_arr xs p i ht hh, hn, hx, hd, sf_bind_ok_eq, sf_pure_eq]
  | _ => exfalso; unfold getitem at h; cases h

theorem sf_resolveParts_cons (v : J) (p : Part) (ps : List Part) :
    resolveParts v (p :: ps) = (getitem v p >>= fun w => resolveParts w ps) := by
  simp [resolveParts]

theorem sf_writeBack_ok (ps : List Part) (doc parent new : J)
    (h : resolveParts doc ps = .ok parent) (hp : parent.isContainer = true) :
    ∃ d, writeBack doc ps new = .ok d := by
  induction ps generalizing doc with
  | nil => exact ⟨new, rfl⟩
  | cons p rest ih =>
    rw [sf_resolveParts_cons] at h
    cases hg : getitem doc p with
    | error e => rw [hg] at h; cases h
    | ok c =>
      rw [hg, sf_bind_ok_eq] at h
      have hc : c.isContainer = true := by
        cases rest with
        | nil => cases h; exact hp
        | cons q rest' =>
          rw [sf_resolveParts_cons] at h
          cases hq : getitem c q with
          | error e => rw [hq] at h; cases h
          | ok c' => exact sf_getitem_ok_container c q c' hq
      obtain ⟨d, hd⟩ := ih c h
      exact sf_writeBack_step doc p c rest new hg hc d hd

/-! ### `resolveParent` and `target` -/

theorem sf_resolveParent_ok (doc : J) (ps : List Part) (parent obj : Option J)
    (h : resolveParent doc ps = .ok (parent, obj)) :
    (ps.getLast? = none ∧ parent = none) ∨
    ∃ last par, ps.getLast? = some last ∧ parent = some par ∧
      resolveParts doc ps.dropLast = .ok par ∧
      (obj = none ∨ ∃ v, obj = some v ∧ getitem par last = .ok v) := by
  unfold resolveParent at h
  split at h
  · rename_i hl
    cases h
    exact Or.inl ⟨hl, rfl⟩
  · rename_i last hl
    right
    cases hr : resolveParts doc ps.dropLast with
    | error e => rw [hr] at h; cases h
    | ok par =>
      rw [hr, sf_bind_ok_eq] at h
      refine ⟨last, par, hl, ?_⟩
      split at h
      · rename_i v hv
        cases h
        exact ⟨rfl, rfl, Or.inr ⟨v, rfl, hv⟩⟩
      · cases h; exact ⟨rfl, rfl, Or.inl rfl⟩
      · cases h; exact ⟨rfl, rfl, Or.inl rfl⟩
      · cases h

theorem sf_target_err (doc : J) (ps : List Part) (e : Err) (h : target doc ps = .error e) :
    e.isPointerResolution = true := by
  unfold target at h
  rcases sf_bind_err h with h1 | ⟨⟨parent, obj⟩, _, h2⟩
  · exact sf_resolveParent_err _ _ _ h1
  · dsimp only at h2
    err_leaves h2 with skip

theorem sf_target_ok (doc : J) (ps : List Part) (parent : Option J) (token : Part) (obj : Option J)
    (h : target doc ps = .ok (parent, token, obj)) :
    parent = none ∨ ∃ par, parent = some par ∧ resolveParts doc ps.dropLast = .ok par ∧
      (∀ xs, par = .arr xs →
        obj = none ∨ ∃ i n, tokenInt token = some i ∧ pyIndexPos xs.length i = some n) := by
  unfold target at h
  cases hr : resolveParent doc ps with
  | error e => rw [hr] at h; cases h
  | ok r =>
    obtain ⟨parent', obj'⟩ := r
    rw [hr, sf_bind_ok_eq] at h
    dsimp only at h
    rcases sf_resolveParent_ok doc ps parent' obj' hr with ⟨hl, rfl⟩ | ⟨last, par, hl, rfl, hres, hobj⟩
    · rw [hl] at h
      dsimp only at h
      cases h
      exact Or.inl rfl
    · rw [hl] at h
      right
      split at h
      · rename_i kvs tok heq1 heq2
        cases h
        cases heq1
        exact ⟨_, rfl, hres, fun xs hx => by cases hx⟩
      · cases h
        rename_i heq1 heq2
        cases heq1
        exact ⟨_, rfl, hres, fun xs hx => Or.inl rfl⟩
      · rename_i tok hno hnh heq1 heq2
        cases h
        cases heq1
        cases heq2
        refine ⟨_, rfl, hres, fun xs hx => ?_⟩
        subst hx
        rcases hobj with rfl | ⟨v, rfl, hv⟩
        · exact Or.inl rfl
        · right
          rcases sf_getitem_arr xs token v hv with ⟨rest, rfl, _⟩ | ⟨i, ht, _, hg⟩
          · exact (hnh rest rfl).elim
          · obtain ⟨n, hn, _⟩ := sf_pyListGet_pos xs i v hg
            exact ⟨i, n, ht, hn⟩
      · rename_i hno
        exact (hno _ _ rfl rfl).elim

/-! ### the array primitives -/

theorem sf_insertArr_err (xs : List J) (token : Part) (obj : Option J) (v : J) (e : Err)
    (hobj : obj = none ∨ ∃ i n, tokenInt token = some i ∧ pyIndexPos xs.length i = some n)
    (h : insertArr xs token obj v = .error e) : e = .patch := by
  unfold insertArr at h
  err_norm h
  rcases hobj with rfl | ⟨i, n, ht, _⟩
  · dsimp only at h
    err_leaves h with skip
  · rw [ht] at h
    cases obj with
    | none =>
      dsimp only at h
      err_leaves h with skip
    | some o =>
      dsimp only at h
      cases h

theorem sf_delArr_ok (xs : List J) (token : Part)
    (hobj : ∃ i n, tokenInt token = some i ∧ pyIndexPos xs.length i = some n) :
    ∃ ys, delArr xs token = .ok ys := by
  obtain ⟨i, n, ht, hn⟩ := hobj
  exact ⟨xs.eraseIdx n, by simp [delArr, ht, hn, sf_pure_eq]⟩

theorem sf_setArr_ok (xs : List J) (token : Part) (v : J)
    (hobj : ∃ i n, tokenInt token = some i ∧ pyIndexPos xs.length i = some n) :
    ∃ ys, setArr xs token v = .ok ys := by
  obtain ⟨i, n, ht, hn⟩ := hobj
  exact ⟨xs.set n v, by simp [setArr, ht, hn, sf_pure_eq]⟩

/-! ### consequences of a successful `target` -/

theorem sf_wb (doc : J) (path : List Part) (par : J) (token : Part) (obj : Option J)
    (ht : target doc path = .ok (some par, token, obj)) (hc : par.isContainer = true)
    (new : J) (e : Err) (h : writeBack doc path.dropLast new = .error e) : False := by
  rcases sf_target_ok doc path _ _ _ ht with h0 | ⟨par', hp, hres, _⟩
  · cases h0
  · cases hp
    obtain ⟨d, hd⟩ := sf_writeBack_ok path.dropLast doc par new hres hc
    rw [hd] at h; cases h

theorem sf_tgt_arr (doc : J) (path : List Part) (xs : List J) (token : Part) (obj : Option J)
    (ht : target doc path = .ok (some (.arr xs), token, obj)) :
    obj = none ∨ ∃ i n, tokenInt token = some i ∧ pyIndexPos xs.length i = some n := by
  rcases sf_target_ok doc path _ _ _ ht with h0 | ⟨par', hp, _, ha⟩
  · cases h0
  · cases hp
    exact ha xs rfl

theorem sf_tgt_arr_some (doc : J) (path : List Part) (xs : List J) (token : Part) (o : J)
    (ht : target doc path = .ok (some (.arr xs), token, some o)) :
    ∃ i n, tokenInt token = some i ∧ pyIndexPos xs.length i = some n := by
  rcases sf_tgt_arr doc path xs token _ ht with h0 | h1
  · cases h0
  · exact h1

/-! ### the operations -/

/-- The error classes `JSONPatch.apply` translates or keeps. -/
def SfOk (e : Err) : Prop :=
  e = .ptrIndex ∨ e = .ptrKey ∨ e = .ptrType ∨ e = .patch ∨ e = .patchTest

theorem sf_ok_res {e : Err} (h : e.isPointerResolution = true) : SfOk e := by
  cases e <;> simp [Err.isPointerResolution, SfOk] at h ⊢

theorem sf_ok_patch : SfOk .patch := Or.inr (Or.inr (Or.inr (Or.inl rfl)))
theorem sf_ok_patchTest : SfOk .patchTest := Or.inr (Or.inr (Or.inr (Or.inr rfl)))
theorem sf_ok_patch' {e : Err} (h : e = .patch) : SfOk e := h ▸ sf_ok_patch

theorem sf_applyAdd_err (doc : J) (path : List Part) (v : J) (e : Err)
    (h : applyAdd doc path v = .error e) : SfOk e := by
  unfold applyAdd at h
  rcases sf_bind_err h with h1 | ⟨⟨parent, token, obj⟩, ht, h2⟩
  · exact sf_ok_res (sf_target_err _ _ _ h1)
  · dsimp only at h2
    split at h2
    · cases h2
    · rcases sf_bind_err h2 with h3 | ⟨xs', _, h4⟩
      · exact sf_ok_patch' (sf_insertArr_err _ _ _ _ _ (sf_tgt_arr _ _ _ _ _ ht) h3)
      · exact (sf_wb _ _ _ _ _ ht rfl _ _ h4).elim
    · exact (sf_wb _ _ _ _ _ ht rfl _ _ h2).elim
    · cases h2; exact sf_ok_patch

theorem sf_applyAddNe_err (doc : J) (path : List Part) (v : J) (e : Err)
    (h : applyAddNe doc path v = .error e) : SfOk e := by
  unfold applyAddNe at h
  rcases sf_bind_err h with h1 | ⟨⟨parent, token, obj⟩, ht, h2⟩
  · exact sf_ok_res (sf_target_err _ _ _ h1)
  · dsimp only at h2
    split at h2
    · split at h2
      · cases h2
      · exact sf_applyAdd_err _ _ _ _ h2
    · exact sf_applyAdd_err _ _ _ _ h2

theorem sf_applyAddAp_err (doc : J) (path : List Part) (v : J) (e : Err)
    (h : applyAddAp doc path v = .error e) : SfOk e := by
  unfold applyAddAp at h
  rcases sf_bind_err h with h1 | ⟨⟨parent, token, obj⟩, ht, h2⟩
  · exact sf_ok_res (sf_target_err _ _ _ h1)
  · dsimp only at h2
    split at h2
    · exact (sf_wb _ _ _ _ _ ht rfl _ _ h2).elim
    · exact sf_applyAdd_err _ _ _ _ h2

theorem sf_applyRemove_err (doc : J) (path : List Part) (e : Err)
    (h : applyRemove doc path = .error e) : SfOk e := by
  unfold applyRemove at h
  rcases sf_bind_err h with h1 | ⟨⟨parent, token, obj⟩, ht, h2⟩
  · exact sf_ok_res (sf_target_err _ _ _ h1)
  · dsimp only at h2
    split at h2
    · cases h2; exact sf_ok_patch
    · split at h2
      · cases h2; exact sf_ok_patch
      · obtain ⟨ys, hys⟩ := sf_delArr_ok _ _ (sf_tgt_arr_some _ _ _ _ _ ht)
        rw [hys, sf_bind_ok_eq] at h2
        exact (sf_wb _ _ _ _ _ ht rfl _ _ h2).elim
    · split at h2
      · cases h2; exact sf_ok_patch
      · exact (sf_wb _ _ _ _ _ ht rfl _ _ h2).elim
    · cases h2; exact sf_ok_patch

theorem sf_applyReplace_err (doc : J) (path : List Part) (v : J) (e : Err)
    (h : applyReplace doc path v = .error e) : SfOk e := by
  unfold applyReplace at h
  rcases sf_bind_err h with h1 | ⟨⟨parent, token, obj⟩, ht, h2⟩
  · exact sf_ok_res (sf_target_err _ _ _ h1)
  · dsimp only at h2
    split at h2
    · cases h2
    · split at h2
      · cases h2; exact sf_ok_patch
      · obtain ⟨ys, hys⟩ := sf_setArr_ok _ _ v (sf_tgt_arr_some _ _ _ _ _ ht)
        rw [hys, sf_bind_ok_eq] at h2
        exact (sf_wb _ _ _ _ _ ht rfl _ _ h2).elim
    · split at h2
      · cases h2; exact sf_ok_patch
      · exact (sf_wb _ _ _ _ _ ht rfl _ _ h2).elim
    · cases h2; exact sf_ok_patch

theorem sf_applyTest_err (doc : J) (path : List Part) (v : J) (e : Err)
    (h : applyTest doc path v = .error e) : SfOk e := by
  unfold applyTest at h
  rcases sf_bind_err h with h1 | ⟨⟨parent, token, obj⟩, ht, h2⟩
  · exact sf_ok_res (sf_target_err _ _ _ h1)
  · dsimp only at h2
    split at h2
    · cases h2; exact sf_ok_patchTest
    · split at h2
      · cases h2
      · cases h2; exact sf_ok_patchTest

/-- The shared tail of `add`, `move`, `copy`: insert `sv` at the resolved destination. -/
theorem sf_dest_err (doc : J) (dest : List Part) (sv : J) (e : Err)
    (h : (target doc dest >>= fun r =>
      match r with
      | (dparent, dtoken, dobj) =>
        match dparent with
        | none => pure sv
        | some (.arr xs) => do
          let xs' ← insertArr xs dtoken dobj sv
          writeBack doc dest.dropLast (.arr xs')
        | some (.obj kvs) => writeBack doc dest.dropLast (.obj (dictSet kvs (partStr dtoken) sv))
        | some _ => throw .patch) = .error e) : SfOk e :=
  sf_applyAdd_err doc dest sv e h

theorem sf_applyCopy_err (doc : J) (src dest : List Part) (e : Err)
    (h : applyCopy doc src dest = .error e) : SfOk e := by
  unfold applyCopy at h
  rcases sf_bind_err h with h1 | ⟨⟨parent, token, obj⟩, ht, h2⟩
  · exact sf_ok_res (sf_target_err _ _ _ h1)
  · dsimp only at h2
    split at h2
    · cases h2; exact sf_ok_patch
    · exact sf_dest_err _ _ _ _ h2

/-- The shared tail of `add`, `move`, `copy` after `dsimp only`: resolve the destination in
    `doc1`, insert there. -/
macro "sf_dest_tac" h:ident : tactic =>
  `(tactic|
    (rcases sf_bind_err $h with h1 | ⟨⟨dparent, dtoken, dobj⟩, ht', h2'⟩
     · exact sf_ok_res (sf_target_err _ _ _ h1)
     · dsimp only at h2'
       split at h2'
       · cases h2'
       · rcases sf_bind_err h2' with h3' | ⟨xs', _, h4'⟩
         · exact sf_ok_patch' (sf_insertArr_err _ _ _ _ _ (sf_tgt_arr _ _ _ _ _ ht') h3')
         · exact (sf_wb _ _ _ _ _ ht' rfl _ _ h4').elim
       · exact (sf_wb _ _ _ _ _ ht' rfl _ _ h2').elim
       · cases h2'; exact sf_ok_patch))

theorem sf_applyMove_err (doc : J) (src dest : List Part) (e : Err)
    (h : applyMove doc src dest = .error e) : SfOk e := by
  unfold applyMove at h
  dsimp only at h
  split at h
  · cases h; exact sf_ok_patch
  · rcases sf_bind_err h with h1 | ⟨⟨parent, token, obj⟩, ht, h2⟩
    · exact sf_ok_res (sf_target_err _ _ _ h1)
    · dsimp only at h2
      split at h2
      · cases h2; exact sf_ok_patch
      · split at h2
        · obtain ⟨ys, hys⟩ := sf_delArr_ok _ _ (sf_tgt_arr_some _ _ _ _ _ ht)
          rw [hys, sf_bind_ok_eq] at h2
          rcases sf_bind_err h2 with h3 | ⟨doc1, _, h4⟩
          · exact (sf_wb _ _ _ _ _ ht rfl _ _ h3).elim
          · sf_dest_tac h4
        · rcases sf_bind_err h2 with h3 | ⟨doc1, _, h4⟩
          · exact (sf_wb _ _ _ _ _ ht rfl _ _ h3).elim
          · sf_dest_tac h4
        · rw [sf_bind_pure] at h2
          sf_dest_tac h2

theorem sf_applyOp_err (doc : J) (op : Op) (e : Err) (h : applyOp doc op = .error e) : SfOk e := by
  cases op with
  | add p v => exact sf_applyAdd_err _ _ _ _ h
  | addne p v => exact sf_applyAddNe_err _ _ _ _ h
  | addap p v => exact sf_applyAddAp_err _ _ _ _ h
  | remove p => exact sf_applyRemove_err _ _ _ h
  | replace p v => exact sf_applyReplace_err _ _ _ _ h
  | move s d => exact sf_applyMove_err _ _ _ _ h
  | copy s d => exact sf_applyCopy_err _ _ _ _ h
  | test p v => exact sf_applyTest_err _ _ _ _ h

theorem sf_ok_not_builtin {e : Err} (h : SfOk e) : e.isBuiltin = false := by
  rcases h with rfl | rfl | rfl | rfl | rfl <;> rfl

theorem sf_translate_ok {e : Err} (h : SfOk e) : translate e = .patch ∨ translate e = .patchTest := by
  rcases h with rfl | rfl | rfl | rfl | rfl
  · exact Or.inl rfl
  · exact Or.inl rfl
  · exact Or.inl rfl
  · exact Or.inl rfl
  · exact Or.inr rfl

theorem sf_apply_err (ops : List Op) (doc : J) (e : Err) (h : Patch.apply ops doc = .error e) :
    e = .patch ∨ e = .patchTest := by
  unfold Patch.apply at h
  obtain ⟨d, op, _, hf⟩ := sf_foldlM_err _ _ _ _ h
  cases ha : applyOp d op with
  | ok d' => rw [ha] at hf; cases hf
  | error e' =>
    rw [ha] at hf
    have : translate e' = e := by
      have hf' : (Except.error (translate e') : Res J) = .error e := hf
      cases hf'; rfl
    rw [← this]
    exact sf_translate_ok (sf_applyOp_err _ _ _ ha)

end JP.Lemmas
