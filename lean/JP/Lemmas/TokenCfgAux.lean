/-
  Auxiliary lemmas for C17: evaluation returns the same values whatever the identifier spellings.
-/
import JP.TokenCfg
import JP.Lemmas.JInduct
namespace JP.Lemmas
open JP JP.Query JP.TokenCfg

namespace TokInd

/-! ## list helpers -/

theorem map_val_length {ns1 ns2 : List Node} (h : ns1.map (·.val) = ns2.map (·.val)) :
    ns1.length = ns2.length := by
  have := congrArg List.length h
  simpa using this

theorem map_val_isEmpty {ns1 ns2 : List Node} (h : ns1.map (·.val) = ns2.map (·.val)) :
    ns1.isEmpty = ns2.isEmpty := by
  cases ns1 <;> cases ns2 <;> simp_all

theorem map_val_flatMap (f1 f2 : Node → List Node)
    (hf : ∀ n1 n2 : Node, n1.val = n2.val → (f1 n1).map (·.val) = (f2 n2).map (·.val)) :
    ∀ (ns1 ns2 : List Node), ns1.map (·.val) = ns2.map (·.val) →
      (ns1.flatMap f1).map (·.val) = (ns2.flatMap f2).map (·.val)
  | [], [], _ => rfl
  | [], _ :: _, h => by simp at h
  | _ :: _, [], h => by simp at h
  | a :: as, b :: bs, h => by
    simp only [List.map_cons, List.cons.injEq] at h
    simp only [List.flatMap_cons, List.map_append]
    rw [hf a b h.1, map_val_flatMap f1 f2 hf as bs h.2]

theorem filterMap_val_congr {α} (f g : α → Option Node) :
    ∀ (l : List α), (∀ x ∈ l, (f x).map (·.val) = (g x).map (·.val)) →
      (l.filterMap f).map (·.val) = (l.filterMap g).map (·.val)
  | [], _ => rfl
  | x :: xs, h => by
    have hx := h x (List.mem_cons_self ..)
    have ih := filterMap_val_congr f g xs (fun y hy => h y (List.mem_cons_of_mem _ hy))
    simp only [List.filterMap_cons]
    cases hfx : f x <;> cases hgx : g x <;> simp [hfx, hgx] at hx
    · exact ih
    · simp only [List.map_cons, ih, hx]

theorem map_val_congr {α} (f g : α → Node) (l : List α) (h : ∀ x ∈ l, (f x).val = (g x).val) :
    (l.map f).map (·.val) = (l.map g).map (·.val) := by
  simp only [List.map_map]
  exact List.map_congr_left (fun x hx => h x hx)

/-! ## recursive descent -/

theorem expand_go_val : ∀ (j : J) (p1 p2 : List Part) (q1 q2 : Str),
    (expand.go p1 q1 j).map (·.val) = (expand.go p2 q2 j).map (·.val) := by
  intro j
  induction j using J.induct with
  | hnull => intros; simp [expand.go]
  | hbool => intros; simp [expand.go]
  | hint => intros; simp [expand.go]
  | hflt => intros; simp [expand.go]
  | hstr => intros; simp [expand.go]
  | harr xs ih =>
    intro p1 p2 q1 q2
    simp only [expand.go]
    generalize 0 = i
    induction xs generalizing i with
    | nil => simp [expand.goElems]
    | cons v rest ihr =>
      have hv := ih v (List.mem_cons_self ..)
      have hr := ihr (fun x hx => ih x (List.mem_cons_of_mem _ hx)) (i + 1)
      simp only [expand.goElems, List.map_append]
      rw [hr]
      congr 1
      split
      · simp only [List.map_cons]
        rw [hv]
      · rfl
  | hobj kvs ih =>
    intro p1 p2 q1 q2
    simp only [expand.go]
    induction kvs with
    | nil => simp [expand.goMembers]
    | cons kv rest ihr =>
      obtain ⟨k, v⟩ := kv
      have hv := ih (k, v) (List.mem_cons_self ..)
      have hr := ihr (fun x hx => ih x (List.mem_cons_of_mem _ hx))
      simp only [expand.goMembers, List.map_append]
      rw [hr]
      congr 1
      split
      · simp only [List.map_cons]
        rw [hv]
      · rfl

theorem expand_val (n1 n2 : Node) (h : n1.val = n2.val) :
    (n1 :: expand n1).map (·.val) = (n2 :: expand n2).map (·.val) := by
  simp only [List.map_cons, expand, h]
  rw [expand_go_val n2.val n1.parts n2.parts n1.path n2.path]

/-! ## filter values related across the two runs -/

def SimV : V → V → Prop
  | .val a, .val b => a = b
  | .undef, .undef => True
  | .rx p f, .rx p' f' => p = p' ∧ f = f'
  | .nodes a, .nodes b => a.map (·.val) = b.map (·.val)
  | _, _ => False

theorem SimV.refl : ∀ v, SimV v v
  | .val _ => rfl
  | .undef => trivial
  | .rx _ _ => ⟨rfl, rfl⟩
  | .nodes _ => rfl

theorem SimV.of_eq {a b : V} (h : a = b) : SimV a b := h ▸ SimV.refl a

theorem SimV.cases {a b : V} (h : SimV a b) :
    a = b ∨ ∃ ns1 ns2, a = .nodes ns1 ∧ b = .nodes ns2 ∧ ns1.map (·.val) = ns2.map (·.val) := by
  cases a <;> cases b <;> simp only [SimV] at h
  · exact Or.inr ⟨_, _, rfl, rfl, h⟩
  · exact Or.inl (by rw [h])
  · exact Or.inl rfl
  · exact Or.inl (by rw [h.1, h.2])

theorem isTruthy_sim {a b : V} (h : SimV a b) : isTruthy a = isTruthy b := by
  rcases h.cases with rfl | ⟨ns1, ns2, rfl, rfl, hv⟩
  · rfl
  · simp only [isTruthy, map_val_isEmpty hv]

def usingle (v : V) : V :=
  match v with
  | .nodes [n] => .val n.val
  | v => v

theorem usingle_sim {a b : V} (h : SimV a b) : SimV (usingle a) (usingle b) := by
  rcases h.cases with rfl | ⟨ns1, ns2, rfl, rfl, hv⟩
  · exact SimV.refl _
  · match ns1, ns2, hv with
    | [], [], _ => exact SimV.refl _
    | [n], [m], hv => simpa [usingle, SimV] using hv
    | _ :: _ :: _, _ :: _ :: _, hv => simpa [usingle, SimV] using hv
    | [], _ :: _, hv => simp at hv
    | _ :: _, [], hv => simp at hv
    | [_], _ :: _ :: _, hv => simp at hv
    | _ :: _ :: _, [_], hv => simp at hv

theorem unpackValue_sim {a b : V} (h : SimV a b) : SimV (unpackValue a) (unpackValue b) := by
  rcases h.cases with rfl | ⟨ns1, ns2, rfl, rfl, hv⟩
  · exact SimV.refl _
  · match ns1, ns2, hv with
    | [], [], _ => exact SimV.refl _
    | [n], [m], hv => simpa [unpackValue, SimV] using hv
    | _ :: _ :: _, _ :: _ :: _, hv => simpa [unpackValue, SimV] using hv
    | [], _ :: _, hv => simp at hv
    | _ :: _, [], hv => simp at hv
    | [_], _ :: _ :: _, hv => simp at hv
    | _ :: _ :: _, [_], hv => simp at hv

theorem fnLength_sim {a b : V} (h : SimV a b) : fnLength a = fnLength b := by
  rcases h.cases with rfl | ⟨ns1, ns2, rfl, rfl, hv⟩
  · rfl
  · simp only [fnLength, map_val_length hv]

theorem fnCount_sim {a b : V} (h : SimV a b) : fnCount a = fnCount b := by
  rcases h.cases with rfl | ⟨ns1, ns2, rfl, rfl, hv⟩
  · rfl
  · simp only [fnCount, map_val_length hv]

theorem fnValue_sim {a b : V} (h : SimV a b) : fnValue a = fnValue b := by
  rcases h.cases with rfl | ⟨ns1, ns2, rfl, rfl, hv⟩
  · rfl
  · match ns1, ns2, hv with
    | [], [], _ => rfl
    | [n], [m], hv => simpa [fnValue] using hv
    | _ :: _ :: _, _ :: _ :: _, hv => simp [fnValue]
    | [], _ :: _, hv => simp at hv
    | _ :: _, [], hv => simp at hv
    | [_], _ :: _ :: _, hv => simp at hv
    | _ :: _ :: _, [_], hv => simp at hv

theorem fnTypeof_sim {a b : V} (h : SimV a b) : fnTypeof a = fnTypeof b := by
  rcases h.cases with rfl | ⟨ns1, ns2, rfl, rfl, hv⟩
  · rfl
  · simp only [fnTypeof, hv]

theorem fnIsInstance_sim {a b t u : V} (h : SimV a b) (ht : SimV t u) :
    fnIsInstance a (unpackValue t) = fnIsInstance b (unpackValue u) := by
  have hu := unpackValue_sim ht
  rcases h.cases with rfl | ⟨ns1, ns2, rfl, rfl, hv⟩
  · rcases hu.cases with e | ⟨ms1, ms2, e1, e2, _⟩
    · rw [e]
    · rw [e1, e2]; cases a <;> rfl
  · rcases hu.cases with e | ⟨ms1, ms2, e1, e2, _⟩
    · rw [e]; simp only [fnIsInstance, hv]
    · rw [e1, e2]; rfl

theorem fnMatch_nodes_left (rx : Rx) (full : Bool) (ns : List Node) (p : V) :
    fnMatch rx full (.nodes ns) p = .val (.bool false) := by
  simp [fnMatch]

theorem fnMatch_nodes_right (rx : Rx) (full : Bool) (s : V) (ns : List Node) :
    fnMatch rx full s (.nodes ns) = .val (.bool false) := by
  unfold fnMatch
  split
  · rename_i h; cases h
  · rfl

theorem fnMatch_sim (rx : Rx) (full : Bool) {s s' p p' : V} (hs : SimV s s') (hp : SimV p p') :
    fnMatch rx full s p = fnMatch rx full s' p' := by
  rcases hs.cases with rfl | ⟨ns1, ns2, rfl, rfl, _⟩
  · rcases hp.cases with rfl | ⟨ms1, ms2, rfl, rfl, _⟩
    · rfl
    · rw [fnMatch_nodes_right, fnMatch_nodes_right]
  · rw [fnMatch_nodes_left, fnMatch_nodes_left]

/-! ## comparison -/

theorem eqV_sim_left {l l' : V} (r : V) (h : SimV l l') : eqV l r = eqV l' r := by
  rcases h.cases with rfl | ⟨ns1, ns2, rfl, rfl, hv⟩
  · rfl
  · have := map_val_isEmpty hv
    cases r <;> simp [eqV, this]

theorem eqV_sim_right (l : V) {r r' : V} (h : SimV r r') : eqV l r = eqV l r' := by
  rcases h.cases with rfl | ⟨ns1, ns2, rfl, rfl, hv⟩
  · rfl
  · have := map_val_isEmpty hv
    cases l <;> simp [eqV, this]

theorem eqV_sim {l l' r r' : V} (hl : SimV l l') (hr : SimV r r') : eqV l r = eqV l' r' := by
  rw [eqV_sim_left r hl, eqV_sim_right l' hr]

theorem ltV_nodes_left (ns : List Node) (r : V) : ltV (.nodes ns) r = false := by
  simp [ltV]

theorem ltV_nodes_right (l : V) (ns : List Node) : ltV l (.nodes ns) = false := by
  unfold ltV
  split
  · rename_i h; cases h
  · rename_i h; cases h
  · rfl

theorem ltV_sim {l l' r r' : V} (hl : SimV l l') (hr : SimV r r') : ltV l r = ltV l' r' := by
  rcases hl.cases with rfl | ⟨ns1, ns2, rfl, rfl, _⟩
  · rcases hr.cases with rfl | ⟨ms1, ms2, rfl, rfl, _⟩
    · rfl
    · rw [ltV_nodes_right, ltV_nodes_right]
  · rw [ltV_nodes_left, ltV_nodes_left]

theorem pyEqVJ_sim {a b : V} (h : SimV a b) (elem : J) : eqVJ a elem = eqVJ b elem := by
  rcases h.cases with rfl | ⟨ns1, ns2, rfl, rfl, hv⟩
  · rfl
  · simp only [eqVJ]

theorem containsV_nodes (ns : List Node) (item : V) : containsV (.nodes ns) item = some false := by
  simp [containsV]

theorem containsV_sim_item (c : V) {a b : V} (h : SimV a b) : containsV c a = containsV c b := by
  rcases h.cases with rfl | ⟨ns1, ns2, rfl, rfl, hv⟩
  · rfl
  · have hp : eqVJ (.nodes ns1) = eqVJ (.nodes ns2) :=
      funext (fun e => pyEqVJ_sim (a := .nodes ns1) (b := .nodes ns2) hv e)
    cases c with
    | val j => cases j <;> simp [containsV, hp]
    | _ => simp [containsV]

theorem containsV_sim {c c' a b : V} (hc : SimV c c') (h : SimV a b) :
    containsV c a = containsV c' b := by
  rcases hc.cases with rfl | ⟨ns1, ns2, rfl, rfl, _⟩
  · exact containsV_sim_item c h
  · rw [containsV_nodes, containsV_nodes]

theorem compare_sim (rx : Rx) (op : CmpOp) {l l' r r' : V} (hl : SimV l l') (hr : SimV r r') :
    Query.compare rx l op r = Query.compare rx l' op r' := by
  cases op <;> simp only [Query.compare, isTruthy_sim hl, isTruthy_sim hr, eqV_sim hl hr,
    ltV_sim hl hr, ltV_sim hr hl, containsV_sim hl hr, containsV_sim hr hl]
  -- `.re`
  rcases hr.cases with rfl | ⟨ns1, ns2, rfl, rfl, _⟩
  · rcases hl.cases with rfl | ⟨ms1, ms2, rfl, rfl, _⟩
    · rfl
    · cases r <;> rfl
  · rfl

/-! ## function extensions -/

def fnApply (rx : Rx) (name : Str) (vs : List V) : V := applyFn rx name vs

theorem evalExpr_func (env : Env) (cur : J) (key : Option Part) (name : Str) (args : List Expr) :
    evalExpr env cur key (.func name args) = fnApply env.rx name (evalArgs env cur key args) := by
  rw [evalExpr]; rfl

inductive SimVs : List V → List V → Prop
  | nil : SimVs [] []
  | cons {a b : V} {as bs : List V} : SimV a b → SimVs as bs → SimVs (a :: as) (b :: bs)

theorem fnApply_sim (rx : Rx) (name : Str) {vs1 vs2 : List V} (h : SimVs vs1 vs2) :
    SimV (fnApply rx name vs1) (fnApply rx name vs2) := by
  unfold fnApply applyFn
  cases h with
  | nil => exact SimV.refl _
  | cons ha ht =>
    cases ht with
    | nil =>
      simp only
      repeat' split
      · exact SimV.of_eq (fnLength_sim (unpackValue_sim ha))
      · exact SimV.of_eq (fnCount_sim ha)
      · exact SimV.of_eq (fnValue_sim ha)
      all_goals first
        | exact SimV.of_eq (fnTypeof_sim ha)
        | exact SimV.refl _
    | cons hb ht =>
      cases ht with
      | nil =>
        simp only
        repeat' split
        all_goals first
          | exact SimV.of_eq (fnMatch_sim rx _ (unpackValue_sim ha) (unpackValue_sim hb))
          | exact SimV.of_eq (fnIsInstance_sim ha hb)
          | exact SimV.refl _
      | cons hc ht =>
        simp only
        repeat' split
        all_goals exact SimV.refl _

/-! ## step lemmas -/

section Steps
set_option linter.unusedSectionVars false
variable {e1 e2 : Env} (h : SameButTokens e1 e2)
include h

theorem infix_step (cur : J) (key : Option Part) (l r : Expr) (op : CmpOp)
    (hl : SimV (evalExpr e1 cur key l) (evalExpr e2 cur key l))
    (hr : SimV (evalExpr e1 cur key r) (evalExpr e2 cur key r)) :
    SimV (evalExpr e1 cur key (.infix l op r)) (evalExpr e2 cur key (.infix l op r)) := by
  simp only [evalExpr, ← h.1]
  by_cases hlog : (op == CmpOp.and || op == CmpOp.or) = true
  · simp only [hlog, if_true, SimV]
    rw [compare_sim e1.rx op hl hr]
  · simp only [hlog, if_false, SimV, Bool.false_eq_true]
    exact congrArg J.bool (compare_sim e1.rx op (usingle_sim hl) (usingle_sim hr))

theorem sel_name_step (n1 n2 : Node) (hv : n1.val = n2.val) (k : Str) :
    (evalSel e1 n1 (.name k)).map (·.val) = (evalSel e2 n2 (.name k)).map (·.val) := by
  simp only [evalSel, hv]
  generalize n2.val = j
  cases j with
  | obj kvs => simp only; split <;> rfl
  | _ => rfl

theorem sel_index_step (n1 n2 : Node) (hv : n1.val = n2.val) (i : Int) :
    (evalSel e1 n1 (.index i)).map (·.val) = (evalSel e2 n2 (.index i)).map (·.val) := by
  simp only [evalSel, hv]
  generalize n2.val = j
  cases j with
  | obj kvs => simp only; split <;> rfl
  | arr xs => simp only; split <;> rfl
  | _ => rfl

theorem sel_slice_step (n1 n2 : Node) (hv : n1.val = n2.val) (a b c : Option Int) :
    (evalSel e1 n1 (.slice a b c)).map (·.val) = (evalSel e2 n2 (.slice a b c)).map (·.val) := by
  simp only [evalSel, hv]
  generalize n2.val = j
  cases j with
  | arr xs =>
    simp only
    split
    · rfl
    · apply filterMap_val_congr
      intro i _
      cases pyListGet xs i <;> rfl
  | _ => rfl

theorem sel_wild_step (n1 n2 : Node) (hv : n1.val = n2.val) :
    (evalSel e1 n1 .wild).map (·.val) = (evalSel e2 n2 .wild).map (·.val) := by
  simp only [evalSel, hv]
  generalize n2.val = j
  cases j with
  | obj kvs => exact map_val_congr _ _ _ (fun x _ => rfl)
  | arr xs => exact map_val_congr _ _ _ (fun x _ => rfl)
  | _ => rfl

theorem sel_keys_step (n1 n2 : Node) (hv : n1.val = n2.val) :
    (evalSel e1 n1 .keys).map (·.val) = (evalSel e2 n2 .keys).map (·.val) := by
  simp only [evalSel, hv]
  generalize n2.val = j
  cases j with
  | obj kvs => exact map_val_congr _ _ _ (fun x _ => rfl)
  | _ => rfl

theorem sel_filter_step (e : Expr)
    (ih : ∀ v key, SimV (evalExpr e1 v key e) (evalExpr e2 v key e))
    (n1 n2 : Node) (hv : n1.val = n2.val) :
    (evalSel e1 n1 (.filter e)).map (·.val) = (evalSel e2 n2 (.filter e)).map (·.val) := by
  simp only [evalSel, hv]
  generalize n2.val = j
  cases j with
  | obj kvs =>
    apply filterMap_val_congr
    intro x _
    obtain ⟨k, v⟩ := x
    simp only [isTruthy_sim (ih v (some (.key k)))]
    split <;> rfl
  | arr xs =>
    apply filterMap_val_congr
    intro x _
    obtain ⟨i, v⟩ := x
    simp only [isTruthy_sim (ih v (some (.idx i)))]
    split <;> rfl
  | _ => rfl

mutual
  theorem expr_main : ∀ (e : Expr) (cur : J) (key : Option Part),
      SimV (evalExpr e1 cur key e) (evalExpr e2 cur key e)
    | .nil, _, _ => by simp only [evalExpr]; exact SimV.refl _
    | .undefined, _, _ => by simp only [evalExpr]; exact SimV.refl _
    | .bool _, _, _ => by simp only [evalExpr]; exact SimV.refl _
    | .int _, _, _ => by simp only [evalExpr]; exact SimV.refl _
    | .flt _, _, _ => by simp only [evalExpr]; exact SimV.refl _
    | .str _, _, _ => by simp only [evalExpr]; exact SimV.refl _
    | .regex _ _, _, _ => by simp only [evalExpr]; exact SimV.refl _
    | .list items, cur, key => by
      simp only [evalExpr, lits_main items cur key]; exact SimV.refl _
    | .not e, cur, key => by
      simp only [evalExpr, isTruthy_sim (expr_main e cur key)]; exact SimV.refl _
    | .infix l op r, cur, key =>
      infix_step h cur key l r op (expr_main l cur key) (expr_main r cur key)
    | .self q, cur, key => by
      simp only [evalExpr, SimV]; exact segs_main q _ _ rfl
    | .root q fake, cur, key => by
      simp only [evalExpr, SimV, h.2.1]; exact segs_main q _ _ rfl
    | .ctx q, cur, key => by
      simp only [evalExpr, SimV, h.2.2]; exact segs_main q _ _ rfl
    | .func name args, cur, key => by
      rw [evalExpr_func, evalExpr_func, h.1]
      exact fnApply_sim _ _ (args_main args cur key)
    | .key, _, _ => by simp only [evalExpr]; exact SimV.refl _
  termination_by e => sizeOf e

  theorem lits_main : ∀ (es : List Expr) (cur : J) (key : Option Part),
      evalLits e1 cur key es = evalLits e2 cur key es
    | [], _, _ => by simp only [evalLits]
    | e :: es, cur, key => by
      simp only [evalLits, lits_main es cur key]
      rcases (expr_main e cur key).cases with heq | ⟨ns1, ns2, h1, h2, _⟩
      · rw [heq]
      · rw [h1, h2]
  termination_by es => sizeOf es

  theorem args_main : ∀ (es : List Expr) (cur : J) (key : Option Part),
      SimVs (evalArgs e1 cur key es) (evalArgs e2 cur key es)
    | [], _, _ => by simp only [evalArgs]; exact SimVs.nil
    | e :: es, cur, key => by
      simp only [evalArgs]
      exact SimVs.cons (expr_main e cur key) (args_main es cur key)
  termination_by es => sizeOf es

  theorem sel_main : ∀ (s : Sel) (n1 n2 : Node), n1.val = n2.val →
      (evalSel e1 n1 s).map (·.val) = (evalSel e2 n2 s).map (·.val)
    | .name k, n1, n2, hv => sel_name_step h n1 n2 hv k
    | .index i, n1, n2, hv => sel_index_step h n1 n2 hv i
    | .slice a b c, n1, n2, hv => sel_slice_step h n1 n2 hv a b c
    | .wild, n1, n2, hv => sel_wild_step h n1 n2 hv
    | .keys, n1, n2, hv => sel_keys_step h n1 n2 hv
    | .filter e, n1, n2, hv => sel_filter_step h e (fun v key => expr_main e v key) n1 n2 hv
  termination_by s => sizeOf s

  theorem sels_main : ∀ (ss : List Sel) (n1 n2 : Node), n1.val = n2.val →
      (evalSels e1 n1 ss).map (·.val) = (evalSels e2 n2 ss).map (·.val)
    | [], _, _, _ => by simp only [evalSels]
    | s :: ss, n1, n2, hv => by
      simp only [evalSels, List.map_append]
      rw [sel_main s n1 n2 hv, sels_main ss n1 n2 hv]
  termination_by ss => sizeOf ss

  theorem segs_main : ∀ (q : List Seg) (ns1 ns2 : List Node),
      ns1.map (·.val) = ns2.map (·.val) →
      (evalSegs e1 q ns1).map (·.val) = (evalSegs e2 q ns2).map (·.val)
    | [], _, _, hv => by simp only [evalSegs]; exact hv
    | .child sels :: rest, ns1, ns2, hv => by
      simp only [evalSegs]
      exact segs_main rest _ _
        (map_val_flatMap _ _ (fun n1 n2 hn => sels_main sels n1 n2 hn) ns1 ns2 hv)
    | .desc :: rest, ns1, ns2, hv => by
      simp only [evalSegs]
      exact segs_main rest _ _ (map_val_flatMap _ _ expand_val ns1 ns2 hv)
  termination_by q => sizeOf q
end

end Steps

end TokInd
end JP.Lemmas
