/-
  Per-operation refinement lemmas for C05: each `patch.py` operation on parts made from
  standard tokens versus the RFC 6902 operation on the tokens.
-/
import JP.Lemmas.PatchAuxNav
set_option linter.unusedSimpArgs false
namespace JP.Lemmas
open JP JP.Pointer JP.Patch

/-- Code result versus an optional spec result (before exception translation). -/
def RefO (code : Res J) (o : Option J) : Prop :=
  match o with
  | some d => code = .ok d
  | none => ∃ e, code = .error e ∧ PaErr e

theorem pa_refO_ok {code : Res J} {o : Option J} (d : J) (h : code = .ok d) (ho : o = some d) :
    RefO code o := by subst ho; exact h

theorem pa_refO_err {code : Res J} {o : Option J} (e : Err) (h : code = .error e) (he : PaErr e)
    (ho : o = none) : RefO code o := by subst ho; exact ⟨e, h, he⟩

theorem pa_snoc_cases {α} (l : List α) : l = [] ∨ ∃ init t, l = init ++ [t] := by
  rcases List.eq_nil_or_concat l with h | ⟨l', b, h⟩
  · exact Or.inl h
  · exact Or.inr ⟨l', b, by rw [h, List.concat_eq_append]⟩

theorem pa_toParts_dropLast (init : List Str) (t : Str) :
    (toParts (init ++ [t])).dropLast = toParts init := by
  simp [toParts]

theorem pa_std_snoc {init : List Str} {t : Str} (h : ∀ x ∈ init ++ [t], PaStd x) :
    (∀ x ∈ init, PaStd x) ∧ PaStd t :=
  ⟨fun x hx => h x (by simp [hx]), h t (by simp)⟩

/-! ### array primitives on natural-number tokens -/

theorem pa_insertArr_nat (xs : List J) (n : Nat) (v : J) :
    insertArr xs (.idx n) xs[n]? v =
      if n ≤ xs.length then .ok (xs.take n ++ v :: xs.drop n) else .error .patch := by
  rcases Nat.lt_or_ge n xs.length with hl | hl
  · rw [List.getElem?_eq_getElem hl, if_pos (by omega)]
    simp [insertArr, tokenInt, pyListInsert, pa_pure, Nat.min_eq_left (Nat.le_of_lt hl)]
  · rw [List.getElem?_eq_none hl]
    by_cases he : n = xs.length
    · subst he
      simp [insertArr, partStr, pa_intStr_natCast, pa_pure]
    · have : natStr n ≠ natStr xs.length := fun h => he (pa_natStr_inj h)
      rw [if_neg (by omega)]
      simp [insertArr, partStr, pa_intStr_natCast, this, pa_throw]

theorem pa_delArr_nat (xs : List J) (n : Nat) (hl : n < xs.length) :
    delArr xs (.idx n) = .ok (xs.eraseIdx n) := by
  simp [delArr, tokenInt, pa_pyIndexPos_nat, hl, pa_pure]

theorem pa_setArr_nat (xs : List J) (n : Nat) (v : J) (hl : n < xs.length) :
    setArr xs (.idx n) v = .ok (xs.set n v) := by
  simp [setArr, tokenInt, pa_pyIndexPos_nat, hl, pa_pure]

theorem pa_rfcAddLast_arr_nat (xs : List J) (n : Nat) (v : J) :
    rfcAddLast (natStr n) v (.arr xs) =
      if n ≤ xs.length then some (.arr (xs.take n ++ v :: xs.drop n)) else none := by
  simp [rfcAddLast, pa_natStr_ne_dash, pa_isCanonNat_natStr, pa_digitsVal_natStr]

theorem pa_rfcAddLast_arr_dash (xs : List J) (v : J) :
    rfcAddLast ['-'] v (.arr xs) = some (.arr (xs ++ [v])) := by
  simp [rfcAddLast]

theorem pa_rfcAddLast_arr_bad (xs : List J) (t : Str) (v : J) (hd : t ≠ ['-'])
    (hc : isCanonNat t = false) : rfcAddLast t v (.arr xs) = none := by
  simp [rfcAddLast, hd, hc]

theorem pa_rfcAddLast_scalar (p : J) (t : Str) (v : J) (hp : p.isContainer = false) :
    rfcAddLast t v p = none := by
  cases p <;> first | rfl | (simp [J.isContainer] at hp)

theorem pa_rfcRemoveLast_scalar (p : J) (t : Str) (hp : p.isContainer = false) :
    rfcRemoveLast t p = none := by
  cases p <;> first | rfl | (simp [J.isContainer] at hp)

theorem pa_rfcReplaceLast_scalar (p : J) (t : Str) (v : J) (hp : p.isContainer = false) :
    rfcReplaceLast t v p = none := by
  cases p <;> first | rfl | (simp [J.isContainer] at hp)

/-! ### add -/

theorem pa_add (doc : J) (ts : List Str) (v : J) (hts : ∀ t ∈ ts, PaStd t) :
    RefO (applyAdd doc (toParts ts) v) (rfcAdd doc ts v) := by
  rcases pa_snoc_cases ts with rfl | ⟨init, t, rfl⟩
  · exact pa_refO_ok v (by simp [applyAdd, toParts, pa_target_nil, pa_bind_ok, pa_pure]) rfl
  · obtain ⟨hinit, ht⟩ := pa_std_snoc hts
    have hspec : rfcAdd doc (init ++ [t]) v = rfcUpdate doc init (rfcAddLast t v) := by
      simp [rfcAdd]
    rw [hspec]
    cases hE : rfcEval doc init with
    | none =>
      obtain ⟨e, he, hres⟩ := pa_tgt_none doc init t hinit hE
      exact pa_refO_err e (by simp [applyAdd, he, pa_bind_error]) (pa_PaErr_of_res hres)
        (pa_rfcUpdate_none init doc _ hE)
    | some parent =>
      cases parent with
      | obj kvs =>
        have htgt := pa_tgt_obj doc init t hinit ht kvs hE
        obtain ⟨d, hw, hu⟩ := pa_update_ok init hinit doc _ (.obj (dictSet kvs t v))
          (rfcAddLast t v) hE rfl
        exact pa_refO_ok d
          (by simp [applyAdd, htgt, pa_bind_ok, pa_toParts_dropLast, partStr, hw]) hu
      | arr xs =>
        rcases pa_std_cases t ht with ⟨hn, h1, _⟩ | ⟨n, rfl, hr⟩
        · by_cases hd : t = ['-']
          · subst hd
            have htgt := pa_tgt_arr_dash doc init hinit xs hE
            obtain ⟨d, hw, hu⟩ := pa_update_ok init hinit doc _ (.arr (xs ++ [v]))
              (rfcAddLast ['-'] v) hE (pa_rfcAddLast_arr_dash xs v)
            exact pa_refO_ok d
              (by simp [applyAdd, htgt, pa_bind_ok, pa_toParts_dropLast, insertArr, pa_pure, hw]) hu
          · have htgt := pa_tgt_arr_bad doc init t hinit hn hd h1 xs hE
            exact pa_refO_err .ptrType (by simp [applyAdd, htgt, pa_bind_error]) (by simp [PaErr])
              (pa_update_fail init doc _ _ hE
                (pa_rfcAddLast_arr_bad xs t v hd (pa_isCanonNat_of_none t hn)))
        · have htgt := pa_tgt_arr_nat doc init n hinit hr xs hE
          by_cases hl : n ≤ xs.length
          · obtain ⟨d, hw, hu⟩ := pa_update_ok init hinit doc _
              (.arr (xs.take n ++ v :: xs.drop n)) (rfcAddLast (natStr n) v) hE
              (by rw [pa_rfcAddLast_arr_nat, if_pos hl])
            exact pa_refO_ok d
              (by simp [applyAdd, htgt, pa_bind_ok, pa_toParts_dropLast, pa_insertArr_nat, hl, hw])
              hu
          · exact pa_refO_err .patch
              (by simp [applyAdd, htgt, pa_bind_ok, pa_bind_error, pa_insertArr_nat, hl])
              (by simp [PaErr])
              (pa_update_fail init doc _ _ hE (by rw [pa_rfcAddLast_arr_nat, if_neg hl]))
      | _ =>
        have htgt := pa_tgt_scalar doc init t hinit _ rfl hE
        exact pa_refO_err .ptrType (by simp [applyAdd, htgt, pa_bind_error]) (by simp [PaErr])
          (pa_update_fail init doc _ _ hE (pa_rfcAddLast_scalar _ t v rfl))


/-! ### remove -/

theorem pa_rfcRemoveLast_arr_nat (xs : List J) (n : Nat) :
    rfcRemoveLast (natStr n) (.arr xs) =
      if n < xs.length then some (.arr (xs.eraseIdx n)) else none := by
  simp only [rfcRemoveLast, pa_arrayIndex_natStr]
  split <;> rfl

theorem pa_rfcRemoveLast_arr_noncanon (xs : List J) (t : Str) (hc : isCanonNat t = false) :
    rfcRemoveLast t (.arr xs) = none := by
  simp [rfcRemoveLast, pa_arrayIndex_noncanon t _ hc]

theorem pa_remove (doc : J) (ts : List Str) (hts : ∀ t ∈ ts, PaStd t) :
    RefO (applyRemove doc (toParts ts)) (rfcRemove doc ts) := by
  rcases pa_snoc_cases ts with rfl | ⟨init, t, rfl⟩
  · exact pa_refO_err .patch
      (by simp [applyRemove, toParts, pa_target_nil, pa_bind_ok, pa_throw]) (by simp [PaErr]) rfl
  · obtain ⟨hinit, ht⟩ := pa_std_snoc hts
    have hspec : rfcRemove doc (init ++ [t]) = rfcUpdate doc init (rfcRemoveLast t) := by
      simp [rfcRemove]
    rw [hspec]
    cases hE : rfcEval doc init with
    | none =>
      obtain ⟨e, he, hres⟩ := pa_tgt_none doc init t hinit hE
      exact pa_refO_err e (by simp [applyRemove, he, pa_bind_error]) (pa_PaErr_of_res hres)
        (pa_rfcUpdate_none init doc _ hE)
    | some parent =>
      cases parent with
      | obj kvs =>
        have htgt := pa_tgt_obj doc init t hinit ht kvs hE
        cases hd : dictGet kvs t with
        | none =>
          exact pa_refO_err .patch
            (by simp [applyRemove, htgt, hd, pa_bind_ok, pa_throw]) (by simp [PaErr])
            (pa_update_fail init doc _ _ hE (by simp [rfcRemoveLast, dictHas, hd]))
        | some x =>
          obtain ⟨d, hw, hu⟩ := pa_update_ok init hinit doc _ (.obj (dictErase kvs t))
            (rfcRemoveLast t) hE (by simp [rfcRemoveLast, dictHas, hd])
          exact pa_refO_ok d
            (by simp [applyRemove, htgt, hd, pa_bind_ok, pa_toParts_dropLast, partStr, hw]) hu
      | arr xs =>
        rcases pa_std_cases t ht with ⟨hn, h1, _⟩ | ⟨n, rfl, hr⟩
        · have hspec2 := pa_update_fail init doc _ _ hE
            (pa_rfcRemoveLast_arr_noncanon xs t (pa_isCanonNat_of_none t hn))
          by_cases hd : t = ['-']
          · subst hd
            have htgt := pa_tgt_arr_dash doc init hinit xs hE
            exact pa_refO_err .patch
              (by simp [applyRemove, htgt, pa_bind_ok, pa_throw]) (by simp [PaErr]) hspec2
          · have htgt := pa_tgt_arr_bad doc init t hinit hn hd h1 xs hE
            exact pa_refO_err .ptrType (by simp [applyRemove, htgt, pa_bind_error])
              (by simp [PaErr]) hspec2
        · have htgt := pa_tgt_arr_nat doc init n hinit hr xs hE
          by_cases hl : n < xs.length
          · obtain ⟨d, hw, hu⟩ := pa_update_ok init hinit doc _
              (.arr (xs.eraseIdx n)) (rfcRemoveLast (natStr n)) hE
              (by rw [pa_rfcRemoveLast_arr_nat, if_pos hl])
            exact pa_refO_ok d
              (by simp [applyRemove, htgt, pa_bind_ok, pa_toParts_dropLast, pa_delArr_nat, hl, hw])
              hu
          · exact pa_refO_err .patch
              (by simp [applyRemove, htgt, pa_bind_ok, List.getElem?_eq_none (Nat.le_of_not_lt hl),
                pa_throw])
              (by simp [PaErr])
              (pa_update_fail init doc _ _ hE (by rw [pa_rfcRemoveLast_arr_nat, if_neg hl]))
      | _ =>
        have htgt := pa_tgt_scalar doc init t hinit _ rfl hE
        exact pa_refO_err .ptrType (by simp [applyRemove, htgt, pa_bind_error]) (by simp [PaErr])
          (pa_update_fail init doc _ _ hE (pa_rfcRemoveLast_scalar _ t rfl))

/-! ### replace -/

theorem pa_rfcReplaceLast_arr_nat (xs : List J) (n : Nat) (v : J) :
    rfcReplaceLast (natStr n) v (.arr xs) =
      if n < xs.length then some (.arr (xs.set n v)) else none := by
  simp only [rfcReplaceLast, pa_arrayIndex_natStr]
  split <;> rfl

theorem pa_rfcReplaceLast_arr_noncanon (xs : List J) (t : Str) (v : J)
    (hc : isCanonNat t = false) : rfcReplaceLast t v (.arr xs) = none := by
  simp [rfcReplaceLast, pa_arrayIndex_noncanon t _ hc]

theorem pa_replace (doc : J) (ts : List Str) (v : J) (hts : ∀ t ∈ ts, PaStd t) :
    RefO (applyReplace doc (toParts ts) v) (rfcReplace doc ts v) := by
  rcases pa_snoc_cases ts with rfl | ⟨init, t, rfl⟩
  · exact pa_refO_ok v (by simp [applyReplace, toParts, pa_target_nil, pa_bind_ok, pa_pure]) rfl
  · obtain ⟨hinit, ht⟩ := pa_std_snoc hts
    have hspec : rfcReplace doc (init ++ [t]) v = rfcUpdate doc init (rfcReplaceLast t v) := by
      simp [rfcReplace]
    rw [hspec]
    cases hE : rfcEval doc init with
    | none =>
      obtain ⟨e, he, hres⟩ := pa_tgt_none doc init t hinit hE
      exact pa_refO_err e (by simp [applyReplace, he, pa_bind_error]) (pa_PaErr_of_res hres)
        (pa_rfcUpdate_none init doc _ hE)
    | some parent =>
      cases parent with
      | obj kvs =>
        have htgt := pa_tgt_obj doc init t hinit ht kvs hE
        cases hd : dictGet kvs t with
        | none =>
          exact pa_refO_err .patch
            (by simp [applyReplace, htgt, hd, pa_bind_ok, pa_throw]) (by simp [PaErr])
            (pa_update_fail init doc _ _ hE (by simp [rfcReplaceLast, dictHas, hd]))
        | some x =>
          obtain ⟨d, hw, hu⟩ := pa_update_ok init hinit doc _ (.obj (dictSet kvs t v))
            (rfcReplaceLast t v) hE (by simp [rfcReplaceLast, dictHas, hd])
          exact pa_refO_ok d
            (by simp [applyReplace, htgt, hd, pa_bind_ok, pa_toParts_dropLast, partStr, hw]) hu
      | arr xs =>
        rcases pa_std_cases t ht with ⟨hn, h1, _⟩ | ⟨n, rfl, hr⟩
        · have hspec2 := pa_update_fail init doc _ _ hE
            (pa_rfcReplaceLast_arr_noncanon xs t v (pa_isCanonNat_of_none t hn))
          by_cases hd : t = ['-']
          · subst hd
            have htgt := pa_tgt_arr_dash doc init hinit xs hE
            exact pa_refO_err .patch
              (by simp [applyReplace, htgt, pa_bind_ok, pa_throw]) (by simp [PaErr]) hspec2
          · have htgt := pa_tgt_arr_bad doc init t hinit hn hd h1 xs hE
            exact pa_refO_err .ptrType (by simp [applyReplace, htgt, pa_bind_error])
              (by simp [PaErr]) hspec2
        · have htgt := pa_tgt_arr_nat doc init n hinit hr xs hE
          by_cases hl : n < xs.length
          · obtain ⟨d, hw, hu⟩ := pa_update_ok init hinit doc _
              (.arr (xs.set n v)) (rfcReplaceLast (natStr n) v) hE
              (by rw [pa_rfcReplaceLast_arr_nat, if_pos hl])
            exact pa_refO_ok d
              (by simp [applyReplace, htgt, pa_bind_ok, pa_toParts_dropLast, pa_setArr_nat, hl, hw])
              hu
          · exact pa_refO_err .patch
              (by simp [applyReplace, htgt, pa_bind_ok,
                List.getElem?_eq_none (Nat.le_of_not_lt hl), pa_throw])
              (by simp [PaErr])
              (pa_update_fail init doc _ _ hE (by rw [pa_rfcReplaceLast_arr_nat, if_neg hl]))
      | _ =>
        have htgt := pa_tgt_scalar doc init t hinit _ rfl hE
        exact pa_refO_err .ptrType (by simp [applyReplace, htgt, pa_bind_error]) (by simp [PaErr])
          (pa_update_fail init doc _ _ hE (pa_rfcReplaceLast_scalar _ t v rfl))


/-! ### what `target` finds versus `rfcEval` -/

theorem pa_tgt_some_snoc (doc : J) (init : List Str) (t : Str) (v : J)
    (hinit : ∀ x ∈ init, PaStd x) (ht : PaStd t) (h : rfcEval doc (init ++ [t]) = some v) :
    (∃ kvs, rfcEval doc init = some (.obj kvs) ∧ dictGet kvs t = some v ∧
      target doc (toParts (init ++ [t])) = .ok (some (.obj kvs), .key t, some v)) ∨
    (∃ xs n, rfcEval doc init = some (.arr xs) ∧ t = natStr n ∧ n < xs.length ∧
      target doc (toParts (init ++ [t])) = .ok (some (.arr xs), .idx n, some v)) := by
  rw [pa_rfcEval_snoc] at h
  cases hE : rfcEval doc init with
  | none => rw [hE] at h; cases h
  | some parent =>
    rw [hE] at h
    simp only [Option.bind_some] at h
    cases parent with
    | obj kvs =>
      left
      have hd : dictGet kvs t = some v := h
      refine ⟨kvs, rfl, hd, ?_⟩
      rw [pa_tgt_obj doc init t hinit ht kvs hE, hd]
    | arr xs =>
      right
      obtain ⟨n, rfl, hr, hl, hx⟩ := pa_rfcStep_arr_some xs t ht v h
      refine ⟨xs, n, rfl, rfl, hl, ?_⟩
      rw [pa_tgt_arr_nat doc init n hinit hr xs hE, hx]
    | _ => cases h

theorem pa_tgt_none_eval (doc : J) (ts : List Str) (hts : ∀ x ∈ ts, PaStd x)
    (h : rfcEval doc ts = none) :
    (∃ e, target doc (toParts ts) = .error e ∧ PaErr e) ∨
    (∃ sp st, target doc (toParts ts) = .ok (sp, st, none)) := by
  rcases pa_snoc_cases ts with rfl | ⟨init, t, rfl⟩
  · cases h
  · obtain ⟨hinit, ht⟩ := pa_std_snoc hts
    rw [pa_rfcEval_snoc] at h
    cases hE : rfcEval doc init with
    | none =>
      obtain ⟨e, he, hres⟩ := pa_tgt_none doc init t hinit hE
      exact Or.inl ⟨e, he, pa_PaErr_of_res hres⟩
    | some parent =>
      rw [hE] at h
      simp only [Option.bind_some] at h
      cases parent with
      | obj kvs =>
        have hd : dictGet kvs t = none := h
        right
        exact ⟨_, _, by rw [pa_tgt_obj doc init t hinit ht kvs hE, hd]⟩
      | arr xs =>
        rcases pa_std_cases t ht with ⟨hn, h1, _⟩ | ⟨n, rfl, hr⟩
        · by_cases hd : t = ['-']
          · subst hd
            exact Or.inr ⟨_, _, pa_tgt_arr_dash doc init hinit xs hE⟩
          · exact Or.inl ⟨_, pa_tgt_arr_bad doc init t hinit hn hd h1 xs hE, by simp [PaErr]⟩
        · rw [pa_rfcStep_arr_natStr] at h
          right
          exact ⟨_, _, by rw [pa_tgt_arr_nat doc init n hinit hr xs hE, h]⟩
      | _ =>
        exact Or.inl ⟨_, pa_tgt_scalar doc init t hinit _ rfl hE, by simp [PaErr]⟩

theorem pa_tgt_some_eval (doc : J) (ts : List Str) (v : J) (hts : ∀ x ∈ ts, PaStd x)
    (h : rfcEval doc ts = some v) : ∃ sp st, target doc (toParts ts) = .ok (sp, st, some v) := by
  rcases pa_snoc_cases ts with rfl | ⟨init, t, rfl⟩
  · cases h; exact ⟨_, _, pa_target_nil _⟩
  · obtain ⟨hinit, ht⟩ := pa_std_snoc hts
    rcases pa_tgt_some_snoc doc init t v hinit ht h with ⟨kvs, _, _, h3⟩ | ⟨xs, n, _, _, _, h4⟩
    · exact ⟨_, _, h3⟩
    · exact ⟨_, _, h4⟩

/-! ### results in `SRes` -/

/-- Code result (before exception translation) versus spec result. -/
def RefS (code : Res J) (spec : SRes) : Prop :=
  match spec with
  | .ok d => code = .ok d
  | .error .testFailed => code = .error .patchTest
  | .error .violation => ∃ e, code = .error e ∧ PaErr e

theorem pa_refS_of_refO {code : Res J} {o : Option J} (h : RefO code o) : RefS code (liftV o) := by
  cases o <;> exact h

theorem pa_refS_violation {code : Res J} (e : Err) (h : code = .error e) (he : PaErr e) :
    RefS code (.error .violation) := ⟨e, h, he⟩

/-! ### test -/

theorem pa_test (doc : J) (ts : List Str) (v : J) (hts : ∀ t ∈ ts, PaStd t) :
    RefS (applyTest doc (toParts ts) v) (rfcApplyOp doc (.test ts v)) := by
  simp only [rfcApplyOp]
  cases hE : rfcEval doc ts with
  | none =>
    rcases pa_tgt_none_eval doc ts hts hE with ⟨e, he, hp⟩ | ⟨sp, st, h⟩
    · exact pa_refS_violation e (by simp [applyTest, he, pa_bind_error]) hp
    · exact pa_refS_violation .patchTest (by simp [applyTest, h, pa_bind_ok, pa_throw])
        (by simp [PaErr])
  | some o =>
    obtain ⟨sp, st, h⟩ := pa_tgt_some_eval doc ts o hts hE
    cases hv : o.eqv v with
    | true =>
      simp only [hv, if_true]
      show applyTest doc (toParts ts) v = .ok doc
      simp [applyTest, h, pa_bind_ok, hv, pa_pure]
    | false =>
      simp only [hv, Bool.false_eq_true, if_false]
      show applyTest doc (toParts ts) v = .error .patchTest
      simp [applyTest, h, pa_bind_ok, hv, pa_throw]

/-! ### copy -/

theorem pa_applyCopy_eq (doc : J) (src dest : List Part) :
    applyCopy doc src dest = (do
      let (_, _, sobj) ← target doc src
      match sobj with
      | none => throw .patch
      | some sv => applyAdd doc dest sv) := by
  unfold applyCopy applyAdd; rfl

theorem pa_copy (doc : J) (s d : List Str) (hs : ∀ t ∈ s, PaStd t) (hd : ∀ t ∈ d, PaStd t) :
    RefS (applyCopy doc (toParts s) (toParts d)) (rfcApplyOp doc (.copy s d)) := by
  simp only [rfcApplyOp]
  rw [pa_applyCopy_eq]
  cases hE : rfcEval doc s with
  | none =>
    rcases pa_tgt_none_eval doc s hs hE with ⟨e, he, hp⟩ | ⟨sp, st, h⟩
    · exact pa_refS_violation e (by simp [he, pa_bind_error]) hp
    · exact pa_refS_violation .patch (by simp [h, pa_bind_ok, pa_throw]) (by simp [PaErr])
  | some v =>
    obtain ⟨sp, st, h⟩ := pa_tgt_some_eval doc s v hs hE
    have := pa_refS_of_refO (pa_add doc d v hd)
    simpa [h, pa_bind_ok] using this


/-! ### move -/

theorem pa_applyMove_eq (doc : J) (src dest : List Part) :
    applyMove doc src dest = (do
      if isRelativeTo dest src then throw .patch
      let (sparent, stoken, sobj) ← target doc src
      match sobj with
      | none => throw .patch
      | some sv =>
        let doc1 ← match sparent with
          | some (.arr xs) => do
            let xs' ← delArr xs stoken
            writeBack doc src.dropLast (.arr xs')
          | some (.obj kvs) => writeBack doc src.dropLast (.obj (dictErase kvs (partStr stoken)))
          | _ => pure doc
        applyAdd doc1 dest sv) := by
  unfold applyMove applyAdd; rfl

theorem pa_applyMove_rel (doc : J) (src dest : List Part) (h : isRelativeTo dest src = true) :
    applyMove doc src dest = .error .patch := by
  rw [pa_applyMove_eq]; simp [h, pa_throw, pa_bind_error]

theorem pa_applyMove_err (doc : J) (src dest : List Part) (e : Err)
    (hrel : isRelativeTo dest src = false) (h : target doc src = .error e) :
    applyMove doc src dest = .error e := by
  rw [pa_applyMove_eq]; simp [hrel, h, pa_bind_error, pa_bind_ok, pa_pure]

theorem pa_applyMove_none (doc : J) (src dest : List Part) (sp : Option J) (st : Part)
    (hrel : isRelativeTo dest src = false) (h : target doc src = .ok (sp, st, none)) :
    applyMove doc src dest = .error .patch := by
  rw [pa_applyMove_eq]; simp [hrel, h, pa_bind_error, pa_bind_ok, pa_pure, pa_throw]

theorem pa_applyMove_root (doc : J) (src dest : List Part) (st : Part) (sv : J)
    (hrel : isRelativeTo dest src = false) (h : target doc src = .ok (none, st, some sv)) :
    applyMove doc src dest = applyAdd doc dest sv := by
  rw [pa_applyMove_eq]; simp [hrel, h, pa_bind_error, pa_bind_ok, pa_pure, pa_throw]

theorem pa_applyMove_obj (doc : J) (src dest : List Part) (kvs : List (Str × J)) (st : Part)
    (sv : J) (hrel : isRelativeTo dest src = false)
    (h : target doc src = .ok (some (.obj kvs), st, some sv)) :
    applyMove doc src dest = (applyRemove doc src >>= fun doc1 => applyAdd doc1 dest sv) := by
  rw [pa_applyMove_eq]; simp [applyRemove, hrel, h, pa_bind_error, pa_bind_ok, pa_pure, pa_throw]

theorem pa_applyMove_arr (doc : J) (src dest : List Part) (xs : List J) (st : Part)
    (sv : J) (hrel : isRelativeTo dest src = false)
    (h : target doc src = .ok (some (.arr xs), st, some sv)) :
    applyMove doc src dest = (applyRemove doc src >>= fun doc1 => applyAdd doc1 dest sv) := by
  rw [pa_applyMove_eq]; simp [applyRemove, hrel, h, pa_bind_error, pa_bind_ok, pa_pure, pa_throw]

theorem pa_tokens_toParts (ts : List Str) (hts : ∀ t ∈ ts, PaStd t) : tokens (toParts ts) = ts := by
  induction ts with
  | nil => rfl
  | cons t ts ih =>
    show partStr (toPart t) :: tokens (toParts ts) = t :: ts
    rw [pa_partStr_toPart_std t (hts t (by simp)), ih (fun x hx => hts x (by simp [hx]))]

theorem pa_isRelativeTo (s d : List Str) (hs : ∀ t ∈ s, PaStd t) (hd : ∀ t ∈ d, PaStd t) :
    isRelativeTo (toParts d) (toParts s) = properPrefix s d := by
  unfold isRelativeTo properPrefix
  rw [pa_tokens_toParts s hs, pa_tokens_toParts d hd]
  simp [toParts]

theorem pa_remove_then_add (doc : J) (s d : List Str) (v : J) (hs : ∀ t ∈ s, PaStd t)
    (hd : ∀ t ∈ d, PaStd t) :
    RefS (applyRemove doc (toParts s) >>= fun doc1 => applyAdd doc1 (toParts d) v)
      (liftV ((rfcRemove doc s).bind (fun d1 => rfcAdd d1 d v))) := by
  have hrem := pa_remove doc s hs
  cases hR : rfcRemove doc s with
  | none =>
    rw [hR] at hrem
    obtain ⟨e, he, hp⟩ := hrem
    exact pa_refS_violation e (by rw [he]; rfl) hp
  | some d1 =>
    rw [hR] at hrem
    have hc : applyRemove doc (toParts s) = .ok d1 := hrem
    rw [hc]
    exact pa_refS_of_refO (pa_add d1 d v hd)

theorem pa_move (doc : J) (s d : List Str) (hs : ∀ t ∈ s, PaStd t) (hd : ∀ t ∈ d, PaStd t) :
    RefS (applyMove doc (toParts s) (toParts d)) (rfcApplyOp doc (.move s d)) := by
  simp only [rfcApplyOp]
  have hrelEq := pa_isRelativeTo s d hs hd
  cases hrel : properPrefix s d with
  | true =>
    rw [hrel] at hrelEq
    simp only [if_true]
    exact pa_refS_violation .patch (pa_applyMove_rel _ _ _ hrelEq) (by simp [PaErr])
  | false =>
    rw [hrel] at hrelEq
    simp only [Bool.false_eq_true, if_false]
    cases hE : rfcEval doc s with
    | none =>
      rcases pa_tgt_none_eval doc s hs hE with ⟨e, he, hp⟩ | ⟨sp, st, h⟩
      · exact pa_refS_violation e (pa_applyMove_err _ _ _ e hrelEq he) hp
      · exact pa_refS_violation .patch (pa_applyMove_none _ _ _ sp st hrelEq h) (by simp [PaErr])
    | some v =>
      rcases pa_snoc_cases s with rfl | ⟨init, t, rfl⟩
      · cases hE
        rw [show toParts ([] : List Str) = [] from rfl] at hrelEq ⊢
        rw [pa_applyMove_root doc [] (toParts d) _ doc hrelEq (pa_target_nil doc)]
        cases d with
        | nil =>
          show applyAdd doc (toParts []) doc = .ok doc
          simp [applyAdd, toParts, pa_target_nil, pa_bind_ok, pa_pure]
        | cons x xs => simp [properPrefix] at hrel
      · obtain ⟨hinit, ht⟩ := pa_std_snoc hs
        have hne : (init ++ [t]).isEmpty = false := by simp
        simp only [hne, Bool.false_eq_true, if_false]
        rcases pa_tgt_some_snoc doc init t v hinit ht hE with
          ⟨kvs, _, _, h3⟩ | ⟨xs, n, _, _, _, h4⟩
        · rw [pa_applyMove_obj doc _ _ kvs _ v hrelEq h3]
          exact pa_remove_then_add doc _ d v hs hd
        · rw [pa_applyMove_arr doc _ _ xs _ v hrelEq h4]
          exact pa_remove_then_add doc _ d v hs hd

/-! ### one operation, then the whole patch -/

theorem pa_translate_family (e : Err) (h : PaErr e) : (translate e).isPatchFamily = true := by
  rcases h with rfl | rfl | rfl | rfl | rfl <;> rfl

theorem pa_refines_of_refS {code : Res J} {spec : SRes} (h : RefS code spec) :
    Refines (code.mapError translate) spec := by
  cases spec with
  | ok d => have : code = .ok d := h; rw [this]; rfl
  | error se =>
    cases se with
    | testFailed => have : code = .error .patchTest := h; rw [this]; rfl
    | violation =>
      obtain ⟨e, he, hp⟩ := h
      exact ⟨translate e, by rw [he]; rfl, pa_translate_family e hp⟩

theorem pa_applyOp (doc : J) (op : SOp) (hstd : op.standard) :
    RefS (applyOp doc (opOfSpec op)) (rfcApplyOp doc op) := by
  cases op with
  | add p v => exact pa_refS_of_refO (pa_add doc p v hstd)
  | remove p => exact pa_refS_of_refO (pa_remove doc p hstd)
  | replace p v => exact pa_refS_of_refO (pa_replace doc p v hstd)
  | move s d =>
    exact pa_move doc s d (fun t ht => hstd t (by simp [SOp.tokens, ht]))
      (fun t ht => hstd t (by simp [SOp.tokens, ht]))
  | copy s d =>
    exact pa_copy doc s d (fun t ht => hstd t (by simp [SOp.tokens, ht]))
      (fun t ht => hstd t (by simp [SOp.tokens, ht]))
  | test p v => exact pa_test doc p v hstd

theorem pa_apply_refines (ops : List SOp) (hstd : ∀ op ∈ ops, op.standard) (doc : J) :
    Refines (Patch.apply (ops.map opOfSpec) doc) (rfcApply ops doc) := by
  induction ops generalizing doc with
  | nil => rfl
  | cons op ops ih =>
    have h1 := pa_applyOp doc op (hstd op (by simp))
    have ih' := ih (fun o ho => hstd o (by simp [ho]))
    simp only [Patch.apply, rfcApply, List.map_cons, List.foldlM_cons] at ih' ⊢
    cases hS : rfcApplyOp doc op with
    | ok d1 =>
      rw [hS] at h1
      have hc : applyOp doc (opOfSpec op) = .ok d1 := h1
      rw [hc]
      exact ih' d1
    | error se =>
      rw [hS] at h1
      have := pa_refines_of_refS h1
      cases se with
      | testFailed =>
        have hc : applyOp doc (opOfSpec op) = .error .patchTest := h1
        rw [hc]; rfl
      | violation =>
        obtain ⟨e, he, hp⟩ := h1
        rw [he]
        exact ⟨translate e, rfl, pa_translate_family e hp⟩

end JP.Lemmas
