/-
  RfcSpellF helpers, part 3: the lexer on operators, `!`, keywords and function names written without
  blanks around them.
-/
import JP.Lemmas.RfcSpellFAux2
set_option linter.unusedSimpArgs false
namespace JP.Lemmas.RfcSpellF
open JP JP.Query JP.Surface JP.Lex JP.RfcSpell JP.RfcSpellF JP.Lemmas.LexPrint JP.Lemmas.RfcSpell

/-! ### operators -/

theorem fm_and (uw : Char → Bool) (rest : Str) :
    firstMatch (R uw) ('&' :: '&' :: rest) = some ([⟨.and_, ['&', '&']⟩], rest) := by
  lexsimp

theorem fm_or (uw : Char → Bool) (rest : Str) :
    firstMatch (R uw) ('|' :: '|' :: rest) = some ([⟨.or_, ['|', '|']⟩], rest) := by
  lexsimp

theorem fm_eq (uw : Char → Bool) (rest : Str) :
    firstMatch (R uw) ('=' :: '=' :: rest) = some ([⟨.eq, ['=', '=']⟩], rest) := by
  lexsimp

theorem fm_ne (uw : Char → Bool) (rest : Str) :
    firstMatch (R uw) ('!' :: '=' :: rest) = some ([⟨.ne, ['!', '=']⟩], rest) := by
  lexsimp

theorem fm_le (uw : Char → Bool) (rest : Str) :
    firstMatch (R uw) ('<' :: '=' :: rest) = some ([⟨.le, ['<', '=']⟩], rest) := by
  lexsimp

theorem fm_ge (uw : Char → Bool) (rest : Str) :
    firstMatch (R uw) ('>' :: '=' :: rest) = some ([⟨.ge, ['>', '=']⟩], rest) := by
  lexsimp

theorem fm_lt (uw : Char → Bool) (rest : Str) (h : opFol rest = true) :
    firstMatch (R uw) ('<' :: rest) = some ([⟨.lt, ['<']⟩], rest) := by
  cases rest with
  | nil => lexsimp
  | cons c r =>
    simp only [opFol, Bool.and_eq_true, bne_iff_ne, ne_eq] at h
    obtain ⟨h1, h2⟩ := h
    have h1' : ¬ '=' = c := fun e => h1 e.symm
    have h2' : ¬ '>' = c := fun e => h2 e.symm
    lexsimp
    simp [h1, h2, h1', h2']

theorem fm_gt (uw : Char → Bool) (rest : Str) (h : opFol rest = true) :
    firstMatch (R uw) ('>' :: rest) = some ([⟨.gt, ['>']⟩], rest) := by
  cases rest with
  | nil => lexsimp
  | cons c r =>
    simp only [opFol, Bool.and_eq_true, bne_iff_ne, ne_eq] at h
    obtain ⟨h1, h2⟩ := h
    have h1' : ¬ '=' = c := fun e => h1 e.symm
    lexsimp
    simp [h1, h1']

theorem fm_bang (uw : Char → Bool) (rest : Str) (h : opFol rest = true) :
    firstMatch (R uw) ('!' :: rest) = some ([⟨.not_, ['!']⟩], rest) := by
  cases rest with
  | nil => lexsimp
  | cons c r =>
    simp only [opFol, Bool.and_eq_true, bne_iff_ne, ne_eq] at h
    obtain ⟨h1, h2⟩ := h
    have h1' : ¬ '=' = c := fun e => h1 e.symm
    lexsimp
    simp [h1, h1']

theorem tokz_and {uw : Char → Bool} {rest : Str} {cs : List CTok} (ht : Tokz uw rest cs) :
    Tokz uw ('&' :: '&' :: rest) (.tok (.op .and) :: cs) := tokz_step (fm_and uw rest) cook_and ht

theorem tokz_or {uw : Char → Bool} {rest : Str} {cs : List CTok} (ht : Tokz uw rest cs) :
    Tokz uw ('|' :: '|' :: rest) (.tok (.op .or) :: cs) := tokz_step (fm_or uw rest) cook_or ht

theorem tokz_bang {uw : Char → Bool} {rest : Str} {cs : List CTok} (h : opFol rest = true) (ht : Tokz uw rest cs) :
    Tokz uw ('!' :: rest) (.tok .not :: cs) := tokz_step (fm_bang uw rest h) cook_not ht

/-- a comparison operator in front of anything but `=` and `>` -/
theorem tokz_cmpop {uw : Char → Bool} {op : CmpOp} {o rest : Str} {cs : List CTok} (ho : cmpOpText op = some o)
    (h : opFol rest = true) (ht : Tokz uw rest cs) : Tokz uw (o ++ rest) (.tok (.op op) :: cs) := by
  cases op <;> simp only [cmpOpText, Option.some.injEq, reduceCtorEq] at ho <;> subst ho
  · exact tokz_step (fm_eq uw rest) cook_eq ht
  · exact tokz_step (fm_ne uw rest) cook_ne ht
  · exact tokz_step (fm_lt uw rest h) cook_lt ht
  · exact tokz_step (fm_gt uw rest h) cook_gt ht
  · exact tokz_step (fm_le uw rest) cook_le ht
  · exact tokz_step (fm_ge uw rest) cook_ge ht

theorem cmpOp_notLogical {op : CmpOp} {o : Str} (ho : cmpOpText op = some o) : isLogical op = false := by
  cases op <;> first | rfl | (simp [cmpOpText] at ho)

theorem cmpOp_dlm {op : CmpOp} {o : Str} (ho : cmpOpText op = some o) (x : Str) : dlm (o ++ x) = true := by
  cases op <;> simp only [cmpOpText, Option.some.injEq, reduceCtorEq] at ho <;> subst ho <;> rfl

/-! ### keywords -/

theorem fm_true (uw : Char → Bool) (rest : Str) (h : folH rest = true) :
    firstMatch (R uw) ('t' :: 'r' :: 'u' :: 'e' :: rest) = some ([⟨.true_, ['t', 'r', 'u', 'e']⟩], rest) := by
  rcases folH_cases h with rfl | ⟨c, t, rfl, hc⟩
  · lexsimp
  · rcases flc_cases hc with h | h | h | h | h | h | h | h | h | h | h | h | h <;> subst h <;> lexsimp

theorem fm_false (uw : Char → Bool) (rest : Str) (h : folH rest = true) :
    firstMatch (R uw) ('f' :: 'a' :: 'l' :: 's' :: 'e' :: rest) = some ([⟨.false_, ['f', 'a', 'l', 's', 'e']⟩], rest) := by
  rcases folH_cases h with rfl | ⟨c, t, rfl, hc⟩
  · lexsimp
  · rcases flc_cases hc with h | h | h | h | h | h | h | h | h | h | h | h | h <;> subst h <;> lexsimp

theorem fm_null (uw : Char → Bool) (rest : Str) (h : folH rest = true) :
    firstMatch (R uw) ('n' :: 'u' :: 'l' :: 'l' :: rest) = some ([⟨.nil, ['n', 'u', 'l', 'l']⟩], rest) := by
  rcases folH_cases h with rfl | ⟨c, t, rfl, hc⟩
  · lexsimp
  · rcases flc_cases hc with h | h | h | h | h | h | h | h | h | h | h | h | h <;> subst h <;> lexsimp

/-! ### function names -/

theorem fm_func (uw : Char → Bool) (name s1 rest : Str) (hn : funcNameOK name = true) (h1 : isS s1 = true)
    (hr : stops isPyBlank rest = true) :
    firstMatch (R uw) (name ++ '(' :: (s1 ++ rest)) = some ([⟨.func, name⟩], rest) := by
  cases name with
  | nil => simp [funcNameOK] at hn
  | cons c cs =>
    simp only [funcNameOK, Bool.and_eq_true, Bool.not_eq_true'] at hn
    obtain ⟨⟨⟨hc, hne⟩, hall⟩, hkw⟩ := hn
    have hb := lower_bounds hc
    have f1 : c ≠ '"' := toNat_ne (by simp; omega)
    have f2 : c ≠ '\'' := toNat_ne (by simp; omega)
    have f3 : c ≠ '/' := toNat_ne (by simp; omega)
    have f4 : c ≠ '-' := toNat_ne (by simp; omega)
    have f5 : c ≠ ':' := toNat_ne (by simp; omega)
    have f6 : isPyBlank c = false := by simp [isPyBlank]; omega
    have f7 : c.isDigit = false := by
      cases hd : c.isDigit with
      | false => rfl
      | true => have := digit_toNat_bounds hd; omega
    have h1' := span_stops isFuncCont cs ('(' :: (s1 ++ rest)) hall (stops_funcCont_paren _)
    have h5 : mFunc (c :: (cs ++ '(' :: (s1 ++ rest))) = some ([⟨.func, c :: cs⟩], rest) := by
      simp only [mFunc, hc, if_true, h1', hne, hkw, Bool.false_eq_true, if_false, skipWs_blanks h1 hr]
    simp only [List.cons_append]
    simp only [R, firstMatch, mQuoted_ne _ _ f1, mQuoted_ne _ _ f2, mRe_ne _ f3, mSlice_head _ f7 f4 f6 f5, h5]

theorem funcName_hd {name : Str} (hn : funcNameOK name = true) (x : Str) (T : List Tok) :
    Hd (name ++ x) (.func name :: T) := by
  cases name with
  | nil => simp [funcNameOK] at hn
  | cons c cs =>
    simp only [funcNameOK, Bool.and_eq_true] at hn
    have hb := lower_bounds hn.1.1.1
    refine hd_mk c _ _ _ ?_
    have f1 : c ≠ ':' := toNat_ne (by simp; omega)
    have f2 : c ≠ '=' := toNat_ne (by simp; omega)
    have f3 : c ≠ '>' := toNat_ne (by simp; omega)
    have f6 : isPyBlank c = false := by simp [isPyBlank]; omega
    simp [hdOK, tokOK, f1, f2, f3, f6]

end JP.Lemmas.RfcSpellF
