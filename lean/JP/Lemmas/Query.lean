/-
  Helper lemmas for C01/C03 (selectors and segments vs RFC 9535). Statements used by JP/Props/C01.lean
  and JP/Props/C03.lean.
-/
import JP.Lemmas.QueryDefs
import JP.Lemmas.QueryAuxSegs
namespace JP.Lemmas
open JP JP.Query

theorem slice_refines_rfc (start stop step : Option Int) (len : Nat) :
    codeSlice start stop step len = Rfc.sliceIndices start stop step len :=
  slice_refines_rfc_aux start stop step len

theorem slice_in_range (start stop step : Option Int) (len : Nat) :
    ∀ i ∈ Rfc.sliceIndices start stop step len, 0 ≤ i ∧ i < len :=
  slice_in_range_aux start stop step len

theorem canonicalString_eq_normalName (s : Str) :
    canonicalString s = '\'' :: Rfc.normalName s ++ ['\''] :=
  canonicalString_eq_normalName_aux s

theorem primitive_selects_nothing (env : Env) (n : Node) (s : Sel)
    (h : n.val.isContainer = false) : evalSel env n s = [] :=
  primitive_selects_nothing_aux env n s h

theorem sel_refines_rfc (env : Env) (renv : Rfc.REnv) (n : Node) (r : Rfc.RNode) (s : Sel)
    (hs : plainSel s = true) (hr : Represents n r) :
    RepresentsAll (evalSel env n s) (Rfc.evalSel renv r s) :=
  sel_refines_rfc_aux env renv n r s hs hr

theorem segs_refines_rfc (env : Env) (renv : Rfc.REnv) (segs : List Seg) (ns : List Node)
    (rs : List Rfc.RNode) (hp : plainSegs segs = true) (hw : Rfc.wellFormedSegs segs = true)
    (hr : RepresentsAll ns rs) :
    RepresentsAll (evalSegs env segs ns) (Rfc.evalSegs renv segs rs) :=
  segs_refines_rfc_aux env renv segs ns rs hp hw hr

theorem index_on_object (env : Env) (n : Node) (kvs : List (Str × J)) (i : Int) (h : n.val = .obj kvs) :
    evalSel env n (.index i) = evalSel env n (.name (intStr i)) ∨
    (∃ v, dictGet kvs (intStr i) = some v ∧
      (evalSel env n (.index i)).map (·.val) = [v] ∧ (evalSel env n (.name (intStr i))).map (·.val) = [v]) := by
  cases hd : dictGet kvs (intStr i) with
  | none => left; simp [evalSel, h, hd]
  | some v =>
    right
    exact ⟨v, rfl, by simp [evalSel, h, hd, childNode], by simp [evalSel, h, hd, childNode]⟩

end JP.Lemmas
