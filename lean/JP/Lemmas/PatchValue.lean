/-
  Helper lemmas for C15 (a patch is a faithful, reusable value). Statements used by JP/Props/C15.lean.
-/
import JP.Lemmas.Patch
import JP.Lemmas.Pointer
namespace JP.Lemmas
open JP JP.Pointer JP.Patch

/-- The pointer of an operation survives printing and parsing (true of every pointer the parser
    produced from a backslash-free, in-range text, see C14). -/
def PathRoundTrips (dec : EscDec) (ue : Bool) (ps : List Part) : Prop :=
  Pointer.parse dec ue (encode ps) = .ok ps

def OpRoundTrips (dec : EscDec) (ue : Bool) : Op → Prop
  | .add p _ | .addne p _ | .addap p _ | .remove p | .replace p _ | .test p _ => PathRoundTrips dec ue p
  | .move s d | .copy s d => PathRoundTrips dec ue s ∧ PathRoundTrips dec ue d

theorem asdict_name (op : Op) :
    ∃ rest, op.asdict = .obj (("op".toList, .str op.name.toList) :: rest) := by
  cases op <;> exact ⟨_, rfl⟩

/-! ### Member lookup in the printed dicts -/

theorem pv_dictGet_hd {α} (k : Str) (v : α) (rest : List (Str × α)) :
    dictGet ((k, v) :: rest) k = some v := by
  simp [dictGet]

theorem pv_dictGet_tl {α} (k k' : Str) (v : α) (rest : List (Str × α)) (h : k' ≠ k) :
    dictGet ((k', v) :: rest) k = dictGet rest k := by
  simp [dictGet, h]

theorem pv_opPointer (dec : EscDec) (ue : Bool) (kvs : List (Str × J)) (key s : Str)
    (ps : List Part) (hg : dictGet kvs key = some (.str s)) (hp : Pointer.parse dec ue s = .ok ps) :
    opPointer dec ue kvs key = .ok ps := by
  simp only [opPointer, hg, hp]; rfl

theorem pv_opValue (kvs : List (Str × J)) (key : Str) (v : J) (hg : dictGet kvs key = some v) :
    opValue kvs key = .ok v := by
  simp only [opValue, hg]; rfl

/-- The `path` / `value` members of `{"op": name, "path": path, "value": v}`. -/
theorem pv_members_pv (dec : EscDec) (ue : Bool) (name path : Str) (v : J) (ps : List Part)
    (hp : Pointer.parse dec ue path = .ok ps) :
    opPointer dec ue [("op".toList, .str name), ("path".toList, .str path), ("value".toList, v)]
      "path".toList = .ok ps ∧
    opValue [("op".toList, .str name), ("path".toList, .str path), ("value".toList, v)]
      "value".toList = .ok v :=
  ⟨pv_opPointer dec ue _ _ path ps
      (by rw [pv_dictGet_tl _ _ _ _ (by decide), pv_dictGet_hd]) hp,
   pv_opValue _ _ v
      (by rw [pv_dictGet_tl _ _ _ _ (by decide), pv_dictGet_tl _ _ _ _ (by decide), pv_dictGet_hd])⟩

/-- The `path` member of `{"op": name, "path": path}`. -/
theorem pv_members_p (dec : EscDec) (ue : Bool) (name path : Str) (ps : List Part)
    (hp : Pointer.parse dec ue path = .ok ps) :
    opPointer dec ue [("op".toList, .str name), ("path".toList, .str path)] "path".toList = .ok ps :=
  pv_opPointer dec ue _ _ path ps (by rw [pv_dictGet_tl _ _ _ _ (by decide), pv_dictGet_hd]) hp

/-- The `from` / `path` members of `{"op": name, "from": src, "path": path}`. -/
theorem pv_members_fp (dec : EscDec) (ue : Bool) (name src path : Str) (ss ps : List Part)
    (hs : Pointer.parse dec ue src = .ok ss) (hp : Pointer.parse dec ue path = .ok ps) :
    opPointer dec ue [("op".toList, .str name), ("from".toList, .str src), ("path".toList, .str path)]
      "from".toList = .ok ss ∧
    opPointer dec ue [("op".toList, .str name), ("from".toList, .str src), ("path".toList, .str path)]
      "path".toList = .ok ps :=
  ⟨pv_opPointer dec ue _ _ src ss
      (by rw [pv_dictGet_tl _ _ _ _ (by decide), pv_dictGet_hd]) hs,
   pv_opPointer dec ue _ _ path ps
      (by rw [pv_dictGet_tl _ _ _ _ (by decide), pv_dictGet_tl _ _ _ _ (by decide), pv_dictGet_hd]) hp⟩

theorem build_asdict (dec : EscDec) (ue : Bool) (op : Op) (h : OpRoundTrips dec ue op) :
    buildOp dec ue op.asdict = .ok op := by
  cases op with
  | add p v =>
    obtain ⟨hp, hv⟩ := pv_members_pv dec ue "add".toList (encode p) v p h
    simp only [Op.asdict, buildOp, pv_dictGet_hd, hp, hv]; rfl
  | addne p v =>
    obtain ⟨hp, hv⟩ := pv_members_pv dec ue "addne".toList (encode p) v p h
    simp only [Op.asdict, buildOp, pv_dictGet_hd, hp, hv]; rfl
  | addap p v =>
    obtain ⟨hp, hv⟩ := pv_members_pv dec ue "addap".toList (encode p) v p h
    simp only [Op.asdict, buildOp, pv_dictGet_hd, hp, hv]; rfl
  | remove p =>
    have hp := pv_members_p dec ue "remove".toList (encode p) p h
    simp only [Op.asdict, buildOp, pv_dictGet_hd, hp]; rfl
  | replace p v =>
    obtain ⟨hp, hv⟩ := pv_members_pv dec ue "replace".toList (encode p) v p h
    simp only [Op.asdict, buildOp, pv_dictGet_hd, hp, hv]; rfl
  | move s d =>
    obtain ⟨hs, hp⟩ := pv_members_fp dec ue "move".toList (encode s) (encode d) s d h.1 h.2
    simp only [Op.asdict, buildOp, pv_dictGet_hd, hs, hp]; rfl
  | copy s d =>
    obtain ⟨hs, hp⟩ := pv_members_fp dec ue "copy".toList (encode s) (encode d) s d h.1 h.2
    simp only [Op.asdict, buildOp, pv_dictGet_hd, hs, hp]; rfl
  | test p v =>
    obtain ⟨hp, hv⟩ := pv_members_pv dec ue "test".toList (encode p) v p h
    simp only [Op.asdict, buildOp, pv_dictGet_hd, hp, hv]; rfl

theorem pv_mapM_map_ok {ε α β} (f : β → Except ε α) (g : α → β) (xs : List α)
    (h : ∀ x ∈ xs, f (g x) = .ok x) : (xs.map g).mapM f = .ok xs := by
  induction xs with
  | nil => rfl
  | cons x xs ih =>
    rw [List.map_cons, List.mapM_cons, h x (by simp), ih (fun y hy => h y (by simp [hy]))]
    rfl

theorem build_empty (dec : EscDec) (ue : Bool) : build dec ue (.arr []) = .ok [] := by
  rfl

theorem build_is_mapM (dec : EscDec) (ue : Bool) (ds : List J) (hne : ds ≠ []) :
    build dec ue (.arr ds) = ds.mapM (buildOp dec ue) := by
  cases ds with
  | nil => exact absurd rfl hne
  | cons d ds => rfl

theorem build_asdicts (dec : EscDec) (ue : Bool) (ops : List Op) (hne : ops ≠ [])
    (h : ∀ op ∈ ops, OpRoundTrips dec ue op) :
    build dec ue (asdicts ops) = .ok ops := by
  unfold asdicts
  rw [build_is_mapM dec ue _ (by simpa using hne)]
  exact pv_mapM_map_ok _ _ _ (fun op hop => build_asdict dec ue op (h op hop))

theorem build_addap (dec : EscDec) (ue : Bool) (path : Str) (v : J) (ps : List Part)
    (hp : Pointer.parse dec ue path = .ok ps) :
    buildOp dec ue (.obj [("op".toList, .str "addap".toList), ("path".toList, .str path), ("value".toList, v)])
      = .ok (.addap ps v) := by
  obtain ⟨hp', hv⟩ := pv_members_pv dec ue "addap".toList path v ps hp
  simp only [buildOp, pv_dictGet_hd, hp', hv]; rfl

/-! ### `addne` / `addap` against `add` -/

theorem addne_spec (doc v : J) (path : List Part) :
    applyOp doc (.addne path v) =
      (match target doc path with
       | .error e => .error e
       | .ok (some (.obj kvs), tok, _) => if dictHas kvs (partStr tok) then .ok doc else applyOp doc (.add path v)
       | .ok _ => applyOp doc (.add path v)) := by
  show applyAddNe doc path v = _
  unfold applyAddNe
  cases h : target doc path with
  | error e => rfl
  | ok t =>
    rcases t with ⟨parent, tok, obj⟩
    cases parent with
    | none => rfl
    | some p => cases p <;> rfl

theorem addap_spec (doc v : J) (path : List Part) :
    applyOp doc (.addap path v) =
      (match target doc path with
       | .error e => .error e
       | .ok (some (.arr xs), _, none) => writeBack doc path.dropLast (.arr (xs ++ [v]))
       | .ok _ => applyOp doc (.add path v)) := by
  show applyAddAp doc path v = _
  unfold applyAddAp
  cases h : target doc path with
  | error e => rfl
  | ok t =>
    rcases t with ⟨parent, tok, obj⟩
    cases parent with
    | none => rfl
    | some p => cases p <;> cases obj <;> rfl

theorem pv_target_obj_key (kvs : List (Str × J)) (k : Str) :
    target (.obj kvs) [.key k] = .ok (some (.obj kvs), .key k, dictGet kvs k) := by
  cases hd : dictGet kvs k with
  | some old =>
    simp [target, resolveParent, resolveParts, getitem, hd, pa_bind_ok, pa_pure, partStr]
  | none =>
    cases k with
    | nil => simp [target, resolveParent, resolveParts, getitem, hd, pa_bind_ok, pa_pure, pa_throw, partStr]
    | cons c rest =>
      by_cases hc : (c = '~' ∨ c = '#') ∧ dictHas kvs rest = true
      · simp [target, resolveParent, resolveParts, getitem, hd, pa_bind_ok, pa_pure, pa_throw, partStr, hc]
      · simp [target, resolveParent, resolveParts, getitem, hd, pa_bind_ok, pa_pure, pa_throw, partStr, hc]

theorem addne_existing_member (kvs : List (Str × J)) (k : Str) (v old : J) (h : dictGet kvs k = some old) :
    applyOp (.obj kvs) (.addne [.key k] v) = .ok (.obj kvs) ∧
    applyOp (.obj kvs) (.add [.key k] v) = .ok (.obj (dictSet kvs k v)) := by
  constructor
  · rw [addne_spec, pv_target_obj_key]
    simp [dictHas, partStr, h]
  · show applyAdd _ _ _ = _
    unfold applyAdd
    rw [pv_target_obj_key]
    rfl

theorem addne_new_member (kvs : List (Str × J)) (k : Str) (v : J) (h : dictGet kvs k = none) :
    applyOp (.obj kvs) (.addne [.key k] v) = applyOp (.obj kvs) (.add [.key k] v) := by
  rw [addne_spec, pv_target_obj_key]
  simp [dictHas, partStr, h]

theorem addap_unresolvable_index (xs : List J) (v : J) (n : Nat) (h : xs.length ≤ n) :
    applyOp (.arr xs) (.addap [.idx n] v) = .ok (.arr (xs ++ [v])) := by
  have ht := pa_target_arr_idx (.arr xs) [] xs n rfl
  rw [List.getElem?_eq_none h] at ht
  rw [addap_spec]
  simp only [List.nil_append] at ht
  rw [ht]
  rfl

theorem addap_resolvable_index (xs : List J) (v : J) (n : Nat) (h : n < xs.length) :
    applyOp (.arr xs) (.addap [.idx n] v) = applyOp (.arr xs) (.add [.idx n] v) := by
  have ht := pa_target_arr_idx (.arr xs) [] xs n rfl
  rw [List.getElem?_eq_getElem h] at ht
  rw [addap_spec]
  simp only [List.nil_append] at ht
  rw [ht]

end JP.Lemmas
