/-
  Helper lemmas for C15 (a patch is a faithful, reusable value). Statements used by JP/Props/C15.lean.
-/
import JP.Lemmas.Patch
import JP.Lemmas.Pointer
namespace JP.Lemmas
open JP JP.Pointer JP.Patch

/-- The pointer of an operation survives printing and parsing (true of every pointer the parser
    produced from a backslash-free, in-range text, see C14). -/
def PathRoundTrips (dec : EscDec) (ue : Bool) (ps : List Part) : Prop :=
  Pointer.parse dec ue (encode ps) = .ok ps

def OpRoundTrips (dec : EscDec) (ue : Bool) : Op → Prop
  | .add p _ | .addne p _ | .addap p _ | .remove p | .replace p _ | .test p _ => PathRoundTrips dec ue p
  | .move s d | .copy s d => PathRoundTrips dec ue s ∧ PathRoundTrips dec ue d

theorem asdict_name (op : Op) :
    ∃ rest, op.asdict = .obj (("op".toList, .str op.name.toList) :: rest) := by
  sorry

theorem build_asdict (dec : EscDec) (ue : Bool) (op : Op) (h : OpRoundTrips dec ue op) :
    buildOp dec ue op.asdict = .ok op := by
  sorry

theorem build_asdicts (dec : EscDec) (ue : Bool) (ops : List Op) (hne : ops ≠ [])
    (h : ∀ op ∈ ops, OpRoundTrips dec ue op) :
    build dec ue (asdicts ops) = .ok ops := by
  sorry

theorem build_empty (dec : EscDec) (ue : Bool) : build dec ue (.arr []) = .ok [] := by
  sorry

theorem build_is_mapM (dec : EscDec) (ue : Bool) (ds : List J) (hne : ds ≠ []) :
    build dec ue (.arr ds) = ds.mapM (buildOp dec ue) := by
  sorry

theorem build_addap (dec : EscDec) (ue : Bool) (path : Str) (v : J) (ps : List Part)
    (hp : Pointer.parse dec ue path = .ok ps) :
    buildOp dec ue (.obj [("op".toList, .str "addap".toList), ("path".toList, .str path), ("value".toList, v)])
      = .ok (.addap ps v) := by
  sorry

theorem addne_spec (doc v : J) (path : List Part) :
    applyOp doc (.addne path v) =
      (match target doc path with
       | .error e => .error e
       | .ok (some (.obj kvs), tok, _) => if dictHas kvs (partStr tok) then .ok doc else applyOp doc (.add path v)
       | .ok _ => applyOp doc (.add path v)) := by
  sorry

theorem addne_existing_member (kvs : List (Str × J)) (k : Str) (v old : J) (h : dictGet kvs k = some old) :
    applyOp (.obj kvs) (.addne [.key k] v) = .ok (.obj kvs) ∧
    applyOp (.obj kvs) (.add [.key k] v) = .ok (.obj (dictSet kvs k v)) := by
  sorry

theorem addne_new_member (kvs : List (Str × J)) (k : Str) (v : J) (h : dictGet kvs k = none) :
    applyOp (.obj kvs) (.addne [.key k] v) = applyOp (.obj kvs) (.add [.key k] v) := by
  sorry

theorem addap_spec (doc v : J) (path : List Part) :
    applyOp doc (.addap path v) =
      (match target doc path with
       | .error e => .error e
       | .ok (some (.arr xs), _, none) => writeBack doc path.dropLast (.arr (xs ++ [v]))
       | .ok _ => applyOp doc (.add path v)) := by
  sorry

theorem addap_unresolvable_index (xs : List J) (v : J) (n : Nat) (h : xs.length ≤ n) :
    applyOp (.arr xs) (.addap [.idx n] v) = .ok (.arr (xs ++ [v])) := by
  sorry

theorem addap_resolvable_index (xs : List J) (v : J) (n : Nat) (h : n < xs.length) :
    applyOp (.arr xs) (.addap [.idx n] v) = applyOp (.arr xs) (.add [.idx n] v) := by
  sorry

end JP.Lemmas
