/-
  `RepresentsAll` combinators and normalized-path facts.
-/
import JP.Lemmas.QueryAuxSlice
import JP.Lemmas.QueryAuxStr
import JP.Lemmas.Decimal
namespace JP.Lemmas
open JP JP.Query

/-! ### RepresentsAll combinators -/

@[simp] theorem representsAll_nil : RepresentsAll [] [] := trivial

theorem representsAll_cons {n r ns rs} :
    RepresentsAll (n :: ns) (r :: rs) ↔ Represents n r ∧ RepresentsAll ns rs := Iff.rfl

theorem representsAll_nil_left {rs} (h : RepresentsAll [] rs) : rs = [] := by
  cases rs with
  | nil => rfl
  | cons _ _ => exact absurd h (by simp [RepresentsAll])

theorem representsAll_append {ns ns' : List Node} {rs rs' : List Rfc.RNode}
    (h : RepresentsAll ns rs) (h' : RepresentsAll ns' rs') : RepresentsAll (ns ++ ns') (rs ++ rs') := by
  induction ns generalizing rs with
  | nil => cases rs with
    | nil => simpa using h'
    | cons _ _ => exact absurd h (by simp [RepresentsAll])
  | cons n ns ih => cases rs with
    | nil => exact absurd h (by simp [RepresentsAll])
    | cons r rs => exact ⟨h.1, ih h.2⟩

theorem representsAll_flatMap {ns : List Node} {rs : List Rfc.RNode}
    {f : Node → List Node} {g : Rfc.RNode → List Rfc.RNode}
    (h : RepresentsAll ns rs) (hfg : ∀ n r, Represents n r → RepresentsAll (f n) (g r)) :
    RepresentsAll (ns.flatMap f) (rs.flatMap g) := by
  induction ns generalizing rs with
  | nil => cases rs with
    | nil => simp
    | cons _ _ => exact absurd h (by simp [RepresentsAll])
  | cons n ns ih => cases rs with
    | nil => exact absurd h (by simp [RepresentsAll])
    | cons r rs =>
      simp only [List.flatMap_cons]
      exact representsAll_append (hfg n r h.1) (ih h.2)

theorem representsAll_map {α} (l : List α) (f : α → Node) (g : α → Rfc.RNode)
    (h : ∀ x ∈ l, Represents (f x) (g x)) : RepresentsAll (l.map f) (l.map g) := by
  induction l with
  | nil => simp
  | cons x xs ih =>
    exact ⟨h x (by simp), ih (fun y hy => h y (by simp [hy]))⟩

theorem representsAll_filterMap {α} (l : List α) (f : α → Option Node) (g : α → Option Rfc.RNode)
    (h : ∀ x ∈ l, (f x = none ∧ g x = none) ∨ ∃ n r, f x = some n ∧ g x = some r ∧ Represents n r) :
    RepresentsAll (l.filterMap f) (l.filterMap g) := by
  induction l with
  | nil => simp
  | cons x xs ih =>
    have ih' := ih (fun y hy => h y (by simp [hy]))
    rcases h x (by simp) with ⟨h1, h2⟩ | ⟨n, r, h1, h2, h3⟩
    · simp [h1, h2, ih']
    · simp only [List.filterMap_cons, h1, h2]
      exact ⟨h3, ih'⟩

/-! ### paths -/

theorem normalizedPath_append (loc : List Rfc.LStep) (st : Rfc.LStep) :
    Rfc.normalizedPath (loc ++ [st]) = Rfc.normalizedPath loc ++ Rfc.normalStep st := by
  simp [Rfc.normalizedPath]

theorem bracket_canonicalString (k : Str) :
    bracket (canonicalString k) = Rfc.normalStep (.name k) := by
  simp [bracket, canonicalString_eq_normalName_aux, Rfc.normalStep]

theorem bracket_natStr (i : Nat) : bracket (natStr i) = Rfc.normalStep (.index i) := by
  simp [bracket, Rfc.normalStep]

theorem represents_child {n : Node} {r : Rfc.RNode} (h : Represents n r) (st : Rfc.LStep) (v : J) :
    Represents (childNode n (partOfStep st) (Rfc.normalStep st) v) ⟨r.loc ++ [st], v⟩ := by
  obtain ⟨h1, h2, _⟩ := h
  refine ⟨?_, ?_, rfl⟩
  · simp [childNode, h1]
  · simp [childNode, h2, normalizedPath_append]

/-- decimal spellings need no escaping -/
theorem normalName_of_plain (s : Str) (h : ∀ c ∈ s, c.isDigit = true ∨ c = '-') :
    Rfc.normalName s = s := by
  induction s with
  | nil => rfl
  | cons c cs ih =>
    have hc := h c (by simp)
    have ih' := ih (fun x hx => h x (by simp [hx]))
    have hb : 45 ≤ c.toNat ∧ c.toNat ≤ 57 := by
      rcases hc with hc | hc
      · have := digit_toNat_bounds hc; omega
      · subst hc; decide
    have ne : ∀ d : Char, d.toNat < 45 ∨ 57 < d.toNat → c ≠ d := by
      intro d hd e; subst e; omega
    simp [Rfc.normalName, ih', ne '\x08' (by decide), ne '\x0c' (by decide), ne '\n' (by decide),
      ne '\r' (by decide), ne '\t' (by decide), ne '\'' (by decide), ne '\\' (by decide)]
    rw [if_neg (by omega)]; rfl

theorem intStr_plain (i : Int) : ∀ c ∈ intStr i, c.isDigit = true ∨ c = '-' := by
  intro c hc
  cases i with
  | ofNat n => exact Or.inl (natStr_all_digits n c hc)
  | negSucc n =>
    simp only [intStr, List.mem_cons] at hc
    rcases hc with rfl | hc
    · exact Or.inr rfl
    · exact Or.inl (natStr_all_digits _ c hc)

theorem normalName_intStr (i : Int) : Rfc.normalName (intStr i) = intStr i :=
  normalName_of_plain _ (intStr_plain i)

end JP.Lemmas
