/-
  Helper lemmas for C07 (compile-time gate). Statements used by JP/Props/C07.lean.
-/
import JP.Typing
import JP.Lemmas.TypingAux
namespace JP.Lemmas
open JP JP.Typing

theorem gate_filter_iff_wt (tbl : FuncTable) (ht : StdTable tbl) (e : Expr)
    (h1 : Rfc.stdExpr e = true) (h2 : cmpAtomic e = true) (h3 : wfDeep e = true) :
    (gateExpr tbl e && !nonLogical tbl e) = Rfc.wtLogical e :=
  gL tbl ht e h1 h2 h3

theorem gate_segs_iff_wt (tbl : FuncTable) (ht : StdTable tbl) (segs : List Seg)
    (h1 : Rfc.stdSegs segs = true) (h2 : cmpAtomicSegs segs = true) (h3 : wfDeepSegs segs = true) :
    gateSegs tbl segs = Rfc.wtSegs segs :=
  gSegs tbl ht segs h1 h2 h3

theorem unknown_function_rejected (tbl : FuncTable) (name : Str) (args : List Expr)
    (h : lookupFn tbl name = none) : gateExpr tbl (.func name args) = false := by
  simp [gateExpr, h]

theorem argsOk_length (tbl : FuncTable) : ∀ (tys : List Ty) (args : List Expr),
    argsOk tbl tys args = true → args.length = tys.length
  | [], [], _ => rfl
  | [], _ :: _, h => by simp [argsOk] at h
  | _ :: _, [], h => by simp [argsOk] at h
  | t :: ts, a :: as, h => by
    simp only [argsOk, Bool.and_eq_true] at h
    simp [argsOk_length tbl ts as h.2]

theorem wrong_arity_rejected (tbl : FuncTable) (name : Str) (args : List Expr) (tys : List Ty) (r : Ty)
    (h : lookupFn tbl name = some (tys, r)) (hl : args.length ≠ tys.length) :
    gateExpr tbl (.func name args) = false := by
  cases hk : argsOk tbl tys args with
  | false => simp [gateExpr, h, hk]
  | true => exact absurd (argsOk_length tbl tys args hk) hl

theorem value_result_as_test_rejected (tbl : FuncTable) (name : Str) (args : List Expr) (tys : List Ty)
    (h : lookupFn tbl name = some (tys, .value)) (e : Expr) :
    gateSel tbl (.filter (.func name args)) = false ∧
    gateExpr tbl (.not (.func name args)) = false ∧
    gateExpr tbl (.infix (.func name args) .and e) = false ∧
    gateExpr tbl (.infix e .and (.func name args)) = false ∧
    gateExpr tbl (.infix (.func name args) .or e) = false ∧
    gateExpr tbl (.infix e .or (.func name args)) = false := by
  have hn : nonLogical tbl (.func name args) = true := by simp [nonLogical, retType, h]
  refine ⟨?_, ?_, ?_, ?_, ?_, ?_⟩ <;> simp [gateSel, gateExpr, hn, isLogicalOp]

theorem uncompared_literal_rejected (tbl : FuncTable) (lit : Expr) (hl : isLiteralOrNil lit = true) (e : Expr) :
    gateSel tbl (.filter lit) = false ∧ gateExpr tbl (.not lit) = false ∧
    gateExpr tbl (.infix lit .and e) = false ∧ gateExpr tbl (.infix e .or lit) = false := by
  have hn : nonLogical tbl lit = true := by simp [nonLogical, hl]
  refine ⟨?_, ?_, ?_, ?_⟩ <;> simp [gateSel, gateExpr, hn, isLogicalOp]

theorem nonsingular_operand_rejected (tbl : FuncTable) (q : List Seg) (hq : Rfc.singularSegs q = false)
    (op : CmpOp) (hop : isComparisonOp op = true) (e : Expr) :
    gateExpr tbl (.infix (.self q) op e) = false ∧ gateExpr tbl (.infix e op (.self q)) = false ∧
    gateExpr tbl (.infix (.root q false) op e) = false := by
  have h1 : nonComparable tbl (.self q) = true := by simp [nonComparable, isPath, pathSegs, hq]
  have h2 : nonComparable tbl (.root q false) = true := by simp [nonComparable, isPath, pathSegs, hq]
  refine ⟨?_, ?_, ?_⟩ <;> simp [gateExpr, h1, h2, hop]

theorem logical_result_operand_rejected (tbl : FuncTable) (name : Str) (args : List Expr) (tys : List Ty)
    (h : lookupFn tbl name = some (tys, .logical)) (op : CmpOp) (hop : isComparisonOp op = true) (e : Expr) :
    gateExpr tbl (.infix (.func name args) op e) = false ∧ gateExpr tbl (.infix e op (.func name args)) = false := by
  have h1 : nonComparable tbl (.func name args) = true := by simp [nonComparable, isPath, h]
  refine ⟨?_, ?_⟩ <;> simp [gateExpr, h1, hop]

theorem range_gate (lo hi i : Int) : indexInRange lo hi i = true ↔ lo ≤ i ∧ i ≤ hi := by
  simp [indexInRange]

theorem slice_range_gate (lo hi : Int) (a b c : Option Int) :
    sliceInRange lo hi a b c = true ↔
      (∀ x, a = some x → lo ≤ x ∧ x ≤ hi) ∧ (∀ x, b = some x → lo ≤ x ∧ x ≤ hi) ∧ (∀ x, c = some x → lo ≤ x ∧ x ≤ hi) := by
  cases a <;> cases b <;> cases c <;> simp [sliceInRange, indexInRange, and_assoc]

end JP.Lemmas
