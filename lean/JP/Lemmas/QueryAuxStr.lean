/-
  `canonical_string` (json.dumps + two `str.replace`) equals the RFC 9535 normal-single-quoted name.
-/
import JP.Lemmas.QueryDefs
import JP.Lemmas.Str
namespace JP.Lemmas
open JP JP.Query

theorem replace2Aux_true_of_head {a b r : Char} (l : Str) (h : l.head? ≠ some b) :
    replace2Aux a b r true l = a :: replace2Aux a b r false l := by
  cases l with
  | nil => simp [replace2Aux]
  | cons x rest =>
    have hx : x ≠ b := by simpa using h
    by_cases hxa : x = a
    · simp [replace2Aux, hxa]
      intro e; exact absurd (hxa ▸ e) hx
    · simp [replace2Aux, hx, hxa]

theorem jsonEscape_head (s : Str) : (jsonEscape s).head? ≠ some '"' := by
  cases s with
  | nil => simp [jsonEscape]
  | cons c cs =>
    unfold jsonEscape
    repeat' split
    all_goals simp_all

theorem hexDigit_ne_backslash : ∀ n < 16, hexDigit n ≠ '\\' := by decide
theorem hexDigit_ne_quote : ∀ n < 16, hexDigit n ≠ '\'' := by decide

/-- the per-character output of the two replacements -/
theorem canon_step (c : Char) (cs : Str) :
    replaceChar '\'' ['\\', '\''] (replace2Aux '\\' '"' '"' false (jsonEscape (c :: cs))) =
      Rfc.normalName [c] ++
        replaceChar '\'' ['\\', '\''] (replace2Aux '\\' '"' '"' false (jsonEscape cs)) := by
  have hh := jsonEscape_head cs
  have ht := replace2Aux_true_of_head (a := '\\') (b := '"') (r := '"') (jsonEscape cs) hh
  by_cases h1 : c = '"'
  · subst h1; simp [jsonEscape, replace2Aux, Rfc.normalName, replaceChar]
  by_cases h2 : c = '\\'
  · subst h2; simp [jsonEscape, replace2Aux, Rfc.normalName, replaceChar, ht]
  by_cases h3 : c = '\n'
  · subst h3; simp [jsonEscape, replace2Aux, Rfc.normalName, replaceChar]
  by_cases h4 : c = '\r'
  · subst h4; simp [jsonEscape, replace2Aux, Rfc.normalName, replaceChar]
  by_cases h5 : c = '\t'
  · subst h5; simp [jsonEscape, replace2Aux, Rfc.normalName, replaceChar]
  by_cases h6 : c = '\x08'
  · subst h6; simp [jsonEscape, replace2Aux, Rfc.normalName, replaceChar]
  by_cases h7 : c = '\x0c'
  · subst h7; simp [jsonEscape, replace2Aux, Rfc.normalName, replaceChar]
  by_cases h8 : c = '\''
  · subst h8; simp [jsonEscape, replace2Aux, Rfc.normalName, replaceChar]
  by_cases h9 : c.toNat < 0x20
  · have a1 := hexDigit_ne_backslash (c.toNat / 16) (by omega)
    have a2 := hexDigit_ne_backslash (c.toNat % 16) (by omega)
    have b1 := hexDigit_ne_quote (c.toNat / 16) (by omega)
    have b2 := hexDigit_ne_quote (c.toNat % 16) (by omega)
    have e : Rfc.hexLower = hexDigit := rfl
    simp [jsonEscape, replace2Aux, Rfc.normalName, replaceChar, h1, h2, h3, h4, h5, h6, h7, h8, h9,
      a1, a2, b1, b2, e]
  · simp [jsonEscape, replace2Aux, Rfc.normalName, replaceChar, h1, h2, h3, h4, h5, h6, h7, h8, h9]

theorem normalName_cons (c : Char) (cs : Str) :
    Rfc.normalName (c :: cs) = Rfc.normalName [c] ++ Rfc.normalName cs := by
  simp [Rfc.normalName]

theorem canon_body (s : Str) :
    replaceChar '\'' ['\\', '\''] (replace2 '\\' '"' '"' (jsonEscape s)) = Rfc.normalName s := by
  unfold replace2
  induction s with
  | nil => simp [jsonEscape, replace2Aux, Rfc.normalName]
  | cons c cs ih => rw [canon_step, ih, ← normalName_cons]

theorem canonicalString_eq_normalName_aux (s : Str) :
    canonicalString s = '\'' :: Rfc.normalName s ++ ['\''] := by
  unfold canonicalString
  rw [canon_body]

end JP.Lemmas
