import JP.Lemmas.LexStr
import JP.Lemmas.LexTotal
import JP.Lemmas.LexPrint
