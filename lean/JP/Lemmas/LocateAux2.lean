/-
  Frame properties of `setAt` / `eraseAt` (C20).
-/
import JP.Lemmas.LocateAux1
namespace JP.Lemmas
open JP JP.Pointer JP.Patch

/-! ## dictionary facts -/

theorem dictGet_dictSet {α} (kvs : List (Str × α)) (k k' : Str) (v : α) :
    dictGet (dictSet kvs k v) k' = if k' = k then some v else dictGet kvs k' := by
  induction kvs with
  | nil =>
    by_cases h : k' = k
    · subst h; simp [dictSet, dictGet]
    · have h' : ¬ k = k' := fun e => h e.symm
      simp [dictSet, dictGet, h, h']
  | cons kv kvs ih =>
    obtain ⟨k0, v0⟩ := kv
    by_cases h0 : k0 = k
    · subst h0
      by_cases h : k' = k0
      · subst h; simp [dictSet, dictGet]
      · have h' : ¬ k0 = k' := fun e => h e.symm
        simp [dictSet, dictGet, h, h']
    · simp only [dictSet, h0, if_false, dictGet]
      by_cases h1 : k0 = k'
      · subst h1
        have : ¬ k0 = k := h0
        simp [this]
      · simp only [h1, if_false]; exact ih

theorem dictGet_dictErase_ne {α} (kvs : List (Str × α)) {k k' : Str} (h : k' ≠ k) :
    dictGet (dictErase kvs k) k' = dictGet kvs k' := by
  induction kvs with
  | nil => rfl
  | cons kv kvs ih =>
    obtain ⟨k0, v0⟩ := kv
    by_cases h0 : k0 = k
    · subst h0
      have : ¬ k0 = k' := fun e => h e.symm
      simp [dictErase, dictGet, this]
    · simp only [dictErase, h0, if_false, dictGet]
      by_cases h1 : k0 = k'
      · simp [h1]
      · simp only [h1, if_false]; exact ih

theorem dictGet_dictErase_self {α} (kvs : List (Str × α)) (k : Str)
    (hnd : (kvs.map (·.1)).Nodup) : dictGet (dictErase kvs k) k = none := by
  induction kvs with
  | nil => rfl
  | cons kv kvs ih =>
    obtain ⟨k0, v0⟩ := kv
    simp only [List.map_cons, List.nodup_cons] at hnd
    by_cases h0 : k0 = k
    · subst h0
      simp only [dictErase, if_true]
      exact (pa_dictGet_none_iff kvs k0).mpr hnd.1
    · simp only [dictErase, h0, if_false, dictGet]
      exact ih hnd.2

/-! ## inversion of `setAt` -/

@[simp] theorem setAt_nil (doc w : J) : setAt doc [] w = some w := by
  cases doc <;> rfl

theorem setAt_obj_name (kvs : List (Str × J)) (k : Str) (rest : List Rfc.LStep) (w : J) :
    setAt (.obj kvs) (.name k :: rest) w =
      (dictGet kvs k).bind (fun c => (setAt c rest w).map (fun c' => .obj (dictSet kvs k c'))) := rfl

theorem setAt_arr_index (xs : List J) (n : Nat) (rest : List Rfc.LStep) (w : J) :
    setAt (.arr xs) (.index n :: rest) w =
      (xs[n]?).bind (fun c => (setAt c rest w).map (fun c' => .arr (xs.set n c'))) := rfl

theorem setAt_cons_some {doc w d : J} {s : Rfc.LStep} {rest : List Rfc.LStep}
    (h : setAt doc (s :: rest) w = some d) :
    (∃ kvs k c c', doc = .obj kvs ∧ s = .name k ∧ dictGet kvs k = some c ∧
        setAt c rest w = some c' ∧ d = .obj (dictSet kvs k c')) ∨
    (∃ xs n c c', doc = .arr xs ∧ s = .index n ∧ xs[n]? = some c ∧
        setAt c rest w = some c' ∧ d = .arr (xs.set n c')) := by
  cases doc <;> cases s <;> simp only [setAt, reduceCtorEq] at h
  case obj.name kvs k =>
    left
    cases hd : dictGet kvs k with
    | none => simp [hd] at h
    | some c =>
      rw [hd] at h
      simp only [Option.bind_some, Option.map_eq_some_iff] at h
      obtain ⟨c', h1, h2⟩ := h
      exact ⟨kvs, k, c, c', rfl, rfl, hd, h1, h2.symm⟩
  case arr.index xs n =>
    right
    cases hd : xs[n]? with
    | none => simp [hd] at h
    | some c =>
      rw [hd] at h
      simp only [Option.bind_some, Option.map_eq_some_iff] at h
      obtain ⟨c', h1, h2⟩ := h
      exact ⟨xs, n, c, c', rfl, rfl, hd, h1, h2.symm⟩

theorem setAt_of_locValue {doc v : J} {loc : List Rfc.LStep} (h : locValue doc loc = some v) (w : J) :
    ∃ d, setAt doc loc w = some d := by
  induction loc generalizing doc with
  | nil => exact ⟨w, by simp⟩
  | cons s a ih =>
    rcases locValue_cons_some h with ⟨kvs, k, c, rfl, rfl, hd, hc⟩ | ⟨xs, n, c, rfl, rfl, hd, hc⟩
    · obtain ⟨d, hd'⟩ := ih hc
      exact ⟨.obj (dictSet kvs k d), by simp only [setAt_obj_name, hd, Option.bind_some, hd', Option.map_some]⟩
    · obtain ⟨d, hd'⟩ := ih hc
      exact ⟨.arr (xs.set n d), by simp only [setAt_arr_index, hd, Option.bind_some, hd', Option.map_some]⟩

/-! ## `Related` -/

theorem related_nil_left (b : List Rfc.LStep) : Related [] b := Or.inl (List.nil_prefix)
theorem related_nil_right (a : List Rfc.LStep) : Related a [] := Or.inr (List.nil_prefix)

theorem related_cons_cons (s t : Rfc.LStep) (a b : List Rfc.LStep) :
    Related (s :: a) (t :: b) ↔ s = t ∧ Related a b := by
  unfold Related
  rw [List.cons_prefix_cons, List.cons_prefix_cons]
  constructor
  · rintro (⟨h1, h2⟩ | ⟨h1, h2⟩)
    · exact ⟨h1, Or.inl h2⟩
    · exact ⟨h1.symm, Or.inr h2⟩
  · rintro ⟨h1, h2 | h2⟩
    · exact Or.inl ⟨h1, h2⟩
    · exact Or.inr ⟨h1.symm, h2⟩

/-! ## `setAt` frame -/

theorem setAt_spec_aux (doc w d : J) (loc : List Rfc.LStep) (h : setAt doc loc w = some d) :
    locValue d loc = some w ∧ ∀ loc', ¬ Related loc loc' → locValue d loc' = locValue doc loc' := by
  induction loc generalizing doc d with
  | nil =>
    simp only [setAt_nil, Option.some.injEq] at h; subst h
    exact ⟨by simp, fun loc' hn => absurd (related_nil_left loc') hn⟩
  | cons s a ih =>
    rcases setAt_cons_some h with ⟨kvs, k, c, c', rfl, rfl, hd, hs, rfl⟩ |
      ⟨xs, n, c, c', rfl, rfl, hd, hs, rfl⟩
    · obtain ⟨ih1, ih2⟩ := ih c c' hs
      constructor
      · simp only [locValue_obj_name, dictGet_dictSet, if_true, Option.bind_some]; exact ih1
      · intro loc' hn
        cases loc' with
        | nil => exact absurd (related_nil_right _) hn
        | cons t b =>
          cases t with
          | index m => rfl
          | name k' =>
            simp only [locValue_obj_name, dictGet_dictSet]
            by_cases hk : k' = k
            · subst hk
              simp only [if_true, Option.bind_some, hd]
              apply ih2
              intro hr
              exact hn ((related_cons_cons _ _ _ _).mpr ⟨rfl, hr⟩)
            · simp only [hk, if_false]
    · obtain ⟨ih1, ih2⟩ := ih c c' hs
      have hl : n < xs.length := by
        rcases Nat.lt_or_ge n xs.length with hl | hl
        · exact hl
        · rw [List.getElem?_eq_none hl] at hd; cases hd
      constructor
      · simp only [locValue_arr_index, List.getElem?_set, if_true, hl, Option.bind_some]; exact ih1
      · intro loc' hn
        cases loc' with
        | nil => exact absurd (related_nil_right _) hn
        | cons t b =>
          cases t with
          | name k' => rfl
          | index m =>
            simp only [locValue_arr_index, List.getElem?_set]
            by_cases hk : n = m
            · subst hk
              simp only [if_true, hl, Option.bind_some, hd]
              apply ih2
              intro hr
              exact hn ((related_cons_cons _ _ _ _).mpr ⟨rfl, hr⟩)
            · simp only [hk, if_false]

end JP.Lemmas
