/-
  RfcSpell helpers, part 1: the token forms of a filter-free segment list and the parser on them.
-/
import JP.RfcSpell
import JP.Lemmas.LexPrint
namespace JP.Lemmas.RfcSpell
open JP JP.Query JP.Surface JP.Lex JP.RfcSpell

/-- the token a (filter-free) selector is read as inside brackets -/
def selTok : Sel → Tok
  | .name s => .str s
  | .index i => .int i
  | .slice a b c => .slice a b c
  | .wild => .wild
  | .keys => .keys
  | .filter _ => .filter

def plainSel : Sel → Bool
  | .filter _ => false
  | _ => true

/-- selectors separated by commas -/
def selsToks : List Sel → List Tok
  | [] => []
  | [s] => [selTok s]
  | s :: ss => selTok s :: .comma :: selsToks ss

/-- the token forms of a segment list: bracketed selections, `.name`, bare names, `*`, `..` -/
inductive SegsToks : List Seg → List Tok → Prop
  | nil : SegsToks [] []
  | bracket (sels : List Sel) (hne : sels ≠ []) (hp : ∀ s ∈ sels, plainSel s = true) (segs : List Seg) (T : List Tok)
      (rest : SegsToks segs T) : SegsToks (.child sels :: segs) (.lbracket :: (selsToks sels ++ .rbracket :: T))
  | prop (n : Str) (segs : List Seg) (T : List Tok) (rest : SegsToks segs T) :
      SegsToks (.child [.name n] :: segs) (.prop n :: T)
  | bare (n : Str) (segs : List Seg) (T : List Tok) (rest : SegsToks segs T) :
      SegsToks (.child [.name n] :: segs) (.bare n :: T)
  | wild (segs : List Seg) (T : List Tok) (rest : SegsToks segs T) :
      SegsToks (.child [.wild] :: segs) (.wild :: T)
  | ddot (segs : List Seg) (T : List Tok) (rest : SegsToks segs T) : SegsToks (.desc :: segs) (.ddot :: T)

theorem parseSelItem_selTok (pr : Prec) (s : Sel) (hs : plainSel s = true) (fuel : Nat) (rest : List Tok) :
    parseSelItem pr (fuel + 1) (selTok s :: rest) = .ok (s, rest) := by
  cases s <;> first | rfl | (simp [plainSel] at hs)

theorem selTok_ne_rbracket (s : Sel) : selTok s ≠ .rbracket := by
  cases s <;> simp [selTok]

theorem parseSelList_one (pr : Prec) (s : Sel) (hs : plainSel s = true) (f : Nat) (T : List Tok) :
    parseSelList pr (f + 2) (selTok s :: .rbracket :: T) = .ok ([s], T) := by
  rw [parseSelList, parseSelItem_selTok pr s hs]
  rfl

theorem parseSelList_cons (pr : Prec) (s : Sel) (hs : plainSel s = true) (f : Nat) (t : Tok) (rest : List Tok)
    (ht : t ≠ .rbracket) (ss : List Sel) (T : List Tok) (h : parseSelList pr (f + 1) (t :: rest) = .ok (ss, T)) :
    parseSelList pr (f + 2) (selTok s :: .comma :: t :: rest) = .ok (s :: ss, T) := by
  rw [parseSelList, parseSelItem_selTok pr s hs]
  simp only [bind, Except.bind]
  split
  · rename_i heq; simp only [List.cons.injEq] at heq; exact absurd heq.1 ht
  · rw [h]; rfl

theorem parseSelList_selsToks (pr : Prec) (sels : List Sel) (hne : sels ≠ []) (hp : ∀ s ∈ sels, plainSel s = true)
    (T : List Tok) : ∀ fuel, sels.length + 1 ≤ fuel →
      parseSelList pr fuel (selsToks sels ++ .rbracket :: T) = .ok (sels, T) := by
  induction sels with
  | nil => exact absurd rfl hne
  | cons s ss ih =>
    intro fuel hf
    have hs : plainSel s = true := hp s (by simp)
    cases ss with
    | nil =>
      obtain ⟨f, rfl⟩ : ∃ f, fuel = f + 2 := ⟨fuel - 2, by simp at hf; omega⟩
      exact parseSelList_one pr s hs f T
    | cons s' ss' =>
      obtain ⟨f, rfl⟩ : ∃ f, fuel = f + 2 := ⟨fuel - 2, by simp at hf; omega⟩
      have ih' := ih (by simp) (fun x hx => hp x (by simp [hx])) (f + 1) (by simp at hf ⊢; omega)
      have e : selsToks (s' :: ss') ++ Tok.rbracket :: T = selTok s' :: (selsToks (s' :: ss') ++ Tok.rbracket :: T).tail := by
        cases ss' <;> rfl
      rw [e] at ih'
      have := parseSelList_cons pr s hs f _ _ (selTok_ne_rbracket s') _ _ ih'
      rw [← e] at this
      exact this

theorem parsePath_segsToks (pr : Prec) {segs : List Seg} {T : List Tok} (h : SegsToks segs T) :
    ∀ fuel, T.length + 1 ≤ fuel → parsePath pr fuel T = .ok (segs, []) := by
  induction h with
  | nil =>
    intro fuel hf
    obtain ⟨f, rfl⟩ : ∃ f, fuel = f + 1 := ⟨fuel - 1, by omega⟩
    rfl
  | bracket sels hne hp segs T rest ih =>
    intro fuel hf
    obtain ⟨f, rfl⟩ : ∃ f, fuel = f + 1 := ⟨fuel - 1, by omega⟩
    have hl : sels.length ≤ (selsToks sels).length := by
      clear hne hp hf
      induction sels with
      | nil => simp
      | cons s ss ih2 => cases ss with
        | nil => simp [selsToks]
        | cons s' ss' => simp only [selsToks, List.length_cons] at ih2 ⊢; omega
    simp only [List.length_cons, List.length_append] at hf
    rw [parsePath, parseSelList_selsToks pr sels hne hp T f (by omega)]
    simp only [bind, Except.bind, ih f (by omega)]
    rfl
  | prop n segs T rest ih =>
    intro fuel hf
    obtain ⟨f, rfl⟩ : ∃ f, fuel = f + 1 := ⟨fuel - 1, by omega⟩
    simp only [List.length_cons] at hf
    simp only [parsePath, ih f (by omega)]
    rfl
  | bare n segs T rest ih =>
    intro fuel hf
    obtain ⟨f, rfl⟩ : ∃ f, fuel = f + 1 := ⟨fuel - 1, by omega⟩
    simp only [List.length_cons] at hf
    simp only [parsePath, ih f (by omega)]
    rfl
  | wild segs T rest ih =>
    intro fuel hf
    obtain ⟨f, rfl⟩ : ∃ f, fuel = f + 1 := ⟨fuel - 1, by omega⟩
    simp only [List.length_cons] at hf
    simp only [parsePath, ih f (by omega)]
    rfl
  | ddot segs T rest ih =>
    intro fuel hf
    obtain ⟨f, rfl⟩ : ∃ f, fuel = f + 1 := ⟨fuel - 1, by omega⟩
    simp only [List.length_cons] at hf
    simp only [parsePath, ih f (by omega)]
    rfl

theorem parseQuery_segsToks (pr : Prec) {segs : List Seg} {T : List Tok} (h : SegsToks segs T) :
    parseQuery pr (.root :: T) = .ok ⟨segs, false⟩ := by
  have := parsePath_segsToks pr h (4 * (Tok.root :: T).length + 8) (by simp only [List.length_cons]; omega)
  simp only [parseQuery, this]

end JP.Lemmas.RfcSpell
