/-
  C10 helpers, part 4: list literals, paths, function arguments, selector lists, segments.
-/
import JP.Lemmas.SurfaceAux3
namespace JP.Lemmas
open JP JP.Query JP.Surface

/-! ### list literals -/

theorem lit_tok (e : Expr) (h : literalOfExpr e = true) :
    ∃ t, ptoksE e = [t] ∧ literalOfTok t = some e ∧ normE e = e := by
  cases e <;> simp only [literalOfExpr, Bool.false_eq_true] at h
  case nil => exact ⟨.nil, by simp only [ptoksE], rfl, by simp only [normE]⟩
  case bool b =>
    cases b
    · exact ⟨.false_, by simp only [ptoksE, Bool.false_eq_true, if_false], rfl, by simp only [normE]⟩
    · exact ⟨.true_, by simp only [ptoksE, if_true], rfl, by simp only [normE]⟩
  case int i => exact ⟨.int i, by simp only [ptoksE], rfl, by simp only [normE]⟩
  case flt i => exact ⟨.flt i, by simp only [ptoksE], rfl, by simp only [normE]⟩
  case str i => exact ⟨.str i, by simp only [ptoksE], rfl, by simp only [normE]⟩

theorem itemsOK (pr : Prec) : ∀ (es : List Expr), es.all literalOfExpr = true → ∀ fuel rest,
    4 * ((ptoksArgs es).length + 1) ≤ fuel →
    parseListItems pr fuel (ptoksArgs es ++ .rbracket :: rest) = .ok (normEs es, rest)
  | [], _, fuel, rest, hfuel => by
    obtain ⟨f, rfl⟩ : ∃ f, fuel = f + 1 := ⟨fuel - 1, by omega⟩
    simp only [ptoksArgs, normEs, List.nil_append]
    exact listItems_nil pr f rest
  | [e], h, fuel, rest, hfuel => by
    simp only [List.all_cons, List.all_nil, Bool.and_true] at h
    obtain ⟨t, ht, hl, hn⟩ := lit_tok e h
    obtain ⟨f, rfl⟩ : ∃ f, fuel = f + 1 := ⟨fuel - 1, by omega⟩
    simp only [ptoksArgs, normEs, ht, hn, List.cons_append, List.nil_append]
    exact listItems_single pr f t e rest hl
  | e :: e' :: es, h, fuel, rest, hfuel => by
    rw [List.all_cons, Bool.and_eq_true] at h
    obtain ⟨t, ht, hl, hn⟩ := lit_tok e h.1
    have ih := itemsOK pr (e' :: es) h.2
    simp only [ptoksArgs, ht, List.length_append, List.length_cons, List.length_nil] at hfuel
    obtain ⟨f, rfl⟩ : ∃ f, fuel = f + 1 := ⟨fuel - 1, by omega⟩
    have e1 : ptoksArgs (e :: e' :: es) ++ .rbracket :: rest
        = t :: .comma :: (ptoksArgs (e' :: es) ++ .rbracket :: rest) := by
      simp only [ptoksArgs, ht, List.cons_append, List.nil_append]
    have e2 : normEs (e :: e' :: es) = e :: normEs (e' :: es) := by simp only [normEs, hn]
    rw [e1, e2]
    exact listItems_cons pr f t e _ _ rest hl (ih f rest (by omega))


theorem pfx_list (pr : Prec) (items : List Expr) (h : items.all literalOfExpr = true) :
    PfxOK pr (ptoksE (.list items)) (normE (.list items)) := by
  intro fuel rest _ hfuel
  simp only [ptoksE, List.length_append, List.length_cons, List.length_nil] at hfuel
  obtain ⟨f, rfl⟩ : ∃ f, fuel = f + 1 := ⟨fuel - 1, by omega⟩
  have e1 : ptoksE (.list items) ++ rest = .lbracket :: (ptoksArgs items ++ .rbracket :: rest) := by
    simp only [ptoksE, List.append_assoc, List.cons_append, List.nil_append]
  have e2 : normE (.list items) = .list (normEs items) := by simp only [normE]
  rw [e1, e2]
  exact prefix_list pr f _ rest _ (itemsOK pr items h f rest (by omega))

/-! ### paths, selectors, arguments: the statements -/

def PSegsOK (pr : Prec) (q : List Seg) : Prop :=
  ∀ fuel rest, follow rest = true → 4 * (ptoksSegs q).length + 1 ≤ fuel →
    parsePath pr fuel (ptoksSegs q ++ rest) = .ok (normSegs q, rest)

def ArgsOK (pr : Prec) (es : List Expr) : Prop :=
  ∀ fuel rest, 4 * ((ptoksArgs es).length + 1) ≤ fuel →
    parseArgs pr fuel (ptoksArgs es ++ .rparen :: rest) = .ok (normEs es, rest)

/-- `,` or `]` follows -/
def selEnd : List Tok → Bool
  | .comma :: _ => true
  | .rbracket :: _ => true
  | _ => false

def PSelOK (pr : Prec) (s : Sel) : Prop :=
  ∀ fuel rest, selEnd rest = true → 4 * (ptoksSel s).length ≤ fuel →
    parseSelItem pr fuel (ptoksSel s ++ rest) = .ok (normSel s, rest)

def PSelsOK (pr : Prec) (ss : List Sel) : Prop :=
  ∀ fuel rest, 4 * ((ptoksSels ss).length + 1) ≤ fuel →
    parseSelList pr fuel (ptoksSels ss ++ .rbracket :: rest) = .ok (normSels ss, rest)

theorem pfx_self (pr : Prec) (q : List Seg) (h : PSegsOK pr q) : PfxOK pr (ptoksE (.self q)) (normE (.self q)) := by
  intro fuel rest hf hfuel
  simp only [ptoksE, List.length_cons] at hfuel
  obtain ⟨f, rfl⟩ : ∃ f, fuel = f + 1 := ⟨fuel - 1, by omega⟩
  simp only [ptoksE, normE, List.cons_append]
  exact prefix_self pr f _ rest _ (h f rest hf (by omega))

theorem pfx_ctx (pr : Prec) (q : List Seg) (h : PSegsOK pr q) : PfxOK pr (ptoksE (.ctx q)) (normE (.ctx q)) := by
  intro fuel rest hf hfuel
  simp only [ptoksE, List.length_cons] at hfuel
  obtain ⟨f, rfl⟩ : ∃ f, fuel = f + 1 := ⟨fuel - 1, by omega⟩
  simp only [ptoksE, normE, List.cons_append]
  exact prefix_ctx pr f _ rest _ (h f rest hf (by omega))

theorem pfx_root (pr : Prec) (q : List Seg) (fake : Bool) (h : PSegsOK pr q) :
    PfxOK pr (ptoksE (.root q fake)) (normE (.root q fake)) := by
  intro fuel rest hf hfuel
  simp only [ptoksE, List.length_cons] at hfuel
  obtain ⟨f, rfl⟩ : ∃ f, fuel = f + 1 := ⟨fuel - 1, by omega⟩
  simp only [ptoksE, normE, List.cons_append]
  cases fake
  · simp only [Bool.false_eq_true, if_false]
    exact prefix_root pr f _ rest _ (h f rest hf (by omega))
  · simp only [if_true]
    exact prefix_fakeRoot pr f _ rest _ (h f rest hf (by omega))

theorem pfx_func (pr : Prec) (name : Str) (args : List Expr) (h : ArgsOK pr args) :
    PfxOK pr (ptoksE (.func name args)) (normE (.func name args)) := by
  intro fuel rest _ hfuel
  simp only [ptoksE, List.length_append, List.length_cons, List.length_nil] at hfuel
  obtain ⟨f, rfl⟩ : ∃ f, fuel = f + 1 := ⟨fuel - 1, by omega⟩
  have e1 : ptoksE (.func name args) ++ rest = .func name :: (ptoksArgs args ++ .rparen :: rest) := by
    simp only [ptoksE, List.append_assoc, List.cons_append, List.nil_append]
  have e2 : normE (.func name args) = .func name (normEs args) := by simp only [normE]
  rw [e1, e2]
  exact prefix_func pr f name _ rest _ (h f rest (by omega))

/-! ### function arguments -/

theorem follow_of_argEnd (rest : List Tok) (h : argEnd rest = true) : follow rest = true := by
  cases rest with
  | nil => simp [argEnd] at h
  | cons t r => cases t <;> first | rfl | (simp [argEnd] at h)

theorem isCmp_of_argShape (e : Expr) (h : argShape e = true) : isCmp e = false := by
  cases e <;> first | rfl | (simp [argShape] at h)

theorem argStart_of_shape (e : Expr) (h : argShape e = true) (rest : List Tok) :
    argStartOK (ptoksE e ++ rest) = true := by
  cases e <;> simp only [argShape, Bool.false_eq_true] at h <;> simp only [ptoksE, List.cons_append, List.nil_append]
    <;> try rfl
  case bool b => cases b <;> rfl
  case root q fake => cases fake <;> rfl

theorem arg_parse (pr : Prec) (e : Expr) (hs : argShape e = true) (h : AllOK pr e) (fuel : Nat) (rest : List Tok)
    (he : argEnd rest = true) (hfuel : 4 * (ptoksE e).length + 2 ≤ fuel) :
    parseArg pr fuel (ptoksE e ++ rest) = .ok (normE e, rest) := by
  obtain ⟨f, rfl⟩ : ∃ f, fuel = f + 1 + 1 := ⟨fuel - 2, by omega⟩
  refine arg_ok pr f _ rest _ (argStart_of_shape e hs rest) ?_ he
  exact h.1 (isCmp_of_argShape e hs) (f + 1) rest (follow_of_argEnd rest he) (by omega)

theorem ArgsOK.nil (pr : Prec) : ArgsOK pr [] := by
  intro fuel rest hfuel
  obtain ⟨f, rfl⟩ : ∃ f, fuel = f + 1 := ⟨fuel - 1, by omega⟩
  simp only [ptoksArgs, normEs, List.nil_append]
  exact args_nil pr f rest

theorem ArgsOK.single (pr : Prec) (e : Expr) (hs : argShape e = true) (h : AllOK pr e) : ArgsOK pr [e] := by
  intro fuel rest hfuel
  simp only [ptoksArgs] at hfuel
  obtain ⟨f, rfl⟩ : ∃ f, fuel = f + 1 := ⟨fuel - 1, by omega⟩
  simp only [ptoksArgs, normEs]
  exact args_single pr f _ rest _ (argStart_of_shape e hs _)
    (arg_parse pr e hs h f (.rparen :: rest) rfl (by omega))

theorem ArgsOK.cons (pr : Prec) (e e' : Expr) (es : List Expr) (hs : argShape e = true) (h : AllOK pr e)
    (ih : ArgsOK pr (e' :: es)) : ArgsOK pr (e :: e' :: es) := by
  intro fuel rest hfuel
  simp only [ptoksArgs, List.length_append, List.length_cons, List.length_nil] at hfuel
  obtain ⟨f, rfl⟩ : ∃ f, fuel = f + 1 := ⟨fuel - 1, by omega⟩
  have e1 : ptoksArgs (e :: e' :: es) ++ .rparen :: rest
      = ptoksE e ++ (.comma :: (ptoksArgs (e' :: es) ++ .rparen :: rest)) := by
    simp only [ptoksArgs, List.append_assoc, List.cons_append, List.nil_append]
  have e2 : normEs (e :: e' :: es) = normE e :: normEs (e' :: es) := by simp only [normEs]
  rw [e1, e2]
  exact args_cons pr f _ _ rest _ _ (argStart_of_shape e hs _)
    (arg_parse pr e hs h f _ rfl (by omega)) (ih f rest (by omega))

/-! ### selectors -/

theorem follow_of_selEnd (rest : List Tok) (h : selEnd rest = true) : follow rest = true := by
  cases rest with
  | nil => simp [selEnd] at h
  | cons t r => cases t <;> first | rfl | (simp [selEnd] at h)

theorem stopAt_of_selEnd (pr : Prec) (p : Nat) (rest : List Tok) (h : selEnd rest = true) : stopAt pr p rest := by
  cases rest with
  | nil => trivial
  | cons t r => cases t <;> first | trivial | (simp [selEnd] at h)

theorem PSelOK.filter (pr : Prec) (hp : PrecFacts pr) (e : Expr) (h : AllOK pr e) : PSelOK pr (.filter e) := by
  intro fuel rest he hfuel
  simp only [ptoksSel, List.length_cons] at hfuel
  obtain ⟨f, rfl⟩ : ∃ f, fuel = f + 1 := ⟨fuel - 1, by omega⟩
  simp only [ptoksSel, normSel, List.cons_append]
  apply selItem_filter
  have := hp.lo_or
  exact (h.2.2.2 1).ok f pr.lowest rest (follow_of_selEnd rest he)
    (by rw [lvlP_lt3 pr 1 (by omega)]; exact this) (stopAt_of_selEnd pr _ rest he)
    (stopAt_of_selEnd pr _ rest he) (by omega)

theorem PSelOK.other (pr : Prec) (s : Sel) (h : ∀ e, s ≠ .filter e) : PSelOK pr s := by
  intro fuel rest _ hfuel
  cases s <;> simp only [ptoksSel, List.length_cons, List.length_nil] at hfuel
  case filter e => exact absurd rfl (h e)
  all_goals
    obtain ⟨f, rfl⟩ : ∃ f, fuel = f + 1 := ⟨fuel - 1, by omega⟩
    simp only [ptoksSel, normSel, List.cons_append, List.nil_append, parseSelItem]
    rfl

theorem selEnd_notRb_sels (s : Sel) (ss : List Sel) (rest : List Tok) :
    notRb (ptoksSels (s :: ss) ++ rest) = true := by
  have h : ∀ rest', notRb (ptoksSel s ++ rest') = true := by
    intro rest'
    cases s <;> simp only [ptoksSel, List.cons_append] <;> rfl
  cases ss with
  | nil => simp only [ptoksSels]; exact h _
  | cons s' ss => simp only [ptoksSels, List.append_assoc]; exact h _

theorem PSelsOK.single (pr : Prec) (s : Sel) (h : PSelOK pr s) : PSelsOK pr [s] := by
  intro fuel rest hfuel
  simp only [ptoksSels] at hfuel
  obtain ⟨f, rfl⟩ : ∃ f, fuel = f + 1 := ⟨fuel - 1, by omega⟩
  simp only [ptoksSels, normSels]
  exact selList_single pr f _ rest _ (h f (.rbracket :: rest) rfl (by omega))

theorem PSelsOK.cons (pr : Prec) (s s' : Sel) (ss : List Sel) (h : PSelOK pr s) (ih : PSelsOK pr (s' :: ss)) :
    PSelsOK pr (s :: s' :: ss) := by
  intro fuel rest hfuel
  simp only [ptoksSels, List.length_append, List.length_cons, List.length_nil] at hfuel
  obtain ⟨f, rfl⟩ : ∃ f, fuel = f + 1 := ⟨fuel - 1, by omega⟩
  have e1 : ptoksSels (s :: s' :: ss) ++ .rbracket :: rest
      = ptoksSel s ++ (.comma :: (ptoksSels (s' :: ss) ++ .rbracket :: rest)) := by
    simp only [ptoksSels, List.append_assoc, List.cons_append, List.nil_append]
  have e2 : normSels (s :: s' :: ss) = normSel s :: normSels (s' :: ss) := by simp only [normSels]
  rw [e1, e2]
  exact selList_cons pr f _ _ rest _ _ (h f _ rfl (by omega)) (selEnd_notRb_sels s' ss _) (ih f rest (by omega))

/-! ### segments -/

theorem PSegsOK.nil (pr : Prec) : PSegsOK pr [] := by
  intro fuel rest hf hfuel
  obtain ⟨f, rfl⟩ : ∃ f, fuel = f + 1 := ⟨fuel - 1, by omega⟩
  simp only [ptoksSegs, normSegs, List.nil_append]
  exact path_stop pr f rest hf

theorem PSegsOK.desc (pr : Prec) (q : List Seg) (h : PSegsOK pr q) : PSegsOK pr (.desc :: q) := by
  intro fuel rest hf hfuel
  simp only [ptoksSegs, List.length_cons] at hfuel
  obtain ⟨f, rfl⟩ : ∃ f, fuel = f + 1 := ⟨fuel - 1, by omega⟩
  simp only [ptoksSegs, normSegs, List.cons_append]
  exact path_ddot pr f _ rest _ (h f rest hf (by omega))

theorem PSegsOK.child (pr : Prec) (sels : List Sel) (q : List Seg) (hs : PSelsOK pr sels) (h : PSegsOK pr q) :
    PSegsOK pr (.child sels :: q) := by
  intro fuel rest hf hfuel
  simp only [ptoksSegs, List.length_append, List.length_cons, List.length_nil] at hfuel
  obtain ⟨f, rfl⟩ : ∃ f, fuel = f + 1 := ⟨fuel - 1, by omega⟩
  have e1 : ptoksSegs (.child sels :: q) ++ rest
      = .lbracket :: (ptoksSels sels ++ .rbracket :: (ptoksSegs q ++ rest)) := by
    simp only [ptoksSegs, List.append_assoc, List.cons_append, List.nil_append]
  have e2 : normSegs (.child sels :: q) = .child (normSels sels) :: normSegs q := by simp only [normSegs]
  rw [e1, e2]
  exact path_bracket pr f _ _ rest _ _ (hs f _ (by omega)) (h f rest hf (by omega))

end JP.Lemmas
