/-
  Helpers for JP/Lemmas/PathQuery.lean: the singular query of a location, printed, compiled and
  evaluated; located-ness of every RFC 9535 node (filters included).
-/
import JP.Lemmas.Locate
import JP.Lemmas.Lex
import JP.Lemmas.Filter
namespace JP.Lemmas.PathQuery
open JP JP.Query JP.Surface JP.Lex JP.Lemmas

/-- the segment of one step -/
def segOfStep : Rfc.LStep → Seg
  | .name k => Seg.child [.name k]
  | .index n => Seg.child [.index (n : Int)]

/-- the singular query of a location (same function as `JP.Lemmas.segsOfLoc`) -/
def segsOf (loc : List Rfc.LStep) : List Seg := loc.map segOfStep

theorem segsOf_nil : segsOf [] = [] := rfl
theorem segsOf_cons (s : Rfc.LStep) (rest : List Rfc.LStep) :
    segsOf (s :: rest) = segOfStep s :: segsOf rest := rfl

theorem intStr_natCast (n : Nat) : intStr (n : Int) = natStr n := rfl

/-! ### printing -/

theorem pstrSegs_step (s : Rfc.LStep) (rest : List Seg) :
    pstrSegs dflt (segOfStep s :: rest) = Rfc.normalStep s ++ pstrSegs dflt rest := by
  cases s with
  | name k =>
    simp [segOfStep, pstrSegs, pstrSels, pstrSel, canonicalString_eq_normalName_aux, Rfc.normalStep]
  | index n =>
    simp [segOfStep, pstrSegs, pstrSels, pstrSel, Rfc.normalStep]

theorem pstrSegs_segsOf (loc : List Rfc.LStep) :
    pstrSegs dflt (segsOf loc) = loc.flatMap Rfc.normalStep := by
  induction loc with
  | nil => simp [segsOf_nil, pstrSegs]
  | cons s rest ih => rw [segsOf_cons, pstrSegs_step, ih]; simp

theorem normalizedPath_eq_pstr_aux (loc : List Rfc.LStep) :
    Rfc.normalizedPath loc = pstrPath dflt ⟨segsOf loc, false⟩ := by
  rw [pstrPath, pstrSegs_segsOf]
  simp [Rfc.normalizedPath, dflt]

/-! ### compiling -/

theorem parsedSegs_segsOf (loc : List Rfc.LStep) : parsedSegs (segsOf loc) = true := by
  induction loc with
  | nil => simp [segsOf_nil, parsedSegs]
  | cons s rest ih =>
    rw [segsOf_cons]
    cases s <;> simp [segOfStep, parsedSegs, parsedSels, parsedSel, ih]

theorem printableSegs_segsOf (loc : List Rfc.LStep) : printableSegs (segsOf loc) = true := by
  induction loc with
  | nil => simp [segsOf_nil, printableSegs]
  | cons s rest ih =>
    rw [segsOf_cons]
    cases s <;> simp [segOfStep, printableSegs, printableSels, printableSel, ih]

theorem normSegs_segsOf (loc : List Rfc.LStep) : normSegs (segsOf loc) = segsOf loc := by
  induction loc with
  | nil => simp [segsOf_nil, normSegs]
  | cons s rest ih =>
    rw [segsOf_cons]
    cases s <;> simp [segOfStep, normSegs, normSels, normSel, ih]

theorem normalizedPath_compiles_aux (pr : Prec) (hpr : precOK pr = true) (uw : Char → Bool)
    (loc : List Rfc.LStep) :
    compileText pr ⟨dflt, uw⟩ (Rfc.normalizedPath loc) = some ⟨segsOf loc, false⟩ := by
  rw [normalizedPath_eq_pstr_aux]
  have := compileText_pstrPath pr hpr uw ⟨segsOf loc, false⟩ (parsedSegs_segsOf loc)
    (printableSegs_segsOf loc)
  rw [this]
  simp [normSegs_segsOf]

/-! ### evaluating -/

theorem evalSegs_empty (env : Env) : ∀ segs : List Seg, evalSegs env segs [] = []
  | [] => by simp [evalSegs]
  | .child sels :: rest => by simp [evalSegs, evalSegs_empty env rest]
  | .desc :: rest => by simp [evalSegs, evalSegs_empty env rest]

theorem evalSegs_step (env : Env) (s : Rfc.LStep) (rest : List Seg) (n : Node) :
    evalSegs env (segOfStep s :: rest) [n] =
      evalSegs env rest (evalSel env n (match s with | .name k => Sel.name k | .index i => Sel.index (i : Int))) := by
  cases s <;> simp [segOfStep, evalSegs, evalSels]

theorem pyListGet_natCast {α} (xs : List α) (n : Nat) : pyListGet xs (n : Int) = xs[n]? := by
  simp [pyListGet]

theorem normIndex_natCast (n len : Nat) : normIndex (n : Int) len = (n : Int) := by
  simp [normIndex]; omega

theorem evalSegs_segsOf (env : Env) (v : J) : ∀ (loc : List Rfc.LStep) (parts : List Part) (path : Str) (val : J),
    locValue val loc = some v →
    evalSegs env (segsOf loc) [⟨parts, path, val⟩] =
      [⟨parts ++ locParts loc, path ++ loc.flatMap Rfc.normalStep, v⟩]
  | [], parts, path, val, h => by
    simp only [locValue, Option.some.injEq] at h
    simp [segsOf_nil, evalSegs, locParts, h]
  | .name k :: rest, parts, path, val, h => by
    rw [segsOf_cons, evalSegs_step]
    cases val with
    | obj kvs =>
      rw [locValue_obj_name] at h
      cases hd : dictGet kvs k with
      | none => simp [hd] at h
      | some c =>
        rw [hd] at h
        simp only [Option.bind_some] at h
        simp only [evalSel, hd, childNode]
        rw [evalSegs_segsOf env v rest _ _ c h, bracket_canonicalString]
        simp [locParts, partOfStep]
    | _ => simp [locValue] at h
  | .index n :: rest, parts, path, val, h => by
    rw [segsOf_cons, evalSegs_step]
    cases val with
    | arr xs =>
      rw [locValue_arr_index] at h
      cases hd : xs[n]? with
      | none => simp [hd] at h
      | some c =>
        rw [hd] at h
        simp only [Option.bind_some] at h
        simp only [evalSel, pyListGet_natCast, hd, childNode, normIndex_natCast, intStr_natCast]
        rw [evalSegs_segsOf env v rest _ _ c h, bracket_natStr]
        simp [locParts, partOfStep]
    | _ => simp [locValue] at h

/-- No `.index n` step of the walk is applied to an object that has a member whose name is the decimal
    spelling of `n` (the library's documented departure: an index selector applied to an object selects
    that member). The walk stops being constrained where the location leaves the document. -/
def noIndexOnObject : J → List Rfc.LStep → Bool
  | .obj kvs, .index n :: _ => !dictHas kvs (natStr n)
  | .obj kvs, .name k :: rest =>
    match dictGet kvs k with
    | some c => noIndexOnObject c rest
    | none => true
  | .arr xs, .index n :: rest =>
    match xs[n]? with
    | some c => noIndexOnObject c rest
    | none => true
  | _, _ => true

theorem evalSegs_segsOf_none (env : Env) : ∀ (loc : List Rfc.LStep) (parts : List Part) (path : Str) (val : J),
    locValue val loc = none → noIndexOnObject val loc = true →
    evalSegs env (segsOf loc) [⟨parts, path, val⟩] = []
  | [], parts, path, val, h, _ => by simp [locValue] at h
  | .name k :: rest, parts, path, val, h, hn => by
    rw [segsOf_cons, evalSegs_step]
    cases val with
    | obj kvs =>
      rw [locValue_obj_name] at h
      cases hd : dictGet kvs k with
      | none => simp [evalSel, hd, evalSegs_empty]
      | some c =>
        rw [hd] at h
        simp only [Option.bind_some] at h
        simp only [noIndexOnObject, hd] at hn
        simp only [evalSel, hd, childNode]
        exact evalSegs_segsOf_none env rest _ _ c h hn
    | _ => simp [evalSel, evalSegs_empty]
  | .index n :: rest, parts, path, val, h, hn => by
    rw [segsOf_cons, evalSegs_step]
    cases val with
    | arr xs =>
      rw [locValue_arr_index] at h
      cases hd : xs[n]? with
      | none => simp [evalSel, pyListGet_natCast, hd, evalSegs_empty]
      | some c =>
        rw [hd] at h
        simp only [Option.bind_some] at h
        simp only [noIndexOnObject, hd] at hn
        simp only [evalSel, pyListGet_natCast, hd, childNode]
        exact evalSegs_segsOf_none env rest _ _ c h hn
    | obj kvs =>
      simp only [noIndexOnObject, dictHas, Bool.not_eq_true', Option.isSome_eq_false_iff,
        Option.isNone_iff_eq_none] at hn
      simp [evalSel, hn, evalSegs_empty]
    | _ => simp [evalSel, evalSegs_empty]

/-! ### every RFC node is located (filters, keys selector and trailing `..` included) -/

section
variable (doc : J) (hwf : doc.wf = true)
include hwf

theorem located_evalSel_all (renv : Rfc.REnv) {r : Rfc.RNode} (hr : Located doc r) (s : Sel) :
    ∀ x ∈ Rfc.evalSel renv r s, Located doc x := by
  cases s with
  | keys => intro x hx; simp [Rfc.evalSel] at hx
  | filter e =>
    intro x hx
    simp only [Rfc.evalSel] at hx
    exact located_children doc hwf hr x (List.mem_filter.1 hx).1
  | name k => exact located_evalSel doc hwf renv hr _ rfl
  | index i => exact located_evalSel doc hwf renv hr _ rfl
  | slice a b c => exact located_evalSel doc hwf renv hr _ rfl
  | wild => exact located_evalSel doc hwf renv hr _ rfl

theorem located_evalSels_all (renv : Rfc.REnv) {r : Rfc.RNode} (hr : Located doc r) (sels : List Sel) :
    ∀ x ∈ Rfc.evalSels renv r sels, Located doc x := by
  induction sels with
  | nil => intro x hx; simp [Rfc.evalSels] at hx
  | cons s ss ih =>
    intro x hx
    simp only [Rfc.evalSels, List.mem_append] at hx
    rcases hx with hx | hx
    · exact located_evalSel_all doc hwf renv hr s x hx
    · exact ih x hx

theorem located_evalSegs_all (renv : Rfc.REnv) : ∀ (segs : List Seg) (rs : List Rfc.RNode)
    (_ : ∀ r ∈ rs, Located doc r), ∀ x ∈ Rfc.evalSegs renv segs rs, Located doc x
  | [], rs, hr => by simpa [Rfc.evalSegs] using hr
  | .child sels :: rest, rs, hr => by
    simp only [Rfc.evalSegs]
    refine located_evalSegs_all renv rest _ ?_
    intro x hx
    obtain ⟨r, hrm, hx⟩ := List.mem_flatMap.1 hx
    exact located_evalSels_all doc hwf renv (hr r hrm) sels x hx
  | .desc :: .child sels :: rest, rs, hr => by
    simp only [Rfc.evalSegs]
    refine located_evalSegs_all renv rest _ ?_
    intro x hx
    obtain ⟨r, hrm, hx⟩ := List.mem_flatMap.1 hx
    obtain ⟨d, hdm, hx⟩ := List.mem_flatMap.1 hx
    exact located_evalSels_all doc hwf renv (located_desc doc hwf (hr r hrm) d hdm) sels x hx
  | [.desc], rs, hr => by
    simp only [Rfc.evalSegs]
    intro x hx
    obtain ⟨r, hrm, hx⟩ := List.mem_flatMap.1 hx
    exact located_desc doc hwf (hr r hrm) x hx
  | .desc :: .desc :: rest, rs, hr => by
    rw [Rfc.evalSegs]
    · refine located_evalSegs_all renv (.desc :: rest) _ ?_
      intro x hx
      obtain ⟨r, hrm, hx⟩ := List.mem_flatMap.1 hx
      exact located_desc doc hwf (hr r hrm) x hx
    · intro sels rest' h; cases h

end

end JP.Lemmas.PathQuery
