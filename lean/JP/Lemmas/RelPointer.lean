/-
  Helper lemmas for C16 (Relative JSON Pointer). Statements used by JP/Props/C16.lean.
-/
import JP.RelPointer
import JP.Lemmas.Pointer
import JP.Lemmas.RelPointerAux2
namespace JP.Lemmas
open JP JP.Pointer JP.RelPointer

/-- Side conditions under which the text of a relative pointer is inside the modelled fragment:
    suffix tokens within the index limits and free of backslashes (with escape decoding on, a backslash
    in the *text* is an escape, not a character of the token), and origin/offset short enough for
    CPython's `int()`. Blank space at the end of the suffix is part of its last token. -/
structure RelOk (r : RelSpec) : Prop where
  tokRange : ∀ t ∈ r.suffix, TokInRange t
  noBackslash : ∀ t ∈ r.suffix, t.contains '\\' = false
  originShort : (natStr r.origin).length ≤ maxStrDigits
  offsetShort : (natStr r.offset.natAbs).length ≤ maxStrDigits

/-- Side conditions on a base pointer's tokens. -/
structure BaseOk (base : List Str) : Prop where
  tokRange : ∀ t ∈ base, TokInRange t
  noBackslash : ∀ t ∈ base, t.contains '\\' = false
  noNegative : ∀ t ∈ base, ∀ i, parseIndexToken t = some i → 0 ≤ i

/-- `JSONPointer(base).to(rel)` in the model. -/
def applyText (dec : EscDec) (ue : Bool) (relText baseText : Str) : Res (List Part) := do
  let rel ← RelPointer.parse dec ue relText
  let b ← Pointer.parse dec ue baseText
  applyTo dec ue rel b

theorem rel_print_parse (dec : EscDec) (ue : Bool) (r : RelSpec) (hok : RelOk r) :
    (RelPointer.parse dec ue (specText r)).map toStr = .ok (specText r) := by
  rw [parse_specText dec ue r hok.tokRange hok.noBackslash hok.originShort
    hok.offsetShort]
  show Except.ok (toStr _) = _
  rw [toStr_specText]

theorem rel_apply_spec (dec : EscDec) (ue : Bool) (r : RelSpec) (base : List Str)
    (hok : RelOk r) (hbase : BaseOk base) :
    match specApply r base with
    | some ts => (applyText dec ue (specText r) (spellTokens base)).map tokens = .ok ts
    | none => applyText dec ue (specText r) (spellTokens base) = .error .relIndex := by
  have happ : applyText dec ue (specText r) (spellTokens base) =
      applyTo dec ue ⟨r.origin, r.offset, sufOf r⟩ (base.map tokPart) := by
    unfold applyText
    rw [parse_specText dec ue r hok.tokRange hok.noBackslash hok.originShort
      hok.offsetShort,
      parse_spellTokens dec ue base hbase.tokRange
        (fun _ => spellTokens_no_backslash hbase.noBackslash)]
    rfl
  rw [happ, applyTo_tokPart dec ue r base hbase.noNegative]
  cases hs : specApply r base with
  | none => rfl
  | some ts =>
    simp only
    rw [fromParts_tokPart_noesc dec ts]
    show Except.ok (tokens _) = _
    rw [tokens_map_key]

/-- The same for a base pointer that exists already (parsed earlier, built from parts, the result of a previous
    application): its tokens may hold any characters, backslashes included - they are not decoded again. -/
theorem rel_apply_parts (dec : EscDec) (ue : Bool) (r : RelSpec) (base : List Str)
    (hneg : ∀ t ∈ base, ∀ i, parseIndexToken t = some i → 0 ≤ i) :
    applyTo dec ue ⟨r.origin, r.offset, sufOf r⟩ (base.map tokPart) =
      match specApply r base with
      | some ts => .ok (ts.map Part.key)
      | none => .error .relIndex := by
  rw [applyTo_tokPart dec ue r base hneg]
  cases specApply r base with
  | none => rfl
  | some ts => exact fromParts_tokPart_noesc dec ts

theorem rel_refusals (r : RelSpec) (base : List Str) :
    specApply r base = none ↔
      (r.origin > base.length ∨
       (r.offset ≠ 0 ∧ ∃ last, (base.take (base.length - r.origin)).getLast? = some last ∧
          isCanonNat last = true ∧ (digitsVal last : Int) + r.offset < 0) ∨
       (r.hash = true ∧ r.origin ≤ base.length ∧ base.take (base.length - r.origin) = [])) := by
  unfold specApply
  by_cases h1 : r.origin > base.length
  · simp [h1]
  · simp only [h1, if_false, false_or]
    have h1' : r.origin ≤ base.length := by omega
    generalize base.take (base.length - r.origin) = kept
    by_cases h2 : r.offset = 0
    · simp only [h2, if_true, ne_eq, not_true, false_and, false_or]
      cases hh : r.hash with
      | false => simp
      | true =>
        simp only [if_true, true_and, h1']
        cases hk : kept.getLast? with
        | none => simp [List.getLast?_eq_none_iff.mp hk]
        | some last =>
          simp
          intro e; subst e; simp at hk
    · simp only [h2, if_false, ne_eq, not_false_eq_true, true_and]
      cases hk : kept.getLast? with
      | none =>
        have : kept = [] := List.getLast?_eq_none_iff.mp hk
        subst this
        cases hh : r.hash <;> simp [h1']
      | some last =>
        have hne : kept ≠ [] := by intro e; subst e; simp at hk
        simp only [Option.some.injEq, exists_eq_left']
        by_cases hc : isCanonNat last = true
        · simp only [hc, if_true, true_and]
          by_cases hn : (digitsVal last : Int) + r.offset < 0
          · simp [hn]
          · simp only [hn, if_false, false_or]
            cases hh : r.hash with
            | false => simp
            | true =>
              simp [hne]
        · have hc' : isCanonNat last = false := by simpa using hc
          simp only [hc', Bool.false_eq_true, if_false, false_and, false_or]
          cases hh : r.hash with
          | false => simp
          | true => simp [hne, hk]

end JP.Lemmas
