/-
  Helper lemmas for C16 (Relative JSON Pointer). Statements used by JP/Props/C16.lean.
-/
import JP.RelPointer
import JP.Lemmas.Pointer
namespace JP.Lemmas
open JP JP.Pointer JP.RelPointer

/-- Side conditions under which the text of a relative pointer is inside the modelled fragment:
    suffix tokens within the index limits and free of backslashes, no trailing blank in the
    suffix text (the constructor strips it), and origin/offset short enough for CPython's `int()`. -/
structure RelOk (r : RelSpec) : Prop where
  tokRange : ∀ t ∈ r.suffix, TokInRange t
  noBackslash : ∀ t ∈ r.suffix, t.contains '\\' = false
  noTrailingBlank : strip (spellTokens r.suffix) = spellTokens r.suffix
  originShort : (natStr r.origin).length ≤ maxStrDigits
  offsetShort : (natStr r.offset.natAbs).length ≤ maxStrDigits

/-- Side conditions on a base pointer's tokens. -/
structure BaseOk (base : List Str) : Prop where
  tokRange : ∀ t ∈ base, TokInRange t
  noBackslash : ∀ t ∈ base, t.contains '\\' = false
  noNegative : ∀ t ∈ base, ∀ i, parseIndexToken t = some i → 0 ≤ i

/-- `JSONPointer(base).to(rel)` in the model. -/
def applyText (dec : EscDec) (ue : Bool) (relText baseText : Str) : Res (List Part) := do
  let rel ← RelPointer.parse dec ue relText
  let b ← Pointer.parse dec ue baseText
  applyTo dec ue rel b

theorem rel_print_parse (dec : EscDec) (ue : Bool) (r : RelSpec) (hok : RelOk r) :
    (RelPointer.parse dec ue (specText r)).map toStr = .ok (specText r) := by
  sorry

theorem rel_apply_spec (dec : EscDec) (ue : Bool) (r : RelSpec) (base : List Str)
    (hok : RelOk r) (hbase : BaseOk base) :
    match specApply r base with
    | some ts => (applyText dec ue (specText r) (spellTokens base)).map tokens = .ok ts
    | none => applyText dec ue (specText r) (spellTokens base) = .error .relIndex := by
  sorry

theorem rel_refusals (r : RelSpec) (base : List Str) :
    specApply r base = none ↔
      (r.origin > base.length ∨
       (r.offset ≠ 0 ∧ ∃ last, (base.take (base.length - r.origin)).getLast? = some last ∧
          isCanonNat last = true ∧ (digitsVal last : Int) + r.offset < 0) ∨
       (r.hash = true ∧ r.origin ≤ base.length ∧ base.take (base.length - r.origin) = [])) := by
  sorry

end JP.Lemmas
