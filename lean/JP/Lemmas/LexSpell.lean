/-
  The lexer reads the serializer's text back as the serializer's tokens under EVERY valid set of identifier
  spellings (generalisation of JP/Lemmas/LexPrint.lean from the default spellings).
-/
import JP.Lemmas.LexPrint
import JP.Lemmas.LexSpellAux4
namespace JP.Lemmas
open JP JP.Query JP.Surface JP.Lex

namespace LexSpell
open LexPrint

/-- a printed path is read as its tokens, in front of whatever may follow an expression -/
theorem ces_path {sp : Spell} (hv : ValidSpell sp = true) (uw : Char → Bool) (p : Path)
    (h : printableSegs p.segs = true) : CES sp uw (pstrPath sp p) (ptoksPath p) := by
  have hs := lexSegsS hv uw p.segs h
  obtain ⟨segs, fake⟩ := p
  cases fake
  · simp only [pstrPath, ptoksPath, Bool.false_eq_true, if_false]
    exact CES.query hv (emitS_root hv uw) (ok_root hv) hs
  · simp only [pstrPath, ptoksPath, if_true]
    exact CES.query hv (emitS_fakeRoot hv uw) (ok_fakeRoot hv) hs

/-- the ` | p` / ` & p` tail of a compound query -/
theorem tokzS_tail {sp : Spell} (hv : ValidSpell sp = true) (uw : Char → Bool) (l : List (Bool × Path))
    (hl : ∀ x ∈ l, printableSegs x.2.segs = true) :
    TokzS sp uw (l.map fun (u, p) => ' ' :: (if u then sp.union else sp.inter) ++ ' ' :: pstrPath sp p).flatten
        (l.map fun (u, p) => (if u then CTok.union else CTok.inter) :: (ptoksPath p).map CTok.tok).flatten ∧
      safe (l.map fun (u, p) => ' ' :: (if u then sp.union else sp.inter) ++ ' ' :: pstrPath sp p).flatten = true := by
  induction l with
  | nil => exact ⟨TokzS.nil sp uw, rfl⟩
  | cons x l ih =>
    obtain ⟨u, p⟩ := x
    obtain ⟨ht, hs⟩ := ih (fun y hy => hl y (by simp [hy]))
    have hp := ces_path hv uw p (hl (u, p) (by simp))
    have a1 := hp.2 _ _ hs ht
    have a2 := TokzS.blank hv (nb_of_ehS (ehS_append hp.1 _)) a1
    simp only [List.map_cons, List.flatten_cons]
    cases u
    · have a3 := TokzS.one hv (emitS_inter hv uw) (rfl : stops safeChar (' ' :: _) = true) a2
      have hn := nb_ident (ok_inter hv) (' ' :: (pstrPath sp p ++
          (l.map fun (u, p) => ' ' :: (if u then sp.union else sp.inter) ++ ' ' :: pstrPath sp p).flatten))
      have a4 := TokzS.blank hv hn a3
      refine ⟨?_, ?_⟩
      · simpa [List.append_assoc] using a4
      · simpa [List.append_assoc] using safe_blank hn
    · have a3 := TokzS.one hv (emitS_union hv uw) (rfl : stops safeChar (' ' :: _) = true) a2
      have hn := nb_ident (ok_union hv) (' ' :: (pstrPath sp p ++
          (l.map fun (u, p) => ' ' :: (if u then sp.union else sp.inter) ++ ' ' :: pstrPath sp p).flatten))
      have a4 := TokzS.blank hv hn a3
      refine ⟨?_, ?_⟩
      · simpa [List.append_assoc] using a4
      · simpa [List.append_assoc] using safe_blank hn

end LexSpell

open LexSpell in
theorem tokenize_pstrPath_spell (uw : Char → Bool) (sp : Spell) (hv : ValidSpell sp = true) (p : Path)
    (h : printableSegs p.segs = true) :
    tokenize ⟨sp, uw⟩ (pstrPath sp p) = .ok ((ptoksPath p).map CTok.tok) := by
  have := (ces_path hv uw p h).2 [] [] rfl (TokzS.nil sp uw)
  simp only [List.append_nil] at this
  exact tokenize_of_TokzS this

open LexSpell in
theorem tokenize_pstrCompound_spell (uw : Char → Bool) (sp : Spell) (hv : ValidSpell sp = true) (c : Compound)
    (h0 : printableSegs c.first.segs = true) (hr : ∀ x ∈ c.rest, printableSegs x.2.segs = true) :
    tokenize ⟨sp, uw⟩ (pstrCompound sp c) = .ok (ptoksCompound c) := by
  obtain ⟨ht, hs⟩ := tokzS_tail hv uw c.rest hr
  exact tokenize_of_TokzS ((ces_path hv uw c.first h0).2 _ _ hs ht)

/-- compiling, in an environment with spellings `sp`, the text that environment prints gives the query back -/
theorem compileText_pstrPath_spell (pr : Prec) (hpr : precOK pr = true) (uw : Char → Bool) (sp : Spell)
    (hv : ValidSpell sp = true) (p : Path) (hp : parsedSegs p.segs = true) (h : printableSegs p.segs = true) :
    compileText pr ⟨sp, uw⟩ (pstrPath sp p) = some ⟨normSegs p.segs, p.fake⟩ := by
  unfold compileText
  rw [tokenize_pstrPath_spell uw sp hv p h]
  simp only [plainToks_map]
  rw [parse_ptoks pr hpr p hp]

end JP.Lemmas
