/-
  Auxiliary lemmas for C16 (Relative JSON Pointer): `to` (`applyTo`) stage by stage against
  the draft's evaluation on reference tokens.
-/
import JP.Lemmas.RelPointerAux
namespace JP.Lemmas
open JP JP.Pointer JP.RelPointer


theorem fromParts_tokPart (dec : EscDec) (ue : Bool) (ts : List Str)
    (h : ∀ t ∈ ts, t.contains '\\' = false) :
    fromParts dec ue (ts.map tokPart) = .ok (ts.map Part.key) := by
  unfold fromParts
  rw [mapM_ok _ (fun p => Part.key (partStr p))]
  · simp only [List.map_map]
    congr 1
    apply List.map_congr_left
    intro t _
    simp [partStr_tokPart]
  · intro p hp
    obtain ⟨t, ht, rfl⟩ := List.mem_map.mp hp
    rw [partStr_tokPart]
    cases ue with
    | false => rfl
    | true =>
      simp only [if_true]
      rw [unicodeEscape_of_no_backslash dec (h t ht)]
      rfl

/-- parts that are not decoded again come back as they are, whatever characters they hold -/
theorem fromParts_tokPart_noesc (dec : EscDec) (ts : List Str) :
    fromParts dec false (ts.map tokPart) = .ok (ts.map Part.key) := by
  unfold fromParts
  rw [mapM_ok _ (fun p => Part.key (partStr p))]
  · simp only [List.map_map]
    congr 1
    apply List.map_congr_left
    intro t _
    simp [partStr_tokPart]
  · intro p hp
    obtain ⟨t, ht, rfl⟩ := List.mem_map.mp hp
    rw [partStr_tokPart]
    rfl

theorem tokens_map_key (ts : List Str) : tokens (ts.map Part.key) = ts := by
  unfold tokens
  simp only [List.map_map]
  conv => rhs; rw [← List.map_id ts]
  apply List.map_congr_left
  intro t _; rfl

theorem tokPart_hash (t : Str) : tokPart ('#' :: t) = .key ('#' :: t) := by
  have : parseIndexToken ('#' :: t) = none := by
    rw [parseIndexToken_of_not_dash (by simp)]
    have : isCanonNat ('#' :: t) = false := by
      cases hh : isCanonNat ('#' :: t) with
      | false => rfl
      | true =>
        have := isCanonNat_all_digits hh '#' (by simp)
        revert this; decide
    simp [this]
  simp [tokPart, this]

/-- The offset stage of `to`. -/
def offStage (index : Int) (parts : List Part) : Res (List Part) :=
  if index ≠ 0 then
    match parts.getLast? with
    | some last =>
      match intLike last with
      | some i =>
        if i + index < 0 then throw .relIndex
        else pure (parts.dropLast ++ [Part.idx (i + index)])
      | none => pure parts
    | none => pure parts
  else pure parts

/-- The suffix stage of `to`. -/
def sufStage (suffix : Suffix) (parts : List Part) : Res (List Part) :=
  match suffix with
  | .ptr ps => pure (parts ++ ps)
  | .hash =>
    match parts.getLast? with
    | none => throw .relIndex
    | some last => pure (parts.dropLast ++ [Part.key ('#' :: partStr last)])

theorem applyTo_eq (dec : EscDec) (ue : Bool) (r : Rel) (base : List Part) :
    applyTo dec ue r base =
      if r.origin > base.length then .error .relIndex
      else
        offStage r.index (base.take (base.length - r.origin)) >>= fun p1 =>
        sufStage r.suffix p1 >>= fun p2 => fromParts dec false p2 := by
  unfold applyTo offStage sufStage
  by_cases h : r.origin > base.length
  · simp only [h, if_true]; rfl
  · simp only [h, if_false]
    have : (if r.origin < 1 then base else base.take (base.length - r.origin)) = base.take (base.length - r.origin) := by
      split
      · have : r.origin = 0 := by omega
        simp [this]
      · rfl
    rw [this]
    generalize base.take (base.length - r.origin) = kept
    obtain ⟨origin, index, suffix⟩ := r
    simp only [pure_bind]
    cases suffix with
    | ptr ps =>
      simp only
      by_cases hi : index = 0
      · simp only [hi, ne_eq, not_true, if_false]; rfl
      · simp only [ne_eq, hi, not_false_eq_true, if_true]
        cases kept.getLast? with
        | none => rfl
        | some last =>
          simp only
          cases intLike last with
          | none => rfl
          | some i =>
            simp only
            by_cases hn : i + index < 0
            · simp only [hn, if_true]; rfl
            · simp only [hn, if_false]; rfl
    | hash =>
      simp only
      by_cases hi : index = 0
      · simp only [hi, ne_eq, not_true, if_false, pure_bind]
        cases kept.getLast? <;> rfl
      · simp only [ne_eq, hi, not_false_eq_true, if_true]
        cases hk : kept.getLast? with
        | none => simp only [pure_bind, hk]
        | some last =>
          simp only
          cases intLike last with
          | none => simp only [pure_bind, hk]
          | some i =>
            simp only
            by_cases hn : i + index < 0
            · simp only [hn, if_true]; rfl
            · simp only [hn, if_false, pure_bind]
              cases (kept.dropLast ++ [Part.idx (i + index)]).getLast? <;> rfl


/-! ## The draft's evaluation, stage by stage -/


/-- The offset step of the draft's evaluation. -/
def specOff (offset : Int) (kept : List Str) : Option (List Str) :=
  if offset = 0 then some kept
  else match kept.getLast? with
    | none => some kept
    | some last =>
      if isCanonNat last then
        let n : Int := (digitsVal last : Int) + offset
        if n < 0 then none else some (kept.dropLast ++ [natStr n.toNat])
      else some kept

/-- The suffix step of the draft's evaluation. -/
def specSuf (r : RelSpec) (kept : List Str) : Option (List Str) :=
  if r.hash then
    match kept.getLast? with
    | none => none
    | some last => some (kept.dropLast ++ ['#' :: last])
  else some (kept ++ r.suffix)

theorem specApply_eq (r : RelSpec) (base : List Str) :
    specApply r base =
      if r.origin > base.length then none
      else (specOff r.offset (base.take (base.length - r.origin))).bind (specSuf r) := by
  unfold specApply specOff specSuf
  split
  · rfl
  · generalize base.take (base.length - r.origin) = kept
    by_cases h0 : r.offset = 0
    · simp only [h0, if_true]; rfl
    · simp only [h0, if_false]
      cases kept.getLast? with
      | none => rfl
      | some last =>
        simp only
        cases isCanonNat last with
        | false => rfl
        | true =>
          simp only [if_true]
          by_cases hn : (digitsVal last : Int) + r.offset < 0
          · simp only [hn, if_true]; rfl
          · simp only [hn, if_false]; rfl

theorem offStage_tokPart (offset : Int) (kept : List Str)
    (hneg : ∀ t ∈ kept, ∀ i, parseIndexToken t = some i → 0 ≤ i) :
    offStage offset (kept.map tokPart) =
      match specOff offset kept with
      | some k => .ok (k.map tokPart)
      | none => .error .relIndex := by
  unfold offStage specOff
  by_cases h0 : offset = 0
  · simp only [h0, ne_eq, not_true, if_false, if_true]; rfl
  · simp only [ne_eq, h0, not_false_eq_true, if_true, if_false, List.getLast?_map]
    cases hk : kept.getLast? with
    | none => rfl
    | some last =>
      simp only [Option.map_some]
      have hmem : last ∈ kept := List.mem_of_getLast? hk
      cases hp : parseIndexToken last with
      | none =>
        have h1 : tokPart last = .key last := by simp [tokPart, hp]
        have h2 : intLike (.key last) = none := by simp [intLike, hp]
        rw [h1, h2, isCanonNat_false_of_parseIndexToken_none hp]
        simp only [Bool.false_eq_true, if_false]
        rfl
      | some i =>
        obtain ⟨hc, hv, _⟩ := canon_of_parseIndexToken_nonneg hp (hneg last hmem i hp)
        have h1 : tokPart last = .idx i := by simp [tokPart, hp]
        have h2 : intLike (.idx i) = some i := rfl
        rw [h1, h2, hc, ← hv]
        simp only [if_true]
        by_cases hn : i + offset < 0
        · simp only [hn, if_true]; rfl
        · simp only [hn, if_false]
          have : Part.idx (i + offset) = tokPart (natStr (i + offset).toNat) := by
            rw [tokPart_natStr]; congr 1; omega
          rw [this, List.map_append, List.map_dropLast]
          rfl

theorem sufStage_tokPart (r : RelSpec) (kept : List Str) :
    sufStage (sufOf r) (kept.map tokPart) =
      match specSuf r kept with
      | some k => .ok (k.map tokPart)
      | none => .error .relIndex := by
  unfold sufStage sufOf specSuf
  cases r.hash with
  | false =>
    simp only [Bool.false_eq_true, if_false, List.map_append]; rfl
  | true =>
    simp only [if_true, List.getLast?_map]
    cases hk : kept.getLast? with
    | none => rfl
    | some last =>
      simp only [Option.map_some, partStr_tokPart, List.map_append, List.map_dropLast,
        List.map_cons, List.map_nil, tokPart_hash]
      rfl

theorem applyTo_tokPart (dec : EscDec) (ue : Bool) (r : RelSpec) (base : List Str)
    (hneg : ∀ t ∈ base, ∀ i, parseIndexToken t = some i → 0 ≤ i) :
    applyTo dec ue ⟨r.origin, r.offset, sufOf r⟩ (base.map tokPart) =
      match specApply r base with
      | some ts => fromParts dec false (ts.map tokPart)
      | none => .error .relIndex := by
  rw [applyTo_eq, specApply_eq]
  simp only [List.length_map]
  by_cases h : r.origin > base.length
  · simp only [h, if_true]
  · simp only [h, if_false, ← List.map_take]
    rw [offStage_tokPart _ _ (fun t ht => hneg t (List.mem_of_mem_take ht))]
    cases specOff r.offset (base.take (base.length - r.origin)) with
    | none => rfl
    | some k =>
      simp only [Option.bind_some]
      show (sufStage (sufOf r) (k.map tokPart) >>= fun p2 => fromParts dec false p2) = _
      rw [sufStage_tokPart]
      cases specSuf r k <;> rfl


/-! ## No backslash in the draft's result -/


theorem natStr_no_backslash (n : Nat) : (natStr n).contains '\\' = false := by
  rw [contains_false_iff]
  intro hm
  have := natStr_all_digits n _ hm
  revert this; decide

theorem specOff_no_backslash {offset : Int} {kept k : List Str}
    (h : specOff offset kept = some k) (hb : ∀ t ∈ kept, t.contains '\\' = false) :
    ∀ t ∈ k, t.contains '\\' = false := by
  unfold specOff at h
  split at h
  · cases h; exact hb
  · split at h
    · cases h; exact hb
    · split at h
      · simp only at h
        split at h
        · cases h
        · cases h
          intro t ht
          rcases List.mem_append.mp ht with h1 | h1
          · exact hb t (List.dropLast_subset _ h1)
          · simp only [List.mem_singleton] at h1
            subst h1
            exact natStr_no_backslash _
      · cases h; exact hb

theorem specSuf_no_backslash {r : RelSpec} {kept k : List Str}
    (h : specSuf r kept = some k) (hb : ∀ t ∈ kept, t.contains '\\' = false)
    (hs : ∀ t ∈ r.suffix, t.contains '\\' = false) :
    ∀ t ∈ k, t.contains '\\' = false := by
  unfold specSuf at h
  split at h
  · split at h
    · cases h
    · rename_i last hk
      cases h
      intro t ht
      rcases List.mem_append.mp ht with h1 | h1
      · exact hb t (List.dropLast_subset _ h1)
      · simp only [List.mem_singleton] at h1
        subst h1
        have := hb last (List.mem_of_getLast? hk)
        rw [contains_false_iff] at this ⊢
        intro hm
        rcases List.mem_cons.mp hm with h2 | h2
        · revert h2; decide
        · exact this h2
  · cases h
    intro t ht
    rcases List.mem_append.mp ht with h1 | h1
    · exact hb t h1
    · exact hs t h1

theorem specApply_no_backslash {r : RelSpec} {base ts : List Str}
    (h : specApply r base = some ts) (hb : ∀ t ∈ base, t.contains '\\' = false)
    (hs : ∀ t ∈ r.suffix, t.contains '\\' = false) :
    ∀ t ∈ ts, t.contains '\\' = false := by
  rw [specApply_eq] at h
  split at h
  · cases h
  · cases hk : specOff r.offset (base.take (base.length - r.origin)) with
    | none => rw [hk] at h; cases h
    | some k =>
      rw [hk] at h
      simp only [Option.bind_some] at h
      exact specSuf_no_backslash h
        (specOff_no_backslash hk (fun t ht => hb t (List.mem_of_mem_take ht))) hs


end JP.Lemmas
