/-
  Helper lemmas for C03 (match locations) and C20 (match -> pointer -> patch). Statements used by
  JP/Props/C03.lean and JP/Props/C20.lean.
-/
import JP.Lemmas.LocDefs
import JP.Lemmas.Query
import JP.Lemmas.Pointer
import JP.Lemmas.Patch
import JP.Lemmas.LocateAux1
import JP.Lemmas.LocateAux2
import JP.Lemmas.LocateAux3
import JP.Lemmas.LocateAux4
import JP.Lemmas.LocateAux5
import JP.Lemmas.LocateAux6
import JP.Lemmas.LocateAux7
namespace JP.Lemmas
open JP JP.Query JP.Pointer JP.Patch

/- `hwf` (unique member names, as `json.loads` produces) is needed: with duplicate member names a
   location `loc` is ambiguous (`locValue` reads the first member of that name, a wildcard visits all). -/
theorem match_located (rx : Rx) (segs : List Seg) (doc extra : J) (hwf : doc.wf = true)
    (hp : plainSegs segs = true) (hw : Rfc.wellFormedSegs segs = true) :
    ∀ n ∈ finditer rx ⟨segs, false⟩ doc extra,
      ∃ loc, n.parts = locParts loc ∧ n.path = Rfc.normalizedPath loc ∧ locValue doc loc = some n.val :=
  match_located_wf rx segs doc extra hwf hp hw

theorem normalizedPath_injective (a b : List Rfc.LStep)
    (h : Rfc.normalizedPath a = Rfc.normalizedPath b) : a = b :=
  normalizedPath_inj h

theorem locParts_injective (a b : List Rfc.LStep) (h : locParts a = locParts b) : a = b :=
  locParts_inj h

theorem parent_location (doc v : J) (loc : List Rfc.LStep) (s : Rfc.LStep)
    (h : locValue doc (loc ++ [s]) = some v) :
    ∃ p, locValue doc loc = some p ∧ p.isContainer = true ∧ locValue p [s] = some v :=
  parent_location_aux doc v loc s h

theorem pointer_of_location (doc v : J) (loc : List Rfc.LStep) (h : locValue doc loc = some v) :
    resolveParts doc (locParts loc) = .ok v :=
  pointer_of_location_aux doc v loc h

theorem encode_locParts (loc : List Rfc.LStep) :
    encode (locParts loc) = spell (loc.map (fun s => match s with | .name k => Step.name k | .index n => Step.index n)) := by
  rw [encode_locParts_aux]
  congr 1

theorem pointer_string_of_location (dec : EscDec) (ue : Bool) (doc v : J) (loc : List Rfc.LStep)
    (h : locValue doc loc = some v)
    (hr : ∀ s ∈ loc, StepInRange (match s with | .name k => Step.name k | .index n => Step.index n))
    (hb : ue = true → (encode (locParts loc)).contains '\\' = false) :
    resolveText dec ue (encode (locParts loc)) doc = .ok v := by
  refine pointer_string_of_location_aux dec ue doc v loc h ?_ hb
  intro s hs
  rw [← ptrStep_eq]
  exact hr s hs

theorem edit_test (doc v : J) (loc : List Rfc.LStep) (hwf : doc.wf = true)
    (h : locValue doc loc = some v) :
    Patch.apply [.test (locParts loc) v] doc = .ok doc :=
  edit_test_aux doc v loc hwf h

theorem edit_replace (doc v w : J) (loc : List Rfc.LStep) (h : locValue doc loc = some v) :
    ∃ d, setAt doc loc w = some d ∧ Patch.apply [.replace (locParts loc) w] doc = .ok d :=
  edit_replace_aux doc v w loc h

theorem setAt_spec (doc w d : J) (loc : List Rfc.LStep) (h : setAt doc loc w = some d) :
    locValue d loc = some w ∧ ∀ loc', ¬ Related loc loc' → locValue d loc' = locValue doc loc' :=
  setAt_spec_aux doc w d loc h

theorem edit_remove (doc v : J) (loc : List Rfc.LStep) (hne : loc ≠ []) (h : locValue doc loc = some v) :
    ∃ d, eraseAt doc loc = some d ∧ Patch.apply [.remove (locParts loc)] doc = .ok d :=
  edit_remove_aux doc v loc hne h

theorem eraseAt_member_spec (doc d : J) (loc : List Rfc.LStep) (k : Str)
    (h : eraseAt doc (loc ++ [.name k]) = some d) (hwf : doc.wf = true) :
    locValue d (loc ++ [.name k]) = none ∧
    ∀ loc', ¬ Related (loc ++ [.name k]) loc' → locValue d loc' = locValue doc loc' :=
  eraseAt_member_spec_aux doc d loc k h hwf

theorem eraseAt_element_spec (doc d : J) (loc : List Rfc.LStep) (n : Nat)
    (h : eraseAt doc (loc ++ [.index n]) = some d) :
    (∀ loc', ¬ Related loc loc' → locValue d loc' = locValue doc loc') ∧
    (∀ m rest, m < n → locValue d (loc ++ .index m :: rest) = locValue doc (loc ++ .index m :: rest)) ∧
    (∀ m rest, n ≤ m → locValue d (loc ++ .index m :: rest) = locValue doc (loc ++ .index (m + 1) :: rest)) :=
  eraseAt_element_spec_aux doc d loc n h

end JP.Lemmas
