/-
  General lemmas about the Python `str` helpers of the model: splitOn / joinWith /
  replaceChar / replace2 / lstrip, and the pointer token escaping escapeTok / unescapeTok.
-/
import JP.Pointer
namespace JP.Lemmas
open JP JP.Pointer

/-! ## splitOn / joinWith -/

theorem splitOn_ne_nil (sep : Char) (s : Str) : splitOn sep s ≠ [] := by
  induction s with
  | nil => simp [splitOn]
  | cons c cs ih =>
    unfold splitOn
    split
    · simp
    · split <;> simp

@[simp] theorem splitOn_nil (sep : Char) : splitOn sep [] = [[]] := rfl

theorem splitOn_cons_sep (sep : Char) (cs : Str) : splitOn sep (sep :: cs) = [] :: splitOn sep cs := by
  simp [splitOn]

theorem splitOn_cons_ne {sep c : Char} (h : c ≠ sep) (cs : Str) :
    splitOn sep (c :: cs) =
      ((splitOn sep cs).headD [] |> (c :: ·)) :: (splitOn sep cs).tail := by
  rw [splitOn, if_neg h]
  split
  · rename_i heq; exact absurd heq (splitOn_ne_nil sep cs)
  · rename_i p ps heq; simp [heq]

/-- A string without the separator is a single piece. -/
theorem splitOn_of_not_mem {sep : Char} {a : Str} (h : sep ∉ a) : splitOn sep a = [a] := by
  induction a with
  | nil => rfl
  | cons c cs ih =>
    have hc : c ≠ sep := fun e => h (by simp [e])
    have hcs : sep ∉ cs := fun e => h (by simp [e])
    rw [splitOn_cons_ne hc, ih hcs]; rfl

/-- The first piece ends at the first separator. -/
theorem splitOn_append_sep {sep : Char} {a : Str} (h : sep ∉ a) (b : Str) :
    splitOn sep (a ++ sep :: b) = a :: splitOn sep b := by
  induction a with
  | nil => simp [splitOn_cons_sep]
  | cons c cs ih =>
    have hc : c ≠ sep := fun e => h (by simp [e])
    have hcs : sep ∉ cs := fun e => h (by simp [e])
    rw [List.cons_append, splitOn_cons_ne hc, ih hcs]; rfl

/-- Splitting a text made of separator-prefixed, separator-free pieces. -/
theorem splitOn_append_flatMap {α} {sep : Char} (f : α → Str) (ts : List α)
    (hf : ∀ t ∈ ts, sep ∉ f t) :
    ∀ a : Str, sep ∉ a →
      splitOn sep (a ++ ts.flatMap (fun t => sep :: f t)) = a :: ts.map f := by
  induction ts with
  | nil => intro a ha; simp [splitOn_of_not_mem ha]
  | cons t ts ih =>
    intro a ha
    rw [List.flatMap_cons, List.cons_append, splitOn_append_sep ha,
      ih (fun x hx => hf x (by simp [hx])) (f t) (hf t (by simp))]
    rfl

theorem splitOn_flatMap_tail {α} {sep : Char} (f : α → Str) (ts : List α)
    (hf : ∀ t ∈ ts, sep ∉ f t) :
    (splitOn sep (ts.flatMap (fun t => sep :: f t))).tail = ts.map f := by
  cases ts with
  | nil => rfl
  | cons t ts =>
    rw [List.flatMap_cons, List.cons_append, splitOn_cons_sep, List.tail_cons]
    exact splitOn_append_flatMap f ts (fun x hx => hf x (by simp [hx])) (f t) (hf t (by simp))

/-- `sep.join(s.split(sep)) = s` -/
theorem joinWith_splitOn (sep : Char) (s : Str) : joinWith sep (splitOn sep s) = s := by
  induction s with
  | nil => rfl
  | cons c cs ih =>
    by_cases hc : c = sep
    · subst hc
      rw [splitOn_cons_sep]
      cases hsp : splitOn c cs with
      | nil => exact absurd hsp (splitOn_ne_nil _ _)
      | cons p ps => rw [hsp] at ih; simp [joinWith, ih]
    · rw [splitOn_cons_ne hc]
      cases hsp : splitOn sep cs with
      | nil => exact absurd hsp (splitOn_ne_nil _ _)
      | cons p ps =>
        rw [hsp] at ih
        cases ps with
        | nil => simp [joinWith] at ih ⊢; exact ih
        | cons q qs => simp [joinWith] at ih ⊢; exact ih

/-- No piece of a split contains the separator. -/
theorem not_mem_of_mem_splitOn {sep : Char} {s p : Str} (h : p ∈ splitOn sep s) : sep ∉ p := by
  induction s generalizing p with
  | nil => simp at h; subst h; simp
  | cons c cs ih =>
    by_cases hc : c = sep
    · subst hc
      rw [splitOn_cons_sep] at h
      rcases List.mem_cons.mp h with rfl | h
      · simp
      · exact ih h
    · rw [splitOn_cons_ne hc] at h
      cases hsp : splitOn sep cs with
      | nil => exact absurd hsp (splitOn_ne_nil _ _)
      | cons q qs =>
        rw [hsp] at h ih
        rcases List.mem_cons.mp h with rfl | h
        · have := ih (p := q) (by simp)
          simp only [List.headD_cons, List.mem_cons, not_or]
          exact ⟨fun e => hc e.symm, this⟩
        · exact ih (by simp at h; simp [h])

/-! ## replaceChar -/

@[simp] theorem replaceChar_nil (c : Char) (r : Str) : replaceChar c r [] = [] := rfl

theorem replaceChar_cons (c : Char) (r : Str) (x : Char) (s : Str) :
    replaceChar c r (x :: s) = (if x = c then r else [x]) ++ replaceChar c r s := by
  simp [replaceChar]

theorem replaceChar_append (c : Char) (r : Str) (s t : Str) :
    replaceChar c r (s ++ t) = replaceChar c r s ++ replaceChar c r t := by
  simp [replaceChar]

/-- After `s.replace(c, r)` with `c` not in `r`, no `c` is left. -/
theorem not_mem_replaceChar {c : Char} {r : Str} (hr : c ∉ r) (s : Str) : c ∉ replaceChar c r s := by
  induction s with
  | nil => simp
  | cons x s ih =>
    rw [replaceChar_cons]
    by_cases hx : x = c
    · simp [hx, hr, ih]
    · simp [hx, ih]; exact fun e => hx e.symm

theorem replaceChar_of_not_mem {c : Char} {r : Str} {s : Str} (h : c ∉ s) : replaceChar c r s = s := by
  induction s with
  | nil => rfl
  | cons x s ih =>
    have hx : x ≠ c := fun e => h (by simp [e])
    rw [replaceChar_cons, if_neg hx, ih (fun e => h (by simp [e]))]; rfl

/-! ## replace2 -/

@[simp] theorem replace2_nil (a b r : Char) : replace2 a b r [] = [] := rfl

theorem replace2Aux_false_cons_ne {a b r x : Char} (h : x ≠ a) (s : Str) :
    replace2Aux a b r false (x :: s) = x :: replace2Aux a b r false s := by
  simp [replace2Aux, h]

theorem replace2Aux_false_pair {a b r : Char} (s : Str) :
    replace2Aux a b r false (a :: b :: s) = r :: replace2Aux a b r false s := by
  simp [replace2Aux]

theorem replace2Aux_false_pair_ne {a b r y : Char} (hb : y ≠ b) (ha : y ≠ a) (s : Str) :
    replace2Aux a b r false (a :: y :: s) = a :: y :: replace2Aux a b r false s := by
  simp [replace2Aux, hb, ha]

/-- A text without the first pattern character is unchanged. -/
theorem replace2_of_not_mem {a b r : Char} {s : Str} (h : a ∉ s) : replace2 a b r s = s := by
  unfold replace2
  induction s with
  | nil => rfl
  | cons x s ih =>
    have hx : x ≠ a := fun e => h (by simp [e])
    rw [replace2Aux_false_cons_ne hx, ih (fun e => h (by simp [e]))]

/-! ## Pointer token escaping -/

/-- An escaped reference token contains no `/`. -/
theorem escapeTok_no_slash (t : Str) : '/' ∉ escapeTok t :=
  not_mem_replaceChar (by decide) _

theorem escapeTok_cons (c : Char) (t : Str) :
    escapeTok (c :: t) =
      (if c = '~' then ['~', '0'] else if c = '/' then ['~', '1'] else [c]) ++ escapeTok t := by
  unfold escapeTok
  rw [replaceChar_cons, replaceChar_append]
  congr 1
  by_cases h1 : c = '~'
  · subst h1; decide
  · by_cases h2 : c = '/'
    · subst h2; decide
    · simp [h1, h2, replaceChar_cons]

@[simp] theorem escapeTok_nil : escapeTok [] = [] := rfl

/-- Undoing the `/` escape gives back the `~`-escaped text. -/
theorem replace2_slash_escapeTok (t : Str) :
    replace2 '~' '1' '/' (escapeTok t) = replaceChar '~' ['~', '0'] t := by
  unfold replace2
  induction t with
  | nil => rfl
  | cons c t ih =>
    rw [escapeTok_cons, replaceChar_cons]
    by_cases h1 : c = '~'
    · subst h1
      simp only [if_true, List.cons_append, List.nil_append]
      rw [replace2Aux_false_pair_ne (by decide) (by decide), ih]
    · by_cases h2 : c = '/'
      · subst h2
        simp only [if_neg h1, if_true, List.cons_append, List.nil_append]
        rw [replace2Aux_false_pair, ih]
      · simp only [if_neg h1, if_neg h2, List.cons_append, List.nil_append]
        rw [replace2Aux_false_cons_ne h1, ih]

/-- Undoing the `~` escape. -/
theorem replace2_tilde_replaceChar (t : Str) :
    replace2 '~' '0' '~' (replaceChar '~' ['~', '0'] t) = t := by
  unfold replace2
  induction t with
  | nil => rfl
  | cons c t ih =>
    rw [replaceChar_cons]
    by_cases h1 : c = '~'
    · subst h1
      simp only [if_true, List.cons_append, List.nil_append]
      rw [replace2Aux_false_pair, ih]
    · simp only [if_neg h1, List.cons_append, List.nil_append]
      rw [replace2Aux_false_cons_ne h1, ih]

/-- RFC 6901 unescaping inverts escaping, for every token. -/
theorem unescapeTok_escapeTok (t : Str) : unescapeTok (escapeTok t) = t := by
  unfold unescapeTok
  rw [replace2_slash_escapeTok, replace2_tilde_replaceChar]

/-- A token without `~` is its own unescaped form. -/
theorem unescapeTok_of_no_tilde {t : Str} (h : '~' ∉ t) : unescapeTok t = t := by
  unfold unescapeTok
  rw [replace2_of_not_mem h, replace2_of_not_mem h]

/-! ## lstrip -/

theorem lstrip_cons_of_not_blank {c : Char} (h : isPyBlank c = false) (cs : Str) :
    lstrip (c :: cs) = c :: cs := by
  simp [lstrip, h]

theorem lstrip_slash (cs : Str) : lstrip ('/' :: cs) = '/' :: cs :=
  lstrip_cons_of_not_blank (by decide) cs

@[simp] theorem lstrip_nil : lstrip [] = [] := rfl

/-! ## unicodeEscape fast path -/

theorem unicodeEscape_of_no_backslash (dec : EscDec) {s : Str} (h : s.contains '\\' = false) :
    unicodeEscape dec s = .ok s := by
  unfold unicodeEscape
  rw [h]
  rfl

end JP.Lemmas
