/-
  General lemmas about decimal text: natStr / intStr / isCanonNat / digitsVal /
  parseIndexToken / Pointer.indexOf.
-/
import JP.Pointer
namespace JP.Lemmas
open JP JP.Pointer

/-! ## Single digits -/

theorem digit_toNat_bounds {c : Char} (h : c.isDigit = true) : 48 ≤ c.toNat ∧ c.toNat ≤ 57 := by
  have := Char.isDigit_iff_toNat.mp h
  simpa using this

theorem digitChar_toNat_sub {c : Char} (h : c.isDigit = true) : Nat.digitChar (c.toNat - 48) = c := by
  have hb := digit_toNat_bounds h
  have hc : c = Char.ofNat c.toNat := by simp
  rw [hc]
  generalize c.toNat = n at *
  have : n = 48 ∨ n = 49 ∨ n = 50 ∨ n = 51 ∨ n = 52 ∨ n = 53 ∨ n = 54 ∨ n = 55 ∨ n = 56 ∨ n = 57 := by
    omega
  rcases this with rfl | rfl | rfl | rfl | rfl | rfl | rfl | rfl | rfl | rfl <;> decide

theorem digit_ne_zero_pos {c : Char} (h : c.isDigit = true) (h0 : c ≠ '0') : 0 < c.toNat - 48 := by
  have hb := digit_toNat_bounds h
  have : c.toNat ≠ 48 := by
    intro h48
    apply h0
    have hc : c = Char.ofNat c.toNat := by simp
    rw [hc, h48]
  omega

theorem dash_not_digit : Char.isDigit '-' = false := by decide

/-! ## print ∘ parse on digit strings -/

/-- Appending digits to a positive accumulator. -/
theorem toDigits_ofDigitChars_acc (cs : Str) (hd : ∀ c ∈ cs, c.isDigit = true) :
    ∀ n, 0 < n → Nat.toDigits 10 (Nat.ofDigitChars 10 cs n) = Nat.toDigits 10 n ++ cs := by
  induction cs with
  | nil => intro n _; simp
  | cons c cs ih =>
    intro n hn
    have hc : c.isDigit = true := hd c (by simp)
    have hb := digit_toNat_bounds hc
    rw [Nat.ofDigitChars_cons]
    have h0 : ('0' : Char).toNat = 48 := by decide
    rw [h0, ih (fun x hx => hd x (by simp [hx])) _ (by omega)]
    rw [← Nat.toDigits_append_toDigits (by decide) hn (by omega)]
    rw [Nat.toDigits_of_lt_base (n := c.toNat - 48) (b := 10) (by omega), digitChar_toNat_sub hc]
    simp

theorem isCanonNat_cons_iff {c : Char} {cs : Str} : isCanonNat (c :: cs) = true ↔
    (c = '0' ∧ cs = []) ∨ (c ≠ '0' ∧ c.isDigit = true ∧ ∀ x ∈ cs, x.isDigit = true) := by
  by_cases hc : c = '0'
  · subst hc
    cases cs with
    | nil => simp [isCanonNat]
    | cons d ds => simp [isCanonNat]
  · have : isCanonNat (c :: cs) = (c != '0' && isAsciiDigit c && cs.all isAsciiDigit) := by
      unfold isCanonNat
      split
      · simp_all
      · simp_all
      · simp_all
    rw [this]
    simp [isAsciiDigit, hc]

theorem isCanonNat_cons {c : Char} {cs : Str} (h : isCanonNat (c :: cs) = true) :
    (c = '0' ∧ cs = []) ∨ (c ≠ '0' ∧ c.isDigit = true ∧ ∀ x ∈ cs, x.isDigit = true) :=
  isCanonNat_cons_iff.mp h

theorem isCanonNat_ne_nil {s : Str} (h : isCanonNat s = true) : s ≠ [] := by
  intro hs; subst hs; simp [isCanonNat] at h

theorem isCanonNat_all_digits {s : Str} (h : isCanonNat s = true) : ∀ x ∈ s, x.isDigit = true := by
  cases s with
  | nil => simp
  | cons c cs =>
    rcases isCanonNat_cons h with ⟨rfl, rfl⟩ | ⟨_, hc, hcs⟩
    · intro x hx; simp at hx; subst hx; decide
    · intro x hx
      rcases List.mem_cons.mp hx with rfl | hx
      · exact hc
      · exact hcs x hx

/-- `str(int(s)) = s` for canonical decimal text. -/
theorem natStr_digitsVal {s : Str} (h : isCanonNat s = true) : natStr (digitsVal s) = s := by
  cases s with
  | nil => simp [isCanonNat] at h
  | cons c cs =>
    rcases isCanonNat_cons h with ⟨rfl, rfl⟩ | ⟨h0, hc, hcs⟩
    · decide
    · unfold natStr digitsVal
      rw [Nat.ofDigitChars_cons]
      have hb := digit_toNat_bounds hc
      have hpos := digit_ne_zero_pos hc h0
      have h48 : ('0' : Char).toNat = 48 := by decide
      rw [h48, toDigits_ofDigitChars_acc cs hcs _ (by omega)]
      simp only [Nat.mul_zero, Nat.zero_add]
      rw [Nat.toDigits_of_lt_base (n := c.toNat - 48) (b := 10) (by omega), digitChar_toNat_sub hc]
      simp

/-- A canonical decimal other than `0` has a positive value. -/
theorem digitsVal_pos {s : Str} (h : isCanonNat s = true) (h0 : s ≠ ['0']) : 0 < digitsVal s := by
  apply Nat.pos_of_ne_zero
  intro hz
  have := natStr_digitsVal h
  rw [hz] at this
  apply h0
  rw [← this]; decide

/-! ## parse ∘ print -/

theorem digitsVal_natStr (n : Nat) : digitsVal (natStr n) = n := by
  simp [digitsVal, natStr]

theorem natStr_ne_nil (n : Nat) : natStr n ≠ [] := by simp [natStr]

theorem natStr_all_digits (n : Nat) : ∀ c ∈ natStr n, c.isDigit = true := by
  intro c hc
  exact Nat.isDigit_of_mem_toDigits (by decide) (by decide) hc

theorem natStr_head_ne_zero (n : Nat) (hn : 0 < n) :
    ∃ c cs, natStr n = c :: cs ∧ c ≠ '0' := by
  induction n using Nat.strongRecOn with
  | _ n ih =>
    unfold natStr at *
    rw [Nat.toDigits_eq_if (by decide)]
    split
    · refine ⟨_, [], rfl, ?_⟩
      simp; omega
    · obtain ⟨c, cs, h, hc⟩ := ih (n / 10) (by omega) (by omega)
      exact ⟨c, cs ++ [Nat.digitChar (n % 10)], by rw [h]; rfl, hc⟩

theorem isCanonNat_of_digits {c : Char} {cs : Str} (hc0 : c ≠ '0')
    (hall : ∀ x ∈ c :: cs, x.isDigit = true) : isCanonNat (c :: cs) = true :=
  isCanonNat_cons_iff.mpr (.inr ⟨hc0, hall c (by simp), fun x hx => hall x (by simp [hx])⟩)

theorem isCanonNat_natStr (n : Nat) : isCanonNat (natStr n) = true := by
  by_cases hn : n = 0
  · subst hn; decide
  · obtain ⟨c, cs, h, hc⟩ := natStr_head_ne_zero n (by omega)
    have hall := natStr_all_digits n
    rw [h] at hall ⊢
    exact isCanonNat_of_digits hc hall

/-! ## intStr -/

@[simp] theorem intStr_natCast (n : Nat) : intStr (n : Int) = natStr n := rfl

theorem intStr_neg_natCast {m : Nat} (hm : 0 < m) : intStr (-(m : Int)) = '-' :: natStr m := by
  cases m with
  | zero => omega
  | succ k => rfl

theorem intStr_of_nonneg {i : Int} (h : 0 ≤ i) : intStr i = natStr i.toNat := by
  cases i with
  | ofNat n => rfl
  | negSucc n => omega

/-! ## parseIndexToken -/

theorem parseIndexToken_dash (cs : Str) :
    parseIndexToken ('-' :: cs) =
      if isCanonNat cs && cs != ['0'] then some (-(digitsVal cs : Int)) else none := by
  simp [parseIndexToken]

theorem parseIndexToken_of_not_dash {s : Str} (h : s.head? ≠ some '-') :
    parseIndexToken s = if isCanonNat s then some (digitsVal s : Int) else none := by
  unfold parseIndexToken
  split
  · simp at h
  · rfl

theorem isCanonNat_head_digit {s : Str} (h : isCanonNat s = true) : s.head? ≠ some '-' := by
  cases s with
  | nil => simp
  | cons c cs =>
    have := isCanonNat_all_digits h c (by simp)
    intro hc
    simp at hc
    subst hc
    simp [dash_not_digit] at this

theorem isCanonNat_dash (cs : Str) : isCanonNat ('-' :: cs) = false := by
  cases hh : isCanonNat ('-' :: cs) with
  | false => rfl
  | true => exact absurd rfl (isCanonNat_head_digit hh)

/-- (3) canonical decimal text parses to its value. -/
theorem parseIndexToken_of_canon {t : Str} (h : isCanonNat t = true) :
    parseIndexToken t = some (digitsVal t : Int) := by
  rw [parseIndexToken_of_not_dash (isCanonNat_head_digit h), h]; rfl

/-- (1) `str(n)` parses back to `n`. -/
theorem parseIndexToken_natStr (n : Nat) : parseIndexToken (natStr n) = some (n : Int) := by
  rw [parseIndexToken_of_canon (isCanonNat_natStr n), digitsVal_natStr]

/-- (2) print ∘ parse = id on index tokens. -/
theorem intStr_of_parseIndexToken {k : Str} {i : Int} (h : parseIndexToken k = some i) :
    intStr i = k := by
  by_cases hd : k.head? = some '-'
  · cases k with
    | nil => simp at hd
    | cons c cs =>
      simp at hd; subst hd
      rw [parseIndexToken_dash] at h
      split at h
      · rename_i hc
        simp only [Bool.and_eq_true, bne_iff_ne, ne_eq] at hc
        cases h
        rw [intStr_neg_natCast (digitsVal_pos hc.1 hc.2), natStr_digitsVal hc.1]
      · cases h
  · rw [parseIndexToken_of_not_dash hd] at h
    split at h
    · rename_i hc
      cases h
      rw [intStr_natCast, natStr_digitsVal hc]
    · cases h

/-- (3') a non-negative parse result comes from canonical decimal text. -/
theorem canon_of_parseIndexToken_nonneg {t : Str} {i : Int} (h : parseIndexToken t = some i)
    (hi : 0 ≤ i) : isCanonNat t = true ∧ i = (digitsVal t : Int) ∧ t = natStr i.toNat := by
  have hs := intStr_of_parseIndexToken h
  rw [intStr_of_nonneg hi] at hs
  subst hs
  refine ⟨isCanonNat_natStr _, ?_, rfl⟩
  rw [digitsVal_natStr]; omega

theorem isCanonNat_false_of_parseIndexToken_none {t : Str} (h : parseIndexToken t = none) :
    isCanonNat t = false := by
  cases hh : isCanonNat t with
  | false => rfl
  | true => rw [parseIndexToken_of_canon hh] at h; cases h

/-! ## Lengths and `indexOf` -/

theorem natStr_length_le_16 {n : Nat} (h : (n : Int) ≤ maxIntIndex) : (natStr n).length ≤ 16 := by
  unfold natStr
  rw [Nat.length_toDigits_le_iff (by decide) (by decide)]
  have : maxIntIndex = 9007199254740991 := by decide
  rw [this] at h
  omega

theorem intStr_length_le_17 {i : Int} (h1 : minIntIndex ≤ i) (h2 : i ≤ maxIntIndex) :
    (intStr i).length ≤ 17 := by
  have e1 : maxIntIndex = 9007199254740991 := by decide
  have e2 : minIntIndex = -9007199254740991 := by decide
  cases i with
  | ofNat n =>
    have := natStr_length_le_16 (n := n) h2
    show (natStr n).length ≤ 17
    omega
  | negSucc n =>
    show ('-' :: natStr (n + 1)).length ≤ 17
    have := natStr_length_le_16 (n := n + 1) (by rw [e1]; rw [e2] at h1; omega)
    simp; omega

theorem indexOf_of_none {t : Str} (h : parseIndexToken t = none) : indexOf t = .ok (.key t) := by
  simp [indexOf, h, pure, Except.pure]

theorem indexOf_of_some {t : Str} {i : Int} (h : parseIndexToken t = some i)
    (h1 : minIntIndex ≤ i) (h2 : i ≤ maxIntIndex) : indexOf t = .ok (.idx i) := by
  have hlen := intStr_length_le_17 h1 h2
  rw [intStr_of_parseIndexToken h] at hlen
  unfold indexOf
  rw [h]
  have hm : maxStrDigits = 4300 := rfl
  show (if _ then _ else if _ then _ else _) = _
  rw [if_neg (by rw [hm]; omega), if_neg (by omega)]
  rfl

/-- (4) an in-range array position is read back as an index. -/
theorem indexOf_natStr {n : Nat} (h : (n : Int) ≤ maxIntIndex) :
    indexOf (natStr n) = .ok (.idx n) := by
  apply indexOf_of_some (parseIndexToken_natStr n) _ h
  have e2 : minIntIndex = -9007199254740991 := by decide
  rw [e2]; omega

end JP.Lemmas
