/-
  RfcSpellF helpers, part 1: the parser model on token lists, independently of how they are printed —
  paths, selector lists, function arguments, the levels of the filter grammar.
-/
import JP.RfcSpellF
import JP.Lemmas.RfcSpell
namespace JP.Lemmas.RfcSpellF
open JP JP.Query JP.Surface JP.Lex JP.RfcSpell JP.RfcSpellF JP.Lemmas.RfcSpell

/-! ### one-step unfoldings not in `SurfaceAux1` -/

theorem path_prop (pr : Prec) (f : Nat) (n : Str) (toks rest : List Tok) (segs : List Seg)
    (h : parsePath pr f toks = .ok (segs, rest)) :
    parsePath pr (f + 1) (.prop n :: toks) = .ok (.child [.name n] :: segs, rest) := by
  simp only [parsePath, h]; rfl

theorem path_bare (pr : Prec) (f : Nat) (n : Str) (toks rest : List Tok) (segs : List Seg)
    (h : parsePath pr f toks = .ok (segs, rest)) :
    parsePath pr (f + 1) (.bare n :: toks) = .ok (.child [.name n] :: segs, rest) := by
  simp only [parsePath, h]; rfl

theorem path_wild (pr : Prec) (f : Nat) (toks rest : List Tok) (segs : List Seg)
    (h : parsePath pr f toks = .ok (segs, rest)) :
    parsePath pr (f + 1) (.wild :: toks) = .ok (.child [.wild] :: segs, rest) := by
  simp only [parsePath, h]; rfl

/-! ### paths -/

def TPathOK (pr : Prec) (T : List Tok) (q : List Seg) : Prop :=
  ∀ fuel rest, follow rest = true → 4 * T.length + 1 ≤ fuel → parsePath pr fuel (T ++ rest) = .ok (q, rest)

/-- a selector list, up to the closing bracket -/
def TSelsOK (pr : Prec) (T : List Tok) (ss : List Sel) : Prop :=
  (∀ x, notRb (T ++ x) = true) ∧
  ∀ fuel rest, 4 * (T.length + 1) ≤ fuel → parseSelList pr fuel (T ++ .rbracket :: rest) = .ok (ss, rest)

def TSelOK (pr : Prec) (T : List Tok) (s : Sel) : Prop :=
  (∀ x, notRb (T ++ x) = true) ∧
  ∀ fuel rest, selEnd rest = true → 4 * T.length ≤ fuel → parseSelItem pr fuel (T ++ rest) = .ok (s, rest)

theorem TPathOK.nil (pr : Prec) : TPathOK pr [] [] := by
  intro fuel rest hf hfuel
  obtain ⟨f, rfl⟩ : ∃ f, fuel = f + 1 := ⟨fuel - 1, by omega⟩
  exact path_stop pr f rest hf

theorem TPathOK.prop {pr : Prec} {T : List Tok} {q : List Seg} (n : Str) (h : TPathOK pr T q) :
    TPathOK pr (.prop n :: T) (.child [.name n] :: q) := by
  intro fuel rest hf hfuel
  simp only [List.length_cons] at hfuel
  obtain ⟨f, rfl⟩ : ∃ f, fuel = f + 1 := ⟨fuel - 1, by omega⟩
  exact path_prop pr f n _ rest _ (h f rest hf (by omega))

theorem TPathOK.bare {pr : Prec} {T : List Tok} {q : List Seg} (n : Str) (h : TPathOK pr T q) :
    TPathOK pr (.bare n :: T) (.child [.name n] :: q) := by
  intro fuel rest hf hfuel
  simp only [List.length_cons] at hfuel
  obtain ⟨f, rfl⟩ : ∃ f, fuel = f + 1 := ⟨fuel - 1, by omega⟩
  exact path_bare pr f n _ rest _ (h f rest hf (by omega))

theorem TPathOK.wild {pr : Prec} {T : List Tok} {q : List Seg} (h : TPathOK pr T q) :
    TPathOK pr (.wild :: T) (.child [.wild] :: q) := by
  intro fuel rest hf hfuel
  simp only [List.length_cons] at hfuel
  obtain ⟨f, rfl⟩ : ∃ f, fuel = f + 1 := ⟨fuel - 1, by omega⟩
  exact path_wild pr f _ rest _ (h f rest hf (by omega))

theorem TPathOK.ddot {pr : Prec} {T : List Tok} {q : List Seg} (h : TPathOK pr T q) :
    TPathOK pr (.ddot :: T) (.desc :: q) := by
  intro fuel rest hf hfuel
  simp only [List.length_cons] at hfuel
  obtain ⟨f, rfl⟩ : ∃ f, fuel = f + 1 := ⟨fuel - 1, by omega⟩
  exact path_ddot pr f _ rest _ (h f rest hf (by omega))

theorem TPathOK.bracket {pr : Prec} {Ts T : List Tok} {ss : List Sel} {q : List Seg} (hs : TSelsOK pr Ts ss)
    (h : TPathOK pr T q) : TPathOK pr (.lbracket :: (Ts ++ .rbracket :: T)) (.child ss :: q) := by
  intro fuel rest hf hfuel
  simp only [List.length_cons, List.length_append] at hfuel
  obtain ⟨f, rfl⟩ : ∃ f, fuel = f + 1 := ⟨fuel - 1, by omega⟩
  have e : (Tok.lbracket :: (Ts ++ .rbracket :: T)) ++ rest = .lbracket :: (Ts ++ .rbracket :: (T ++ rest)) := by
    simp only [List.cons_append, List.append_assoc]
  rw [e]
  exact path_bracket pr f _ _ rest _ _ (hs.2 f _ (by omega)) (h f rest hf (by omega))

/-! ### selectors -/

theorem TSelOK.plain (pr : Prec) (s : Sel) (hs : RfcSpell.plainSel s = true) : TSelOK pr [selTok s] s := by
  refine ⟨fun x => ?_, fun fuel rest _ hfuel => ?_⟩
  · cases s <;> rfl
  · simp only [List.length_cons, List.length_nil] at hfuel
    obtain ⟨f, rfl⟩ : ∃ f, fuel = f + 1 := ⟨fuel - 1, by omega⟩
    exact parseSelItem_selTok pr s hs f rest

theorem TSelOK.filter {pr : Prec} (hp : PrecFacts pr) {T : List Tok} {e : Expr} (h : ExprOK pr (pr.ofOp .or) T e) :
    TSelOK pr (.filter :: T) (.filter e) := by
  refine ⟨fun x => rfl, fun fuel rest he hfuel => ?_⟩
  simp only [List.length_cons] at hfuel
  obtain ⟨f, rfl⟩ : ∃ f, fuel = f + 1 := ⟨fuel - 1, by omega⟩
  rw [List.cons_append]
  apply selItem_filter
  exact h.ok f pr.lowest rest (follow_of_selEnd rest he) hp.lo_or (stopAt_of_selEnd pr _ rest he)
    (stopAt_of_selEnd pr _ rest he) (by omega)

theorem TSelsOK.single {pr : Prec} {T : List Tok} {s : Sel} (h : TSelOK pr T s) : TSelsOK pr T [s] := by
  refine ⟨h.1, fun fuel rest hfuel => ?_⟩
  obtain ⟨f, rfl⟩ : ∃ f, fuel = f + 1 := ⟨fuel - 1, by omega⟩
  exact selList_single pr f _ rest _ (h.2 f (.rbracket :: rest) rfl (by omega))

theorem TSelsOK.cons {pr : Prec} {T T' : List Tok} {s : Sel} {ss : List Sel} (h : TSelOK pr T s)
    (ih : TSelsOK pr T' ss) : TSelsOK pr (T ++ .comma :: T') (s :: ss) := by
  refine ⟨fun x => by rw [List.append_assoc]; exact h.1 _, fun fuel rest hfuel => ?_⟩
  simp only [List.length_append, List.length_cons] at hfuel
  obtain ⟨f, rfl⟩ : ∃ f, fuel = f + 1 := ⟨fuel - 1, by omega⟩
  have e1 : (T ++ .comma :: T') ++ .rbracket :: rest = T ++ (.comma :: (T' ++ .rbracket :: rest)) := by
    simp only [List.append_assoc, List.cons_append]
  rw [e1]
  exact selList_cons pr f _ _ rest _ _ (h.2 f _ rfl (by omega)) (ih.1 _) (ih.2 f rest (by omega))

/-! ### function arguments -/

theorem argLoop_eq (pr : Prec) (hp : PrecFacts pr) : ∀ (f : Nat) (left : Expr) (toks : List Tok),
    parseArgLoop pr f left toks = parseLoop pr f pr.lowest left toks := by
  intro f
  induction f with
  | zero => intro left toks; simp only [parseArgLoop, parseLoop]
  | succ f ih =>
    intro left toks
    cases toks with
    | nil => simp only [parseArgLoop, parseLoop] <;> rfl
    | cons t rest =>
      cases t <;> try (simp only [parseArgLoop, parseLoop, opOfTok] <;> rfl)
      case op o =>
        have hn : ¬ pr.ofOp o < pr.lowest := by have := hp.lo_op o; omega
        simp only [parseArgLoop, parseLoop, opOfTok, hn, if_false]
        cases parseExpr pr f (pr.ofOp o) rest with
        | error e => rfl
        | ok x => simp only [bind, Except.bind, ih]

theorem arg_eq_expr (pr : Prec) (hp : PrecFacts pr) (f : Nat) (toks : List Tok) (hs : argStartOK toks = true) :
    parseArg pr (f + 1) toks = parseExpr pr (f + 1) pr.lowest toks := by
  cases toks with
  | nil => simp [argStartOK] at hs
  | cons t r =>
    cases t <;> first
      | (simp [argStartOK] at hs; done)
      | (simp only [parseArg, parseExpr, argLoop_eq pr hp])

/-- the first token of an argument -/
def argTok : Tok → Bool
  | .self | .root | .func _ | .true_ | .false_ | .nil | .str _ | .int _ | .flt _ => true
  | _ => false

def argHead : List Tok → Bool
  | t :: _ => argTok t
  | [] => false

theorem argStart_of_head {T : List Tok} (h : argHead T = true) (rest : List Tok) : argStartOK (T ++ rest) = true := by
  cases T with
  | nil => simp [argHead] at h
  | cons t r => cases t <;> first | rfl | (simp [argHead, argTok] at h)

theorem stopAt_of_argEnd (pr : Prec) (p : Nat) (rest : List Tok) (h : argEnd rest = true) : stopAt pr p rest := by
  cases rest with
  | nil => trivial
  | cons t r => cases t <;> first | trivial | (simp [argEnd] at h)

def TArgOK (pr : Prec) (T : List Tok) (e : Expr) : Prop :=
  argHead T = true ∧
  ∀ fuel rest, argEnd rest = true → 4 * T.length + 3 ≤ fuel → parseArg pr fuel (T ++ rest) = .ok (e, rest)

theorem TArgOK.of_expr {pr : Prec} (hp : PrecFacts pr) {T : List Tok} {e : Expr} (h : ExprOK pr (pr.ofOp .or) T e)
    (hh : argHead T = true) : TArgOK pr T e := by
  refine ⟨hh, fun fuel rest he hfuel => ?_⟩
  obtain ⟨f, rfl⟩ : ∃ f, fuel = f + 1 := ⟨fuel - 1, by omega⟩
  rw [arg_eq_expr pr hp f _ (argStart_of_head hh rest)]
  exact h.ok (f + 1) pr.lowest rest (follow_of_argEnd rest he) hp.lo_or (stopAt_of_argEnd pr _ rest he)
    (stopAt_of_argEnd pr _ rest he) (by omega)

def TArgsOK (pr : Prec) (T : List Tok) (es : List Expr) : Prop :=
  ∀ fuel rest, 4 * (T.length + 1) ≤ fuel → parseArgs pr fuel (T ++ .rparen :: rest) = .ok (es, rest)

theorem TArgsOK.nil (pr : Prec) : TArgsOK pr [] [] := by
  intro fuel rest hfuel
  obtain ⟨f, rfl⟩ : ∃ f, fuel = f + 1 := ⟨fuel - 1, by omega⟩
  exact args_nil pr f rest

theorem TArgsOK.single {pr : Prec} {T : List Tok} {e : Expr} (h : TArgOK pr T e) : TArgsOK pr T [e] := by
  intro fuel rest hfuel
  obtain ⟨f, rfl⟩ : ∃ f, fuel = f + 1 := ⟨fuel - 1, by omega⟩
  exact args_single pr f _ rest _ (argStart_of_head h.1 _) (h.2 f (.rparen :: rest) rfl (by omega))

theorem TArgsOK.cons {pr : Prec} {T T' : List Tok} {e : Expr} {es : List Expr} (h : TArgOK pr T e)
    (ih : TArgsOK pr T' es) : TArgsOK pr (T ++ .comma :: T') (e :: es) := by
  intro fuel rest hfuel
  simp only [List.length_append, List.length_cons] at hfuel
  obtain ⟨f, rfl⟩ : ∃ f, fuel = f + 1 := ⟨fuel - 1, by omega⟩
  have e1 : (T ++ .comma :: T') ++ .rparen :: rest = T ++ (.comma :: (T' ++ .rparen :: rest)) := by
    simp only [List.append_assoc, List.cons_append]
  rw [e1]
  exact args_cons pr f _ _ rest _ _ (argStart_of_head h.1 _) (h.2 f _ rfl (by omega)) (ih f rest (by omega))

/-! ### prefix items -/

theorem pfx_self' {pr : Prec} {T : List Tok} {q : List Seg} (h : TPathOK pr T q) : PfxOK pr (.self :: T) (.self q) := by
  intro fuel rest hf hfuel
  simp only [List.length_cons] at hfuel
  obtain ⟨f, rfl⟩ : ∃ f, fuel = f + 1 := ⟨fuel - 1, by omega⟩
  exact prefix_self pr f _ rest _ (h f rest hf (by omega))

theorem pfx_root' {pr : Prec} {T : List Tok} {q : List Seg} (h : TPathOK pr T q) :
    PfxOK pr (.root :: T) (.root q false) := by
  intro fuel rest hf hfuel
  simp only [List.length_cons] at hfuel
  obtain ⟨f, rfl⟩ : ∃ f, fuel = f + 1 := ⟨fuel - 1, by omega⟩
  exact prefix_root pr f _ rest _ (h f rest hf (by omega))

theorem pfx_func' {pr : Prec} {T : List Tok} {args : List Expr} (name : Str) (h : TArgsOK pr T args) :
    PfxOK pr (.func name :: (T ++ [.rparen])) (.func name args) := by
  intro fuel rest _ hfuel
  simp only [List.length_cons, List.length_append, List.length_nil] at hfuel
  obtain ⟨f, rfl⟩ : ∃ f, fuel = f + 1 := ⟨fuel - 1, by omega⟩
  have e1 : (Tok.func name :: (T ++ [.rparen])) ++ rest = .func name :: (T ++ .rparen :: rest) := by
    simp only [List.cons_append, List.append_assoc, List.nil_append]
  rw [e1]
  exact prefix_func pr f name _ rest _ (h f rest (by omega))

theorem pfx_lit (pr : Prec) (t : Tok) (e : Expr) (h : literalOfTok t = some e) : PfxOK pr [t] e := by
  refine pfx_tok pr t e (fun f rest => ?_)
  cases t <;> simp only [literalOfTok, Option.some.injEq, reduceCtorEq] at h <;> subst h <;>
    simp only [parsePrefix] <;> rfl

/-! ### the levels of the filter grammar -/

/-- a comparison of two prefix items -/
theorem expr_cmp {pr : Prec} (hp : PrecFacts pr) {Tl Tr : List Tok} {l r : Expr} {op : CmpOp}
    (ho : isLogical op = false) (hl : PfxOK pr Tl l) (hr : PfxOK pr Tr r) :
    ExprOK pr (pr.ofOp .and + 1) (Tl ++ [.op op] ++ Tr) (.infix l op r) := by
  have h1 := hp.and_cmp op ho
  have h2 := hp.op_pre op
  exact ExprOK.bin (ExprOK.of_pfx hl pr.prefix_) (ExprOK.of_pfx hr pr.prefix_) (by omega) h2 (by omega) (by omega)

/-- `l && r`, the right operand being a chain itself -/
theorem expr_and {pr : Prec} (_hp : PrecFacts pr) {Tl Tr : List Tok} {l r : Expr}
    (hl : ExprOK pr (pr.ofOp .and + 1) Tl l) (hr : ExprOK pr (pr.ofOp .and) Tr r) :
    ExprOK pr (pr.ofOp .and) (Tl ++ [.op .and] ++ Tr) (.infix l .and r) :=
  ExprOK.bin hl hr (by omega) (by omega) (by omega) (by omega)

theorem expr_or {pr : Prec} (hp : PrecFacts pr) {Tl Tr : List Tok} {l r : Expr}
    (hl : ExprOK pr (pr.ofOp .and) Tl l) (hr : ExprOK pr (pr.ofOp .or) Tr r) :
    ExprOK pr (pr.ofOp .or) (Tl ++ [.op .or] ++ Tr) (.infix l .or r) := by
  have := hp.or_and
  exact ExprOK.bin hl hr (by omega) (by omega) (by omega) (by omega)

theorem pfx_paren' {pr : Prec} (hp : PrecFacts pr) {T : List Tok} {e : Expr} (h : ExprOK pr (pr.ofOp .or) T e) :
    PfxOK pr (.lparen :: (T ++ [.rparen])) e := by
  have := PfxOK.paren h hp.lo_or
  exact this.congr (by simp only [List.cons_append, List.nil_append])

/-- the whole query -/
theorem parseQuery_path {pr : Prec} {T : List Tok} {q : List Seg} (h : TPathOK pr T q) :
    parseQuery pr (.root :: T) = .ok ⟨q, false⟩ := by
  have := h (4 * (Tok.root :: T).length + 8) [] rfl (by simp only [List.length_cons]; omega)
  rw [List.append_nil] at this
  simp only [parseQuery, this]

end JP.Lemmas.RfcSpellF
