/-
  LexSpell helpers, part 2: the fuel-free lexing relation under spellings `sp`, the single tokens
  (carried over from the default spellings, or read by an identifier rule).
-/
import JP.Lemmas.LexSpellAux1
set_option linter.unusedSimpArgs false
namespace JP.Lemmas.LexSpell
open JP JP.Query JP.Surface JP.Lex JP.Lemmas JP.Lemmas.LexPrint

/-! ### the fuel-free lexing relation -/

inductive LexesS (sp : Spell) (uw : Char → Bool) : Str → List RawTok → Prop
  | nil : LexesS sp uw [] []
  | step {s rest : Str} {ts more : List RawTok} (hf : firstMatch (rules ⟨sp, uw⟩) s = some (ts, rest))
      (hlen : rest.length < s.length) (hm : LexesS sp uw rest more) : LexesS sp uw s (ts ++ more)

theorem lexAux_of_LexesS {sp : Spell} {uw : Char → Bool} {s : Str} {raw : List RawTok} (h : LexesS sp uw s raw) :
    ∀ n, s.length ≤ n → lexAux ⟨sp, uw⟩ n s = .ok raw := by
  induction h with
  | nil => intro n _; cases n <;> rfl
  | @step s rest ts more hf hlen _ ih =>
    intro n hn
    cases s with
    | nil => simp at hlen
    | cons c t =>
      cases n with
      | zero => simp at hn
      | succ m =>
        have hm : rest.length ≤ m := by simp at hn hlen; omega
        simp only [lexAux, hf, ih m hm]

/-- lexing and cooking `s` gives `cs` -/
def TokzS (sp : Spell) (uw : Char → Bool) (s : Str) (cs : List CTok) : Prop :=
  ∃ raw, LexesS sp uw s raw ∧ cook raw = .ok cs

theorem tokenize_of_TokzS {sp : Spell} {uw : Char → Bool} {s : Str} {cs : List CTok} (h : TokzS sp uw s cs) :
    tokenize ⟨sp, uw⟩ s = .ok cs := by
  obtain ⟨raw, hl, hc⟩ := h
  simp only [tokenize, lexRaw, lexAux_of_LexesS hl _ (Nat.le_refl _), hc]

theorem TokzS.nil (sp : Spell) (uw : Char → Bool) : TokzS sp uw [] [] := ⟨[], LexesS.nil, rfl⟩

theorem TokzS.step {sp : Spell} {uw : Char → Bool} {w rest : Str} {ts : List RawTok} {cs cs' : List CTok} (hw : w ≠ [])
    (hf : firstMatch (rules ⟨sp, uw⟩) (w ++ rest) = some (ts, rest)) (hc : CookB ts cs) (ht : TokzS sp uw rest cs') :
    TokzS sp uw (w ++ rest) (cs ++ cs') := by
  obtain ⟨raw, hl, hk⟩ := ht
  refine ⟨ts ++ raw, LexesS.step hf ?_ hl, ?_⟩
  · cases w with
    | nil => exact absurd rfl hw
    | cons c t => simp; omega
  · rw [hc raw, hk]; rfl

/-- the text `w`, followed by a text satisfying `P`, is read as one block cooked to `cs` -/
def EmitS (sp : Spell) (uw : Char → Bool) (P : Str → Bool) (w : Str) (cs : List CTok) : Prop :=
  w ≠ [] ∧ ∀ rest, P rest = true → ∃ ts, firstMatch (rules ⟨sp, uw⟩) (w ++ rest) = some (ts, rest) ∧ CookB ts cs

theorem EmitS.tokz {sp : Spell} {uw : Char → Bool} {P : Str → Bool} {w : Str} {cs : List CTok} (h : EmitS sp uw P w cs)
    {rest : Str} {cs' : List CTok} (hp : P rest = true) (ht : TokzS sp uw rest cs') :
    TokzS sp uw (w ++ rest) (cs ++ cs') := by
  obtain ⟨ts, hf, hc⟩ := h.2 rest hp
  exact TokzS.step h.1 hf hc ht

/-- a token of the default configuration whose text does not start with a symbol character -/
theorem EmitS.of_emit {sp : Spell} (hv : ValidSpell sp = true) {uw : Char → Bool} {P : Str → Bool} {w : Str}
    {cs : List CTok} (h : Emit uw P w cs) (hw : stops safeChar w = true) : EmitS sp uw P w cs := by
  refine ⟨h.1, fun rest hp => ?_⟩
  obtain ⟨ts, hf, hc⟩ := h.2 rest hp
  exact ⟨ts, by rw [fm_transfer hv uw (.inl (stops_append h.1 hw rest))]; exact hf, hc⟩

/-- a token of the default configuration read by one of the early rules -/
theorem EmitS.of_emit_pre {sp : Spell} (hv : ValidSpell sp = true) {uw : Char → Bool} {P : Str → Bool} {w : Str}
    {cs : List CTok} (h : Emit uw P w cs) (hw : ∀ rest, P rest = true → (firstMatch (pre uw) (w ++ rest)).isSome = true) :
    EmitS sp uw P w cs := by
  refine ⟨h.1, fun rest hp => ?_⟩
  obtain ⟨ts, hf, hc⟩ := h.2 rest hp
  exact ⟨ts, by rw [fm_transfer hv uw (.inr (hw rest hp))]; exact hf, hc⟩

section
variable {sp : Spell} (hv : ValidSpell sp = true) (uw : Char → Bool)
include hv

/-! ### the fixed tokens -/

theorem emitS_lbracket : EmitS sp uw anyS ['['] [.tok .lbracket] := EmitS.of_emit hv (emit_lbracket uw) (by decide)
theorem emitS_rbracket : EmitS sp uw anyS [']'] [.tok .rbracket] := EmitS.of_emit hv (emit_rbracket uw) (by decide)
theorem emitS_comma : EmitS sp uw anyS [','] [.tok .comma] := EmitS.of_emit hv (emit_comma uw) (by decide)
theorem emitS_lparen : EmitS sp uw anyS ['('] [.tok .lparen] := EmitS.of_emit hv (emit_lparen uw) (by decide)
theorem emitS_rparen : EmitS sp uw anyS [')'] [.tok .rparen] := EmitS.of_emit hv (emit_rparen uw) (by decide)
theorem emitS_filter : EmitS sp uw anyS ['?'] [.tok .filter] := EmitS.of_emit hv (emit_filter uw) (by decide)
theorem emitS_wild : EmitS sp uw anyS ['*'] [.tok .wild] := EmitS.of_emit hv (emit_wild uw) (by decide)
theorem emitS_blank : EmitS sp uw nb [' '] [] := EmitS.of_emit hv (emit_blank uw) (by decide)
theorem emitS_ddot : EmitS sp uw (stops keyStart) ['.', '.'] [.tok .ddot] := EmitS.of_emit hv (emit_ddot uw) (by decide)
theorem emitS_nil : EmitS sp uw safe ['n', 'i', 'l'] [.tok .nil] := EmitS.of_emit hv (emit_nil uw) (by decide)
theorem emitS_undefined : EmitS sp uw safe ['u', 'n', 'd', 'e', 'f', 'i', 'n', 'e', 'd'] [.tok .undefined] :=
  EmitS.of_emit hv (emit_undefined uw) (by decide)
theorem emitS_true : EmitS sp uw safe ['t', 'r', 'u', 'e'] [.tok .true_] := EmitS.of_emit hv (emit_true uw) (by decide)
theorem emitS_false : EmitS sp uw safe ['f', 'a', 'l', 's', 'e'] [.tok .false_] :=
  EmitS.of_emit hv (emit_false uw) (by decide)

theorem emitS_op (op : CmpOp) : EmitS sp uw LexPrint.sp (opStr op) [.tok (.op op)] := by
  by_cases h : stops safeChar (opStr op) = true
  · exact EmitS.of_emit hv (emit_op uw op) h
  · have : op = .and ∨ op = .or := by
      cases op <;> first | exact absurd (by decide) h | exact .inl rfl | exact .inr rfl
    refine EmitS.of_emit_pre hv (emit_op uw op) (fun rest hr => ?_)
    obtain ⟨r, rfl⟩ := sp_cases hr
    rcases this with rfl | rfl
    · simp [opStr, pre, firstMatch, mQuoted, mRe, mSlice, optInt, skipWs, mFunc, mDotProp, mFloat, mInt, optSign,
        mDDotProp, mLit, mWord, orElse, LexPrint.span_eq, isPyBlank]
    · simp [opStr, pre, firstMatch, mQuoted, mRe, mSlice, optInt, skipWs, mFunc, mDotProp, mFloat, mInt, optSign,
        mDDotProp, mLit, mWord, orElse, LexPrint.span_eq, isPyBlank]

/-- no `=` ahead -/
def neq : Str → Bool
  | [] => false
  | c :: _ => c != '='

omit hv in
theorem emit_bang' : Emit uw neq ['!'] [.tok .not] := by
  refine ⟨by simp, fun rest hp => ?_⟩
  cases rest with
  | nil => simp [neq] at hp
  | cons c r =>
    simp only [neq, bne_iff_ne, ne_eq] at hp
    exact ⟨[⟨.not_, ['!']⟩], by lexsimp; rw [if_neg (fun h => hp h.symm)], cook_not⟩

theorem emitS_bang : EmitS sp uw neq ['!'] [.tok .not] := EmitS.of_emit hv (emit_bang' uw) (by decide)

omit hv in
theorem stops_safeChar_intText {w : Str} (hw : IntText w) : stops safeChar w = true := by
  obtain ⟨c, t, rfl, hc⟩ := intText_head hw
  simp [stops, not_safe_of_intHead hc]

theorem emitS_int (i : Int) : EmitS sp uw safe (intStr i) [.tok (.int i)] :=
  EmitS.of_emit hv (emit_int uw i) (stops_safeChar_intText (intText_intStr i))

theorem emitS_flt (m : Int) (hm : fltOK m = true) : EmitS sp uw safe (fltStr m) [.tok (.flt m)] := by
  refine EmitS.of_emit hv (emit_flt uw m hm) ?_
  obtain ⟨w, hw, he, _⟩ := fltText_fltStr m
  rw [he]
  exact stops_append (intText_ne_nil hw) (stops_safeChar_intText hw) _

theorem emitS_str (s : Str) : EmitS sp uw anyS (canonicalString s) [.tok (.str s)] :=
  EmitS.of_emit hv (emit_str uw s) (by simp [canonicalString, stops, safeChar])

theorem emitS_regex (p f : Str) (hp : rePatOK p = true) (hf : reFlagsOK f = true) :
    EmitS sp uw safe ('/' :: p ++ '/' :: f) [.tok (.re p f)] :=
  EmitS.of_emit hv (emit_regex uw p f hp hf) (by simp [stops, safeChar])

theorem emitS_func (name : Str) (hn : funcNameOK name = true) :
    EmitS sp uw (stops isPyBlank) (name ++ ['(']) [.tok (.func name)] := by
  refine EmitS.of_emit hv (emit_func uw name hn) ?_
  cases name with
  | nil => simp [funcNameOK] at hn
  | cons c cs =>
    simp only [funcNameOK, Bool.and_eq_true] at hn
    simp [stops, not_safe_of_lower hn.1.1.1]

theorem emitS_slice (a b : Option Int) (c : Int) :
    EmitS sp uw safe (optIntStr a ++ ':' :: optIntStr b ++ ':' :: intStr c) [.tok (.slice a b (some c))] := by
  refine EmitS.of_emit hv (emit_slice uw a b c) ?_
  rcases optText_optIntStr a with ha | ha
  · rw [ha]; rfl
  · rw [List.append_assoc]
    exact stops_append (intText_ne_nil ha) (stops_safeChar_intText ha) _

theorem emitS_blank_slice (b : Option Int) (c : Int) :
    EmitS sp uw safe (' ' :: ':' :: optIntStr b ++ ':' :: intStr c) [.tok (.slice none b (some c))] :=
  EmitS.of_emit hv (emit_blank_slice uw b c) (by simp [stops, safeChar])

/-! ### the identifiers -/

theorem emitS_ident {k : Kind} {s : Str} {c : CTok} (hm : (k, s) ∈ sp.envTokens) (hc : CookB [⟨k, s⟩] [c]) :
    EmitS sp uw (stops safeChar) s [c] :=
  ⟨okSpelling_ne_nil (okSpelling_of_mem hv hm), fun _ hr => ⟨_, fm_ident hv uw hm hr, hc⟩⟩

theorem emitS_root : EmitS sp uw (stops safeChar) sp.root [.tok .root] :=
  emitS_ident hv uw (k := .root) (by simp [Spell.envTokens]) cook_root
theorem emitS_fakeRoot : EmitS sp uw (stops safeChar) sp.fakeRoot [.tok .fakeRoot] :=
  emitS_ident hv uw (k := .fakeRoot) (by simp [Spell.envTokens]) cook_fakeRoot
theorem emitS_self : EmitS sp uw (stops safeChar) sp.self [.tok .self] :=
  emitS_ident hv uw (k := .self) (by simp [Spell.envTokens]) cook_self
theorem emitS_key : EmitS sp uw (stops safeChar) sp.key [.tok .key] :=
  emitS_ident hv uw (k := .key) (by simp [Spell.envTokens]) cook_key
theorem emitS_union : EmitS sp uw (stops safeChar) sp.union [.union] :=
  emitS_ident hv uw (k := .union) (by simp [Spell.envTokens]) cook_union
theorem emitS_inter : EmitS sp uw (stops safeChar) sp.inter [.inter] :=
  emitS_ident hv uw (k := .inter) (by simp [Spell.envTokens]) cook_inter
theorem emitS_fctx : EmitS sp uw (stops safeChar) sp.fctx [.tok .ctx] :=
  emitS_ident hv uw (k := .fctx) (by simp [Spell.envTokens]) cook_fctx
theorem emitS_keys : EmitS sp uw (stops safeChar) sp.keys [.tok .keys] :=
  emitS_ident hv uw (k := .keys) (by simp [Spell.envTokens]) cook_keys

theorem ok_root : okSpelling sp.root = true := okSpelling_of_mem hv (t := (.root, sp.root)) (by simp [Spell.envTokens])
theorem ok_fakeRoot : okSpelling sp.fakeRoot = true :=
  okSpelling_of_mem hv (t := (.fakeRoot, sp.fakeRoot)) (by simp [Spell.envTokens])
theorem ok_self : okSpelling sp.self = true := okSpelling_of_mem hv (t := (.self, sp.self)) (by simp [Spell.envTokens])
theorem ok_key : okSpelling sp.key = true := okSpelling_of_mem hv (t := (.key, sp.key)) (by simp [Spell.envTokens])
theorem ok_union : okSpelling sp.union = true :=
  okSpelling_of_mem hv (t := (.union, sp.union)) (by simp [Spell.envTokens])
theorem ok_inter : okSpelling sp.inter = true :=
  okSpelling_of_mem hv (t := (.inter, sp.inter)) (by simp [Spell.envTokens])
theorem ok_fctx : okSpelling sp.fctx = true := okSpelling_of_mem hv (t := (.fctx, sp.fctx)) (by simp [Spell.envTokens])
theorem ok_keys : okSpelling sp.keys = true := okSpelling_of_mem hv (t := (.keys, sp.keys)) (by simp [Spell.envTokens])

end

end JP.Lemmas.LexSpell
