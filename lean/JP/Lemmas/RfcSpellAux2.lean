/-
  RfcSpell helpers, part 2: the lexer on blanks, integers, quoted names and slices written with blanks.
-/
import JP.Lemmas.RfcSpellAux1
import JP.Lemmas.LexTotalAux
set_option linter.unusedSimpArgs false
namespace JP.Lemmas.RfcSpell
open JP JP.Query JP.Surface JP.Lex JP.RfcSpell JP.Lemmas.LexPrint

/-! ### one lexing step -/

theorem tokz_step {uw : Char → Bool} {s rest : Str} {ts : List RawTok} {cs cs' : List CTok}
    (hf : firstMatch (R uw) s = some (ts, rest)) (hc : CookB ts cs) (ht : Tokz uw rest cs') :
    Tokz uw s (cs ++ cs') := by
  obtain ⟨raw, hl, hk⟩ := ht
  have hlen : rest.length < s.length :=
    LexTotal.firstMatch_consumes_of _ (by rw [← rules_dflt uw]; exact LexTotal.rules_consumes _) _ _ _ hf
  refine ⟨ts ++ raw, Lexes.step hf hlen hl, ?_⟩
  rw [hc raw, hk]; rfl

/-! ### blanks -/

theorem isB_cases {c : Char} (h : isB c = true) : c = ' ' ∨ c = '\t' ∨ c = '\n' ∨ c = '\r' := by
  simpa [isB, or_assoc] using h

theorem isB_pyBlank {c : Char} (h : isB c = true) : isPyBlank c = true := by
  rcases isB_cases h with rfl | rfl | rfl | rfl <;> decide

theorem isS_cons {c : Char} {w : Str} : isS (c :: w) = true ↔ isB c = true ∧ isS w = true := by
  simp [isS]

theorem isS_nil : isS [] = true := rfl

theorem isS_append {a b : Str} (ha : isS a = true) (hb : isS b = true) : isS (a ++ b) = true := by
  simp only [isS, List.all_append, Bool.and_eq_true] at *
  exact ⟨ha, hb⟩

theorem skipWs_blanks {w rest : Str} (hw : isS w = true) (hr : stops isPyBlank rest = true) :
    skipWs (w ++ rest) = rest := by
  induction w with
  | nil => exact skipWs_stops rest hr
  | cons c w ih =>
    obtain ⟨h1, h2⟩ := isS_cons.mp hw
    have := ih h2
    simp only [skipWs] at this ⊢
    simp only [List.cons_append, List.dropWhile_cons, isB_pyBlank h1, if_true]
    exact this

/-- the characters a token of a filter-free query may start with -/
def tokStart (c : Char) : Bool :=
  c == '[' || c == ']' || c == ',' || c == '.' || c == '\'' || c == '"' || c == '*' || c == '-' || c.isDigit

def fs : Str → Bool
  | [] => true
  | c :: _ => tokStart c

theorem tokStart_facts {c : Char} (h : tokStart c = true) : isPyBlank c = false ∧ c ≠ ':' := by
  simp only [tokStart, Bool.or_eq_true, beq_iff_eq] at h
  rcases h with (((((((rfl | rfl) | rfl) | rfl) | rfl) | rfl) | rfl) | rfl) | h
  any_goals (constructor <;> decide)
  exact ⟨(digit_facts h).2.2.2.2.2.2, by rintro rfl; revert h; decide⟩

theorem fs_stops {rest : Str} (h : fs rest = true) : stops isPyBlank rest = true := by
  cases rest with
  | nil => rfl
  | cons c t => simp [stops, (tokStart_facts h).1]

theorem fs_not_colon {rest : Str} (h : fs rest = true) (t : Str) : rest ≠ ':' :: t := by
  rintro rfl
  simp [fs, tokStart] at h

theorem dropWhile_blanks {w rest : Str} (hw : isS w = true) (hr : fs rest = true) :
    (w ++ rest).dropWhile (fun c => c == ' ' || c == '\n' || c == '\t' || c == '\r') = rest := by
  induction w with
  | nil =>
    cases rest with
    | nil => rfl
    | cons c t =>
      obtain ⟨h1, h2, h3, h4⟩ := blank_ne (tokStart_facts hr).1
      simp [h1, h2, h3, h4]
  | cons c w ih =>
    obtain ⟨h1, h2⟩ := isS_cons.mp hw
    have := ih h2
    rcases isB_cases h1 with rfl | rfl | rfl | rfl <;> simpa using this

def noInt : Str → Bool
  | [] => true
  | c :: _ => c != '-' && !c.isDigit

theorem optInt_noInt {s : Str} (h : noInt s = true) : optInt s = ([], s) := by
  cases s with
  | nil => simp [optInt, span_eq]
  | cons c t =>
    simp only [noInt, Bool.and_eq_true, bne_iff_ne, ne_eq, Bool.not_eq_true'] at h
    rw [optInt_of_ne _ h.1, span_eq]; simp [h.2]

theorem noInt_blank {c : Char} (h : isB c = true) (t : Str) : noInt (c :: t) = true := by
  rcases isB_cases h with rfl | rfl | rfl | rfl <;> rfl

theorem mSlice_blanks (c : Char) (w rest : Str) (hc : isB c = true) (hw : isS w = true) (hr : fs rest = true) :
    mSlice (c :: (w ++ rest)) = none := by
  have h1 : optInt (c :: (w ++ rest)) = ([], c :: (w ++ rest)) := optInt_noInt (noInt_blank hc _)
  have h2 : skipWs (c :: (w ++ rest)) = rest :=
    skipWs_blanks (w := c :: w) (isS_cons.mpr ⟨hc, hw⟩) (fs_stops hr)
  unfold mSlice
  simp only [h1, h2]
  split
  · simp [fs, tokStart] at hr
  · rfl

theorem mDDotProp_ne {c : Char} (s : Str) (h : c ≠ '.') : mDDotProp (c :: s) = none := by
  unfold mDDotProp
  split
  · rename_i heq; simp only [List.cons.injEq] at heq; exact absurd heq.1 h
  · rfl

/-- a run of blanks before a token is skipped -/
theorem fm_blanks (uw : Char → Bool) (c : Char) (w rest : Str) (hc : isB c = true) (hw : isS w = true)
    (hr : fs rest = true) : firstMatch (R uw) (c :: (w ++ rest)) = some ([], rest) := by
  have hs := mSlice_blanks c w rest hc hw hr
  have hd := dropWhile_blanks hw hr
  have hk : mSkip (c :: (w ++ rest)) = some ([], rest) := by
    rcases isB_cases hc with rfl | rfl | rfl | rfl <;> simp [mSkip, hd]
  rcases isB_cases hc with rfl | rfl | rfl | rfl <;>
    simp [R, firstMatch, mQuoted, mRe_ne, hs, mFunc, mDotProp_ne, mFloat, mInt, optSign, mDDotProp_ne, mLit, mWord,
      mWordCI, orElse, scanKey, keyStart, keyCont, isFuncCont, atBoundary, isWord, hk, span_eq]

theorem tokz_skip {uw : Char → Bool} {w rest : Str} {cs : List CTok} (hw : isS w = true) (hr : fs rest = true)
    (ht : Tokz uw rest cs) : Tokz uw (w ++ rest) cs := by
  cases w with
  | nil => exact ht
  | cons c w =>
    obtain ⟨h1, h2⟩ := isS_cons.mp hw
    exact tokz_step (fm_blanks uw c w rest h1 h2 hr) CookB.nil ht

/-! ### what follows a selector: blanks, then a comma or the closing bracket -/

def endc : Str → Bool
  | [] => false
  | c :: _ => c == ',' || c == ']'

def After (rest : Str) : Prop := ∃ bl r, isS bl = true ∧ endc r = true ∧ rest = bl ++ r

theorem endc_cases {r : Str} (h : endc r = true) : ∃ t, r = ',' :: t ∨ r = ']' :: t := by
  cases r with
  | nil => simp [endc] at h
  | cons c t =>
    simp only [endc, Bool.or_eq_true, beq_iff_eq] at h
    rcases h with rfl | rfl
    · exact ⟨t, .inl rfl⟩
    · exact ⟨t, .inr rfl⟩

theorem endc_fs {r : Str} (h : endc r = true) : fs r = true := by
  obtain ⟨t, rfl | rfl⟩ := endc_cases h <;> rfl

theorem after_head {rest : Str} (h : After rest) :
    ∃ c t, rest = c :: t ∧ (c = ' ' ∨ c = '\t' ∨ c = '\n' ∨ c = '\r' ∨ c = ',' ∨ c = ']') := by
  obtain ⟨bl, r, hb, hr, rfl⟩ := h
  cases bl with
  | nil =>
    obtain ⟨t, rfl | rfl⟩ := endc_cases hr
    · exact ⟨',', t, rfl, by simp⟩
    · exact ⟨']', t, rfl, by simp⟩
  | cons c bl =>
    obtain ⟨h1, _⟩ := isS_cons.mp hb
    refine ⟨c, bl ++ r, rfl, ?_⟩
    rcases isB_cases h1 with rfl | rfl | rfl | rfl <;> simp

theorem after_skipWs {rest : Str} (h : After rest) (t : Str) : skipWs rest ≠ ':' :: t := by
  obtain ⟨bl, r, hb, hr, rfl⟩ := h
  rw [skipWs_blanks hb (fs_stops (endc_fs hr))]
  exact fs_not_colon (endc_fs hr) t

theorem after_stops_digit {rest : Str} (h : After rest) : stops Char.isDigit rest = true := by
  obtain ⟨c, t, rfl, hc⟩ := after_head h
  rcases hc with rfl | rfl | rfl | rfl | rfl | rfl <;> rfl

theorem after_stops_word (uw : Char → Bool) {rest : Str} (h : After rest) : stops (isWord uw) rest = true := by
  obtain ⟨c, t, rfl, hc⟩ := after_head h
  rcases hc with rfl | rfl | rfl | rfl | rfl | rfl <;> simp [stops, isWord]

theorem after_optExp {rest : Str} (h : After rest) : optExp rest = ([], rest) := by
  obtain ⟨c, t, rfl, hc⟩ := after_head h
  rcases hc with rfl | rfl | rfl | rfl | rfl | rfl <;> simp [optExp]

theorem after_not_dot {rest : Str} (h : After rest) (t : Str) : rest ≠ '.' :: t := by
  obtain ⟨c, t', rfl, hc⟩ := after_head h
  rcases hc with rfl | rfl | rfl | rfl | rfl | rfl <;> simp

/-! ### integers -/

theorem mSlice_int_after {w : Str} (hw : IntText w) {rest : Str} (hr : After rest) : mSlice (w ++ rest) = none := by
  unfold mSlice
  rw [optInt_intText hw rest (after_stops_digit hr)]
  simp only []
  split
  · rename_i heq; exact absurd heq (after_skipWs hr _)
  · rfl

theorem mFloat_int_after {w : Str} (hw : IntText w) {rest : Str} (hr : After rest) : mFloat (w ++ rest) = none := by
  obtain ⟨sg, D, rfl, hs, hne, hall, hsg⟩ := intText_sign hw rest
  unfold mFloat
  rw [hs]
  simp only [span_stops _ _ _ hall (after_stops_digit hr), hne, Bool.false_eq_true, if_false]
  split
  · rename_i r1; exact absurd rfl (after_not_dot hr r1)
  · rfl

theorem mInt_int_after (uw : Char → Bool) {w : Str} (hw : IntText w) {rest : Str} (hr : After rest) :
    mInt uw (w ++ rest) = some ([⟨.int, w⟩], rest) := by
  obtain ⟨sg, D, rfl, hs, hne, hall, hsg⟩ := intText_sign hw rest
  unfold mInt
  rw [hs]
  simp only [span_stops _ _ _ hall (after_stops_digit hr), hne, Bool.false_eq_true, if_false, after_optExp hr,
    atBoundary_eq, after_stops_word uw hr, if_true, List.append_nil]

theorem fm_int_after (uw : Char → Bool) {w : Str} (hw : IntText w) {rest : Str} (hr : After rest) :
    firstMatch (R uw) (w ++ rest) = some ([⟨.int, w⟩], rest) := by
  have h4 := mSlice_int_after hw hr
  have h7 := mFloat_int_after hw hr
  have h8 := mInt_int_after uw hw hr
  obtain ⟨c, t, rfl, hc⟩ := intText_head hw
  obtain ⟨f1, f2, f3, f4, f5, f6, f7⟩ := intHead_facts hc
  rw [List.cons_append] at h4 h7 h8 ⊢
  simp only [R, firstMatch, mQuoted_ne _ _ f1, mQuoted_ne _ _ f2, mRe_ne _ f3, h4, mFunc_not_lower _ f5,
    mDotProp_ne _ f4, h7, h8]

theorem fs_intText {w : Str} (hw : IntText w) (t : Str) : fs (w ++ t) = true := by
  obtain ⟨c, u, rfl, hc⟩ := intText_head hw
  rcases hc with h | rfl
  · simp [fs, tokStart, h]
  · rfl

theorem tokz_int (uw : Char → Bool) (i : Int) {bl r : Str} {cs : List CTok} (hb : isS bl = true)
    (hr : endc r = true) (ht : Tokz uw r cs) : Tokz uw (intStr i ++ (bl ++ r)) (.tok (.int i) :: cs) :=
  tokz_step (fm_int_after uw (intText_intStr i) ⟨bl, r, hb, hr, rfl⟩) (cook_int (intLiteral_intStr i))
    (tokz_skip hb (endc_fs hr) ht)

/-! ### quoted names -/

theorem cook_dq {v s : Str} (h : decodeDQ v = .ok s) : CookB [⟨.dq, v⟩] [.tok (.str s)] :=
  cookB_one _ _ (by intro more; simp [cook, h, Except.map, ofDec])

theorem fm_dq (uw : Char → Bool) (s w rest : Str) (h : Spells '"' s w) :
    firstMatch (R uw) ('"' :: (w ++ '"' :: rest)) = some ([⟨.dq, w⟩], rest) := by
  have := spelling_lexes '"' (.inr rfl) .dq s w rest h
  simp only [List.cons_append] at this
  simp only [R, firstMatch, this]

theorem fm_sq (uw : Char → Bool) (s w rest : Str) (h : Spells '\'' s w) :
    firstMatch (R uw) ('\'' :: (w ++ '\'' :: rest)) = some ([⟨.sq, w⟩], rest) := by
  have := spelling_lexes '\'' (.inl rfl) .sq s w rest h
  simp only [List.cons_append] at this
  simp only [R, firstMatch, mQuoted_ne _ _ (show '\'' ≠ '"' by decide), this]

theorem tokz_dq (uw : Char → Bool) (s w : Str) (h : Spells '"' s w) {rest : Str} {cs : List CTok}
    (ht : Tokz uw rest cs) : Tokz uw ('"' :: (w ++ '"' :: rest)) (.tok (.str s) :: cs) :=
  tokz_step (fm_dq uw s w rest h) (cook_dq (LexStr.decodeDQ_spells h)) ht

theorem tokz_sq (uw : Char → Bool) (s w : Str) (h : Spells '\'' s w) {rest : Str} {cs : List CTok}
    (ht : Tokz uw rest cs) : Tokz uw ('\'' :: (w ++ '\'' :: rest)) (.tok (.str s) :: cs) :=
  tokz_step (fm_sq uw s w rest h) (cook_sq (LexStr.decodeSQ_spells h)) ht

/-! ### slices -/

theorem mSlice_two (s A r1 r2 B r3 r4 : Str) (h1 : optInt s = (A, r1)) (h2 : skipWs r1 = ':' :: r2)
    (h3 : optInt (skipWs r2) = (B, r3)) (h4 : skipWs r3 = r4) (h5 : ∀ t, r4 ≠ ':' :: t) :
    mSlice s = some ([⟨.sliceStart, A⟩, ⟨.sliceStop, B⟩, ⟨.sliceStep, []⟩], r4) := by
  unfold mSlice
  simp only [h1, h2, h3, h4]
  try (split
       · rename_i heq; exact absurd heq (h5 _)
       · rfl)

theorem mSlice_three (s A r1 r2 B r3 r5 C r6 : Str) (h1 : optInt s = (A, r1)) (h2 : skipWs r1 = ':' :: r2)
    (h3 : optInt (skipWs r2) = (B, r3)) (h4 : skipWs r3 = ':' :: r5) (h5 : optInt (skipWs r5) = (C, r6)) :
    mSlice s = some ([⟨.sliceStart, A⟩, ⟨.sliceStop, B⟩, ⟨.sliceStep, C⟩], r6) := by
  unfold mSlice
  simp only [h1, h2, h3, h4, h5]

def puncH : Str → Bool
  | [] => false
  | c :: _ => c == ',' || c == ']' || c == ':'

theorem puncH_cases {r : Str} (h : puncH r = true) : ∃ t, r = ',' :: t ∨ r = ']' :: t ∨ r = ':' :: t := by
  cases r with
  | nil => simp [puncH] at h
  | cons c t =>
    simp only [puncH, Bool.or_eq_true, beq_iff_eq] at h
    rcases h with (rfl | rfl) | rfl
    · exact ⟨t, .inl rfl⟩
    · exact ⟨t, .inr (.inl rfl)⟩
    · exact ⟨t, .inr (.inr rfl)⟩

theorem puncH_facts {r : Str} (h : puncH r = true) :
    stops isPyBlank r = true ∧ noInt r = true ∧ stops Char.isDigit r = true := by
  obtain ⟨t, rfl | rfl | rfl⟩ := puncH_cases h <;> refine ⟨?_, ?_, ?_⟩ <;> rfl

theorem endc_puncH {r : Str} (h : endc r = true) : puncH r = true := by
  obtain ⟨t, rfl | rfl⟩ := endc_cases h <;> rfl

theorem stops_digit_blanks {x y : Str} (hx : isS x = true) (hy : stops Char.isDigit y = true) :
    stops Char.isDigit (x ++ y) = true := by
  cases x with
  | nil => exact hy
  | cons c x =>
    obtain ⟨h1, _⟩ := isS_cons.mp hx
    rcases isB_cases h1 with rfl | rfl | rfl | rfl <;> rfl

theorem noInt_blanks {x y : Str} (hx : isS x = true) (hy : noInt y = true) : noInt (x ++ y) = true := by
  cases x with
  | nil => exact hy
  | cons c x => exact noInt_blank (isS_cons.mp hx).1 _

theorem stops_blank_intText {w : Str} (hw : IntText w) (t : Str) : stops isPyBlank (w ++ t) = true := by
  obtain ⟨c, u, rfl, hc⟩ := intText_head hw
  simp [stops, (intHead_facts hc).2.2.2.2.2.1]

theorem slice_start (pre A s1 t : Str) (hpre : isS pre = true) (hs1 : isS s1 = true) (hA : OptText A)
    (h : A = [] ∨ pre = []) :
    ∃ r1, optInt (pre ++ (A ++ (s1 ++ ':' :: t))) = (A, r1) ∧ skipWs r1 = ':' :: t := by
  rcases hA with rfl | hA
  · refine ⟨pre ++ (s1 ++ ':' :: t), ?_, ?_⟩
    · rw [List.nil_append]
      exact optInt_noInt (noInt_blanks hpre (noInt_blanks hs1 rfl))
    · rw [← List.append_assoc]
      exact skipWs_blanks (isS_append hpre hs1) rfl
  · have hp : pre = [] := by
      rcases h with h | h
      · exact absurd h (intText_ne_nil hA)
      · exact h
    subst hp
    refine ⟨s1 ++ ':' :: t, ?_, ?_⟩
    · rw [List.nil_append]
      exact optInt_intText hA _ (stops_digit_blanks hs1 rfl)
    · exact skipWs_blanks hs1 rfl

theorem slice_mid (s2 B X r : Str) (hs2 : isS s2 = true) (hB : OptText B) (hX : isS X = true)
    (hr : puncH r = true) :
    ∃ X', (X' = X ∨ X' = []) ∧ optInt (skipWs (s2 ++ (B ++ (X ++ r)))) = (B, X' ++ r) := by
  obtain ⟨f1, f2, f3⟩ := puncH_facts hr
  rcases hB with rfl | hB
  · refine ⟨[], .inr rfl, ?_⟩
    rw [List.nil_append, ← List.append_assoc, skipWs_blanks (isS_append hs2 hX) f1]
    exact optInt_noInt f2
  · refine ⟨X, .inl rfl, ?_⟩
    rw [skipWs_blanks hs2 (stops_blank_intText hB _)]
    exact optInt_intText hB _ (stops_digit_blanks hX f3)

theorem mSlice_slice2 (pre A s1 s2 B X r : Str) (hpre : isS pre = true) (hs1 : isS s1 = true)
    (hs2 : isS s2 = true) (hX : isS X = true) (hA : OptText A) (hB : OptText B) (h : A = [] ∨ pre = [])
    (hr : endc r = true) :
    mSlice (pre ++ (A ++ (s1 ++ ':' :: (s2 ++ (B ++ (X ++ r)))))) =
      some ([⟨.sliceStart, A⟩, ⟨.sliceStop, B⟩, ⟨.sliceStep, []⟩], r) := by
  obtain ⟨r1, h1, h2⟩ := slice_start pre A s1 (s2 ++ (B ++ (X ++ r))) hpre hs1 hA h
  obtain ⟨X', hX', h3⟩ := slice_mid s2 B X r hs2 hB hX (endc_puncH hr)
  have hX'' : isS X' = true := by rcases hX' with rfl | rfl <;> first | exact hX | rfl
  have h4 : skipWs (X' ++ r) = r := skipWs_blanks hX'' (fs_stops (endc_fs hr))
  exact mSlice_two _ _ _ _ _ _ _ h1 h2 h3 h4 (fs_not_colon (endc_fs hr))

theorem mSlice_slice3 (pre A s1 s2 B s3 s4 C X r : Str) (hpre : isS pre = true) (hs1 : isS s1 = true)
    (hs2 : isS s2 = true) (hs3 : isS s3 = true) (hs4 : isS s4 = true) (hX : isS X = true) (hA : OptText A)
    (hB : OptText B) (hC : OptText C) (h : A = [] ∨ pre = []) (hr : endc r = true) :
    ∃ X', isS X' = true ∧
      mSlice (pre ++ (A ++ (s1 ++ ':' :: (s2 ++ (B ++ (s3 ++ ':' :: (s4 ++ (C ++ (X ++ r))))))))) =
        some ([⟨.sliceStart, A⟩, ⟨.sliceStop, B⟩, ⟨.sliceStep, C⟩], X' ++ r) := by
  obtain ⟨r1, h1, h2⟩ := slice_start pre A s1 (s2 ++ (B ++ (s3 ++ ':' :: (s4 ++ (C ++ (X ++ r)))))) hpre hs1 hA h
  obtain ⟨Y, hY, h3⟩ := slice_mid s2 B s3 (':' :: (s4 ++ (C ++ (X ++ r)))) hs2 hB hs3 rfl
  have hY' : isS Y = true := by rcases hY with rfl | rfl <;> first | exact hs3 | rfl
  have h4 : skipWs (Y ++ ':' :: (s4 ++ (C ++ (X ++ r)))) = ':' :: (s4 ++ (C ++ (X ++ r))) :=
    skipWs_blanks hY' rfl
  obtain ⟨X', hX', h5⟩ := slice_mid s4 C X r hs4 hC hX (endc_puncH hr)
  have hX'' : isS X' = true := by rcases hX' with rfl | rfl <;> first | exact hX | rfl
  exact ⟨X', hX'', mSlice_three _ _ _ _ _ _ _ _ _ h1 h2 h3 h4 h5⟩

/-- first character of a slice text, possibly after blanks -/
def sliceHead : Str → Bool
  | [] => false
  | c :: _ => isB c || c == ':' || c == '-' || c.isDigit

theorem sliceHead_text (pre A s1 t : Str) (hpre : isS pre = true) (hs1 : isS s1 = true) (hA : OptText A) :
    sliceHead (pre ++ (A ++ (s1 ++ ':' :: t))) = true := by
  cases pre with
  | cons c p => simp [sliceHead, (isS_cons.mp hpre).1]
  | nil =>
    rw [List.nil_append]
    rcases hA with rfl | hA
    · rw [List.nil_append]
      cases s1 with
      | cons c p => simp [sliceHead, (isS_cons.mp hs1).1]
      | nil => rfl
    · obtain ⟨c, u, rfl, hc⟩ := intText_head hA
      rcases hc with h | rfl
      · simp [sliceHead, h]
      · rfl

theorem fm_slice (uw : Char → Bool) {s : Str} {x : List RawTok × Str} (hh : sliceHead s = true)
    (hm : mSlice s = some x) : firstMatch (R uw) s = some x := by
  cases s with
  | nil => simp [sliceHead] at hh
  | cons c t =>
    have hf : c ≠ '"' ∧ c ≠ '\'' ∧ c ≠ '/' := by
      simp only [sliceHead, Bool.or_eq_true, beq_iff_eq] at hh
      rcases hh with ((h | rfl) | rfl) | h
      · rcases isB_cases h with rfl | rfl | rfl | rfl <;> decide
      · decide
      · decide
      · exact ⟨(digit_facts h).1, (digit_facts h).2.1, (digit_facts h).2.2.1⟩
    obtain ⟨f1, f2, f3⟩ := hf
    simp only [R, firstMatch, mQuoted_ne _ _ f1, mQuoted_ne _ _ f2, mRe_ne _ f3, hm]

theorem cook_sliceOpt (a b c : Option Int) :
    CookB [⟨.sliceStart, optIntStr a⟩, ⟨.sliceStop, optIntStr b⟩, ⟨.sliceStep, optIntStr c⟩]
      [.tok (.slice a b c)] := by
  have := @cook_slice (optIntStr a) (optIntStr b) (optIntStr c)
  rw [optIntVal_optIntStr, optIntVal_optIntStr, optIntVal_optIntStr] at this
  exact this

/-- a two-part slice, blanks before (when there is no start) and after it -/
theorem tokz_slice2_core (uw : Char → Bool) (a b : Option Int) (pre s1 s2 X r : Str) {cs : List CTok}
    (hpre : isS pre = true) (hs1 : isS s1 = true) (hs2 : isS s2 = true) (hX : isS X = true)
    (h : optIntStr a = [] ∨ pre = []) (hr : endc r = true) (ht : Tokz uw r cs) :
    Tokz uw (pre ++ (optIntStr a ++ (s1 ++ ':' :: (s2 ++ (optIntStr b ++ (X ++ r))))))
      (.tok (.slice a b none) :: cs) := by
  have hm := mSlice_slice2 pre _ s1 s2 _ X r hpre hs1 hs2 hX (optText_optIntStr a) (optText_optIntStr b) h hr
  exact tokz_step (fm_slice uw (sliceHead_text _ _ _ _ hpre hs1 (optText_optIntStr a)) hm)
    (cook_sliceOpt a b none) ht

theorem tokz_slice3_core (uw : Char → Bool) (a b c : Option Int) (pre s1 s2 s3 s4 X r : Str) {cs : List CTok}
    (hpre : isS pre = true) (hs1 : isS s1 = true) (hs2 : isS s2 = true) (hs3 : isS s3 = true)
    (hs4 : isS s4 = true) (hX : isS X = true)
    (h : optIntStr a = [] ∨ pre = []) (hr : endc r = true) (ht : Tokz uw r cs) :
    Tokz uw (pre ++ (optIntStr a ++ (s1 ++ ':' :: (s2 ++ (optIntStr b ++ (s3 ++ ':' :: (s4 ++ (optIntStr c ++ (X ++ r)))))))))
      (.tok (.slice a b c) :: cs) := by
  obtain ⟨X', hX', hm⟩ := mSlice_slice3 pre _ s1 s2 _ s3 s4 _ X r hpre hs1 hs2 hs3 hs4 hX (optText_optIntStr a)
    (optText_optIntStr b) (optText_optIntStr c) h hr
  exact tokz_step (fm_slice uw (sliceHead_text _ _ _ _ hpre hs1 (optText_optIntStr a)) hm)
    (cook_sliceOpt a b c) (tokz_skip hX' (endc_fs hr) ht)

theorem fs_optIntStr_some (i : Int) (t : Str) : fs (optIntStr (some i) ++ t) = true :=
  fs_intText (intText_intStr i) t

theorem tokz_slice2 (uw : Char → Bool) (a b : Option Int) (pre s1 s2 X r : Str) {cs : List CTok}
    (hpre : isS pre = true) (hs1 : isS s1 = true) (hs2 : isS s2 = true) (hX : isS X = true)
    (hr : endc r = true) (ht : Tokz uw r cs) :
    Tokz uw (pre ++ (optIntStr a ++ (s1 ++ ':' :: (s2 ++ (optIntStr b ++ (X ++ r))))))
      (.tok (.slice a b none) :: cs) := by
  cases a with
  | none => exact tokz_slice2_core uw none b pre s1 s2 X r hpre hs1 hs2 hX (.inl rfl) hr ht
  | some i =>
    have := tokz_slice2_core uw (some i) b [] s1 s2 X r rfl hs1 hs2 hX (.inr rfl) hr ht
    exact tokz_skip hpre (fs_optIntStr_some i _) this

theorem tokz_slice3 (uw : Char → Bool) (a b c : Option Int) (pre s1 s2 s3 s4 X r : Str) {cs : List CTok}
    (hpre : isS pre = true) (hs1 : isS s1 = true) (hs2 : isS s2 = true) (hs3 : isS s3 = true)
    (hs4 : isS s4 = true) (hX : isS X = true) (hr : endc r = true) (ht : Tokz uw r cs) :
    Tokz uw (pre ++ (optIntStr a ++ (s1 ++ ':' :: (s2 ++ (optIntStr b ++ (s3 ++ ':' :: (s4 ++ (optIntStr c ++ (X ++ r)))))))))
      (.tok (.slice a b c) :: cs) := by
  cases a with
  | none => exact tokz_slice3_core uw none b c pre s1 s2 s3 s4 X r hpre hs1 hs2 hs3 hs4 hX (.inl rfl) hr ht
  | some i =>
    have := tokz_slice3_core uw (some i) b c [] s1 s2 s3 s4 X r rfl hs1 hs2 hs3 hs4 hX (.inr rfl) hr ht
    exact tokz_skip hpre (fs_optIntStr_some i _) this

end JP.Lemmas.RfcSpell
