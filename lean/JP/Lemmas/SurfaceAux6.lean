/-
  C10 helpers, part 6: the normal form `norm*` is idempotent, prints the same tokens, stays `parsed`, and
  evaluates the same.
-/
import JP.Surface
namespace JP.Lemmas
open JP JP.Query JP.Surface

mutual
theorem normE_idem (e : Expr) : normE (normE e) = normE e :=
  match e with
  | .nil | .undefined | .bool _ | .int _ | .flt _ | .str _ | .regex _ _ | .key => by simp only [normE]
  | .list items => by simp only [normE]; rw [normEs_idem items]
  | .not e => by simp only [normE]; rw [normE_idem e]
  | .infix l op r => by simp only [normE]; rw [normE_idem l, normE_idem r]
  | .self q => by simp only [normE]; rw [normSegs_idem' q]
  | .root q f => by simp only [normE]; rw [normSegs_idem' q]
  | .ctx q => by simp only [normE]; rw [normSegs_idem' q]
  | .func name args => by simp only [normE]; rw [normEs_idem args]
termination_by sizeOf e
theorem normEs_idem (es : List Expr) : normEs (normEs es) = normEs es :=
  match es with
  | [] => by simp only [normEs]
  | e :: es => by simp only [normEs]; rw [normE_idem e, normEs_idem es]
termination_by sizeOf es
theorem normSel_idem (s : Sel) : normSel (normSel s) = normSel s :=
  match s with
  | .slice a b c => by simp only [normSel, Option.getD_some]
  | .filter e => by simp only [normSel]; rw [normE_idem e]
  | .name _ | .index _ | .wild | .keys => by simp only [normSel]
termination_by sizeOf s
theorem normSels_idem (ss : List Sel) : normSels (normSels ss) = normSels ss :=
  match ss with
  | [] => by simp only [normSels]
  | s :: ss => by simp only [normSels]; rw [normSel_idem s, normSels_idem ss]
termination_by sizeOf ss
theorem normSegs_idem' (segs : List Seg) : normSegs (normSegs segs) = normSegs segs :=
  match segs with
  | [] => by simp only [normSegs]
  | .child sels :: rest => by simp only [normSegs]; rw [normSels_idem sels, normSegs_idem' rest]
  | .desc :: rest => by simp only [normSegs]; rw [normSegs_idem' rest]
termination_by sizeOf segs
end

theorem normE_infix (l r : Expr) (op : CmpOp) : normE (.infix l op r) = .infix (normE l) op (normE r) := by
  simp only [normE]

theorem ptoksOperand_norm_of (e : Expr) (h : ptoksE (normE e) = ptoksE e) :
    ptoksOperand (normE e) = ptoksOperand e := by
  cases e <;> simp only [normE] at h ⊢ <;> simp only [ptoksOperand] <;> rw [h]

theorem ptoksE_not_norm_of (e : Expr) (h : ptoksE (normE e) = ptoksE e) :
    ptoksE (.not (normE e)) = ptoksE (.not e) := by
  cases e <;> simp only [normE] at h ⊢ <;> simp only [ptoksE] at h ⊢ <;> rw [h]


theorem ptoksCanon_not_norm_of (p : Nat) (e : Expr) (h : ptoksCanon 7 (normE e) = ptoksCanon 7 e) :
    ptoksCanon p (.not (normE e)) = ptoksCanon p (.not e) := by
  cases e <;> simp only [normE] at h ⊢ <;> simp only [ptoksCanon] at h ⊢ <;> rw [h]

theorem ptoksCanon_infix_norm_of (p : Nat) (l r : Expr) (op : CmpOp)
    (hE : ptoksE (.infix (normE l) op (normE r)) = ptoksE (.infix l op r))
    (hl : ∀ p, ptoksCanon p (normE l) = ptoksCanon p l)
    (hr : ∀ p, ptoksCanon p (normE r) = ptoksCanon p r) :
    ptoksCanon p (.infix (normE l) op (normE r)) = ptoksCanon p (.infix l op r) := by
  cases op <;> simp only [ptoksCanon] <;> first | rw [hE] | rw [hl, hr]

mutual
theorem ptoksE_norm (e : Expr) : ptoksE (normE e) = ptoksE e :=
  match e with
  | .nil | .undefined | .bool _ | .int _ | .flt _ | .str _ | .regex _ _ | .key => by simp only [normE]
  | .list items => by simp only [normE, ptoksE]; rw [ptoksArgs_norm items]
  | .not e => by
    have h := ptoksE_not_norm_of e (ptoksE_norm e)
    simp only [normE]; exact h
  | .infix l op r => by
    simp only [normE, ptoksE]
    rw [ptoksE_norm l, ptoksE_norm r, ptoksOperand_norm_of l (ptoksE_norm l), ptoksOperand_norm_of r (ptoksE_norm r)]
  | .self q => by simp only [normE, ptoksE]; rw [ptoksSegs_norm q]
  | .root q f => by simp only [normE, ptoksE]; rw [ptoksSegs_norm q]
  | .ctx q => by simp only [normE, ptoksE]; rw [ptoksSegs_norm q]
  | .func name args => by simp only [normE, ptoksE]; rw [ptoksArgs_norm args]
termination_by (sizeOf e, 0)
theorem ptoksCanon_norm (e : Expr) : ∀ p, ptoksCanon p (normE e) = ptoksCanon p e :=
  match e with
  | .nil | .undefined | .bool _ | .int _ | .flt _ | .str _ | .regex _ _ | .key => by intro p; simp only [normE]
  | .list items => by
    intro p; have h := ptoksE_norm (.list items); simp only [normE] at h ⊢; simp only [ptoksCanon]; exact h
  | .self q => by
    intro p; have h := ptoksE_norm (.self q); simp only [normE] at h ⊢; simp only [ptoksCanon]; exact h
  | .root q f => by
    intro p; have h := ptoksE_norm (.root q f); simp only [normE] at h ⊢; simp only [ptoksCanon]; exact h
  | .ctx q => by
    intro p; have h := ptoksE_norm (.ctx q); simp only [normE] at h ⊢; simp only [ptoksCanon]; exact h
  | .func n a => by
    intro p; have h := ptoksE_norm (.func n a); simp only [normE] at h ⊢; simp only [ptoksCanon]; exact h
  | .not e => by
    intro p
    have h := ptoksCanon_not_norm_of p e (ptoksCanon_norm e 7)
    simp only [normE]; exact h
  | .infix l op r => by
    intro p
    have hE := ptoksE_norm (.infix l op r)
    rw [normE_infix] at hE ⊢
    exact ptoksCanon_infix_norm_of p l r op hE (ptoksCanon_norm l) (ptoksCanon_norm r)
termination_by (sizeOf e, 1)
theorem ptoksArgs_norm (es : List Expr) : ptoksArgs (normEs es) = ptoksArgs es :=
  match es with
  | [] => by simp only [normEs]
  | [e] => by simp only [normEs, ptoksArgs]; exact ptoksE_norm e
  | e :: e' :: es => by
    have h := ptoksArgs_norm (e' :: es)
    simp only [normEs] at h ⊢; simp only [ptoksArgs] at h ⊢; rw [ptoksE_norm e, h]
termination_by (sizeOf es, 0)
theorem ptoksSel_norm (s : Sel) : ptoksSel (normSel s) = ptoksSel s :=
  match s with
  | .slice a b c => by simp only [normSel, ptoksSel, Option.getD_some]
  | .filter e => by simp only [normSel, ptoksSel]; rw [ptoksCanon_norm e]
  | .name _ | .index _ | .wild | .keys => by simp only [normSel]
termination_by (sizeOf s, 0)
theorem ptoksSels_norm (ss : List Sel) : ptoksSels (normSels ss) = ptoksSels ss :=
  match ss with
  | [] => by simp only [normSels]
  | [s] => by simp only [normSels, ptoksSels]; exact ptoksSel_norm s
  | s :: s' :: ss => by
    have h := ptoksSels_norm (s' :: ss)
    simp only [normSels] at h ⊢; simp only [ptoksSels] at h ⊢; rw [ptoksSel_norm s, h]
termination_by (sizeOf ss, 0)
theorem ptoksSegs_norm (segs : List Seg) : ptoksSegs (normSegs segs) = ptoksSegs segs :=
  match segs with
  | [] => by simp only [normSegs]
  | .child sels :: rest => by simp only [normSegs, ptoksSegs]; rw [ptoksSels_norm sels, ptoksSegs_norm rest]
  | .desc :: rest => by simp only [normSegs, ptoksSegs]; rw [ptoksSegs_norm rest]
termination_by (sizeOf segs, 0)
end

theorem literalOfExpr_norm (e : Expr) : literalOfExpr (normE e) = literalOfExpr e := by
  cases e <;> simp only [normE, literalOfExpr]
theorem argShape_norm (e : Expr) : argShape (normE e) = argShape e := by
  cases e <;> simp only [normE, argShape]
theorem all_normEs (f : Expr → Bool) (hf : ∀ e, f (normE e) = f e) (es : List Expr) :
    (normEs es).all f = es.all f := by
  induction es with
  | nil => simp only [normEs]
  | cons e es ih => simp only [normEs, List.all_cons, hf, ih]
theorem isEmpty_normSels (ss : List Sel) : (normSels ss).isEmpty = ss.isEmpty := by
  cases ss <;> simp only [normSels, List.isEmpty_nil, List.isEmpty_cons]

mutual
theorem parsedE_norm (e : Expr) : parsedE (normE e) = parsedE e :=
  match e with
  | .nil | .undefined | .bool _ | .int _ | .flt _ | .str _ | .regex _ _ | .key => by simp only [normE]
  | .list items => by
    simp only [normE, parsedE]; rw [parsedEs_norm items, all_normEs _ literalOfExpr_norm]
  | .not e => by simp only [normE, parsedE]; exact parsedE_norm e
  | .infix l op r => by simp only [normE, parsedE]; rw [parsedE_norm l, parsedE_norm r]
  | .self q => by simp only [normE, parsedE]; exact parsedSegs_norm q
  | .root q f => by simp only [normE, parsedE]; exact parsedSegs_norm q
  | .ctx q => by simp only [normE, parsedE]; exact parsedSegs_norm q
  | .func name args => by
    simp only [normE, parsedE]; rw [parsedEs_norm args, all_normEs _ argShape_norm]
termination_by sizeOf e
theorem parsedEs_norm (es : List Expr) : parsedEs (normEs es) = parsedEs es :=
  match es with
  | [] => by simp only [normEs]
  | e :: es => by simp only [normEs, parsedEs]; rw [parsedE_norm e, parsedEs_norm es]
termination_by sizeOf es
theorem parsedSel_norm (s : Sel) : parsedSel (normSel s) = parsedSel s :=
  match s with
  | .slice a b c => by simp only [normSel, parsedSel]
  | .filter e => by simp only [normSel, parsedSel]; exact parsedE_norm e
  | .name _ | .index _ | .wild | .keys => by simp only [normSel]
termination_by sizeOf s
theorem parsedSels_norm (ss : List Sel) : parsedSels (normSels ss) = parsedSels ss :=
  match ss with
  | [] => by simp only [normSels]
  | s :: ss => by simp only [normSels, parsedSels]; rw [parsedSel_norm s, parsedSels_norm ss]
termination_by sizeOf ss
theorem parsedSegs_norm (segs : List Seg) : parsedSegs (normSegs segs) = parsedSegs segs :=
  match segs with
  | [] => by simp only [normSegs]
  | .child sels :: rest => by
    simp only [normSegs, parsedSegs]; rw [parsedSels_norm sels, parsedSegs_norm rest, isEmpty_normSels]
  | .desc :: rest => by simp only [normSegs, parsedSegs]; exact parsedSegs_norm rest
termination_by sizeOf segs
end

mutual
theorem evalExpr_norm (env : Env) (cur : J) (k : Option Part) (e : Expr) :
    evalExpr env cur k (normE e) = evalExpr env cur k e :=
  match e with
  | .nil | .undefined | .bool _ | .int _ | .flt _ | .str _ | .regex _ _ | .key => by simp only [normE]
  | .list items => by simp only [normE, evalExpr]; rw [evalLits_norm env cur k items]
  | .not e => by simp only [normE, evalExpr]; rw [evalExpr_norm env cur k e]
  | .infix l op r => by simp only [normE, evalExpr]; rw [evalExpr_norm env cur k l, evalExpr_norm env cur k r]
  | .self q => by simp only [normE, evalExpr]; rw [evalSegs_norm env q]
  | .root q f => by simp only [normE, evalExpr]; rw [evalSegs_norm env q]
  | .ctx q => by simp only [normE, evalExpr]; rw [evalSegs_norm env q]
  | .func name args => by simp only [normE, evalExpr]; rw [evalArgs_norm env cur k args]
termination_by sizeOf e
theorem evalLits_norm (env : Env) (cur : J) (k : Option Part) (es : List Expr) :
    evalLits env cur k (normEs es) = evalLits env cur k es :=
  match es with
  | [] => by simp only [normEs]
  | e :: es => by simp only [normEs, evalLits]; rw [evalExpr_norm env cur k e, evalLits_norm env cur k es]
termination_by sizeOf es
theorem evalArgs_norm (env : Env) (cur : J) (k : Option Part) (es : List Expr) :
    evalArgs env cur k (normEs es) = evalArgs env cur k es :=
  match es with
  | [] => by simp only [normEs]
  | e :: es => by simp only [normEs, evalArgs]; rw [evalExpr_norm env cur k e, evalArgs_norm env cur k es]
termination_by sizeOf es
theorem evalSel_norm (env : Env) (n : Node) (s : Sel) : evalSel env n (normSel s) = evalSel env n s :=
  match s with
  | .slice a b c => by simp only [normSel, evalSel, Option.getD_some]
  | .filter e => by
    simp only [normSel, evalSel]
    have h : ∀ v k, evalExpr env v k (normE e) = evalExpr env v k e := fun v k => evalExpr_norm env v k e
    simp only [h]
  | .name _ | .index _ | .wild | .keys => by simp only [normSel]
termination_by sizeOf s
theorem evalSels_norm (env : Env) (n : Node) (ss : List Sel) : evalSels env n (normSels ss) = evalSels env n ss :=
  match ss with
  | [] => by simp only [normSels]
  | s :: ss => by simp only [normSels, evalSels]; rw [evalSel_norm env n s, evalSels_norm env n ss]
termination_by sizeOf ss
theorem evalSegs_norm (env : Env) (segs : List Seg) : ∀ ns, evalSegs env (normSegs segs) ns = evalSegs env segs ns :=
  match segs with
  | [] => by intro ns; simp only [normSegs]
  | .child sels :: rest => by
    intro ns
    simp only [normSegs, evalSegs]
    have h : ∀ n, evalSels env n (normSels sels) = evalSels env n sels := fun n => evalSels_norm env n sels
    simp only [h]
    exact evalSegs_norm env rest _
  | .desc :: rest => by intro ns; simp only [normSegs, evalSegs]; exact evalSegs_norm env rest _
termination_by sizeOf segs
end
end JP.Lemmas
