/-
  Well-formedness (no duplicate member names at any depth) is preserved by the RFC 6902
  operations of `JP.Patch` (spec side).
-/
import JP.Patch
set_option linter.unusedSimpArgs false
namespace JP.Lemmas
open JP JP.Pointer JP.Patch

theorem pa_wfList_iff (xs : List J) : J.wf.wfList xs = true ↔ ∀ x ∈ xs, x.wf = true := by
  induction xs with
  | nil => simp [J.wf.wfList]
  | cons x xs ih => simp [J.wf.wfList, ih]

theorem pa_wfMembers_iff (kvs : List (Str × J)) :
    J.wf.wfMembers kvs = true ↔ ∀ kv ∈ kvs, kv.2.wf = true := by
  induction kvs with
  | nil => simp [J.wf.wfMembers]
  | cons kv kvs ih =>
    obtain ⟨k, v⟩ := kv
    simp [J.wf.wfMembers, ih]

theorem pa_noDupKeys_iff (ks : List Str) : J.wf.noDupKeys ks = true ↔ ks.Nodup := by
  induction ks with
  | nil => simp [J.wf.noDupKeys]
  | cons k ks ih => simp [J.wf.noDupKeys, ih]

theorem pa_wf_arr (xs : List J) : (J.arr xs).wf = true ↔ ∀ x ∈ xs, x.wf = true := by
  rw [J.wf, pa_wfList_iff]

theorem pa_wf_obj (kvs : List (Str × J)) :
    (J.obj kvs).wf = true ↔ (kvs.map (·.1)).Nodup ∧ ∀ kv ∈ kvs, kv.2.wf = true := by
  rw [J.wf, Bool.and_eq_true, pa_noDupKeys_iff, pa_wfMembers_iff]

/-! ### dict primitives -/

theorem pa_dictGet_mem {α} (kvs : List (Str × α)) (k : Str) (v : α) (h : dictGet kvs k = some v) :
    (k, v) ∈ kvs := by
  induction kvs with
  | nil => cases h
  | cons kv kvs ih =>
    obtain ⟨k', v'⟩ := kv
    simp only [dictGet] at h
    split at h
    · rename_i hk; cases h; subst hk; simp
    · simp [ih h]

theorem pa_dictGet_none_iff {α} (kvs : List (Str × α)) (k : Str) :
    dictGet kvs k = none ↔ k ∉ kvs.map (·.1) := by
  induction kvs with
  | nil => simp [dictGet]
  | cons kv kvs ih =>
    obtain ⟨k', v'⟩ := kv
    simp only [dictGet]
    split
    · rename_i hk; simp [hk]
    · rename_i hk; simp [ih, Ne.symm hk]

theorem pa_dictGet_of_mem_nodup {α} (kvs : List (Str × α)) (k : Str) (v : α)
    (hm : (k, v) ∈ kvs) (hn : (kvs.map (·.1)).Nodup) : dictGet kvs k = some v := by
  induction kvs with
  | nil => cases hm
  | cons kv kvs ih =>
    obtain ⟨k', v'⟩ := kv
    simp only [List.map_cons, List.nodup_cons] at hn
    simp only [dictGet]
    rcases List.mem_cons.1 hm with h | h
    · cases h; simp
    · split
      · rename_i hk
        exfalso; apply hn.1
        rw [hk]; exact List.mem_map.2 ⟨(k, v), h, rfl⟩
      · exact ih h hn.2

theorem pa_keys_dictSet {α} (kvs : List (Str × α)) (k : Str) (v : α) :
    (dictSet kvs k v).map (·.1) =
      if k ∈ kvs.map (·.1) then kvs.map (·.1) else kvs.map (·.1) ++ [k] := by
  induction kvs with
  | nil => simp [dictSet]
  | cons kv kvs ih =>
    obtain ⟨k', v'⟩ := kv
    simp only [dictSet]
    split
    · rename_i hk; simp [hk]
    · rename_i hk
      simp only [List.map_cons, ih, List.mem_cons]
      by_cases hm : k ∈ kvs.map (·.1)
      · simp [hm]
      · simp [hm, Ne.symm hk]

theorem pa_mem_dictSet {α} (kvs : List (Str × α)) (k : Str) (v : α) (kv : Str × α)
    (h : kv ∈ dictSet kvs k v) : kv ∈ kvs ∨ kv = (k, v) := by
  induction kvs with
  | nil => simp [dictSet] at h; exact Or.inr h
  | cons kv' kvs ih =>
    obtain ⟨k', v'⟩ := kv'
    simp only [dictSet] at h
    split at h
    · simp at h; rcases h with h | h
      · exact Or.inr h
      · exact Or.inl (by simp [h])
    · simp at h; rcases h with h | h
      · exact Or.inl (by simp [h])
      · rcases ih h with h' | h'
        · exact Or.inl (by simp [h'])
        · exact Or.inr h'

theorem pa_dictErase_sublist {α} (kvs : List (Str × α)) (k : Str) :
    (dictErase kvs k).Sublist kvs := by
  induction kvs with
  | nil => simp [dictErase]
  | cons kv kvs ih =>
    obtain ⟨k', v'⟩ := kv
    simp only [dictErase]
    split
    · exact List.sublist_cons_self _ _
    · exact ih.cons_cons _

theorem pa_wf_dictSet (kvs : List (Str × J)) (k : Str) (v : J) (h : (J.obj kvs).wf = true)
    (hv : v.wf = true) : (J.obj (dictSet kvs k v)).wf = true := by
  rw [pa_wf_obj] at h ⊢
  constructor
  · rw [pa_keys_dictSet]
    split
    · exact h.1
    · rename_i hm
      rw [List.nodup_append]
      refine ⟨h.1, by simp, ?_⟩
      intro a ha b hb
      simp at hb; subst hb
      intro hab; subst hab; exact hm ha
  · intro kv hkv
    rcases pa_mem_dictSet kvs k v kv hkv with h' | h'
    · exact h.2 kv h'
    · subst h'; exact hv

theorem pa_wf_dictErase (kvs : List (Str × J)) (k : Str) (h : (J.obj kvs).wf = true) :
    (J.obj (dictErase kvs k)).wf = true := by
  rw [pa_wf_obj] at h ⊢
  have hs := pa_dictErase_sublist kvs k
  exact ⟨h.1.sublist (hs.map _), fun kv hkv => h.2 kv (hs.subset hkv)⟩

theorem pa_wf_dictGet (kvs : List (Str × J)) (k : Str) (v : J) (h : (J.obj kvs).wf = true)
    (hg : dictGet kvs k = some v) : v.wf = true :=
  ((pa_wf_obj kvs).1 h).2 (k, v) (pa_dictGet_mem kvs k v hg)

theorem pa_wf_getElem? (xs : List J) (n : Nat) (v : J) (h : (J.arr xs).wf = true)
    (hg : xs[n]? = some v) : v.wf = true :=
  (pa_wf_arr xs).1 h v (List.mem_of_getElem? hg)

/-! ### navigation -/

theorem pa_wf_step (v w : J) (t : Str) (h : v.wf = true) (hs : rfcStep v t = some w) :
    w.wf = true := by
  cases v with
  | obj kvs => exact pa_wf_dictGet kvs t w h hs
  | arr xs =>
    simp only [rfcStep] at hs
    split at hs
    · exact pa_wf_getElem? xs _ w h hs
    · cases hs
  | _ => cases hs

theorem pa_wf_eval (ts : List Str) (v w : J) (h : v.wf = true) (he : rfcEval v ts = some w) :
    w.wf = true := by
  induction ts generalizing v with
  | nil => cases he; exact h
  | cons t ts ih =>
    have : rfcEval v (t :: ts) = (rfcStep v t).bind (fun w => rfcEval w ts) := by simp [rfcEval]
    rw [this] at he
    cases hs : rfcStep v t with
    | none => rw [hs] at he; cases he
    | some u =>
      rw [hs] at he
      exact ih u (pa_wf_step v u t h hs) he

theorem pa_wf_set (xs : List J) (n : Nat) (v : J) (h : (J.arr xs).wf = true) (hv : v.wf = true) :
    (J.arr (xs.set n v)).wf = true := by
  rw [pa_wf_arr] at h ⊢
  intro x hx
  rcases List.mem_or_eq_of_mem_set hx with h' | h'
  · exact h x h'
  · subst h'; exact hv

theorem pa_wf_update (ts : List Str) (doc d : J) (f : J → Option J) (h : doc.wf = true)
    (hf : ∀ p q, p.wf = true → f p = some q → q.wf = true)
    (hu : rfcUpdate doc ts f = some d) : d.wf = true := by
  induction ts generalizing doc d with
  | nil => exact hf doc d h hu
  | cons t ts ih =>
    cases doc with
    | obj kvs =>
      simp only [rfcUpdate] at hu
      cases hg : dictGet kvs t with
      | none => rw [hg] at hu; cases hu
      | some c =>
        rw [hg] at hu
        simp only [Option.map_eq_some_iff] at hu
        obtain ⟨c', hc', rfl⟩ := hu
        exact pa_wf_dictSet kvs t c' h (ih c c' (pa_wf_dictGet kvs t c h hg) hc')
    | arr xs =>
      simp only [rfcUpdate] at hu
      cases ha : arrayIndex t xs.length with
      | none => rw [ha] at hu; cases hu
      | some n =>
        rw [ha] at hu
        simp only at hu
        cases hx : xs[n]? with
        | none => rw [hx] at hu; cases hu
        | some c =>
          rw [hx] at hu
          simp only [Option.map_eq_some_iff] at hu
          obtain ⟨c', hc', rfl⟩ := hu
          exact pa_wf_set xs n c' h (ih c c' (pa_wf_getElem? xs n c h hx) hc')
    | _ => cases hu

/-! ### last steps -/

theorem pa_wf_addLast (t : Str) (v p q : J) (hv : v.wf = true) (hp : p.wf = true)
    (h : rfcAddLast t v p = some q) : q.wf = true := by
  cases p with
  | obj kvs => cases h; exact pa_wf_dictSet kvs t v hp hv
  | arr xs =>
    rw [pa_wf_arr] at hp
    simp only [rfcAddLast] at h
    split at h
    · cases h
      rw [pa_wf_arr]
      intro x hx
      simp at hx
      rcases hx with hx | hx
      · exact hp x hx
      · subst hx; exact hv
    · split at h
      · cases h
        rw [pa_wf_arr]
        intro x hx
        simp at hx
        rcases hx with hx | hx | hx
        · exact hp x (List.mem_of_mem_take hx)
        · subst hx; exact hv
        · exact hp x (List.mem_of_mem_drop hx)
      · cases h
  | _ => cases h

theorem pa_wf_removeLast (t : Str) (p q : J) (hp : p.wf = true)
    (h : rfcRemoveLast t p = some q) : q.wf = true := by
  cases p with
  | obj kvs =>
    simp only [rfcRemoveLast] at h
    split at h
    · cases h; exact pa_wf_dictErase kvs t hp
    · cases h
  | arr xs =>
    simp only [rfcRemoveLast, Option.map_eq_some_iff] at h
    obtain ⟨n, _, rfl⟩ := h
    rw [pa_wf_arr] at hp ⊢
    exact fun x hx => hp x ((List.eraseIdx_sublist xs n).subset hx)
  | _ => cases h

theorem pa_wf_replaceLast (t : Str) (v p q : J) (hv : v.wf = true) (hp : p.wf = true)
    (h : rfcReplaceLast t v p = some q) : q.wf = true := by
  cases p with
  | obj kvs =>
    simp only [rfcReplaceLast] at h
    split at h
    · cases h; exact pa_wf_dictSet kvs t v hp hv
    · cases h
  | arr xs =>
    simp only [rfcReplaceLast, Option.map_eq_some_iff] at h
    obtain ⟨n, _, rfl⟩ := h
    exact pa_wf_set xs n v hp hv
  | _ => cases h

theorem pa_wf_rfcAdd (doc d v : J) (ts : List Str) (hdoc : doc.wf = true) (hv : v.wf = true)
    (h : rfcAdd doc ts v = some d) : d.wf = true := by
  unfold rfcAdd at h
  split at h
  · cases h; exact hv
  · exact pa_wf_update _ doc d _ hdoc (fun p q hp hq => pa_wf_addLast _ v p q hv hp hq) h

theorem pa_wf_rfcRemove (doc d : J) (ts : List Str) (hdoc : doc.wf = true)
    (h : rfcRemove doc ts = some d) : d.wf = true := by
  unfold rfcRemove at h
  split at h
  · cases h
  · exact pa_wf_update _ doc d _ hdoc (fun p q hp hq => pa_wf_removeLast _ p q hp hq) h

theorem pa_wf_rfcReplace (doc d v : J) (ts : List Str) (hdoc : doc.wf = true) (hv : v.wf = true)
    (h : rfcReplace doc ts v = some d) : d.wf = true := by
  unfold rfcReplace at h
  split at h
  · cases h; exact hv
  · exact pa_wf_update _ doc d _ hdoc (fun p q hp hq => pa_wf_replaceLast _ v p q hv hp hq) h

theorem pa_liftV_ok (o : Option J) (d : J) (h : liftV o = .ok d) : o = some d := by
  cases o with
  | none => cases h
  | some x => cases h; rfl

theorem pa_wf_rfcApplyOp (doc d : J) (op : SOp) (hdoc : doc.wf = true)
    (hval : ∀ p v, (op = .add p v ∨ op = .replace p v) → v.wf = true)
    (h : rfcApplyOp doc op = .ok d) : d.wf = true := by
  cases op with
  | add p v => exact pa_wf_rfcAdd doc d v p hdoc (hval p v (Or.inl rfl)) (pa_liftV_ok _ _ h)
  | remove p => exact pa_wf_rfcRemove doc d p hdoc (pa_liftV_ok _ _ h)
  | replace p v =>
    exact pa_wf_rfcReplace doc d v p hdoc (hval p v (Or.inr rfl)) (pa_liftV_ok _ _ h)
  | move s t =>
    simp only [rfcApplyOp] at h
    split at h
    · cases h
    · cases hE : rfcEval doc s with
      | none => rw [hE] at h; cases h
      | some v =>
        rw [hE] at h
        have hv := pa_wf_eval s doc v hdoc hE
        simp only at h
        split at h
        · split at h
          · cases h; exact hv
          · cases h
        · have h' := pa_liftV_ok _ _ h
          cases hR : rfcRemove doc s with
          | none => rw [hR] at h'; cases h'
          | some d1 =>
            rw [hR] at h'
            exact pa_wf_rfcAdd d1 d v t (pa_wf_rfcRemove doc d1 s hdoc hR) hv h'
  | copy s t =>
    simp only [rfcApplyOp] at h
    cases hE : rfcEval doc s with
    | none => rw [hE] at h; cases h
    | some v =>
      rw [hE] at h
      exact pa_wf_rfcAdd doc d v t hdoc (pa_wf_eval s doc v hdoc hE) (pa_liftV_ok _ _ h)
  | test p v =>
    simp only [rfcApplyOp] at h
    cases hE : rfcEval doc p with
    | none => rw [hE] at h; cases h
    | some o =>
      rw [hE] at h
      simp only at h
      split at h
      · cases h; exact hdoc
      · cases h

theorem pa_wf_rfcApply (ops : List SOp) (doc d : J) (hdoc : doc.wf = true)
    (hvals : ∀ op ∈ ops, ∀ p v, (op = .add p v ∨ op = .replace p v) → v.wf = true)
    (h : rfcApply ops doc = .ok d) : d.wf = true := by
  induction ops generalizing doc with
  | nil => cases h; exact hdoc
  | cons op ops ih =>
    simp only [rfcApply, List.foldlM_cons] at h ih
    cases hS : rfcApplyOp doc op with
    | error e => rw [hS] at h; cases h
    | ok d1 =>
      rw [hS] at h
      exact ih d1 (pa_wf_rfcApplyOp doc d1 op hdoc (hvals op (by simp)) hS)
        (fun o ho => hvals o (by simp [ho])) h

end JP.Lemmas
