/-
  Basic facts about `locValue`, `setAt`, `eraseAt` and `locParts` (C03 / C20).
-/
import JP.Lemmas.LocDefs
import JP.Lemmas.Pointer
import JP.Lemmas.PointerNav
import JP.Lemmas.Patch
namespace JP.Lemmas
open JP JP.Pointer JP.Patch

/-! ## `locValue` equations -/

@[simp] theorem locValue_nil (v : J) : locValue v [] = some v := by
  cases v <;> rfl

theorem locValue_obj_name (kvs : List (Str × J)) (k : Str) (rest : List Rfc.LStep) :
    locValue (.obj kvs) (.name k :: rest) = (dictGet kvs k).bind (locValue · rest) := rfl

theorem locValue_arr_index (xs : List J) (n : Nat) (rest : List Rfc.LStep) :
    locValue (.arr xs) (.index n :: rest) = (xs[n]?).bind (locValue · rest) := rfl

/-- A non-empty location has a value only through a matching container. -/
theorem locValue_cons_some {doc v : J} {s : Rfc.LStep} {rest : List Rfc.LStep}
    (h : locValue doc (s :: rest) = some v) :
    (∃ kvs k c, doc = .obj kvs ∧ s = .name k ∧ dictGet kvs k = some c ∧ locValue c rest = some v) ∨
    (∃ xs n c, doc = .arr xs ∧ s = .index n ∧ xs[n]? = some c ∧ locValue c rest = some v) := by
  cases doc <;> cases s <;> simp only [locValue, reduceCtorEq] at h
  case obj.name kvs k =>
    left
    cases hd : dictGet kvs k with
    | none => simp [hd] at h
    | some c => rw [hd] at h; exact ⟨kvs, k, c, rfl, rfl, hd, h⟩
  case arr.index xs n =>
    right
    cases hd : xs[n]? with
    | none => simp [hd] at h
    | some c => rw [hd] at h; exact ⟨xs, n, c, rfl, rfl, hd, h⟩

theorem locValue_append {doc p v : J} {a b : List Rfc.LStep}
    (h1 : locValue doc a = some p) (h2 : locValue p b = some v) :
    locValue doc (a ++ b) = some v := by
  induction a generalizing doc with
  | nil => simp only [locValue_nil, Option.some.injEq] at h1; subst h1; simpa using h2
  | cons s a ih =>
    rcases locValue_cons_some h1 with ⟨kvs, k, c, rfl, rfl, hd, hc⟩ | ⟨xs, n, c, rfl, rfl, hd, hc⟩
    · simp only [List.cons_append, locValue_obj_name, hd, Option.bind_some]; exact ih hc
    · simp only [List.cons_append, locValue_arr_index, hd, Option.bind_some]; exact ih hc

theorem locValue_append_split {doc v : J} {a b : List Rfc.LStep}
    (h : locValue doc (a ++ b) = some v) :
    ∃ p, locValue doc a = some p ∧ locValue p b = some v := by
  induction a generalizing doc with
  | nil => exact ⟨doc, by simp, by simpa using h⟩
  | cons s a ih =>
    rw [List.cons_append] at h
    rcases locValue_cons_some h with ⟨kvs, k, c, rfl, rfl, hd, hc⟩ | ⟨xs, n, c, rfl, rfl, hd, hc⟩
    · obtain ⟨p, hp1, hp2⟩ := ih hc
      exact ⟨p, by simp only [locValue_obj_name, hd, Option.bind_some]; exact hp1, hp2⟩
    · obtain ⟨p, hp1, hp2⟩ := ih hc
      exact ⟨p, by simp only [locValue_arr_index, hd, Option.bind_some]; exact hp1, hp2⟩

theorem locValue_append_eq (doc : J) (a b : List Rfc.LStep) :
    locValue doc (a ++ b) = (locValue doc a).bind (locValue · b) := by
  cases h : locValue doc a with
  | some p =>
    simp only [Option.bind_some]
    cases h2 : locValue p b with
    | some v => exact locValue_append h h2
    | none =>
      cases h3 : locValue doc (a ++ b) with
      | none => rfl
      | some v =>
        obtain ⟨p', hp1, hp2⟩ := locValue_append_split h3
        rw [h] at hp1; cases hp1; rw [h2] at hp2; cases hp2
  | none =>
    simp only [Option.bind_none]
    cases h3 : locValue doc (a ++ b) with
    | none => rfl
    | some v =>
      obtain ⟨p', hp1, _⟩ := locValue_append_split h3
      rw [h] at hp1; cases hp1

theorem locValue_wf {doc v : J} {loc : List Rfc.LStep} (h : locValue doc loc = some v)
    (hwf : doc.wf = true) : v.wf = true := by
  induction loc generalizing doc with
  | nil => simp only [locValue_nil, Option.some.injEq] at h; subst h; exact hwf
  | cons s a ih =>
    rcases locValue_cons_some h with ⟨kvs, k, c, rfl, rfl, hd, hc⟩ | ⟨xs, n, c, rfl, rfl, hd, hc⟩
    · exact ih hc (pa_wf_dictGet kvs k c hwf hd)
    · exact ih hc (pa_wf_getElem? xs n c hwf hd)

/-! ## `locParts` -/

theorem partOfStep_inj {s t : Rfc.LStep} (h : partOfStep s = partOfStep t) : s = t := by
  cases s <;> cases t <;> simp only [partOfStep, Part.idx.injEq, Part.key.injEq, reduceCtorEq] at h
  · rw [h]
  · congr 1; omega

theorem locParts_inj {a b : List Rfc.LStep} (h : locParts a = locParts b) : a = b := by
  induction a generalizing b with
  | nil => cases b <;> simp_all [locParts]
  | cons s a ih =>
    cases b with
    | nil => simp [locParts] at h
    | cons t b =>
      simp only [locParts, List.map_cons, List.cons.injEq] at h
      rw [partOfStep_inj h.1, ih (b := b) (by simpa [locParts] using h.2)]

theorem locParts_append (a b : List Rfc.LStep) : locParts (a ++ b) = locParts a ++ locParts b := by
  simp [locParts]

theorem locParts_cons (s : Rfc.LStep) (a : List Rfc.LStep) :
    locParts (s :: a) = partOfStep s :: locParts a := rfl

/-! ## parent -/

theorem parent_location_aux (doc v : J) (loc : List Rfc.LStep) (s : Rfc.LStep)
    (h : locValue doc (loc ++ [s]) = some v) :
    ∃ p, locValue doc loc = some p ∧ p.isContainer = true ∧ locValue p [s] = some v := by
  obtain ⟨p, h1, h2⟩ := locValue_append_split h
  refine ⟨p, h1, ?_, h2⟩
  rcases locValue_cons_some h2 with ⟨kvs, k, c, rfl, _⟩ | ⟨xs, n, c, rfl, _⟩ <;> rfl

/-! ## `resolveParts` along a location -/

theorem getitem_locStep {doc c : J} {s : Rfc.LStep} (h : locValue doc [s] = some c) :
    getitem doc (partOfStep s) = .ok c := by
  rcases locValue_cons_some h with ⟨kvs, k, c', rfl, rfl, hd, hc⟩ | ⟨xs, n, c', rfl, rfl, hd, hc⟩
  · simp only [locValue_nil, Option.some.injEq] at hc; subst hc
    exact getitem_obj_of_get (p := .key k) hd
  · simp only [locValue_nil, Option.some.injEq] at hc; subst hc
    simp only [partOfStep, getitem_arr_idx_nat, hd]

theorem pointer_of_location_aux (doc v : J) (loc : List Rfc.LStep) (h : locValue doc loc = some v) :
    resolveParts doc (locParts loc) = .ok v := by
  induction loc generalizing doc with
  | nil => simp only [locValue_nil, Option.some.injEq] at h; subst h; rfl
  | cons s a ih =>
    obtain ⟨c, h1, h2⟩ := locValue_append_split (a := [s]) (b := a) h
    rw [locParts_cons, resolveParts_cons_ok (getitem_locStep h1)]
    exact ih c h2

end JP.Lemmas
