/-
  `eraseAt`: decomposition along a location and frame properties (C20).
-/
import JP.Lemmas.LocateAux2
namespace JP.Lemmas
open JP JP.Pointer JP.Patch

/-! ## one-step value lemmas -/

theorem locValue_mismatch_obj (kvs : List (Str × J)) (n : Nat) (b : List Rfc.LStep) :
    locValue (.obj kvs) (.index n :: b) = none := rfl

theorem locValue_mismatch_arr (xs : List J) (k : Str) (b : List Rfc.LStep) :
    locValue (.arr xs) (.name k :: b) = none := rfl

/-! ## equations of `eraseAt` -/

@[simp] theorem eraseAt_nil (doc : J) : eraseAt doc [] = none := by
  cases doc <;> rfl

theorem eraseAt_obj_single (kvs : List (Str × J)) (k : Str) :
    eraseAt (.obj kvs) [.name k] = if dictHas kvs k then some (.obj (dictErase kvs k)) else none := rfl

theorem eraseAt_arr_single (xs : List J) (n : Nat) :
    eraseAt (.arr xs) [.index n] = if n < xs.length then some (.arr (xs.eraseIdx n)) else none := rfl

/-- The recursive shape of `eraseAt` on a location of length at least two. -/
def eraseStep (doc : J) (s : Rfc.LStep) (l : List Rfc.LStep) : Option J :=
  match doc, s with
  | .obj kvs, .name k =>
    (dictGet kvs k).bind (fun c => (eraseAt c l).map (fun c' => .obj (dictSet kvs k c')))
  | .arr xs, .index n =>
    (xs[n]?).bind (fun c => (eraseAt c l).map (fun c' => .arr (xs.set n c')))
  | _, _ => none

theorem eraseAt_cons_ne (doc : J) (s : Rfc.LStep) {l : List Rfc.LStep} (hl : l ≠ []) :
    eraseAt doc (s :: l) = eraseStep doc s l := by
  cases l with
  | nil => exact absurd rfl hl
  | cons t r => cases doc <;> cases s <;> rfl

/-- `setAt` analogue of `eraseStep`, for uniform reasoning. -/
def setStep (doc : J) (s : Rfc.LStep) (l : List Rfc.LStep) (w : J) : Option J :=
  match doc, s with
  | .obj kvs, .name k =>
    (dictGet kvs k).bind (fun c => (setAt c l w).map (fun c' => .obj (dictSet kvs k c')))
  | .arr xs, .index n =>
    (xs[n]?).bind (fun c => (setAt c l w).map (fun c' => .arr (xs.set n c')))
  | _, _ => none

theorem setAt_cons (doc : J) (s : Rfc.LStep) (l : List Rfc.LStep) (w : J) :
    setAt doc (s :: l) w = setStep doc s l w := by
  cases doc <;> cases s <;> rfl

/-! ## decomposition along `a ++ b` -/

theorem eraseAt_append (doc : J) (a : List Rfc.LStep) {b : List Rfc.LStep} (hb : b ≠ []) :
    eraseAt doc (a ++ b) =
      (locValue doc a).bind (fun p => (eraseAt p b).bind (fun p' => setAt doc a p')) := by
  induction a generalizing doc with
  | nil => simp
  | cons s a ih =>
    have hne : a ++ b ≠ [] := by simp [hb]
    rw [List.cons_append, eraseAt_cons_ne doc s hne]
    cases doc <;> cases s <;> try rfl
    case obj.name kvs k =>
      simp only [eraseStep, locValue_obj_name, setAt_obj_name]
      cases hd : dictGet kvs k with
      | none => rfl
      | some c =>
        simp only [Option.bind_some, ih c]
        cases locValue c a with
        | none => rfl
        | some p =>
          simp only [Option.bind_some]
          cases eraseAt p b with
          | none => rfl
          | some p' => rfl
    case arr.index xs n =>
      simp only [eraseStep, locValue_arr_index, setAt_arr_index]
      cases hd : xs[n]? with
      | none => rfl
      | some c =>
        simp only [Option.bind_some, ih c]
        cases locValue c a with
        | none => rfl
        | some p =>
          simp only [Option.bind_some]
          cases eraseAt p b with
          | none => rfl
          | some p' => rfl

theorem setAt_append (doc w : J) (a b : List Rfc.LStep) :
    setAt doc (a ++ b) w =
      (locValue doc a).bind (fun p => (setAt p b w).bind (fun p' => setAt doc a p')) := by
  induction a generalizing doc with
  | nil => simp
  | cons s a ih =>
    rw [List.cons_append]
    cases doc <;> cases s <;> try rfl
    case obj.name kvs k =>
      simp only [locValue_obj_name, setAt_obj_name]
      cases hd : dictGet kvs k with
      | none => rfl
      | some c =>
        simp only [Option.bind_some, ih c]
        cases locValue c a with
        | none => rfl
        | some p =>
          simp only [Option.bind_some]
          cases setAt p b w with
          | none => rfl
          | some p' => rfl
    case arr.index xs n =>
      simp only [locValue_arr_index, setAt_arr_index]
      cases hd : xs[n]? with
      | none => rfl
      | some c =>
        simp only [Option.bind_some, ih c]
        cases locValue c a with
        | none => rfl
        | some p =>
          simp only [Option.bind_some]
          cases setAt p b w with
          | none => rfl
          | some p' => rfl

/-- Inversion of `eraseAt` at `loc ++ [s]`. -/
theorem eraseAt_snoc_some {doc d : J} {loc : List Rfc.LStep} {s : Rfc.LStep}
    (h : eraseAt doc (loc ++ [s]) = some d) :
    ∃ p p', locValue doc loc = some p ∧ eraseAt p [s] = some p' ∧ setAt doc loc p' = some d := by
  rw [eraseAt_append doc loc (by simp)] at h
  cases h1 : locValue doc loc with
  | none => rw [h1] at h; cases h
  | some p =>
    rw [h1] at h
    simp only [Option.bind_some] at h
    cases h2 : eraseAt p [s] with
    | none => rw [h2] at h; cases h
    | some p' =>
      rw [h2] at h
      exact ⟨p, p', rfl, h2, h⟩

/-! ## values below an edited location -/

theorem locValue_setAt_below {doc p' d : J} {loc : List Rfc.LStep} (h : setAt doc loc p' = some d)
    (r : List Rfc.LStep) : locValue d (loc ++ r) = locValue p' r := by
  rw [locValue_append_eq, (setAt_spec_aux doc p' d loc h).1]; rfl

theorem locValue_below {doc p : J} {loc : List Rfc.LStep} (h : locValue doc loc = some p)
    (r : List Rfc.LStep) : locValue doc (loc ++ r) = locValue p r := by
  rw [locValue_append_eq, h]; rfl

/-! ## prefix facts -/

theorem related_of_prefix_snoc {loc loc' : List Rfc.LStep} {s : Rfc.LStep}
    (h : loc' <+: loc) : Related (loc ++ [s]) loc' :=
  Or.inr (List.IsPrefix.trans h (List.prefix_append loc [s]))

/-- A location unrelated to `loc ++ [s]` is either unrelated to `loc`, or goes through `loc` and
    continues with a step different from `s`. -/
theorem unrelated_snoc_cases {loc loc' : List Rfc.LStep} {s : Rfc.LStep}
    (h : ¬ Related (loc ++ [s]) loc') :
    ¬ Related loc loc' ∨ ∃ t b, t ≠ s ∧ loc' = loc ++ t :: b := by
  by_cases hr : Related loc loc'
  · right
    rcases hr with hr | hr
    · obtain ⟨r, rfl⟩ := hr
      cases r with
      | nil => exact absurd (related_of_prefix_snoc (s := s) (by simp)) h
      | cons t b =>
        refine ⟨t, b, ?_, rfl⟩
        intro e
        subst e
        apply h
        left
        exact ⟨b, by simp⟩
    · exact absurd (related_of_prefix_snoc hr) h
  · exact Or.inl hr

/-! ## member removal -/

theorem eraseAt_member_spec_aux (doc d : J) (loc : List Rfc.LStep) (k : Str)
    (h : eraseAt doc (loc ++ [.name k]) = some d) (hwf : doc.wf = true) :
    locValue d (loc ++ [.name k]) = none ∧
    ∀ loc', ¬ Related (loc ++ [.name k]) loc' → locValue d loc' = locValue doc loc' := by
  obtain ⟨p, p', h1, h2, h3⟩ := eraseAt_snoc_some h
  have hpwf := locValue_wf h1 hwf
  cases p <;> try (simp [eraseAt] at h2; done)
  case obj kvs =>
    rw [eraseAt_obj_single] at h2
    split at h2
    · simp only [Option.some.injEq] at h2
      subst h2
      have hnd := ((pa_wf_obj kvs).mp hpwf).1
      constructor
      · rw [locValue_setAt_below h3, locValue_obj_name, dictGet_dictErase_self kvs k hnd]; rfl
      · intro loc' hn
        rcases unrelated_snoc_cases hn with hu | ⟨t, b, hts, rfl⟩
        · exact (setAt_spec_aux doc _ d loc h3).2 loc' hu
        · rw [locValue_setAt_below h3, locValue_below h1]
          cases t with
          | index m => rfl
          | name k' =>
            have : k' ≠ k := fun e => hts (by rw [e])
            rw [locValue_obj_name, locValue_obj_name, dictGet_dictErase_ne kvs this]
    · cases h2

/-! ## element removal -/

theorem eraseAt_element_spec_aux (doc d : J) (loc : List Rfc.LStep) (n : Nat)
    (h : eraseAt doc (loc ++ [.index n]) = some d) :
    (∀ loc', ¬ Related loc loc' → locValue d loc' = locValue doc loc') ∧
    (∀ m rest, m < n → locValue d (loc ++ .index m :: rest) = locValue doc (loc ++ .index m :: rest)) ∧
    (∀ m rest, n ≤ m → locValue d (loc ++ .index m :: rest) = locValue doc (loc ++ .index (m + 1) :: rest)) := by
  obtain ⟨p, p', h1, h2, h3⟩ := eraseAt_snoc_some h
  cases p <;> try (simp [eraseAt] at h2; done)
  case arr xs =>
    rw [eraseAt_arr_single] at h2
    split at h2
    · simp only [Option.some.injEq] at h2
      subst h2
      refine ⟨fun loc' hu => (setAt_spec_aux doc _ d loc h3).2 loc' hu, ?_, ?_⟩
      · intro m rest hm
        rw [locValue_setAt_below h3, locValue_below h1, locValue_arr_index, locValue_arr_index,
          List.getElem?_eraseIdx, if_pos hm]
      · intro m rest hm
        rw [locValue_setAt_below h3, locValue_below h1, locValue_arr_index, locValue_arr_index,
          List.getElem?_eraseIdx, if_neg (by omega)]
    · cases h2

end JP.Lemmas
