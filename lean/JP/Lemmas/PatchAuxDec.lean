/-
  Decimal-text facts used by the C05 (JSON Patch) proofs. Local copies, `pa_` prefix.
-/
import JP.Patch
namespace JP.Lemmas
open JP JP.Pointer JP.Patch

theorem pa_isDigit_iff (c : Char) : c.isDigit = true ↔ 48 ≤ c.toNat ∧ c.toNat ≤ 57 := by
  simp [Char.isDigit, UInt32.le_iff_toNat_le]

theorem pa_digitChar_sub (c : Char) (h : c.isDigit = true) : Nat.digitChar (c.toNat - 48) = c := by
  rw [pa_isDigit_iff] at h
  have hc : c = Char.ofNat c.toNat := (Char.ofNat_toNat c).symm
  obtain ⟨k, hk, hk10⟩ : ∃ k, c.toNat = 48 + k ∧ k < 10 := ⟨c.toNat - 48, by omega, by omega⟩
  rw [hc, hk]
  have : k = 0 ∨ k = 1 ∨ k = 2 ∨ k = 3 ∨ k = 4 ∨ k = 5 ∨ k = 6 ∨ k = 7 ∨ k = 8 ∨ k = 9 := by omega
  rcases this with h | h | h | h | h | h | h | h | h | h <;> subst h <;> decide


/-- Appending one digit to the decimal text of a positive number. -/
theorem pa_toDigits_snoc (n : Nat) (hn : 0 < n) (c : Char) (hc : c.isDigit = true) :
    Nat.toDigits 10 (10 * n + (c.toNat - 48)) = Nat.toDigits 10 n ++ [c] := by
  have hlt : c.toNat - 48 < 10 := by rw [pa_isDigit_iff] at hc; omega
  rw [← Nat.toDigits_append_toDigits (by decide) hn hlt, Nat.toDigits_of_lt_base hlt,
    pa_digitChar_sub c hc]

theorem pa_toDigits_ofDigitChars (l : List Char) (hl : ∀ c ∈ l, c.isDigit = true) (n : Nat)
    (hn : 0 < n) : Nat.toDigits 10 (Nat.ofDigitChars 10 l n) = Nat.toDigits 10 n ++ l := by
  induction l generalizing n with
  | nil => simp
  | cons c cs ih =>
    have hc := hl c (by simp)
    rw [Nat.ofDigitChars_cons, ih (fun x hx => hl x (by simp [hx])) _ (by omega)]
    show Nat.toDigits 10 (10 * n + (c.toNat - 48)) ++ cs = _
    rw [pa_toDigits_snoc n hn c hc]; simp

/-- Unfolded characterisation of canonical decimals. -/
theorem pa_isCanonNat_iff (s : Str) :
    isCanonNat s = true ↔
      s = ['0'] ∨ ∃ c cs, s = c :: cs ∧ c ≠ '0' ∧ c.isDigit = true ∧ ∀ x ∈ cs, x.isDigit = true := by
  match s with
  | [] => simp [isCanonNat]
  | c :: cs =>
    by_cases h0 : c = '0' ∧ cs = []
    · obtain ⟨rfl, rfl⟩ := h0; simp [isCanonNat]
    · rw [isCanonNat.eq_3 c cs (by intro a b; exact h0 ⟨a, b⟩)]
      simp [isAsciiDigit]
      constructor
      · rintro ⟨⟨h1, h2⟩, h3⟩; exact Or.inr ⟨c, cs, ⟨rfl, rfl⟩, h1, h2, h3⟩
      · rintro (h | ⟨c', cs', ⟨rfl, rfl⟩, h1, h2, h3⟩)
        · exact absurd h h0
        · exact ⟨⟨h1, h2⟩, h3⟩

theorem pa_natStr_digitsVal (s : Str) (h : isCanonNat s = true) : natStr (digitsVal s) = s := by
  rw [pa_isCanonNat_iff] at h
  rcases h with rfl | ⟨c, cs, rfl, hc0, hc, hcs⟩
  · decide
  · unfold natStr digitsVal
    rw [Nat.ofDigitChars_cons]
    have hd := (pa_isDigit_iff c).1 hc
    have hpos : 0 < c.toNat - 48 := by
      rcases Nat.eq_zero_or_pos (c.toNat - 48) with h0 | h0
      · exfalso; apply hc0
        have : c.toNat = 48 := by omega
        rw [← Char.ofNat_toNat c, this]
      · exact h0
    show Nat.toDigits 10 (Nat.ofDigitChars 10 cs (10 * 0 + (c.toNat - 48))) = _
    rw [pa_toDigits_ofDigitChars cs hcs _ (by omega)]
    have : 10 * 0 + (c.toNat - 48) = c.toNat - 48 := by omega
    rw [this, Nat.toDigits_of_lt_base (by omega), pa_digitChar_sub c hc]; rfl

theorem pa_natStr_all_digit (n : Nat) : ∀ c ∈ natStr n, c.isDigit = true :=
  fun _ hc => Nat.isDigit_of_mem_toDigits (by decide) (by decide) hc

theorem pa_natStr_ne_nil (n : Nat) : natStr n ≠ [] := Nat.toDigits_ne_nil

theorem pa_digitsVal_natStr (n : Nat) : digitsVal (natStr n) = n := Nat.ofDigitChars_ten_toDigits

theorem pa_natStr_inj {a b : Nat} (h : natStr a = natStr b) : a = b := by
  rw [← pa_digitsVal_natStr a, ← pa_digitsVal_natStr b, h]

theorem pa_natStr_head_ne_zero (n : Nat) (hn : 0 < n) : (natStr n).head? ≠ some '0' := by
  induction n using Nat.strongRecOn with
  | _ n ih =>
    unfold natStr
    rw [Nat.toDigits_eq_if (by decide)]
    split
    · simp; omega
    · have := ih (n / 10) (by omega) (by omega)
      unfold natStr at this
      have hne : Nat.toDigits 10 (n / 10) ≠ [] := Nat.toDigits_ne_nil
      cases hq : Nat.toDigits 10 (n / 10) with
      | nil => exact absurd hq hne
      | cons a as => rw [hq] at this; simpa using this

theorem pa_isCanonNat_natStr (n : Nat) : isCanonNat (natStr n) = true := by
  rw [pa_isCanonNat_iff]
  rcases Nat.eq_zero_or_pos n with rfl | hn
  · left; decide
  · right
    have hne := pa_natStr_ne_nil n
    have hh := pa_natStr_head_ne_zero n hn
    have hall := pa_natStr_all_digit n
    cases hq : natStr n with
    | nil => exact absurd hq hne
    | cons a as =>
      rw [hq] at hh hall
      exact ⟨a, as, rfl, by simpa using hh, hall a (by simp), fun x hx => hall x (by simp [hx])⟩

theorem pa_natStr_ne_dash_cons (n : Nat) (cs : Str) : natStr n ≠ '-' :: cs := by
  intro h
  have := pa_natStr_all_digit n '-' (by rw [h]; simp)
  revert this; decide

theorem pa_natStr_ne_dash (n : Nat) : natStr n ≠ ['-'] := pa_natStr_ne_dash_cons n []

theorem pa_natStr_ne_hash_cons (n : Nat) (cs : Str) : natStr n ≠ '#' :: cs := by
  intro h
  have := pa_natStr_all_digit n '#' (by rw [h]; simp)
  revert this; decide

theorem pa_natStr_ne_tilde_cons (n : Nat) (cs : Str) : natStr n ≠ '~' :: cs := by
  intro h
  have := pa_natStr_all_digit n '~' (by rw [h]; simp)
  revert this; decide

theorem pa_parseIndexToken_of_not_dash (s : Str) (h : ∀ cs, s ≠ '-' :: cs) :
    parseIndexToken s = if isCanonNat s then some (digitsVal s : Int) else none := by
  unfold parseIndexToken
  split
  · rename_i cs; exact absurd rfl (h cs)
  · rfl

theorem pa_parseIndexToken_natStr (n : Nat) : parseIndexToken (natStr n) = some (n : Int) := by
  rw [pa_parseIndexToken_of_not_dash _ (pa_natStr_ne_dash_cons n), pa_isCanonNat_natStr,
    pa_digitsVal_natStr]; rfl

theorem pa_length_natStr (n : Nat) (h : (n : Int) ≤ maxIntIndex) : (natStr n).length ≤ 16 := by
  unfold natStr
  rw [Nat.length_toDigits_le_iff (by decide) (by decide)]
  unfold maxIntIndex at h
  omega

theorem pa_indexOf_natStr (n : Nat) (h : (n : Int) ≤ maxIntIndex) :
    indexOf (natStr n) = .ok (.idx n) := by
  have hl := pa_length_natStr n h
  unfold indexOf
  rw [pa_parseIndexToken_natStr]
  have h1 : ¬ ((natStr n).length > maxStrDigits + 1 ∨
      ((natStr n).length > maxStrDigits ∧ (natStr n).head? ≠ some '-')) := by
    unfold maxStrDigits; omega
  have h2 : ¬ ((n : Int) < minIntIndex ∨ (n : Int) > maxIntIndex) := by
    unfold minIntIndex; unfold maxIntIndex at h ⊢; omega
  simp only [h1, h2, if_false]; rfl

theorem pa_toPart_natStr (n : Nat) (h : (n : Int) ≤ maxIntIndex) : toPart (natStr n) = .idx n := by
  unfold toPart; rw [pa_indexOf_natStr n h]

theorem pa_indexOf_of_none (t : Str) (h : parseIndexToken t = none) : indexOf t = .ok (.key t) := by
  unfold indexOf; rw [h]; rfl

theorem pa_toPart_of_none (t : Str) (h : parseIndexToken t = none) : toPart t = .key t := by
  unfold toPart; rw [pa_indexOf_of_none t h]

theorem pa_isCanonNat_dash_cons (cs : Str) : isCanonNat ('-' :: cs) = false := by
  rw [isCanonNat.eq_3 _ _ (by intro a; cases a)]
  simp [isAsciiDigit]

theorem pa_isCanonNat_of_none (t : Str) (h : parseIndexToken t = none) : isCanonNat t = false := by
  unfold parseIndexToken at h
  split at h
  · exact pa_isCanonNat_dash_cons _
  · cases hc : isCanonNat t <;> simp_all

theorem pa_digitsVal_pos (cs : Str) (h : isCanonNat cs = true) (h0 : cs ≠ ['0']) :
    0 < digitsVal cs := by
  rcases Nat.eq_zero_or_pos (digitsVal cs) with hz | hp
  · exfalso; apply h0
    have := pa_natStr_digitsVal cs h
    rw [hz] at this; rw [← this]; decide
  · exact hp

/-- Classification of tokens that use no pointer extension. -/
theorem pa_std_cases (t : Str) (h : isExtensionToken t = false) :
    (parseIndexToken t = none ∧ (∀ cs, t ≠ '#' :: cs) ∧ (∀ cs, t ≠ '~' :: cs)) ∨
    (∃ n : Nat, t = natStr n ∧ (n : Int) ≤ maxIntIndex) := by
  unfold isExtensionToken at h
  split at h
  · cases h
  · cases h
  · rename_i h1 h2
    split at h
    · rename_i i hi
      right
      simp at h
      unfold parseIndexToken at hi
      split at hi
      · rename_i cs
        split at hi
        · rename_i hc
          simp at hc hi
          have := pa_digitsVal_pos cs hc.1 hc.2
          omega
        · cases hi
      · split at hi
        · rename_i hc
          simp at hi
          refine ⟨digitsVal t, (pa_natStr_digitsVal t hc).symm, ?_⟩
          omega
        · cases hi
    · rename_i hn
      exact Or.inl ⟨hn, fun cs hcs => h1 cs hcs, fun cs hcs => h2 cs hcs⟩

end JP.Lemmas
