/-
  C10 helpers, part 1: precedence facts, one-step unfoldings of the parser model, and the two
  "this token list parses to that expression" predicates with their combinators.
-/
import JP.Surface
namespace JP.Lemmas
open JP JP.Query JP.Surface

/-! ## Facts packed in `precOK` -/

structure PrecFacts (pr : Prec) : Prop where
  lo_or : pr.lowest ≤ pr.ofOp .or
  or_and : pr.ofOp .or < pr.ofOp .and
  and_cmp : ∀ o, isLogical o = false → pr.ofOp .and < pr.ofOp o
  op_pre : ∀ o, pr.ofOp o < pr.prefix_
  lo_op : ∀ o, pr.lowest ≤ pr.ofOp o

theorem precFacts_of (pr : Prec) (h : precOK pr = true) : PrecFacts pr := by
  simp only [precOK, allOps, List.all_cons, List.all_nil, Bool.and_true, Bool.and_eq_true,
    decide_eq_true_eq, Bool.or_eq_true, isLogical, beq_iff_eq] at h
  obtain ⟨⟨⟨⟨h1, h2⟩, h3⟩, h4⟩, h5⟩ := h
  refine ⟨h1, h2, ?_, ?_, ?_⟩
  · intro o ho
    cases o <;> simp [isLogical] at ho <;> simp at h3 <;> omega
  · intro o; cases o <;> omega
  · intro o; cases o <;> omega

theorem PrecFacts.logical_le_and {pr : Prec} (hp : PrecFacts pr) (o : CmpOp) (h : isLogical o = true) :
    pr.ofOp o ≤ pr.ofOp .and := by
  have := hp.or_and
  cases o <;> simp [isLogical] at h <;> omega

/-! ## What may follow a printed expression -/

/-- the tokens that can follow an expression in the serializer's output -/
def follow : List Tok → Bool
  | [] => true
  | .rbracket :: _ => true
  | .rparen :: _ => true
  | .comma :: _ => true
  | .op _ :: _ => true
  | _ => false

/-- if an operator follows, it binds less tightly than `p` -/
def stopAt (pr : Prec) (p : Nat) : List Tok → Prop
  | .op o :: _ => pr.ofOp o < p
  | _ => True

theorem stopAt_mono {pr : Prec} {p p' : Nat} {rest : List Tok} (h : stopAt pr p rest) (hp : p ≤ p') :
    stopAt pr p' rest := by
  cases rest with
  | nil => trivial
  | cons t rest =>
    cases t <;> try trivial
    case op o => simp only [stopAt] at h ⊢; omega

theorem stopAt_prefix {pr : Prec} (hp : PrecFacts pr) (rest : List Tok) : stopAt pr pr.prefix_ rest := by
  cases rest with
  | nil => trivial
  | cons t rest =>
    cases t <;> try trivial
    case op o => exact hp.op_pre o

theorem stopAt_op {pr : Prec} {p : Nat} {o : CmpOp} {rest : List Tok} (h : pr.ofOp o < p) :
    stopAt pr p (.op o :: rest) := h

/-! ## One-step unfoldings -/

theorem loop_stop (pr : Prec) (f p : Nat) (left : Expr) (rest : List Tok) (h : stopAt pr p rest) :
    parseLoop pr (f + 1) p left rest = .ok (left, rest) := by
  cases rest with
  | nil => simp only [parseLoop]; rfl
  | cons t rest =>
    cases t <;> try (simp only [parseLoop, opOfTok]; rfl)
    case op o =>
      simp only [stopAt] at h
      simp only [parseLoop, opOfTok, h, if_true]
      rfl

theorem loop_op (pr : Prec) (f p : Nat) (left right : Expr) (o : CmpOp) (rest rest' : List Tok)
    (hge : p ≤ pr.ofOp o) (h : parseExpr pr f (pr.ofOp o) rest = .ok (right, rest')) :
    parseLoop pr (f + 1) p left (.op o :: rest) = parseLoop pr f p (.infix left o right) rest' := by
  have hn : ¬ pr.ofOp o < p := by omega
  simp only [parseLoop, opOfTok, hn, if_false, h]
  rfl

theorem path_stop (pr : Prec) (f : Nat) (rest : List Tok) (h : follow rest = true) :
    parsePath pr (f + 1) rest = .ok ([], rest) := by
  cases rest with
  | nil => simp only [parsePath]; rfl
  | cons t rest =>
    cases t <;> first | (simp only [parsePath]; rfl) | (simp [follow] at h)

theorem expr_of_prefix (pr : Prec) (f prec : Nat) (toks rest : List Tok) (left : Expr)
    (h : parsePrefix pr f toks = .ok (left, rest)) :
    parseExpr pr (f + 1) prec toks = parseLoop pr f prec left rest := by
  simp only [parseExpr, h]; rfl

theorem prefix_not (pr : Prec) (f : Nat) (toks rest : List Tok) (e : Expr)
    (h : parseExpr pr f pr.prefix_ toks = .ok (e, rest)) :
    parsePrefix pr (f + 1) (.not :: toks) = .ok (.not e, rest) := by
  simp only [parsePrefix, h]; rfl

theorem prefix_paren (pr : Prec) (f : Nat) (toks rest : List Tok) (e : Expr)
    (h : parseExpr pr f pr.lowest toks = .ok (e, .rparen :: rest)) :
    parsePrefix pr (f + 1) (.lparen :: toks) = .ok (e, rest) := by
  simp only [parsePrefix, h]; rfl

theorem prefix_list (pr : Prec) (f : Nat) (toks rest : List Tok) (items : List Expr)
    (h : parseListItems pr f toks = .ok (items, rest)) :
    parsePrefix pr (f + 1) (.lbracket :: toks) = .ok (.list items, rest) := by
  simp only [parsePrefix, h]; rfl

theorem prefix_self (pr : Prec) (f : Nat) (toks rest : List Tok) (segs : List Seg)
    (h : parsePath pr f toks = .ok (segs, rest)) :
    parsePrefix pr (f + 1) (.self :: toks) = .ok (.self segs, rest) := by
  simp only [parsePrefix, h]; rfl

theorem prefix_root (pr : Prec) (f : Nat) (toks rest : List Tok) (segs : List Seg)
    (h : parsePath pr f toks = .ok (segs, rest)) :
    parsePrefix pr (f + 1) (.root :: toks) = .ok (.root segs false, rest) := by
  simp only [parsePrefix, h]; rfl

theorem prefix_fakeRoot (pr : Prec) (f : Nat) (toks rest : List Tok) (segs : List Seg)
    (h : parsePath pr f toks = .ok (segs, rest)) :
    parsePrefix pr (f + 1) (.fakeRoot :: toks) = .ok (.root segs true, rest) := by
  simp only [parsePrefix, h]; rfl

theorem prefix_ctx (pr : Prec) (f : Nat) (toks rest : List Tok) (segs : List Seg)
    (h : parsePath pr f toks = .ok (segs, rest)) :
    parsePrefix pr (f + 1) (.ctx :: toks) = .ok (.ctx segs, rest) := by
  simp only [parsePrefix, h]; rfl

theorem prefix_func (pr : Prec) (f : Nat) (name : Str) (toks rest : List Tok) (args : List Expr)
    (h : parseArgs pr f toks = .ok (args, rest)) :
    parsePrefix pr (f + 1) (.func name :: toks) = .ok (.func name args, rest) := by
  simp only [parsePrefix, h]; rfl

theorem path_ddot (pr : Prec) (f : Nat) (toks rest : List Tok) (segs : List Seg)
    (h : parsePath pr f toks = .ok (segs, rest)) :
    parsePath pr (f + 1) (.ddot :: toks) = .ok (.desc :: segs, rest) := by
  simp only [parsePath, h]; rfl

theorem path_bracket (pr : Prec) (f : Nat) (toks rest rest' : List Tok) (sels : List Sel) (segs : List Seg)
    (h1 : parseSelList pr f toks = .ok (sels, rest))
    (h2 : parsePath pr f rest = .ok (segs, rest')) :
    parsePath pr (f + 1) (.lbracket :: toks) = .ok (.child sels :: segs, rest') := by
  simp only [parsePath, h1]
  show (do let (segs, rest'') ← parsePath pr f rest; pure (Seg.child sels :: segs, rest'')) = _
  rw [h2]; rfl

theorem selList_single (pr : Prec) (f : Nat) (toks rest : List Tok) (s : Sel)
    (h : parseSelItem pr f toks = .ok (s, .rbracket :: rest)) :
    parseSelList pr (f + 1) toks = .ok ([s], rest) := by
  simp only [parseSelList, h]; rfl


def notRb : List Tok → Bool
  | .rbracket :: _ => false
  | _ => true

theorem selList_cons (pr : Prec) (f : Nat) (toks rest rest' : List Tok) (s : Sel) (ss : List Sel)
    (h1 : parseSelItem pr f toks = .ok (s, .comma :: rest)) (hnb : notRb rest = true)
    (h2 : parseSelList pr f rest = .ok (ss, rest')) :
    parseSelList pr (f + 1) toks = .ok (s :: ss, rest') := by
  simp only [parseSelList, h1]
  cases rest with
  | nil => 
    show (do let (ss, rest'') ← parseSelList pr f []; pure (s :: ss, rest'')) = _
    rw [h2]; rfl
  | cons t r =>
    cases t <;> first 
      | (simp [notRb] at hnb; done) 
      | (show (do let (ss, rest'') ← parseSelList pr f (_ :: r); pure (s :: ss, rest'')) = _
         rw [h2]; rfl)

theorem selItem_int (pr : Prec) (f : Nat) (i : Int) (rest : List Tok) :
    parseSelItem pr (f + 1) (.int i :: rest) = .ok (.index i, rest) := by
  simp only [parseSelItem]; rfl
theorem selItem_str (pr : Prec) (f : Nat) (s : Str) (rest : List Tok) :
    parseSelItem pr (f + 1) (.str s :: rest) = .ok (.name s, rest) := by
  simp only [parseSelItem]; rfl
theorem selItem_slice (pr : Prec) (f : Nat) (a b c : Option Int) (rest : List Tok) :
    parseSelItem pr (f + 1) (.slice a b c :: rest) = .ok (.slice a b c, rest) := by
  simp only [parseSelItem]; rfl
theorem selItem_wild (pr : Prec) (f : Nat) (rest : List Tok) :
    parseSelItem pr (f + 1) (.wild :: rest) = .ok (.wild, rest) := by
  simp only [parseSelItem]; rfl
theorem selItem_keys (pr : Prec) (f : Nat) (rest : List Tok) :
    parseSelItem pr (f + 1) (.keys :: rest) = .ok (.keys, rest) := by
  simp only [parseSelItem]; rfl
theorem selItem_filter (pr : Prec) (f : Nat) (toks rest : List Tok) (e : Expr)
    (h : parseExpr pr f pr.lowest toks = .ok (e, rest)) :
    parseSelItem pr (f + 1) (.filter :: toks) = .ok (.filter e, rest) := by
  simp only [parseSelItem, h]; rfl

theorem listItems_nil (pr : Prec) (f : Nat) (rest : List Tok) :
    parseListItems pr (f + 1) (.rbracket :: rest) = .ok ([], rest) := by
  simp only [parseListItems]; rfl

theorem listItems_single (pr : Prec) (f : Nat) (t : Tok) (e : Expr) (rest : List Tok)
    (h : literalOfTok t = some e) :
    parseListItems pr (f + 1) (t :: .rbracket :: rest) = .ok ([e], rest) := by
  cases t <;> simp only [literalOfTok, Option.some.injEq, reduceCtorEq] at h <;> subst h <;> simp only [parseListItems, literalOfTok] <;> rfl

theorem listItems_cons (pr : Prec) (f : Nat) (t : Tok) (e : Expr) (es : List Expr) (toks rest : List Tok)
    (h : literalOfTok t = some e) (h2 : parseListItems pr f toks = .ok (es, rest)) :
    parseListItems pr (f + 1) (t :: .comma :: toks) = .ok (e :: es, rest) := by
  cases t <;> simp only [literalOfTok, Option.some.injEq, reduceCtorEq] at h <;> subst h <;> simp only [parseListItems, literalOfTok, h2] <;> rfl


def argStartOK : List Tok → Bool
  | [] => false
  | .not :: _ | .lparen :: _ | .lbracket :: _ | .undefined :: _ | .re _ _ :: _ | .rparen :: _ => false
  | _ => true

/-- `,` or `)` follows -/
def argEnd : List Tok → Bool
  | .comma :: _ => true
  | .rparen :: _ => true
  | _ => false

theorem args_nil (pr : Prec) (f : Nat) (rest : List Tok) :
    parseArgs pr (f + 1) (.rparen :: rest) = .ok ([], rest) := by
  simp only [parseArgs]; rfl

theorem argLoop_stop (pr : Prec) (f : Nat) (left : Expr) (rest : List Tok) (h : argEnd rest = true) :
    parseArgLoop pr (f + 1) left rest = .ok (left, rest) := by
  cases rest with
  | nil => simp [argEnd] at h
  | cons t r => cases t <;> first | (simp [argEnd] at h; done) | (simp only [parseArgLoop, opOfTok]; rfl)

theorem arg_ok (pr : Prec) (f : Nat) (toks rest : List Tok) (e : Expr) (hs : argStartOK toks = true)
    (h : parsePrefix pr (f + 1) toks = .ok (e, rest)) (he : argEnd rest = true) :
    parseArg pr (f + 1 + 1) toks = .ok (e, rest) := by
  cases toks with
  | nil => simp [argStartOK] at hs
  | cons t r =>
    cases t <;> first
      | (simp [argStartOK] at hs; done)
      | (simp only [parseArg, h]
         show parseArgLoop pr (f + 1) e rest = _
         exact argLoop_stop pr f e rest he)

theorem args_single (pr : Prec) (f : Nat) (toks rest : List Tok) (e : Expr) (hs : argStartOK toks = true)
    (h : parseArg pr f toks = .ok (e, .rparen :: rest)) :
    parseArgs pr (f + 1) toks = .ok ([e], rest) := by
  cases toks with
  | nil => simp [argStartOK] at hs
  | cons t r =>
    cases t <;> first
      | (simp [argStartOK] at hs; done)
      | (simp only [parseArgs, h]; rfl)

theorem args_cons (pr : Prec) (f : Nat) (toks rest rest' : List Tok) (e : Expr) (es : List Expr)
    (hs : argStartOK toks = true)
    (h : parseArg pr f toks = .ok (e, .comma :: rest)) (h2 : parseArgs pr f rest = .ok (es, rest')) :
    parseArgs pr (f + 1) toks = .ok (e :: es, rest') := by
  cases toks with
  | nil => simp [argStartOK] at hs
  | cons t r =>
    cases t <;> first
      | (simp [argStartOK] at hs; done)
      | (simp only [parseArgs, h]
         show (do let (es, rest'') ← parseArgs pr f rest; pure (e :: es, rest'')) = _
         rw [h2]; rfl)
end JP.Lemmas
