/-
  Helper lemmas for C17 (renaming identifier tokens). Statements used by JP/Props/C17.lean.
-/
import JP.Lemmas.TokenCfgAux
namespace JP.Lemmas
open JP JP.Query JP.TokenCfg

theorem insertByLen_perm (x : Ident × Str) (l : Cfg) : (insertByLen x l).Perm (x :: l) := by
  induction l with
  | nil => exact List.Perm.refl _
  | cons y ys ih =>
    simp only [insertByLen]
    split
    · exact List.Perm.refl _
    · exact (List.Perm.cons y ih).trans (List.Perm.swap x y ys)

theorem sortLongestFirst_perm (cfg : Cfg) : (sortLongestFirst cfg).Perm cfg := by
  induction cfg with
  | nil => exact List.Perm.refl _
  | cons x xs ih =>
    simp only [sortLongestFirst]
    exact (insertByLen_perm x _).trans (List.Perm.cons x ih)

theorem insertByLen_sorted (x : Ident × Str) (l : Cfg)
    (h : l.Pairwise (fun a b => a.2.length ≥ b.2.length)) :
    (insertByLen x l).Pairwise (fun a b => a.2.length ≥ b.2.length) := by
  induction l with
  | nil => simp [insertByLen]
  | cons y ys ih =>
    have h' := List.pairwise_cons.1 h
    simp only [insertByLen]
    split
    · rename_i hge
      refine List.pairwise_cons.2 ⟨?_, h⟩
      intro z hz
      rcases List.mem_cons.1 hz with rfl | hz
      · exact hge
      · have := h'.1 z hz
        omega
    · rename_i hlt
      refine List.pairwise_cons.2 ⟨?_, ih h'.2⟩
      intro z hz
      rcases List.mem_cons.1 ((insertByLen_perm x ys).mem_iff.1 hz) with rfl | hz
      · omega
      · exact h'.1 z hz

theorem sortLongestFirst_sorted (cfg : Cfg) :
    (sortLongestFirst cfg).Pairwise (fun a b => a.2.length ≥ b.2.length) := by
  induction cfg with
  | nil => exact List.Pairwise.nil
  | cons x xs ih =>
    simp only [sortLongestFirst]
    exact insertByLen_sorted x _ ih

/-- the predicate the lexer tests each alternative with -/
private def lexPred (input : Str) : Ident × Str → Bool :=
  fun t => !t.2.isEmpty && t.2.isPrefixOf input

private theorem lexWith_some {l : Cfg} {input : Str} {k : Ident} {rest : Str}
    (h : lexWith l input = some (k, rest)) :
    ∃ s, l.find? (lexPred input) = some (k, s) ∧ rest = input.drop s.length := by
  unfold lexWith at h
  split at h
  · rename_i k' s' heq
    simp only [Option.some.injEq, Prod.mk.injEq] at h
    exact ⟨s', by rw [← h.1]; exact heq, h.2.symm⟩
  · cases h

private theorem lexPred_iff (input : Str) (k : Ident) (s : Str) :
    lexPred input (k, s) = true ↔ s ≠ [] ∧ s.isPrefixOf input = true := by
  simp [lexPred]

private theorem lexWith_of_find {l : Cfg} {input : Str} {k : Ident} {s : Str}
    (h : l.find? (lexPred input) = some (k, s)) :
    lexWith l input = some (k, input.drop s.length) := by
  unfold lexWith
  have h' : l.find? (fun t => !t.2.isEmpty && t.2.isPrefixOf input) = some (k, s) := h
  rw [h']

private theorem prefix_split {s input : Str} (hp : s.isPrefixOf input = true) :
    input = s ++ input.drop s.length := by
  obtain ⟨t, ht⟩ := List.isPrefixOf_iff_prefix.1 hp
  subst ht
  rw [List.drop_left]

theorem lexEnv_sound (cfg : Cfg) (input : Str) (k : Ident) (rest : Str)
    (h : lexEnv cfg input = some (k, rest)) :
    ∃ s, (k, s) ∈ cfg ∧ s ≠ [] ∧ input = s ++ rest := by
  obtain ⟨s, hf, hr⟩ := lexWith_some h
  have hmem := (sortLongestFirst_perm cfg).mem_iff.1 (List.mem_of_find?_eq_some hf)
  have hp := (lexPred_iff input k s).1 (List.find?_some hf)
  refine ⟨s, hmem, hp.1, ?_⟩
  rw [hr]
  exact prefix_split hp.2

theorem lexEnv_longest (cfg : Cfg) (input : Str) (k : Ident) (rest : Str)
    (h : lexEnv cfg input = some (k, rest)) :
    ∀ k' s', (k', s') ∈ cfg → s' ≠ [] → s'.isPrefixOf input = true → s'.length ≤ input.length - rest.length := by
  intro k' s' hm' hne' hp'
  obtain ⟨s, hf, hr⟩ := lexWith_some h
  have hp := (lexPred_iff input k s).1 (List.find?_some hf)
  have hlen : input.length - rest.length = s.length := by
    have h1 := prefix_split hp.2
    rw [← hr] at h1
    have h2 := congrArg List.length h1
    rw [List.length_append] at h2
    omega
  rw [hlen]
  obtain ⟨_, as, bs, hl, hnot⟩ := List.find?_eq_some_iff_append.1 hf
  have hsorted := sortLongestFirst_sorted cfg
  have hm'' := (sortLongestFirst_perm cfg).mem_iff.2 hm'
  rw [hl] at hsorted hm''
  rcases List.mem_append.1 hm'' with hin | hin
  · exfalso
    have := hnot _ hin
    have hq := (lexPred_iff input k' s').2 ⟨hne', hp'⟩
    simp [hq] at this
  · rcases List.mem_cons.1 hin with heq | hin
    · cases heq
      exact Nat.le_refl _
    · have h2 := (List.pairwise_append.1 hsorted).2.1
      exact (List.pairwise_cons.1 h2).1 _ hin

theorem lexEnv_complete (cfg : Cfg) (input : Str) (k : Ident) (s : Str)
    (hm : (k, s) ∈ cfg) (hne : s ≠ []) (hp : s.isPrefixOf input = true) :
    ∃ k' rest, lexEnv cfg input = some (k', rest) := by
  have hm' := (sortLongestFirst_perm cfg).mem_iff.2 hm
  have hq := (lexPred_iff input k s).2 ⟨hne, hp⟩
  have hsome : ((sortLongestFirst cfg).find? (lexPred input)).isSome = true :=
    List.find?_isSome.2 ⟨_, hm', hq⟩
  obtain ⟨⟨k', s'⟩, hf⟩ := Option.isSome_iff_exists.1 hsome
  exact ⟨k', input.drop s'.length, lexWith_of_find hf⟩

private theorem distinct_snd_unique {l : Cfg} (hd : l.Pairwise (fun a b => a.2 ≠ b.2))
    {k k' : Ident} {s : Str} (h1 : (k, s) ∈ l) (h2 : (k', s) ∈ l) : k = k' := by
  induction l with
  | nil => cases h1
  | cons y ys ih =>
    have hd' := List.pairwise_cons.1 hd
    rcases List.mem_cons.1 h1 with e1 | m1
    · rcases List.mem_cons.1 h2 with e2 | m2
      · rw [← e2] at e1
        exact (Prod.mk.inj e1).1
      · exact absurd (by rw [← e1]) (hd'.1 _ m2)
    · rcases List.mem_cons.1 h2 with e2 | m2
      · exact absurd (by rw [← e2]) (hd'.1 _ m1)
      · exact ih hd'.2 m1 m2

theorem lexEnv_exact (cfg : Cfg) (k : Ident) (s rest : Str) (hm : (k, s) ∈ cfg) (hne : s ≠ [])
    (hdistinct : cfg.Pairwise (fun a b => a.2 ≠ b.2))
    (hnolonger : ∀ k' s', (k', s') ∈ cfg → s' ≠ s → s'.isPrefixOf (s ++ rest) = true → s'.length < s.length) :
    lexEnv cfg (s ++ rest) = some (k, rest) := by
  have hps : s.isPrefixOf (s ++ rest) = true :=
    List.isPrefixOf_iff_prefix.2 (List.prefix_append s rest)
  obtain ⟨k', rest', hres⟩ := lexEnv_complete cfg (s ++ rest) k s hm hne hps
  obtain ⟨s', hm', hne', heq⟩ := lexEnv_sound cfg _ _ _ hres
  have hlong := lexEnv_longest cfg _ _ _ hres k s hm hne hps
  have hps' : s'.isPrefixOf (s ++ rest) = true := by
    rw [heq]; exact List.isPrefixOf_iff_prefix.2 (List.prefix_append s' rest')
  have hlen : (s ++ rest).length - rest'.length = s'.length := by
    rw [heq, List.length_append]; omega
  rw [hlen] at hlong
  have hss : s' = s := by
    by_cases hc : s' = s
    · exact hc
    · have := hnolonger k' s' hm' hc hps'
      omega
  subst hss
  have hrr : rest = rest' := List.append_cancel_left heq
  have hkk : k = k' := distinct_snd_unique hdistinct hm hm'
  rw [hres, hrr, hkk]

theorem lexEnv_prefix_free (cfg : Cfg) (k : Ident) (s rest : Str) (hm : (k, s) ∈ cfg) (hne : s ≠ [])
    (hfree : ∀ k' s', (k', s') ∈ cfg → s' ≠ [] → (k', s') ≠ (k, s) → ¬ s'.isPrefixOf (s ++ rest) = true) :
    lexEnv cfg (s ++ rest) = some (k, rest) := by
  have hps : s.isPrefixOf (s ++ rest) = true :=
    List.isPrefixOf_iff_prefix.2 (List.prefix_append s rest)
  obtain ⟨k', rest', hres⟩ := lexEnv_complete cfg (s ++ rest) k s hm hne hps
  obtain ⟨s', hm', hne', heq⟩ := lexEnv_sound cfg _ _ _ hres
  have hps' : s'.isPrefixOf (s ++ rest) = true := by
    rw [heq]; exact List.isPrefixOf_iff_prefix.2 (List.prefix_append s' rest')
  have hks : (k', s') = (k, s) := by
    by_cases hc : (k', s') = (k, s)
    · exact hc
    · exact absurd hps' (hfree k' s' hm' hne' hc)
  cases hks
  have hrr : rest = rest' := List.append_cancel_left heq
  rw [hres, hrr]

theorem shortest_first_breaks :
    ∃ (cfg : Cfg) (input : Str),
      lexEnv cfg input = some (.fakeRoot, ".a".toList) ∧
      lexWith (sortShortestFirst cfg) input = some (.root, "$.a".toList) := by
  refine ⟨[(.root, "$".toList), (.fakeRoot, "$$".toList)], "$$.a".toList, ?_, ?_⟩ <;> decide

theorem values_independent_of_tokens (e1 e2 : Env) (h : SameButTokens e1 e2) (segs : List Seg) (ns1 ns2 : List Node)
    (hv : ns1.map (·.val) = ns2.map (·.val)) :
    (evalSegs e1 segs ns1).map (·.val) = (evalSegs e2 segs ns2).map (·.val) :=
  TokInd.segs_main h segs ns1 ns2 hv

end JP.Lemmas
