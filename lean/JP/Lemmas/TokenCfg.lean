/-
  Helper lemmas for C17 (renaming identifier tokens). Statements used by JP/Props/C17.lean.
-/
import JP.TokenCfg
namespace JP.Lemmas
open JP JP.Query JP.TokenCfg

theorem sortLongestFirst_perm (cfg : Cfg) : (sortLongestFirst cfg).Perm cfg := by
  sorry

theorem sortLongestFirst_sorted (cfg : Cfg) :
    (sortLongestFirst cfg).Pairwise (fun a b => a.2.length ≥ b.2.length) := by
  sorry

theorem lexEnv_sound (cfg : Cfg) (input : Str) (k : Ident) (rest : Str)
    (h : lexEnv cfg input = some (k, rest)) :
    ∃ s, (k, s) ∈ cfg ∧ s ≠ [] ∧ input = s ++ rest := by
  sorry

theorem lexEnv_longest (cfg : Cfg) (input : Str) (k : Ident) (rest : Str)
    (h : lexEnv cfg input = some (k, rest)) :
    ∀ k' s', (k', s') ∈ cfg → s' ≠ [] → s'.isPrefixOf input = true → s'.length ≤ input.length - rest.length := by
  sorry

theorem lexEnv_complete (cfg : Cfg) (input : Str) (k : Ident) (s : Str)
    (hm : (k, s) ∈ cfg) (hne : s ≠ []) (hp : s.isPrefixOf input = true) :
    ∃ k' rest, lexEnv cfg input = some (k', rest) := by
  sorry

theorem lexEnv_exact (cfg : Cfg) (k : Ident) (s rest : Str) (hm : (k, s) ∈ cfg) (hne : s ≠ [])
    (hdistinct : cfg.Pairwise (fun a b => a.2 ≠ b.2))
    (hnolonger : ∀ k' s', (k', s') ∈ cfg → s' ≠ s → s'.isPrefixOf (s ++ rest) = true → s'.length < s.length) :
    lexEnv cfg (s ++ rest) = some (k, rest) := by
  sorry

theorem lexEnv_prefix_free (cfg : Cfg) (k : Ident) (s rest : Str) (hm : (k, s) ∈ cfg) (hne : s ≠ [])
    (hfree : ∀ k' s', (k', s') ∈ cfg → s' ≠ [] → (k', s') ≠ (k, s) → ¬ s'.isPrefixOf (s ++ rest) = true) :
    lexEnv cfg (s ++ rest) = some (k, rest) := by
  sorry

theorem shortest_first_breaks :
    ∃ (cfg : Cfg) (input : Str),
      lexEnv cfg input = some (.fakeRoot, ".a".toList) ∧
      lexWith (sortShortestFirst cfg) input = some (.root, "$.a".toList) := by
  sorry

theorem values_independent_of_tokens (e1 e2 : Env) (h : SameButTokens e1 e2) (segs : List Seg) (ns1 ns2 : List Node)
    (hv : ns1.map (·.val) = ns2.map (·.val)) :
    (evalSegs e1 segs ns1).map (·.val) = (evalSegs e2 segs ns2).map (·.val) := by
  sorry

end JP.Lemmas
