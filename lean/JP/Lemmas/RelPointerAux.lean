/-
  Auxiliary lemmas for C16 (Relative JSON Pointer): the regex model, `_zero_or_positive`,
  `_parse` on grammar text.
-/
import JP.RelPointer
import JP.Lemmas.Pointer
namespace JP.Lemmas
open JP JP.Pointer JP.RelPointer

/-! ## spanDigits / reMatch -/

/-- The rest of the text does not continue a digit run. -/
def NoDigitHead (s : Str) : Prop := ∀ c cs, s = c :: cs → c.isDigit = false

theorem spanDigits_append (ds rest : Str) (hd : ∀ c ∈ ds, c.isDigit = true)
    (hr : NoDigitHead rest) : spanDigits (ds ++ rest) = (ds, rest) := by
  induction ds with
  | nil =>
    cases rest with
    | nil => rfl
    | cons c cs =>
      have := hr c cs rfl
      simp [spanDigits, isAsciiDigit, this]
  | cons d ds ih =>
    have hd1 : d.isDigit = true := hd d (by simp)
    simp only [List.cons_append, spanDigits, isAsciiDigit, hd1, if_true]
    rw [ih (fun c hc => hd c (by simp [hc]))]

theorem spanDigits_natStr (n : Nat) (rest : Str) (hr : NoDigitHead rest) :
    spanDigits (natStr n ++ rest) = (natStr n, rest) :=
  spanDigits_append _ _ (natStr_all_digits n) hr

theorem noDigitHead_nil : NoDigitHead [] := by intro c cs h; cases h

theorem noDigitHead_cons {c : Char} (h : c.isDigit = false) (cs : Str) : NoDigitHead (c :: cs) := by
  intro d ds e; cases e; exact h

theorem noDigitHead_spellTokens (ts : List Str) : NoDigitHead (spellTokens ts) := by
  cases ts with
  | nil => exact noDigitHead_nil
  | cons t ts => 
    simp only [spellTokens, List.flatMap_cons, List.cons_append]
    exact noDigitHead_cons (by decide) _

/-- The suffix part of the grammar. -/
def sufText (r : RelSpec) : Str := if r.hash then ['#'] else spellTokens r.suffix

theorem noDigitHead_sufText (r : RelSpec) : NoDigitHead (sufText r) := by
  unfold sufText
  split
  · exact noDigitHead_cons (by decide) _
  · exact noDigitHead_spellTokens _

theorem sufText_head (r : RelSpec) : sufText r = [] ∨ ∃ c cs, sufText r = c :: cs ∧ c ≠ '+' ∧ c ≠ '-' := by
  unfold sufText
  split
  · exact .inr ⟨'#', [], rfl, by decide, by decide⟩
  · cases r.suffix with
    | nil => exact .inl rfl
    | cons t ts => 
      refine .inr ⟨'/', escapeTok t ++ spellTokens ts, ?_, by decide, by decide⟩
      simp only [spellTokens, List.flatMap_cons, List.cons_append]

theorem natStr_cons (n : Nat) : ∃ c cs, natStr n = c :: cs := by
  cases h : natStr n with
  | nil => exact absurd h (natStr_ne_nil n)
  | cons c cs => exact ⟨c, cs, rfl⟩

theorem reMatch_no_offset (n : Nat) (suf : Str) (hs : NoDigitHead suf)
    (hh : suf = [] ∨ ∃ c cs, suf = c :: cs ∧ c ≠ '+' ∧ c ≠ '-') :
    reMatch (natStr n ++ suf) = some (natStr n, none, suf) := by
  unfold reMatch
  rw [spanDigits_natStr n suf hs]
  obtain ⟨c, cs, hn⟩ := natStr_cons n
  rw [hn]
  rcases hh with rfl | ⟨d, ds, rfl, h1, h2⟩
  · rfl
  · simp [h1, h2]

theorem reMatch_offset (n m : Nat) (sign : Char) (hsg : sign = '+' ∨ sign = '-') (suf : Str)
    (hs : NoDigitHead suf) :
    reMatch (natStr n ++ sign :: (natStr m ++ suf)) = some (natStr n, some (sign, natStr m), suf) := by
  unfold reMatch
  have hsd : sign.isDigit = false := by rcases hsg with rfl | rfl <;> decide
  rw [spanDigits_natStr n _ (noDigitHead_cons hsd _)]
  obtain ⟨c, cs, hn⟩ := natStr_cons n
  rw [hn]
  simp only [hsg, if_true]
  rw [spanDigits_natStr m suf hs]
  obtain ⟨c', cs', hm⟩ := natStr_cons m
  rw [hm]

/-! ## zeroOrPositive -/

theorem zeroOrPositive_natStr (n : Nat) (h : (natStr n).length ≤ maxStrDigits) :
    zeroOrPositive (natStr n) = .ok n := by
  unfold zeroOrPositive
  split
  · rename_i s c cs heq
    exfalso
    by_cases hn : n = 0
    · subst hn
      have : natStr 0 = ['0'] := by decide
      rw [this] at heq
      cases heq
    · obtain ⟨d, ds, hd, hd0⟩ := natStr_head_ne_zero n (by omega)
      rw [hd] at heq
      cases heq
      exact hd0 rfl
  · rw [if_neg (by omega), digitsVal_natStr]; rfl

/-! ## `_parse` step by step -/


theorem isPyBlank_digit {c : Char} (h : c.isDigit = true) : isPyBlank c = false := by
  have hb := digit_toNat_bounds h
  unfold isPyBlank
  simp
  omega

theorem lstrip_natStr_append (n : Nat) (rest : Str) : lstrip (natStr n ++ rest) = natStr n ++ rest := by
  obtain ⟨c, cs, hn⟩ := natStr_cons n
  have hc : c.isDigit = true := natStr_all_digits n c (by rw [hn]; simp)
  rw [hn, List.cons_append]
  exact lstrip_cons_of_not_blank (isPyBlank_digit hc) _

/-- The tail of `_parse`, after origin and index have been read. -/
def parseTail (dec : EscDec) (ue : Bool) (origin : Nat) (index : Int) (ptrS : Str) : Res Rel :=
  if ptrChoice ptrS = ['#'] then pure ⟨origin, index, .hash⟩
  else do
    let ps ← Pointer.parse dec ue (ptrChoice ptrS)
    pure ⟨origin, index, .ptr ps⟩

theorem parse_of_no_offset {dec : EscDec} {ue : Bool} {s oS pS : Str} {o : Nat}
    (h1 : lstrip s = s) (h2 : reMatch s = some (oS, none, pS)) (h3 : zeroOrPositive oS = .ok o) :
    RelPointer.parse dec ue s = parseTail dec ue o 0 pS := by
  unfold RelPointer.parse parseTail
  simp only [h1, h2, h3]
  rfl

theorem parse_of_offset {dec : EscDec} {ue : Bool} {s oS iS pS : Str} {o n : Nat} {sign : Char}
    (h1 : lstrip s = s) (h2 : reMatch s = some (oS, some (sign, iS), pS))
    (h3 : zeroOrPositive oS = .ok o) (h4 : zeroOrPositive iS = .ok n) (hn : n ≠ 0) :
    RelPointer.parse dec ue s =
      parseTail dec ue o (if sign = '-' then -(n : Int) else (n : Int)) pS := by
  unfold RelPointer.parse parseTail
  simp only [h1, h2, h3, h4]
  simp only [bind, Except.bind, hn, if_false]
  rfl

/-! ## suffix text -/


theorem mem_replaceChar {x c : Char} {r s : Str} (h : x ∈ replaceChar c r s) : x ∈ r ∨ x ∈ s := by
  unfold replaceChar at h
  obtain ⟨y, hy, hx⟩ := List.mem_flatMap.mp h
  split at hx
  · exact .inl hx
  · simp at hx; subst hx; exact .inr hy

theorem backslash_not_mem_escapeTok {t : Str} (h : '\\' ∉ t) : '\\' ∉ escapeTok t := by
  intro hm
  unfold escapeTok at hm
  rcases mem_replaceChar hm with h1 | h1
  · revert h1; decide
  · rcases mem_replaceChar h1 with h2 | h2
    · revert h2; decide
    · exact h h2

theorem contains_false_iff {s : Str} {c : Char} : s.contains c = false ↔ c ∉ s := by
  simp

theorem spellTokens_no_backslash {ts : List Str} (h : ∀ t ∈ ts, t.contains '\\' = false) :
    (spellTokens ts).contains '\\' = false := by
  rw [contains_false_iff]
  intro hm
  unfold spellTokens at hm
  obtain ⟨t, ht, hx⟩ := List.mem_flatMap.mp hm
  rcases List.mem_cons.mp hx with h1 | h1
  · revert h1; decide
  · exact backslash_not_mem_escapeTok (contains_false_iff.mp (h t ht)) h1

theorem joinWith_map_eq_flatMap {α} (f : α → Str) (t : α) (ts : List α) :
    '/' :: joinWith '/' ((t :: ts).map f) = (t :: ts).flatMap (fun x => '/' :: f x) := by
  induction ts generalizing t with
  | nil => simp [joinWith]
  | cons u us ih =>
    have := ih u
    simp only [List.map_cons, joinWith, List.flatMap_cons, List.cons_append] at this ⊢
    rw [this]

theorem encode_map_tokPart (ts : List Str) : encode (ts.map tokPart) = spellTokens ts := by
  cases ts with
  | nil => rfl
  | cons t ts =>
    unfold encode spellTokens
    simp only [List.map_cons, List.map_map]
    have := joinWith_map_eq_flatMap (fun x => escapeTok (partStr (tokPart x))) t ts
    simp only [List.map_cons] at this
    rw [show (List.map ((fun p => escapeTok (partStr p)) ∘ tokPart) ts) = List.map (fun x => escapeTok (partStr (tokPart x))) ts from rfl, this]
    simp only [partStr_tokPart]


/-! ## `_parse` and `__str__` on grammar text -/


/-- The parsed suffix. -/
def sufOf (r : RelSpec) : Suffix := if r.hash then .hash else .ptr (r.suffix.map tokPart)

/-- The offset part of the grammar. -/
def offText (r : RelSpec) : Str :=
  if r.offset = 0 then [] else if r.offset > 0 then '+' :: natStr r.offset.toNat else '-' :: natStr (-r.offset).toNat

theorem specText_eq (r : RelSpec) : specText r = natStr r.origin ++ (offText r ++ sufText r) := by
  unfold specText offText sufText
  rw [List.append_assoc]

theorem spellTokens_ne_hash (ts : List Str) : spellTokens ts ≠ ['#'] := by
  cases ts with
  | nil => simp [spellTokens]
  | cons t ts => simp [spellTokens]

/-- `lstrip` of a text that ends in a non-blank character still ends in it -/
theorem lstrip_snoc_nonblank (xs : Str) (c : Char) (h : isPyBlank c = false) :
    ∃ ys, lstrip (xs ++ [c]) = ys ++ [c] := by
  induction xs with
  | nil => exact ⟨[], by simp [lstrip, h]⟩
  | cons x xs ih =>
    simp only [List.cons_append, lstrip]
    by_cases hx : isPyBlank x = true
    · simp only [hx, if_true]; exact ih
    · simp only [hx]; exact ⟨x :: xs, rfl⟩

/-- stripping a text that begins with `/` leaves a text that begins with `/` -/
theorem strip_slash (cs : Str) : ∃ t, strip ('/' :: cs) = '/' :: t := by
  unfold strip
  rw [lstrip_slash, List.reverse_cons]
  obtain ⟨ys, hy⟩ := lstrip_snoc_nonblank cs.reverse '/' (by decide)
  rw [hy]
  exact ⟨ys.reverse, by simp⟩

/-- the choice `_parse` makes between the stripped and the unstripped pointer text keeps a pointer text
    (empty, or beginning with `/`) as it is, blank space at its end included -/
theorem stripChoice_spellTokens (ts : List Str) : ptrChoice (spellTokens ts) = spellTokens ts := by
  unfold ptrChoice
  cases ts with
  | nil => simp [spellTokens, strip]
  | cons t ts =>
    have : spellTokens (t :: ts) = '/' :: (escapeTok t ++ spellTokens ts) := by
      simp only [spellTokens, List.flatMap_cons, List.cons_append]
    rw [this]
    obtain ⟨u, hu⟩ := strip_slash (escapeTok t ++ spellTokens ts)
    rw [hu]
    simp

theorem parseTail_sufText (dec : EscDec) (ue : Bool) (o : Nat) (i : Int) (r : RelSpec)
    (hr : ∀ t ∈ r.suffix, TokInRange t) (hb : ∀ t ∈ r.suffix, t.contains '\\' = false) :
    parseTail dec ue o i (sufText r) = .ok ⟨o, i, sufOf r⟩ := by
  unfold parseTail sufText sufOf
  cases hh : r.hash with
  | true =>
    have : ptrChoice ['#'] = ['#'] := by decide
    simp only [if_true, this]
    rfl
  | false =>
    simp only [Bool.false_eq_true, if_false, stripChoice_spellTokens, spellTokens_ne_hash]
    rw [parse_spellTokens dec ue _ hr (fun _ => spellTokens_no_backslash hb)]
    rfl

theorem parse_specText (dec : EscDec) (ue : Bool) (r : RelSpec)
    (hr : ∀ t ∈ r.suffix, TokInRange t) (hb : ∀ t ∈ r.suffix, t.contains '\\' = false)
    (ho : (natStr r.origin).length ≤ maxStrDigits)
    (hf : (natStr r.offset.natAbs).length ≤ maxStrDigits) :
    RelPointer.parse dec ue (specText r) = .ok ⟨r.origin, r.offset, sufOf r⟩ := by
  rw [specText_eq]
  have h1 := lstrip_natStr_append r.origin (offText r ++ sufText r)
  have h3 := zeroOrPositive_natStr r.origin ho
  by_cases h0 : r.offset = 0
  · have hoff : offText r = [] := by simp [offText, h0]
    rw [hoff, List.nil_append] at h1 ⊢
    rw [parse_of_no_offset h1 (reMatch_no_offset _ _ (noDigitHead_sufText r) (sufText_head r)) h3,
      parseTail_sufText dec ue _ _ r hr hb, h0]
  · by_cases hpos : r.offset > 0
    · have hoff : offText r = '+' :: natStr r.offset.toNat := by simp [offText, h0, hpos]
      rw [hoff, List.cons_append] at h1 ⊢
      have hnat : r.offset.natAbs = r.offset.toNat := by omega
      rw [hnat] at hf
      rw [parse_of_offset h1 (reMatch_offset _ _ '+' (.inl rfl) _ (noDigitHead_sufText r)) h3
        (zeroOrPositive_natStr _ hf) (by omega), parseTail_sufText dec ue _ _ r hr hb]
      have : (if '+' = '-' then -((r.offset.toNat : Nat) : Int) else ((r.offset.toNat : Nat) : Int)) = r.offset := by
        rw [if_neg (by decide)]; omega
      rw [this]
    · have hoff : offText r = '-' :: natStr (-r.offset).toNat := by simp [offText, h0, hpos]
      rw [hoff, List.cons_append] at h1 ⊢
      have hnat : r.offset.natAbs = (-r.offset).toNat := by omega
      rw [hnat] at hf
      rw [parse_of_offset h1 (reMatch_offset _ _ '-' (.inr rfl) _ (noDigitHead_sufText r)) h3
        (zeroOrPositive_natStr _ hf) (by omega), parseTail_sufText dec ue _ _ r hr hb]
      have : (if '-' = '-' then -(((-r.offset).toNat : Nat) : Int) else (((-r.offset).toNat : Nat) : Int)) = r.offset := by
        rw [if_pos rfl]; omega
      rw [this]

theorem toStr_specText (r : RelSpec) : toStr ⟨r.origin, r.offset, sufOf r⟩ = specText r := by
  unfold toStr specText sufOf
  simp only
  congr 1
  · congr 1
    by_cases h0 : r.offset = 0
    · simp [h0]
    · by_cases hpos : r.offset > 0
      · simp only [h0, hpos, if_false, if_true]
        rw [intStr_of_nonneg (by omega)]
      · simp only [h0, hpos, if_false]
        have : r.offset = -(((-r.offset).toNat : Nat) : Int) := by omega
        rw [this, intStr_neg_natCast (by omega)]
        congr 2
        omega
  · cases r.hash with
    | true => rfl
    | false => exact encode_map_tokPart _


end JP.Lemmas
